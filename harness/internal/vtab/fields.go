package vtab

// Field maps of the public<->private converter pairs of u_public.go (C31), obtained by RUNNING the
// converters: every leaf field of the source value is set, one at a time, to a distinctive non-zero
// sentinel through reflection; the converter is called; the destination leaves that changed are read
// back.  A destination leaf that now holds exactly the sentinel is a *copy* of the source leaf; one
// that changed to something else is *derived* from it.

import (
	"crypto"
	"encoding/hex"
	"fmt"
	"hash"
	"reflect"
	"sort"
	"strings"
	"time"
	"unsafe"

	tls "github.com/refraction-networking/utls"
)

// Leaf is one leaf field of a (possibly nested) struct value: Path like "Vers", "ServerShare.group",
// "KeyShares[].Group" ([] = the single element of a one-element list).
type Leaf struct {
	Path  string
	steps []step
	Type  reflect.Type
}

type step struct {
	field int // struct field index, or -1 for "element 0 of the slice"
	elem  bool
}

var timeType = reflect.TypeOf(time.Time{})

func isStructList(t reflect.Type) bool {
	return t.Kind() == reflect.Slice && t.Elem().Kind() == reflect.Struct && t.Elem() != timeType
}

// LeavesOf enumerates the leaves of type t (a struct, or a slice of structs).
func LeavesOf(t reflect.Type) []Leaf {
	var out []Leaf
	var walk func(t reflect.Type, prefix string, steps []step)
	walk = func(t reflect.Type, prefix string, steps []step) {
		switch {
		case isStructList(t):
			walk(t.Elem(), prefix+"[]", append(append([]step{}, steps...), step{-1, true}))
		case t.Kind() == reflect.Struct && t != timeType && t.NumField() > 0:
			for i := 0; i < t.NumField(); i++ {
				p := prefix
				if p != "" {
					p += "."
				}
				walk(t.Field(i).Type, p+t.Field(i).Name, append(append([]step{}, steps...), step{i, false}))
			}
		default:
			out = append(out, Leaf{Path: prefix, steps: steps, Type: t})
		}
	}
	walk(t, "", nil)
	return out
}

func settable(v reflect.Value) reflect.Value {
	if v.CanSet() {
		return v
	}
	return reflect.NewAt(v.Type(), unsafe.Pointer(v.UnsafeAddr())).Elem()
}

// At resolves the leaf inside root (an addressable value of the enumerated type).  When alloc is
// set, empty lists on the way get one zero element; otherwise ok=false says the leaf is absent.
func (l Leaf) At(root reflect.Value, alloc bool) (reflect.Value, bool) {
	v := root
	for _, s := range l.steps {
		if s.elem {
			v = settable(v)
			if v.Len() == 0 {
				if !alloc {
					return reflect.Value{}, false
				}
				v.Set(reflect.MakeSlice(v.Type(), 1, 1))
			}
			v = v.Index(0)
		} else {
			v = v.Field(s.field)
		}
	}
	return settable(v), true
}

// Blank gives every struct list of root exactly one zero element (the baseline for the sentinel runs).
func Blank(root reflect.Value, leaves []Leaf) {
	for _, l := range leaves {
		l.At(root, true)
	}
}

// ---- sentinels -------------------------------------------------------------------------------

// Ident numbers the reference-like sentinels (funcs, pointers, interface values) of one case.
type Ident struct {
	ids map[uintptr]int
}

func NewIdent() *Ident { return &Ident{ids: map[uintptr]int{}} }

func (id *Ident) of(p uintptr) string {
	if p == 0 {
		return "nil"
	}
	if n, ok := id.ids[p]; ok {
		return fmt.Sprintf("ref%d", n)
	}
	return "ref?"
}

func (id *Ident) add(p uintptr) { id.ids[p] = len(id.ids) + 1 }

// sentinelHash implements hash.Hash (a distinct object per sentinel).
type sentinelHash struct{ n uint64 }

func (s *sentinelHash) Write(p []byte) (int, error) { return len(p), nil }
func (s *sentinelHash) Sum(b []byte) []byte         { return b }
func (s *sentinelHash) Reset()                      {}
func (s *sentinelHash) Size() int                   { return 0 }
func (s *sentinelHash) BlockSize() int              { return 1 }

var hashType = reflect.TypeOf((*hash.Hash)(nil)).Elem()

func refWord(v reflect.Value) uintptr {
	switch v.Kind() {
	case reflect.Func:
		// the func value itself (pointer to the closure object), not the code pointer
		return *(*uintptr)(unsafe.Pointer(v.UnsafeAddr()))
	case reflect.Ptr, reflect.UnsafePointer, reflect.Map:
		return v.Pointer()
	case reflect.Interface:
		if v.IsNil() {
			return 0
		}
		e := v.Elem()
		if e.Kind() == reflect.Ptr {
			return e.Pointer()
		}
		return 1
	}
	return 0
}

// Fill sets leaf v to a non-zero value drawn from rnd (distinct draws give distinct values with
// overwhelming probability; reference-like values are fresh objects registered in id).
func Fill(v reflect.Value, rnd func() uint64, id *Ident) {
	t := v.Type()
	nz := func(mod uint64) uint64 { return 1 + rnd()%(mod-1) }
	bytes := func(n int) []byte {
		b := make([]byte, n)
		for i := range b {
			b[i] = byte(rnd())
		}
		b[0] |= 1
		return b
	}
	switch t.Kind() {
	case reflect.Bool:
		v.SetBool(true)
	case reflect.Uint8:
		v.SetUint(nz(256))
	case reflect.Uint16:
		v.SetUint(nz(65536))
	case reflect.Uint32, reflect.Uint64, reflect.Uint:
		if t == reflect.TypeOf(crypto.Hash(0)) {
			v.SetUint(nz(16))
		} else {
			v.SetUint(nz(1 << 32))
		}
	case reflect.Int, reflect.Int64, reflect.Int32:
		v.SetInt(int64(nz(1 << 20)))
	case reflect.String:
		v.SetString("s" + hex.EncodeToString(bytes(3)))
	case reflect.Array:
		for i := 0; i < v.Len(); i++ {
			v.Index(i).SetUint(rnd() % 256)
		}
		v.Index(0).SetUint(nz(256))
	case reflect.Slice:
		n := 1 + int(rnd()%3)
		s := reflect.MakeSlice(t, n, n)
		for i := 0; i < n; i++ {
			Fill(s.Index(i), rnd, id)
		}
		v.Set(s)
	case reflect.Func:
		f := reflect.MakeFunc(t, func(args []reflect.Value) []reflect.Value { panic("sentinel func called") })
		v.Set(f)
		id.add(refWord(v))
	case reflect.Ptr:
		p := reflect.New(t.Elem())
		v.Set(p)
		id.add(p.Pointer())
	case reflect.Map:
		// reference-like: a fresh (empty) map whose identity is tracked
		m := reflect.MakeMap(t)
		v.Set(m)
		id.add(m.Pointer())
	case reflect.Interface:
		if t == hashType || (t.NumMethod() > 0 && reflect.TypeOf(&sentinelHash{}).Implements(t)) {
			h := &sentinelHash{rnd()}
			v.Set(reflect.ValueOf(h))
			id.add(reflect.ValueOf(h).Pointer())
		} else if t.NumMethod() == 0 {
			p := new(uint64)
			*p = rnd()
			v.Set(reflect.ValueOf(p))
			id.add(reflect.ValueOf(p).Pointer())
		} else {
			panic("vtab.Fill: no sentinel for interface type " + t.String())
		}
	case reflect.Struct:
		if t == timeType {
			v.Set(reflect.ValueOf(time.Unix(int64(nz(1<<31)), 0).UTC()))
			return
		}
		panic("vtab.Fill: struct leaf " + t.String())
	default:
		panic("vtab.Fill: unsupported kind " + t.String())
	}
}

// Render gives the canonical text of a leaf value: content, not identity, for data (a nil and an
// empty list are both "-"); a registry number for reference-like values.
func Render(v reflect.Value, id *Ident) string {
	t := v.Type()
	switch t.Kind() {
	case reflect.Bool:
		if v.Bool() {
			return "1"
		}
		return "0"
	case reflect.Uint8, reflect.Uint16, reflect.Uint32, reflect.Uint64, reflect.Uint:
		return fmt.Sprint(v.Uint())
	case reflect.Int, reflect.Int64, reflect.Int32:
		return fmt.Sprint(v.Int())
	case reflect.String:
		if v.Len() == 0 {
			return "s:"
		}
		return "s:" + hex.EncodeToString([]byte(v.String()))
	case reflect.Array, reflect.Slice:
		if v.Len() == 0 {
			return "-"
		}
		if t.Elem().Kind() == reflect.Uint8 {
			b := make([]byte, v.Len())
			for i := range b {
				b[i] = byte(v.Index(i).Uint())
			}
			return "b:" + hex.EncodeToString(b)
		}
		var ss []string
		for i := 0; i < v.Len(); i++ {
			ss = append(ss, Render(v.Index(i), id))
		}
		return "l:" + strings.Join(ss, "/")
	case reflect.Func, reflect.Ptr, reflect.Interface, reflect.Map:
		return id.of(refWord(v))
	case reflect.Struct:
		if t == timeType {
			tm := v.Interface().(time.Time)
			if tm.IsZero() {
				return "t:0"
			}
			return fmt.Sprintf("t:%d", tm.Unix())
		}
	}
	return "?" + t.String()
}

// ---- converter pairs -----------------------------------------------------------------------------

// Dir is one direction of a converter pair.
type Dir struct {
	Pair      string
	ToPrivate bool
	New       func() any        // pointer to a zero source value
	Conv      func(src any) any // the real converter
	SrcLeaves []Leaf
	DstLeaves []Leaf
}

// Dirs returns both directions of every converter pair the working tree exports.
func Dirs() []Dir {
	var out []Dir
	for _, p := range tls.VerifConverterPairs() {
		pubT := reflect.TypeOf(p.NewPublic()).Elem()
		privT := reflect.TypeOf(p.NewPrivate()).Elem()
		out = append(out,
			Dir{p.Name, true, p.NewPublic, p.ToPrivate, LeavesOf(pubT), LeavesOf(privT)},
			Dir{p.Name, false, p.NewPrivate, p.ToPublic, LeavesOf(privT), LeavesOf(pubT)})
	}
	return out
}

func DirByName(pair string, toPrivate bool) *Dir {
	ds := Dirs()
	for i := range ds {
		if ds[i].Pair == pair && ds[i].ToPrivate == toPrivate {
			return &ds[i]
		}
	}
	return nil
}

// Snapshot renders every destination leaf of a converter result (nil result → all "absent").
func Snapshot(res any, leaves []Leaf, id *Ident) []string {
	out := make([]string, len(leaves))
	rv := reflect.ValueOf(res)
	for i, l := range leaves {
		if res == nil || rv.IsNil() {
			out[i] = "absent"
			continue
		}
		v, ok := l.At(rv.Elem(), false)
		if !ok {
			out[i] = "absent"
		} else {
			out[i] = Render(v, id)
		}
	}
	return out
}

// Rel is one row of a field map.
type Rel struct {
	Src, Dst string
	Copy     bool // the destination holds exactly the source value (false: it merely depends on it)
}

// FieldMap runs the sentinel experiment for one direction.
func (d *Dir) FieldMap() []Rel {
	var rels []Rel
	base := func() reflect.Value {
		src := reflect.ValueOf(d.New())
		Blank(src.Elem(), d.SrcLeaves)
		return src
	}
	id0 := NewIdent()
	baseline := Snapshot(d.Conv(base().Interface()), d.DstLeaves, id0)
	seed := uint64(0x9e3779b97f4a7c15)
	rnd := func() uint64 {
		seed += 0x9e3779b97f4a7c15
		z := seed
		z = (z ^ (z >> 30)) * 0xbf58476d1ce4e5b9
		z = (z ^ (z >> 27)) * 0x94d049bb133111eb
		return z ^ (z >> 31)
	}
	for _, sl := range d.SrcLeaves {
		id := NewIdent()
		src := base()
		v, _ := sl.At(src.Elem(), true)
		Fill(v, rnd, id)
		want := Render(v, id)
		got := Snapshot(d.Conv(src.Interface()), d.DstLeaves, id)
		for i, dl := range d.DstLeaves {
			if got[i] != baseline[i] {
				rels = append(rels, Rel{sl.Path, dl.Path, got[i] == want})
			}
		}
	}
	sort.SliceStable(rels, func(i, j int) bool {
		if rels[i].Src != rels[j].Src {
			return rels[i].Src < rels[j].Src
		}
		return rels[i].Dst < rels[j].Dst
	})
	return rels
}

// ---- whole-value fill / render (lists of structs with any number of elements) ---------------------

// listPrefix returns the path of the struct list a leaf lives in ("" when it is not inside one).
func (l Leaf) listPrefix() string {
	if i := strings.Index(l.Path, "[]"); i >= 0 {
		return l.Path[:i+2]
	}
	return ""
}

// values resolves the leaf in every element of its list (one value when it is not inside a list).
func (l Leaf) values(root reflect.Value) []reflect.Value {
	vs := []reflect.Value{root}
	for _, s := range l.steps {
		var next []reflect.Value
		for _, v := range vs {
			if s.elem {
				v = settable(v)
				for i := 0; i < v.Len(); i++ {
					next = append(next, v.Index(i))
				}
			} else {
				next = append(next, v.Field(s.field))
			}
		}
		vs = next
	}
	for i := range vs {
		vs[i] = settable(vs[i])
	}
	return vs
}

func (l Leaf) setListLen(root reflect.Value, n int) {
	v := root
	for _, s := range l.steps {
		if s.elem {
			v = settable(v)
			if n == 0 {
				v.Set(reflect.Zero(v.Type()))
			} else {
				v.Set(reflect.MakeSlice(v.Type(), n, n))
			}
			return
		}
		v = v.Field(s.field)
	}
}

// FillAll fills a whole value: every struct list gets 0..3 elements, every leaf (of every element) is
// set to a random non-zero value with probability pct/100 and left zero otherwise.
func FillAll(root reflect.Value, leaves []Leaf, rnd func() uint64, id *Ident, pct int) {
	done := map[string]bool{}
	for _, l := range leaves {
		if p := l.listPrefix(); p != "" && !done[p] {
			done[p] = true
			l.setListLen(root, int(rnd()%4))
		}
	}
	for _, l := range leaves {
		for _, v := range l.values(root) {
			if int(rnd()%100) < pct {
				Fill(v, rnd, id)
			}
		}
	}
}

// RenderAll renders every leaf of a whole value: "path~value" joined by ';'.  A leaf inside a struct
// list is rendered as the vector of its values over the elements: "e:" + values joined by '|'.
func RenderAll(res any, leaves []Leaf, id *Ident) string {
	rv := reflect.ValueOf(res)
	if res == nil || rv.IsNil() {
		return "nil"
	}
	var out []string
	for _, l := range leaves {
		vs := l.values(rv.Elem())
		if l.listPrefix() == "" {
			out = append(out, l.Path+"~"+Render(vs[0], id))
			continue
		}
		ss := make([]string, len(vs))
		for i, v := range vs {
			ss[i] = Render(v, id)
		}
		out = append(out, l.Path+"~e:"+strings.Join(ss, "|"))
	}
	return strings.Join(out, ";")
}
