import UtlsVerif.Line
import UtlsVerif.DrvAll
/-! `utlsmodel` — reads case lines on stdin, prints one verdict per line. Core Lean only.
Families come from the `families` list of every `UtlsVerif/Drv/*.lean` (collected into the
generated `UtlsVerif/DrvAll.lean` by tools/gendrv.py). -/
open Line

def dispatch (c : Case) : Verdict :=
  match DrvAll.families.find? (·.1 == c.family) with
  | some (_, f) => f c
  | none => .bad s!"unknown family {c.family}"

partial def loop (h : IO.FS.Stream) (out : IO.FS.Stream) : IO Unit := do
  let line ← h.getLine
  if line.isEmpty then return ()
  let l := line.trimAscii.toString
  if l.isEmpty ∨ l.startsWith "#" then
    loop h out
  else
    match parseCase l with
    | some c => out.putStrLn (dispatch c).render
    | none => out.putStrLn "BAD unparsable"
    loop h out

def main : IO Unit := do
  let out ← IO.getStdout
  loop (← IO.getStdin) out
  out.flush
