import UtlsVerif.Line
import UtlsVerif.Drv.C24
import UtlsVerif.Drv.C36
import UtlsVerif.Drv.C04
import UtlsVerif.Drv.C30
import UtlsVerif.Drv.C08
/-! `utlsmodel` — reads case lines on stdin, prints one verdict per line. Core Lean only. -/
open Line

def dispatch (c : Case) : Verdict :=
  match c.family with
  | "varint" => Drv.C24.varint c
  | "varint_read" => Drv.C24.varintRead c
  | "tps" => Drv.C24.tps c
  | "lru" => Drv.C36.lru c
  | "lru_conc" => Drv.C36.lruConc c
  | "grease_val" => Drv.C04.greaseVal c
  | "grease_hello" => Drv.C04.greaseHello c
  | "grease_quic" => Drv.C04.greaseQuic c
  | "prng" => Drv.C30.prng c
  | "prng_conc" => Drv.C30.prngConc c
  | "ext" => Drv.C08.ext c
  | f => .bad s!"unknown family {f}"

partial def loop (h : IO.FS.Stream) (out : IO.FS.Stream) : IO Unit := do
  let line ← h.getLine
  if line.isEmpty then return ()
  let l := line.trimAscii.toString
  if l.isEmpty ∨ l.startsWith "#" then
    loop h out
  else
    match parseCase l with
    | some c => out.putStrLn (dispatch c).render
    | none => out.putStrLn "BAD unparsable"
    loop h out

def main : IO Unit := do
  let out ← IO.getStdout
  loop (← IO.getStdin) out
  out.flush
