import UtlsVerif.Wire
import UtlsVerif.Line
