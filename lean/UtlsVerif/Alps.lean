import UtlsVerif.Wire
/-!
# Alps — application settings (ALPS) on the uTLS client (model for C22)

Transcribed from `/repo` (after `fix: ALPS client settings must be looked up by the ALPN protocol
negotiated in EncryptedExtensions…`):

* `handshake_messages.go: (*encryptedExtensionsMsg).unmarshal` with its `[uTLS]` section
  `u_handshake_messages.go: utlsUnmarshal` — `ServerEE.unmarshal`;
* `u_handshake_messages.go: (*utlsClientEncryptedExtensionsMsg).marshal / unmarshal` —
  `ClientEE.marshal / unmarshal`;
* `handshake_client.go: checkALPN`, `handshake_client_tls13.go: readServerParameters`,
  `u_handshake_client.go: utlsReadServerParameters` — `checkALPN`, `utlsReadServerParameters`,
  `readServerParameters`;
* `u_handshake_client.go: sendClientEncryptedExtensions`, `handshake_client_tls13.go:
  sendClientCertificate / sendClientFinished` (the order of the client's second flight and what is
  written into the transcript) — `secondFlight`;
* the server's check of the client Finished over a transcript that contains the client's
  EncryptedExtensions — `serverAccepts`.

`cryptobyte` is modelled by the `Wire` readers; the Finished MAC is an uninterpreted function `fin`
of the transcript bytes. Core Lean only.
-/
namespace Alps
open Wire

/-! ## constants (u_common.go, common.go) -/
def extALPN : Nat := 16
def extQUICTP : Nat := 57
def extEarlyData : Nat := 42
def extECH : Nat := 0xfe0d
/-- `utlsExtensionApplicationSettings` -/
def cpOld : Nat := 17513
/-- `utlsExtensionApplicationSettingsNew` -/
def cpNew : Nat := 17613
/-- `utlsFakeExtensionCustom` -/
def extCustom : Nat := 1234
def typeEncryptedExtensions : Nat := 8
def typeFinished : Nat := 20
def VersionTLS12 : Nat := 0x0303
def VersionTLS13 : Nat := 0x0304

def isAlps (t : Nat) : Bool := t == cpOld || t == cpNew

/-! ## extension blocks -/

/-- `AddUint16(t); AddUint16LengthPrefixed(d)` -/
def encExt (t : Nat) (d : Bytes) : Bytes := u16 t ++ vec16 d

def encExts : List (Nat × Bytes) → Bytes
  | [] => []
  | (t, d) :: r => encExt t d ++ encExts r

/-- the `for !extensions.Empty() { ReadUint16(&extension); ReadUint16LengthPrefixed(&extData) … }`
loop, framing part; `fuel` bounds the number of iterations (each consumes ≥ 4 bytes). -/
def splitExtsF : Nat → Bytes → Option (List (Nat × Bytes))
  | _, [] => some []
  | 0, _ :: _ => none
  | fuel + 1, x :: xs =>
    match readU16 (x :: xs) with
    | none => none
    | some (t, r) =>
      match readVec16 r with
      | none => none
      | some (d, r') => (splitExtsF fuel r').map ((t, d) :: ·)

def splitExts (bs : Bytes) : Option (List (Nat × Bytes)) := splitExtsF bs.length bs

/-- `s.Skip(4); s.ReadUint16LengthPrefixed(&extensions); s.Empty()` — the message type and the
uint24 length are *not* inspected by either `unmarshal`. -/
def unframe (data : Bytes) : Option Bytes :=
  match take? 4 data with
  | none => none
  | some (_, r) =>
    match readVec16 r with
    | some (exts, []) => some exts
    | _ => none

/-- `Option` fold (the Go loops return `false` at the first offending extension). -/
def foldOpt {σ α : Type} (f : σ → α → Option σ) : σ → List α → Option σ
  | s, [] => some s
  | s, a :: r => match f s a with
    | none => none
    | some s' => foldOpt f s' r

/-! ## server EncryptedExtensions, as parsed by the client -/

structure ServerEE where
  alpn : Bytes := []
  /-- `nil` vs present matters to `readServerParameters` -/
  quicTP : Option Bytes := none
  earlyData : Bool := false
  ech : Option Bytes := none
  alpsCp : Nat := 0
  alps : Bytes := []
  deriving DecidableEq, Repr

/-- body of `case extensionALPN`: exactly one non-empty protocol name. -/
def parseAlpnBody (d : Bytes) : Option Bytes :=
  match readVec16 d with
  | some (protoList, rest) =>
    if protoList.isEmpty then none else
    match readVec8 protoList with
    | some (proto, rest2) =>
      if proto.isEmpty || !rest2.isEmpty || !rest.isEmpty then none else some proto
    | none => none
  | none => none

def ServerEE.step (m : ServerEE) (e : Nat × Bytes) : Option ServerEE :=
  let (t, d) := e
  if t = extALPN then
    match parseAlpnBody d with
    | some p => some { m with alpn := p }
    | none => none
  else if t = extQUICTP then some { m with quicTP := some d }
  else if t = extEarlyData then (if d.isEmpty then some { m with earlyData := true } else none)
  else if t = extECH then some { m with ech := some d }
  else if isAlps t then some { m with alpsCp := t, alps := d }   -- utlsUnmarshal
  else some m                                                    -- unknown: ignored

def ServerEE.unmarshal (data : Bytes) : Option ServerEE :=
  match unframe data with
  | none => none
  | some exts =>
    match splitExts exts with
    | none => none
    | some es => foldOpt ServerEE.step {} es

/-! ## client EncryptedExtensions -/

structure ClientEE where
  cp : Nat := 0
  settings : Bytes := []
  custom : Bytes := []
  deriving DecidableEq, Repr

def ClientEE.extBlock (m : ClientEE) : Bytes :=
  (if m.cp ≠ 0 then encExt m.cp m.settings else []) ++
  (if m.custom.length > 0 then encExt extCustom m.custom else [])

/-- `marshal`; `none` = the `cryptobyte.Builder` length-overflow error. -/
def ClientEE.marshal (m : ClientEE) : Option Bytes :=
  if m.extBlock.length > 65535 then none   -- an emitted child longer than its 2-byte prefix
  else some (u8 typeEncryptedExtensions ++ vec24 (vec16 m.extBlock))

def ClientEE.step (m : ClientEE) (e : Nat × Bytes) : Option ClientEE :=
  if isAlps e.1 then some { m with cp := e.1, settings := e.2 }
  else none   -- "Unknown extensions are illegal in EncryptedExtensions."

def ClientEE.unmarshal (data : Bytes) : Option ClientEE :=
  match unframe data with
  | none => none
  | some exts =>
    match splitExts exts with
    | none => none
    | some es => foldOpt ClientEE.step {} es

/-! ## the client's handling of the server parameters -/

inductive Alert where
  | unexpectedMessage | noApplicationProtocol | unsupportedExtension
  deriving DecidableEq, Repr

inductive Err where
  | badEE            -- unmarshal failed (readHandshake: unexpected_message)
  | alpnUnrequested  -- "server advertised unrequested ALPN extension"
  | alpnUnadvertised -- "server selected unadvertised ALPN protocol"
  | alpsVersion      -- "server sent application settings at invalid version"
  | alpsNoAlpn       -- "server sent application settings without ALPN"
  | quicTP           -- "server sent an unexpected quic_transport_parameters extension"
  | earlyData        -- "server sent an unexpected early_data extension"
  | clientEEMarshal  -- the client's own EncryptedExtensions cannot be marshalled (no alert)
  deriving DecidableEq, Repr

def Err.alert : Err → Option Alert
  | .badEE => some .unexpectedMessage
  | .alpnUnrequested | .alpnUnadvertised => some .noApplicationProtocol
  | .alpsVersion | .alpsNoAlpn | .quicTP | .earlyData => some .unsupportedExtension
  | .clientEEMarshal => none

/-- `checkALPN(clientProtos, serverProto, quic=false)` -/
def checkALPN (clientProtos : List Bytes) (serverProto : Bytes) : Option Err :=
  if serverProto.isEmpty then none
  else if clientProtos.isEmpty then some .alpnUnrequested
  else if clientProtos.contains serverProto then none
  else some .alpnUnadvertised

/-- `c.utls.{peerApplicationSettings, applicationSettingsCodepoint, localApplicationSettings}` -/
structure UtlsState where
  peer : Bytes := []
  cp : Nat := 0
  localS : Bytes := []
  deriving DecidableEq, Repr

/-- a Go `map[string][]byte` as an association list (first match = the entry). -/
abbrev SettingsMap := List (Bytes × Bytes)

def lookup (m : SettingsMap) (k : Bytes) : Option Bytes := (m.find? (·.1 == k)).map (·.2)

/-- `utlsReadServerParameters`; the state is written before the checks, exactly as in the code. -/
def utlsReadServerParameters (vers : Nat) (clientProtocol : Bytes) (cfg : SettingsMap)
    (ee : ServerEE) (st : UtlsState) : UtlsState × Option Err :=
  let st := { st with peer := ee.alps, cp := ee.alpsCp }
  if st.cp ≠ 0 then
    if vers < VersionTLS13 then (st, some .alpsVersion)
    else if clientProtocol.isEmpty then (st, some .alpsNoAlpn)
    else match lookup cfg clientProtocol with
      | some a => ({ st with localS := a }, none)
      | none => (st, none)   -- "ignore if client doesn't have ALPS in use"
  else (st, none)

/-- the parts of the connection this property is about. -/
structure Conn where
  clientProtocol : Bytes := []
  utls : UtlsState := {}
  deriving DecidableEq, Repr

/-- `readServerParameters` on a non-QUIC connection without 0-RTT and without ECH. -/
def readServerParameters (vers : Nat) (offeredAlpn : List Bytes) (cfg : SettingsMap)
    (eeRaw : Bytes) (c : Conn) : Conn × Option Err :=
  match ServerEE.unmarshal eeRaw with
  | none => (c, some .badEE)
  | some ee =>
    match checkALPN offeredAlpn ee.alpn with
    | some e => (c, some e)
    | none =>
      let c := { c with clientProtocol := ee.alpn }
      let (u, r) := utlsReadServerParameters vers c.clientProtocol cfg ee c.utls
      let c := { c with utls := u }
      match r with
      | some e => (c, some e)
      | none =>
        if ee.quicTP.isSome then (c, some .quicTP)
        else if ee.earlyData then (c, some .earlyData)
        else (c, none)

/-! ## the client's second flight -/

def finishedMsg (verify : Bytes) : Bytes := u8 typeFinished ++ vec24 verify

structure Flight where
  /-- handshake messages written, in order -/
  wire : List Bytes := []
  /-- the transcript the client Finished MAC was computed over -/
  finOver : Bytes := []
  deriving DecidableEq, Repr

/-- `sendClientEncryptedExtensions`: `(messages written, transcript afterwards)`. -/
def sendClientEncryptedExtensions (st : UtlsState) (T : Bytes) : Option (List Bytes × Bytes) :=
  if st.cp ≠ 0 then
    match ClientEE.marshal { cp := st.cp, settings := st.localS } with
    | none => none
    | some raw => some ([raw], T ++ raw)   -- writeHandshakeRecord(msg, hs.transcript)
  else some ([], T)

/-- `serverFinishedReceived; sendClientCertificate; sendClientFinished`. `cert` = the marshalled
Certificate (+CertificateVerify) messages when the server asked for one; `fin` = finishedHash. -/
def secondFlight (fin : Bytes → Bytes) (st : UtlsState) (T0 : Bytes) (cert : List Bytes) :
    Option Flight :=
  match sendClientEncryptedExtensions st T0 with
  | none => none
  | some (w1, T1) =>
    let T2 := T1 ++ cert.flatten
    some { wire := w1 ++ cert ++ [finishedMsg (fin T2)], finOver := T2 }

/-! ## one client run, from the server's EncryptedExtensions to the client Finished -/

structure Input where
  vers : Nat
  /-- `hs.hello.alpnProtocols` -/
  offeredAlpn : List Bytes
  /-- `Config.ApplicationSettings` -/
  cfg : SettingsMap
  /-- the server's EncryptedExtensions as received (TLS 1.3) -/
  eeRaw : Bytes
  /-- ALPN of a TLS 1.2 ServerHello (after its own `checkALPN`) -/
  alpn12 : Bytes := []
  /-- transcript through the server Finished -/
  T0 : Bytes := []
  cert : List Bytes := []

structure Result where
  err : Option Err
  conn : Conn
  flight : Flight
  deriving DecidableEq, Repr

/-- TLS 1.3: `readServerParameters … readServerFinished` (certificate and server Finished are
assumed to verify) then the second flight. -/
def run13 (fin : Bytes → Bytes) (i : Input) : Result :=
  match readServerParameters i.vers i.offeredAlpn i.cfg i.eeRaw {} with
  | (c, some e) => { err := some e, conn := c, flight := {} }
  | (c, none) =>
    match secondFlight fin c.utls i.T0 i.cert with
    | none => { err := some .clientEEMarshal, conn := c, flight := {} }
    | some f => { err := none, conn := c, flight := f }

/-- TLS ≤ 1.2: `clientHandshakeState` never reads an EncryptedExtensions message, never calls
`utlsReadServerParameters`, and `serverHelloMsg.unmarshal` has no ALPS case (unknown ServerHello
extensions are skipped): `c.utls` keeps its zero value and no EncryptedExtensions is written. The
key-exchange messages of that flight are not modelled (`cert` stands for them). -/
def run12 (fin : Bytes → Bytes) (i : Input) : Result :=
  let T := i.T0 ++ i.cert.flatten
  { err := none, conn := { clientProtocol := i.alpn12 },
    flight := { wire := i.cert ++ [finishedMsg (fin T)], finOver := T } }

def run (fin : Bytes → Bytes) (i : Input) : Result :=
  if i.vers = VersionTLS13 then run13 fin i else run12 fin i

/-- One connection, possibly **resuming** a TLS 1.3 session (`hs.usingPSK`). What resumption changes
in the part of the handshake modelled here: the server sends no CertificateRequest (RFC 8446 §4.3.2;
`sendClientCertificate` returns at `hs.certReq == nil`), so no certificate messages are written.
Nothing else: `readServerParameters`, `utlsReadServerParameters` and
`sendClientEncryptedExtensions` never look at `usingPSK` — the server's EncryptedExtensions of a
resumed handshake negotiates ALPS afresh and the client answers it like in a full handshake. -/
def runConn (fin : Bytes → Bytes) (resumed : Bool) (i : Input) : Result :=
  run fin (if resumed then { i with cert := [] } else i)

/-- extension types `serverHelloMsg.unmarshal` has a `case` for; everything else is skipped. -/
def serverHelloKnown : List Nat := [5, 35, 0xff01, 23, 16, 18, 43, 44, 51, 41, 11, 0xfe0d, 0]

/-! ## the server's side of the exchange (in-package server + verif hook 5) -/

/-- The server has hashed everything through its Finished (`T0`). If it negotiated ALPS it reads one
client EncryptedExtensions *through the transcript*; then (no client certificate) it compares the
received Finished with `fin` of its transcript. -/
def serverAccepts (fin : Bytes → Bytes) (T0 : Bytes) (expectEE : Bool) (wire : List Bytes) : Bool :=
  if expectEE then
    match wire with
    | ee :: f :: [] =>
      (ClientEE.unmarshal ee).isSome && ee.head? == some (b typeEncryptedExtensions) &&
        f == finishedMsg (fin (T0 ++ ee))
    | _ => false
  else
    match wire with
    | f :: [] => f == finishedMsg (fin T0)
    | _ => false

end Alps
