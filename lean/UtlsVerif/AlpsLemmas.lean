import UtlsVerif.Alps
/-! Helper lemmas for C22: the extension-block splitter inverts the encoder; message framing. -/
namespace Alps
open Wire

theorem encExt_length (t : Nat) (d : Bytes) : (encExt t d).length = 4 + d.length := by
  simp [encExt]; omega

theorem splitExtsF_nil (fuel : Nat) : splitExtsF fuel [] = some [] := by
  cases fuel <;> rfl

theorem splitExtsF_encExt (fuel t : Nat) (d rest : Bytes) (ht : t < 65536) (hd : d.length < 65536) :
    splitExtsF (fuel + 1) (encExt t d ++ rest) = (splitExtsF fuel rest).map ((t, d) :: ·) := by
  have h1 : encExt t d ++ rest = b (t / 256) :: b t :: (vec16 d ++ rest) := by
    simp [encExt, u16]
  have h2 : readU16 (b (t / 256) :: b t :: (vec16 d ++ rest)) = some (t, vec16 d ++ rest) := by
    have := readU16_u16 t (vec16 d ++ rest)
    simpa [u16, Nat.mod_eq_of_lt ht] using this
  rw [h1, splitExtsF, h2]
  simp only [readVec16_vec16 d rest hd]

theorem encExts_length_ge (es : List (Nat × Bytes)) : es.length ≤ (encExts es).length := by
  induction es with
  | nil => simp [encExts]
  | cons e es ih =>
    obtain ⟨t, d⟩ := e
    simp [encExts, encExt_length]; omega

theorem splitExtsF_encExts (es : List (Nat × Bytes))
    (h : ∀ e ∈ es, e.1 < 65536 ∧ e.2.length < 65536) (fuel : Nat) (hf : es.length ≤ fuel) :
    splitExtsF fuel (encExts es) = some es := by
  induction es generalizing fuel with
  | nil => simp [encExts, splitExtsF_nil]
  | cons e es ih =>
    obtain ⟨t, d⟩ := e
    have he := h (t, d) (by simp)
    cases fuel with
    | zero => simp at hf
    | succ f =>
      have := ih (fun e he' => h e (by simp [he'])) f (by simpa using hf)
      simp only [encExts]
      rw [splitExtsF_encExt f t d (encExts es) he.1 he.2, this]; rfl

theorem splitExts_encExts (es : List (Nat × Bytes))
    (h : ∀ e ∈ es, e.1 < 65536 ∧ e.2.length < 65536) : splitExts (encExts es) = some es :=
  splitExtsF_encExts es h _ (encExts_length_ge es)

theorem unframe_frame (ty : Nat) (exts : Bytes) (h : exts.length < 65536) :
    unframe (u8 ty ++ vec24 (vec16 exts)) = some exts := by
  have h1 : u8 ty ++ vec24 (vec16 exts) =
      [b ty, b ((vec16 exts).length / 65536), b ((vec16 exts).length / 256), b (vec16 exts).length] ++ vec16 exts := by
    simp [u8, vec24, u24]
  have h2 := take?_append [b ty, b ((vec16 exts).length / 65536), b ((vec16 exts).length / 256), b (vec16 exts).length] (vec16 exts)
  have h3 := readVec16_vec16 exts [] h
  simp only [List.append_nil] at h3
  unfold unframe
  rw [h1]
  simp only [List.length_cons, List.length_nil] at h2
  rw [h2]
  simp only [h3]

end Alps
