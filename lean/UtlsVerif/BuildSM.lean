import UtlsVerif.Hello
import UtlsVerif.Preset
/-!
# BuildSM — the life of `HandshakeState.Hello.Raw` between `BuildHandshakeState` and the end of the
handshake (/repo/u_conn.go `buildHandshakeState`, `handshakeContext`, `SetClientRandom`, `SetSNI`;
/repo/handshake_messages.go `clientHelloMsg.marshal` returning `original`; /repo/u_handshake_client.go the
deferred copy-back; /repo/handshake_client_tls13.go the uTLS section of `processHelloRetryRequest`).

State: `clientHelloBuildStatus`, the five hello fields `MarshalClientHelloNoECH` serialises, the padding
policy, `uconn.Extensions`, and `Hello.Raw`. Operations: the documented edits between
`BuildHandshakeState` and `Handshake` (plus an explicit extra `BuildHandshakeState`), and `handshake resp`:
the re-build at handshake start, the first ClientHello = `Raw` (the private hello's `original` aliases
`Raw`, and `marshal()` returns `original`), and on a HelloRetryRequest the second marshal with
`hs.hello.original = Raw` — the aliasing and the deferred copy-back amount to one shared cell `raw`.

`HelloGolang` (`byGo`): `BuildHandshakeState` builds the standard-library hello and never touches `Raw`;
the wire bytes come from the standard marshaller (a parameter here).
-/
namespace BuildSM
open Wire Ext Ext.Ext Hello

inductive Status where
  | notBuilt | byUtls | byGo
  deriving DecidableEq, Repr

structure St where
  status : Status
  f : HelloFields
  pol : PadPolicy
  exts : List Ext
  raw : Bytes
  deriving DecidableEq, Repr

/-- what does not change during a connection's life: whether the id is `HelloGolang`, what `ApplyPreset`
yields for the spec (`none` = it fails), and the standard marshaller's bytes for `HelloGolang`. -/
structure Cfg where
  golang : Bool
  preset : Option Preset.State
  goWire1 : Bytes := []
  goWire2 : Bytes := []
  deriving Repr

inductive Op where
  | setClientRandom (r : Bytes)
  | setSNI (s : Bytes)
  | editExt (i : Nat) (e : Ext)
  | insertExt (i : Nat) (e : Ext)
  | removeExt (i : Nat)
  | setCipherSuites (cs : List Nat)
  | setSessionId (sid : Bytes)
  | build
  deriving DecidableEq, Repr

def marshalSt (st : St) : MRes := marshalNoECH st.f st.pol st.exts

/-- `BuildHandshakeState()`; the `Bool` is `err == nil`. -/
def build (cfg : Cfg) (st : St) : St × Bool :=
  match st.status with
  | .byGo => (st, true)
  | .notBuilt =>
    if cfg.golang then ({ st with status := .byGo }, true)
    else
      match cfg.preset with
      | none => (st, false)
      | some p =>
        let st1 : St := { st with f := p.f, pol := p.pol, exts := p.exts }
        match marshalSt st1 with
        | .ok bs => ({ st1 with status := .byUtls, raw := bs }, true)
        | .err _ => (st1, false)
  | .byUtls =>
    -- the preset is *not* applied again: ApplyConfig, (session,) MarshalClientHello
    match marshalSt st with
    | .ok bs => ({ st with raw := bs }, true)
    | .err _ => (st, false)

def setSniExt (h : Bytes) : Ext → Ext
  | sni _ => sni h
  | e => e

def step (cfg : Cfg) (st : St) : Op → St
  | .setClientRandom r => if r.length = 32 then { st with f := { st.f with random := r } } else st
  | .setSNI s => { st with exts := st.exts.map (setSniExt (Sni.hostnameInSNI s)) }
  | .editExt i e => if i < st.exts.length then { st with exts := st.exts.set i e } else st
  | .insertExt i e => if i ≤ st.exts.length then { st with exts := st.exts.take i ++ e :: st.exts.drop i } else st
  | .removeExt i => { st with exts := st.exts.eraseIdx i }
  | .setCipherSuites cs => { st with f := { st.f with cipherSuites := cs } }
  | .setSessionId sid => { st with f := { st.f with sessionId := sid } }
  | .build => (build cfg st).1

def run (cfg : Cfg) (st : St) (ops : List Op) : St := ops.foldl (step cfg) st

/-- the server's first answer, as far as the ClientHello is concerned. -/
inductive Resp where
  | plain
  /-- HelloRetryRequest: selected group (0 = none) with the client's fresh share for it, the cookie
  (empty = none), and the index `prng.Intn(len-2)` drew for a new cookie extension. -/
  | hrr (group : Nat) (fresh : Bytes) (cookie : Bytes) (idx : Nat)
  deriving DecidableEq, Repr

def isKeyShare : Ext → Bool
  | keyShare _ => true
  | _ => false

def isCookie : Ext → Bool
  | cookie _ => true
  | _ => false

/-- `hello.keyShares` as `ApplyConfig` left it: the value of the last `KeyShareExtension`. -/
def lastShares (xs : List Ext) : List (Nat × Bytes) :=
  xs.foldl (fun acc e => match e with | keyShare ss => ss | _ => acc) []

/-- the uTLS section of `processHelloRetryRequest` on `uconn.Extensions`. `none` = one of its errors. -/
def hrrExts (xs : List Ext) (group : Nat) (fresh cookieB : Bytes) (idx : Nat) : Option (List Ext) :=
  if !xs.any isKeyShare then none else
  let shares := if group = 0 then lastShares xs else [(group, fresh)]
  let xs1 := xs.map fun e => match e with | keyShare _ => keyShare shares | e => e
  if cookieB.isEmpty then some xs1
  else if xs1.any isCookie then some (xs1.map fun e => match e with | cookie _ => cookie cookieB | e => e)
  else if idx ≥ xs1.length then none
  else some (xs1.take idx ++ cookie cookieB :: xs1.drop idx)

structure Outcome where
  /-- first ClientHello written (`none`: the build failed, nothing was sent). -/
  wire1 : Option Bytes
  /-- second ClientHello (after a HelloRetryRequest). -/
  wire2 : Option Bytes
  final : St
  deriving Repr

/-- `Handshake()` as far as ClientHellos are concerned. -/
def handshake (cfg : Cfg) (st : St) (resp : Resp) : Outcome :=
  let b := build cfg st
  if !b.2 then { wire1 := none, wire2 := none, final := b.1 } else
  let st1 := b.1
  match st1.status with
  | .byGo =>
    { wire1 := some cfg.goWire1, wire2 := (match resp with | .plain => none | .hrr .. => some cfg.goWire2), final := st1 }
  | _ =>
    match resp with
    | .plain => { wire1 := some st1.raw, wire2 := none, final := st1 }
    | .hrr g fresh ck idx =>
      match hrrExts st1.exts g fresh ck idx with
      | none => { wire1 := some st1.raw, wire2 := none, final := st1 }
      | some xs' =>
        match marshalNoECH st1.f st1.pol xs' with
        | .ok w2 => { wire1 := some st1.raw, wire2 := some w2, final := { st1 with exts := xs', raw := w2 } }
        | .err _ => { wire1 := some st1.raw, wire2 := none, final := { st1 with exts := xs' } }

/-- the last ClientHello sent. -/
def Outcome.lastWire (o : Outcome) : Option Bytes := o.wire2.orElse fun _ => o.wire1

end BuildSM
