import UtlsVerif.Wire
/-!
# CH — transcription of `clientHelloMsg.unmarshal` and `clientHelloMsg.marshalMsg(echInner = false)`
(`handshake_messages.go`), the codec behind `UnmarshalClientHello` / `PubClientHelloMsg.Marshal` (C31).

* `unmarshal raw` — `none` = the parser returns `false`.  The parser is transcribed as: header; the
  extension block un-framed into `(id, body)` pairs; duplicate ids rejected; the pairs folded through
  `applyExt` (one `case` of the Go `switch` each; `pre_shared_key` must be the last pair).  A framing
  error after a body error (or the reverse) gives `false` either way, so un-framing first is
  observationally the same as Go's interleaved loop.
* `marshalMsg m` — `none` = the `cryptobyte.Builder` reports an error (a length prefix that does not
  fit, or a random that is not 32 bytes).
* `marshal orig m` — the `[uTLS]` short cut: the bytes the message was parsed from, when there are any.

Byte strings are `List UInt8`, so a nil and an empty slice coincide — except `quicTP`, where Go itself
distinguishes (`!= nil`), which is an `Option`.  Core Lean only.
-/
namespace CH
open Wire

structure Msg where
  vers : Nat := 0
  random : Bytes := []
  sessionId : Bytes := []
  cipherSuites : List Nat := []
  compressionMethods : Bytes := []
  serverName : Bytes := []
  ocspStapling : Bool := false
  supportedCurves : List Nat := []
  supportedPoints : Bytes := []
  ticketSupported : Bool := false
  sessionTicket : Bytes := []
  sigAlgs : List Nat := []
  sigAlgsCert : List Nat := []
  secureRenegotiationSupported : Bool := false
  secureRenegotiation : Bytes := []
  extendedMasterSecret : Bool := false
  alpnProtocols : List Bytes := []
  scts : Bool := false
  supportedVersions : List Nat := []
  cookie : Bytes := []
  keyShares : List (Nat × Bytes) := []
  earlyData : Bool := false
  pskModes : Bytes := []
  pskIdentities : List (Bytes × Nat) := []
  pskBinders : List Bytes := []
  quicTP : Option Bytes := none
  ech : Bytes := []
  /-- ids in wire order (server side only; no public counterpart). -/
  extensions : List Nat := []
  deriving DecidableEq, Repr

/-! ## extension code points -/
def xSNI : Nat := 0
def xStatus : Nat := 5
def xCurves : Nat := 10
def xPoints : Nat := 11
def xSigAlgs : Nat := 13
def xALPN : Nat := 16
def xSCT : Nat := 18
def xEMS : Nat := 23
def xTicket : Nat := 35
def xPSK : Nat := 41
def xEarly : Nat := 42
def xVersions : Nat := 43
def xCookie : Nat := 44
def xPskModes : Nat := 45
def xSigAlgsCert : Nat := 50
def xKeyShare : Nat := 51
def xQuicTP : Nat := 57
def xECH : Nat := 0xfe0d
def xReneg : Nat := 0xff01
def scsvRenegotiation : Nat := 0x00ff

/-! ## parsing -/

/-- the extension block un-framed: `id(2) ‖ len(2) ‖ body`, repeated (fuel = number of bytes). -/
def unframeExts : Nat → Bytes → Option (List (Nat × Bytes))
  | _, [] => some []
  | 0, _ :: _ => none
  | fuel + 1, bs =>
    match readU16 bs with
    | none => none
    | some (id, r) =>
      match readVec16 r with
      | none => none
      | some (body, r') =>
        match unframeExts fuel r' with
        | none => none
        | some es => some ((id, body) :: es)

/-- `for !nameList.Empty()` of the server_name case: `cur` is `m.serverName` so far. -/
def parseSNINames : Nat → Bytes → Bytes → Option Bytes
  | _, [], cur => some cur
  | 0, _ :: _, _ => none
  | fuel + 1, bs, cur =>
    match readU8 bs with
    | none => none
    | some (typ, r) =>
      match readVec16 r with
      | none => none
      | some (name, r') =>
        if name.isEmpty then none
        else if typ ≠ 0 then parseSNINames fuel r' cur
        else if !cur.isEmpty then none                      -- multiple host names
        else if name.getLast? == some (UInt8.ofNat 46) then none  -- trailing dot
        else parseSNINames fuel r' name

/-- a list of non-empty `uint8`-length-prefixed strings (ALPN protocols, PSK binders). -/
def parseVec8List : Nat → Bytes → Option (List Bytes)
  | _, [] => some []
  | 0, _ :: _ => none
  | fuel + 1, bs =>
    match readVec8 bs with
    | none => none
    | some (x, r) =>
      if x.isEmpty then none
      else (parseVec8List fuel r).map (x :: ·)

def parseKeyShares : Nat → Bytes → Option (List (Nat × Bytes))
  | _, [] => some []
  | 0, _ :: _ => none
  | fuel + 1, bs =>
    match readU16 bs with
    | none => none
    | some (g, r) =>
      match readVec16 r with
      | none => none
      | some (d, r') =>
        if d.isEmpty then none
        else (parseKeyShares fuel r').map ((g, d) :: ·)

def parsePskIds : Nat → Bytes → Option (List (Bytes × Nat))
  | _, [] => some []
  | 0, _ :: _ => none
  | fuel + 1, bs =>
    match readVec16 bs with
    | none => none
    | some (l, r) =>
      match readU32 r with
      | none => none
      | some (age, r') =>
        if l.isEmpty then none
        else (parsePskIds fuel r').map ((l, age) :: ·)

/-- a `uint16`-length-prefixed non-empty list of `uint16`s filling the whole body. -/
def parseU16ListExt (body : Bytes) : Option (List Nat) :=
  match readVec16 body with
  | some (l, []) => if l.isEmpty then none else decU16s l
  | _ => none

/-! the `case`s of the `switch extension` (each ends with the `if !extData.Empty() { return false }` check) -/

def caseSNI (m : Msg) (body : Bytes) : Option Msg :=
  match readVec16 body with
  | some (names, []) =>
    if names.isEmpty then none
    else (parseSNINames names.length names m.serverName).map fun n => { m with serverName := n }
  | _ => none

def caseStatus (m : Msg) (body : Bytes) : Option Msg :=
  match readU8 body with
  | none => none
  | some (t, r) =>
    match readVec16 r with
    | none => none
    | some (_, r') =>
      match readVec16 r' with
      | some (_, []) => some { m with ocspStapling := t == 1 }
      | _ => none

def caseCurves (m : Msg) (body : Bytes) : Option Msg :=
  (parseU16ListExt body).map fun xs => { m with supportedCurves := m.supportedCurves ++ xs }

def casePoints (m : Msg) (body : Bytes) : Option Msg :=
  match readVec8 body with
  | some (p, []) => if p.isEmpty then none else some { m with supportedPoints := p }
  | _ => none

def caseTicket (m : Msg) (body : Bytes) : Option Msg :=
  some { m with ticketSupported := true, sessionTicket := body }

def caseSigAlgs (m : Msg) (body : Bytes) : Option Msg :=
  (parseU16ListExt body).map fun xs => { m with sigAlgs := m.sigAlgs ++ xs }

def caseSigAlgsCert (m : Msg) (body : Bytes) : Option Msg :=
  (parseU16ListExt body).map fun xs => { m with sigAlgsCert := m.sigAlgsCert ++ xs }

def caseReneg (m : Msg) (body : Bytes) : Option Msg :=
  match readVec8 body with
  | some (d, []) => some { m with secureRenegotiation := d, secureRenegotiationSupported := true }
  | _ => none

def caseEMS (m : Msg) (body : Bytes) : Option Msg :=
  if body.isEmpty then some { m with extendedMasterSecret := true } else none

def caseALPN (m : Msg) (body : Bytes) : Option Msg :=
  match readVec16 body with
  | some (l, []) =>
    if l.isEmpty then none
    else (parseVec8List l.length l).map fun ps => { m with alpnProtocols := m.alpnProtocols ++ ps }
  | _ => none

def caseSCT (m : Msg) (body : Bytes) : Option Msg :=
  if body.isEmpty then some { m with scts := true } else none

def caseVersions (m : Msg) (body : Bytes) : Option Msg :=
  match readVec8 body with
  | some (l, []) =>
    if l.isEmpty then none
    else (decU16s l).map fun vs => { m with supportedVersions := m.supportedVersions ++ vs }
  | _ => none

def caseCookie (m : Msg) (body : Bytes) : Option Msg :=
  match readVec16 body with
  | some (c, []) => if c.isEmpty then none else some { m with cookie := c }
  | _ => none

def caseKeyShare (m : Msg) (body : Bytes) : Option Msg :=
  match readVec16 body with
  | some (l, []) => (parseKeyShares l.length l).map fun ks => { m with keyShares := m.keyShares ++ ks }
  | _ => none

def caseEarly (m : Msg) (body : Bytes) : Option Msg :=
  if body.isEmpty then some { m with earlyData := true } else none

def casePskModes (m : Msg) (body : Bytes) : Option Msg :=
  match readVec8 body with
  | some (p, []) => some { m with pskModes := p }
  | _ => none

def caseQuicTP (m : Msg) (body : Bytes) : Option Msg :=
  some { m with quicTP := some body }

/-- `pre_shared_key` must be the last extension (`isLast` = `extensions.Empty()` after it). -/
def casePSK (m : Msg) (body : Bytes) (isLast : Bool) : Option Msg :=
  if !isLast then none
  else
    match readVec16 body with
    | none => none
    | some (ids, r) =>
      if ids.isEmpty then none
      else
        match parsePskIds ids.length ids with
        | none => none
        | some pis =>
          match readVec16 r with
          | some (bs, []) =>
            if bs.isEmpty then none
            else (parseVec8List bs.length bs).map fun bl =>
              { m with pskIdentities := m.pskIdentities ++ pis, pskBinders := m.pskBinders ++ bl }
          | _ => none

def caseECH (m : Msg) (body : Bytes) : Option Msg :=
  some { m with ech := body }

/-- the `switch extension`; `default: continue` ignores unknown extensions whatever their body. -/
def applyExt (m : Msg) (id : Nat) (body : Bytes) (isLast : Bool) : Option Msg :=
  if id = xSNI then caseSNI m body
  else if id = xStatus then caseStatus m body
  else if id = xCurves then caseCurves m body
  else if id = xPoints then casePoints m body
  else if id = xTicket then caseTicket m body
  else if id = xSigAlgs then caseSigAlgs m body
  else if id = xSigAlgsCert then caseSigAlgsCert m body
  else if id = xReneg then caseReneg m body
  else if id = xEMS then caseEMS m body
  else if id = xALPN then caseALPN m body
  else if id = xSCT then caseSCT m body
  else if id = xVersions then caseVersions m body
  else if id = xCookie then caseCookie m body
  else if id = xKeyShare then caseKeyShare m body
  else if id = xEarly then caseEarly m body
  else if id = xPskModes then casePskModes m body
  else if id = xQuicTP then caseQuicTP m body
  else if id = xPSK then casePSK m body isLast
  else if id = xECH then caseECH m body
  else some m

/-- the extension loop after un-framing: records the id, applies the case. -/
def processExts (m : Msg) : List (Nat × Bytes) → Option Msg
  | [] => some m
  | (id, body) :: rest =>
    match applyExt { m with extensions := m.extensions ++ [id] } id body rest.isEmpty with
    | none => none
    | some m' => processExts m' rest

/-- `seenExts`: no extension id twice. -/
def idsNodup : List Nat → Bool
  | [] => true
  | x :: t => !t.contains x && idsNodup t

/-- header: `Skip(4)`, version, 32 random bytes, session id, cipher suites (SCSV noted), compression. -/
def parseHeader (data : Bytes) : Option (Msg × Bytes) :=
  match take? 4 data with
  | none => none
  | some (_, s) =>
    match readU16 s with
    | none => none
    | some (vers, s) =>
      match take? 32 s with
      | none => none
      | some (random, s) =>
        match readVec8 s with
        | none => none
        | some (sid, s) =>
          match readVec16 s with
          | none => none
          | some (cs, s) =>
            match decU16s cs with
            | none => none
            | some suites =>
              match readVec8 s with
              | none => none
              | some (comp, s) =>
                some ({ vers := vers, random := random, sessionId := sid, cipherSuites := suites,
                        compressionMethods := comp,
                        secureRenegotiationSupported := suites.contains scsvRenegotiation }, s)

def unmarshal (data : Bytes) : Option Msg :=
  match parseHeader data with
  | none => none
  | some (m, s) =>
    if s.isEmpty then some m       -- ClientHello is optionally followed by extension data
    else
      match readVec16 s with
      | some (exts, []) =>
        match unframeExts exts.length exts with
        | none => none
        | some es => if idsNodup (es.map (·.1)) then processExts m es else none
      | _ => none

/-! ## marshalling -/

def encVec8List : List Bytes → Bytes
  | [] => []
  | x :: t => vec8 x ++ encVec8List t

def encKeyShares : List (Nat × Bytes) → Bytes
  | [] => []
  | (g, d) :: t => u16 g ++ vec16 d ++ encKeyShares t

def encPskIds : List (Bytes × Nat) → Bytes
  | [] => []
  | (l, age) :: t => vec16 l ++ u32 age ++ encPskIds t

def opt (c : Bool) (id : Nat) (body : Bytes) : List (Nat × Bytes) := if c then [(id, body)] else []

/-- the extensions `marshalMsg` emits, in its order, as `(id, body)` pairs. -/
def extsOf (m : Msg) : List (Nat × Bytes) :=
  opt (!m.serverName.isEmpty) xSNI (vec16 (u8 0 ++ vec16 m.serverName)) ++
  opt (!m.supportedPoints.isEmpty) xPoints (vec8 m.supportedPoints) ++
  opt m.ticketSupported xTicket m.sessionTicket ++
  opt m.secureRenegotiationSupported xReneg (vec8 m.secureRenegotiation) ++
  opt m.extendedMasterSecret xEMS [] ++
  opt m.scts xSCT [] ++
  opt m.earlyData xEarly [] ++
  opt m.quicTP.isSome xQuicTP (m.quicTP.getD []) ++
  opt (!m.ech.isEmpty) xECH m.ech ++
  opt m.ocspStapling xStatus (u8 1 ++ u16 0 ++ u16 0) ++
  opt (!m.supportedCurves.isEmpty) xCurves (vec16 (encU16s m.supportedCurves)) ++
  opt (!m.sigAlgs.isEmpty) xSigAlgs (vec16 (encU16s m.sigAlgs)) ++
  opt (!m.sigAlgsCert.isEmpty) xSigAlgsCert (vec16 (encU16s m.sigAlgsCert)) ++
  opt (!m.alpnProtocols.isEmpty) xALPN (vec16 (encVec8List m.alpnProtocols)) ++
  opt (!m.supportedVersions.isEmpty) xVersions (vec8 (encU16s m.supportedVersions)) ++
  opt (!m.cookie.isEmpty) xCookie (vec16 m.cookie) ++
  opt (!m.keyShares.isEmpty) xKeyShare (vec16 (encKeyShares m.keyShares)) ++
  opt (!m.pskModes.isEmpty) xPskModes (vec8 m.pskModes) ++
  opt (!m.pskIdentities.isEmpty) xPSK (vec16 (encPskIds m.pskIdentities) ++ vec16 (encVec8List m.pskBinders))

def frameExts : List (Nat × Bytes) → Bytes
  | [] => []
  | (id, body) :: t => u16 id ++ vec16 body ++ frameExts t

/-- every length prefix the builder writes fits (otherwise `Bytes()` returns an error). -/
def fits (m : Msg) : Bool :=
  m.random.length == 32 &&
  m.sessionId.length < 256 &&
  2 * m.cipherSuites.length < 65536 &&
  m.compressionMethods.length < 256 &&
  m.serverName.length + 5 < 65536 &&                -- nested prefixes: name, entry list, extension
  m.supportedPoints.length < 256 &&
  m.sessionTicket.length < 65536 &&
  m.secureRenegotiation.length < 256 &&
  (m.quicTP.getD []).length < 65536 &&
  m.ech.length < 65536 &&
  2 * m.supportedCurves.length + 2 < 65536 &&
  2 * m.sigAlgs.length + 2 < 65536 &&
  2 * m.sigAlgsCert.length + 2 < 65536 &&
  m.alpnProtocols.all (·.length < 256) && (encVec8List m.alpnProtocols).length + 2 < 65536 &&
  2 * m.supportedVersions.length < 256 &&
  m.cookie.length + 2 < 65536 &&
  m.keyShares.all (·.2.length < 65536) && (encKeyShares m.keyShares).length + 2 < 65536 &&
  m.pskModes.length < 256 &&
  m.pskIdentities.all (·.1.length < 65536) && m.pskBinders.all (·.length < 256) &&
  (encPskIds m.pskIdentities).length < 65536 && (encVec8List m.pskBinders).length < 65536 &&
  (encPskIds m.pskIdentities).length + (encVec8List m.pskBinders).length + 4 < 65536 &&
  (frameExts (extsOf m)).length < 65536

/-- the message body after the 4-byte handshake header. -/
def bodyOf (m : Msg) : Bytes :=
  u16 m.vers ++ m.random ++ vec8 m.sessionId ++ vec16 (encU16s m.cipherSuites) ++ vec8 m.compressionMethods ++
  (if (extsOf m).isEmpty then [] else vec16 (frameExts (extsOf m)))

def marshalMsg (m : Msg) : Option Bytes :=
  if fits m && (bodyOf m).length < 16777216 then some (u8 1 ++ vec24 (bodyOf m)) else none

/-- `clientHelloMsg.marshal`: `if m.original != nil { return m.original, nil }`. -/
def marshal (original : Option Bytes) (m : Msg) : Option Bytes :=
  match original with
  | some o => some o
  | none => marshalMsg m

/-- the fields a `PubClientHelloMsg` shows (everything except the server-side id list). -/
def pubView (m : Msg) : Msg := { m with extensions := [] }

end CH
