import UtlsVerif.CHRe4
/-!
# CHBig — the guard of `reparse` ("the re-marshalling succeeds") is needed.

A concrete valid ClientHello whose re-marshalling fails: TLS_EMPTY_RENEGOTIATION_INFO_SCSV among the
cipher suites, no renegotiation_info extension, and an ALPN extension that brings the extension block to
exactly 65 535 bytes.  The parser accepts it and sets `secureRenegotiationSupported`; marshalling the
parsed message then adds a 5-byte renegotiation_info extension and the block no longer fits its 2-byte
length prefix.  All lengths are computed symbolically (no kernel evaluation over the 65 KB list).
-/
namespace CH
open Wire

theorem encVec8List_append (a b : List Bytes) : encVec8List (a ++ b) = encVec8List a ++ encVec8List b := by
  induction a with
  | nil => rfl
  | cons x t ih => simp [encVec8List, ih, List.append_assoc]

theorem encVec8List_replicate_length (n : Nat) (x : Bytes) :
    (encVec8List (List.replicate n x)).length = n * (1 + x.length) := by
  induction n with
  | zero => simp [encVec8List]
  | succ n ih =>
    simp only [List.replicate_succ, encVec8List, List.length_append, vec8_length, ih, Nat.succ_mul]
    omega

/-- 255 protocol names of 255 bytes and one of 248: an ALPN list of 65 529 bytes. -/
def bigALPN : List Bytes :=
  List.replicate 255 (List.replicate 255 (97 : UInt8)) ++ [List.replicate 248 (98 : UInt8)]

theorem bigALPN_isEmpty : bigALPN.isEmpty = false := by
  unfold bigALPN
  cases List.replicate 255 (List.replicate 255 (97 : UInt8)) <;> rfl

theorem bigALPN_len : (encVec8List bigALPN).length = 65529 := by
  simp only [bigALPN, encVec8List_append, List.length_append, encVec8List_replicate_length,
    List.length_replicate, encVec8List, vec8_length, List.length_nil]

theorem bigALPN_each : ∀ p ∈ bigALPN, p ≠ [] ∧ p.length < 256 := by
  intro p hp
  simp only [bigALPN, List.mem_append, List.mem_replicate, List.mem_singleton] at hp
  rcases hp with ⟨_, rfl⟩ | rfl
  · exact ⟨by decide, by rw [List.length_replicate]; decide⟩
  · exact ⟨by decide, by rw [List.length_replicate]; decide⟩

/-- the hello as a client builds it. -/
def bigMsg : Msg :=
  { vers := 0x0303, random := List.replicate 32 (0 : UInt8), cipherSuites := [0x1301, scsvRenegotiation],
    compressionMethods := [0], alpnProtocols := bigALPN }

theorem extsOf_bigMsg : extsOf bigMsg = [(xALPN, vec16 (encVec8List bigALPN))] := by
  simp [extsOf, opt, bigMsg, bigALPN_isEmpty]

theorem fits_intro {m : Msg} (h : FitsP m) : fits m = true := by
  simp only [fits, Bool.and_eq_true, decide_eq_true_eq, beq_iff_eq, List.all_eq_true]
  exact ⟨⟨⟨⟨⟨⟨⟨⟨⟨⟨⟨⟨⟨⟨⟨⟨⟨⟨⟨⟨⟨⟨⟨⟨⟨h.random, h.sid⟩, h.suites⟩, h.comp⟩, h.sni⟩, h.points⟩, h.ticket⟩, h.reneg⟩,
    h.quic⟩, h.ech⟩, h.curves⟩, h.sigAlgs⟩, h.sigAlgsCert⟩, h.alpnEach⟩, h.alpnLen⟩, h.versions⟩, h.cookie⟩,
    h.ksEach⟩, h.ksLen⟩, h.pskModes⟩, h.pskIdEach⟩, h.binderEach⟩, h.pskIdsLen⟩, h.bindersLen⟩, h.pskTotal⟩,
    h.extsLen⟩

theorem bigMsg_fitsP : FitsP bigMsg where
  random := by simp [bigMsg]
  sid := by simp [bigMsg]
  suites := by simp [bigMsg]
  comp := by simp [bigMsg]
  sni := by simp [bigMsg]
  points := by simp [bigMsg]
  ticket := by simp [bigMsg]
  reneg := by simp [bigMsg]
  quic := by simp [bigMsg]
  ech := by simp [bigMsg]
  curves := by simp [bigMsg]
  sigAlgs := by simp [bigMsg]
  sigAlgsCert := by simp [bigMsg]
  alpnEach := fun p hp => (bigALPN_each p hp).2
  alpnLen := by
    have h : bigMsg.alpnProtocols = bigALPN := rfl
    rw [h, bigALPN_len]; decide
  versions := by simp [bigMsg]
  cookie := by simp [bigMsg]
  ksEach := by intro k hk; cases hk
  ksLen := by simp [bigMsg, encKeyShares]
  pskModes := by simp [bigMsg]
  pskIdEach := by intro k hk; cases hk
  binderEach := by intro k hk; cases hk
  pskIdsLen := by simp [bigMsg, encPskIds]
  bindersLen := by simp [bigMsg, encVec8List]
  pskTotal := by simp [bigMsg, encPskIds, encVec8List]
  extsLen := by
    rw [extsOf_bigMsg, frameExts_length_cons, vec16_length, bigALPN_len]
    show 4 + (2 + 65529) + 0 < 65536
    decide

theorem bigMsg_invW : InvW bigMsg where
  vers := by decide
  suites := by decide
  dot := by decide
  curves := by intro x hx; cases hx
  sigAlgs := by intro x hx; cases hx
  sigAlgsCert := by intro x hx; cases hx
  alpn := fun p hp => (bigALPN_each p hp).1
  versions := by intro x hx; cases hx
  keyShares := by intro x hx; cases hx
  pskIds := by intro x hx; cases hx
  binders := by intro x hx; cases hx
  pskBoth := ⟨fun _ => rfl, fun _ => rfl⟩

/-- the bytes of the hello: handshake header, body, one ALPN extension; 65 585 bytes. -/
def bigRaw : Bytes := u8 1 ++ vec24 (bodyOf bigMsg)

/-- the 3-byte handshake length always fits once the 2-byte prefixes do. -/
theorem bodyOf_length_lt {m : Msg} (hf : FitsP m) : (bodyOf m).length < 16777216 := by
  have h1 := hf.random
  have h2 := hf.sid
  have h3 := hf.suites
  have h4 := hf.comp
  have h5 := hf.extsLen
  unfold bodyOf
  by_cases he : (extsOf m).isEmpty = true
  · simp only [he, if_true, List.length_append, u16_length, vec8_length, vec16_length, encU16s_length,
      List.length_nil]
    omega
  · simp only [he, Bool.false_eq_true, if_false, List.length_append, u16_length, vec8_length, vec16_length,
      encU16s_length]
    omega

theorem bigMsg_body : (bodyOf bigMsg).length < 16777216 := bodyOf_length_lt bigMsg_fitsP

/-- the parser accepts `bigRaw` (it is what `marshalMsg` writes for `bigMsg`) … -/
theorem bigRaw_accepted : unmarshal bigRaw = some (rebuilt bigMsg) := by
  apply unmarshal_of_marshalMsg bigMsg bigMsg_invW
  have h1 := fits_intro bigMsg_fitsP
  have h2 := bigMsg_body
  simp [marshalMsg, h1, h2, bigRaw]

theorem rebuilt_bigMsg :
    rebuilt bigMsg = { bigMsg with secureRenegotiationSupported := true, extensions := [xALPN] } := by
  simp [rebuilt, stepPSK, stepPskModes, stepKeyShare, stepCookie, stepVersions, stepALPN, stepSigAlgsCert,
    stepSigAlgs, stepCurves, stepStatus, stepECH, stepQuic, stepEarly, stepSCT, stepEMS, stepReneg, stepTicket,
    stepPoints, stepSNI, hdrOf, bigMsg, bigALPN_isEmpty]

theorem fits_false_of_extsLen {m : Msg} (h : 65536 ≤ (frameExts (extsOf m)).length) : fits m = false := by
  have : decide ((frameExts (extsOf m)).length < 65536) = false := by simp; omega
  simp only [fits, this, Bool.and_false]

/-- … but the parsed message carries `secureRenegotiationSupported` (from the SCSV): re-marshalling adds
a renegotiation_info extension and fails. -/
theorem bigRaw_remarshal_fails : marshal none (rebuilt bigMsg) = none := by
  have hx : extsOf (rebuilt bigMsg) = [(xReneg, vec8 []), (xALPN, vec16 (encVec8List bigALPN))] := by
    rw [rebuilt_bigMsg]
    simp [extsOf, opt, bigMsg, bigALPN_isEmpty]
  have hlen : 65536 ≤ (frameExts (extsOf (rebuilt bigMsg))).length := by
    rw [hx, frameExts_length_cons, frameExts_length_cons, vec8_length, vec16_length, bigALPN_len]
    show 65536 ≤ 4 + (1 + 0) + (4 + (2 + 65529) + 0)
    decide
  simp [marshal, marshalMsg, fits_false_of_extsLen hlen]

end CH
