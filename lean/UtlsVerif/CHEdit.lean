import UtlsVerif.CH
/-!
# CHEdit — editing one public field of a ClientHello view (C31, "what `Marshal` writes is the view's
current public fields").

`PubClientHelloMsg.Marshal` is `getPrivatePtr().marshal()`: it converts the view's fields *now*.  In the
model the view and the private message are the same record, so an edit is a record update and `Marshal`
after the edit is `CH.marshal none (e.apply m)` — whatever was converted or marshalled before.
-/
namespace CH
open Wire

/-- one assignment to an exported field of a `PubClientHelloMsg`. -/
inductive Edit where
  | serverName (name : Bytes)
  | cipherSuites (xs : List Nat)
  | sessionId (sid : Bytes)
  | alpn (ps : List Bytes)
  | keyShares (ks : List (Nat × Bytes))
  | vers (v : Nat)
  | supportedVersions (vs : List Nat)
  | cookie (c : Bytes)
  deriving Repr

def Edit.apply : Edit → Msg → Msg
  | .serverName n, m => { m with serverName := n }
  | .cipherSuites xs, m => { m with cipherSuites := xs }
  | .sessionId s, m => { m with sessionId := s }
  | .alpn ps, m => { m with alpnProtocols := ps }
  | .keyShares ks, m => { m with keyShares := ks }
  | .vers v, m => { m with vers := v }
  | .supportedVersions vs, m => { m with supportedVersions := vs }
  | .cookie c, m => { m with cookie := c }

/-- the new value is something the wire format can carry and the parser accepts (what real values
satisfy: a host name without trailing dot, code points below 2^16, non-empty protocol names and key
exchange data; a suite list that introduces the renegotiation SCSV only into a view that already has
the renegotiation flag). -/
def Edit.ok (m : Msg) : Edit → Bool
  | .serverName n => n.getLast? != some (UInt8.ofNat 46)
  | .cipherSuites xs => xs.all (· < 65536) && (!xs.contains scsvRenegotiation || m.secureRenegotiationSupported)
  | .sessionId _ => true
  | .alpn ps => ps.all (fun p => !p.isEmpty)
  | .keyShares ks => ks.all (fun k => k.1 < 65536 && !k.2.isEmpty)
  | .vers v => v < 65536
  | .supportedVersions vs => vs.all (· < 65536)
  | .cookie _ => true

end CH
