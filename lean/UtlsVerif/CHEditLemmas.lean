import UtlsVerif.CHEdit
import UtlsVerif.CHRe4
/-! # CHEditLemmas — a well-formed edit of a parsed view keeps the parser's invariants; `marshalMsg`
does not read anything but the public fields. -/
namespace CH
open Wire

theorem Edit.inv {m : Msg} (hi : Inv m) (e : Edit) (hok : e.ok m = true) : Inv (e.apply m) := by
  cases e with
  | serverName n =>
    simp only [Edit.ok, bne_iff_ne, ne_eq] at hok
    exact { hi with dot := hok }
  | cipherSuites xs =>
    simp only [Edit.ok, Bool.and_eq_true, List.all_eq_true, decide_eq_true_eq, Bool.or_eq_true,
      Bool.not_eq_true'] at hok
    exact { hi with
      suites := hok.1
      scsv := by
        intro hc
        rcases hok.2 with h | h
        · simp only [Edit.apply] at hc; rw [h] at hc; cases hc
        · exact h }
  | sessionId s => exact { hi with }
  | alpn ps =>
    simp only [Edit.ok, List.all_eq_true, Bool.not_eq_true'] at hok
    exact { hi with alpn := fun p hp => ne_nil_of_isEmpty_false (hok p hp) }
  | keyShares ks =>
    simp only [Edit.ok, List.all_eq_true, Bool.and_eq_true, decide_eq_true_eq, Bool.not_eq_true'] at hok
    exact { hi with keyShares := fun k hk => ⟨(hok k hk).1, ne_nil_of_isEmpty_false (hok k hk).2⟩ }
  | vers v =>
    simp only [Edit.ok, decide_eq_true_eq] at hok
    exact { hi with vers := hok }
  | supportedVersions vs =>
    simp only [Edit.ok, List.all_eq_true, decide_eq_true_eq] at hok
    exact { hi with versions := hok }
  | cookie c => exact { hi with }

/-- `marshalMsg` reads the public fields only (not the server-side id list, and there is no other state). -/
theorem marshalMsg_pubView (m : Msg) : marshalMsg (pubView m) = marshalMsg m := rfl

theorem marshal_of_pubView_eq {a b : Msg} (h : pubView a = pubView b) : marshal none a = marshal none b := by
  show marshalMsg a = marshalMsg b
  rw [← marshalMsg_pubView a, ← marshalMsg_pubView b, h]

end CH
