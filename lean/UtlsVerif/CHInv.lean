import UtlsVerif.CHLemmas
/-!
# CHInv — what every parsed ClientHello satisfies (`Inv`), preserved by every `case` of the extension
loop; hence `unmarshal raw = some m → Inv m`.
-/
namespace CH
open Wire

/-! ### the `switch` at each known code point -/

theorem applyExt_sni (m : Msg) (body : Bytes) (l : Bool) : applyExt m xSNI body l = caseSNI m body := by
  simp [applyExt]
theorem applyExt_status (m : Msg) (body : Bytes) (l : Bool) : applyExt m xStatus body l = caseStatus m body := by
  simp [applyExt, xStatus, xSNI]
theorem applyExt_curves (m : Msg) (body : Bytes) (l : Bool) : applyExt m xCurves body l = caseCurves m body := by
  simp [applyExt, xStatus, xSNI, xCurves]
theorem applyExt_points (m : Msg) (body : Bytes) (l : Bool) : applyExt m xPoints body l = casePoints m body := by
  simp [applyExt, xStatus, xSNI, xCurves, xPoints]
theorem applyExt_ticket (m : Msg) (body : Bytes) (l : Bool) : applyExt m xTicket body l = caseTicket m body := by
  simp [applyExt, xStatus, xSNI, xCurves, xPoints, xTicket]
theorem applyExt_sigAlgs (m : Msg) (body : Bytes) (l : Bool) : applyExt m xSigAlgs body l = caseSigAlgs m body := by
  simp [applyExt, xStatus, xSNI, xCurves, xPoints, xTicket, xSigAlgs]
theorem applyExt_sigAlgsCert (m : Msg) (body : Bytes) (l : Bool) :
    applyExt m xSigAlgsCert body l = caseSigAlgsCert m body := by
  simp [applyExt, xStatus, xSNI, xCurves, xPoints, xTicket, xSigAlgs, xSigAlgsCert]
theorem applyExt_reneg (m : Msg) (body : Bytes) (l : Bool) : applyExt m xReneg body l = caseReneg m body := by
  simp [applyExt, xStatus, xSNI, xCurves, xPoints, xTicket, xSigAlgs, xSigAlgsCert, xReneg]
theorem applyExt_ems (m : Msg) (body : Bytes) (l : Bool) : applyExt m xEMS body l = caseEMS m body := by
  simp [applyExt, xStatus, xSNI, xCurves, xPoints, xTicket, xSigAlgs, xSigAlgsCert, xReneg, xEMS]
theorem applyExt_alpn (m : Msg) (body : Bytes) (l : Bool) : applyExt m xALPN body l = caseALPN m body := by
  simp [applyExt, xStatus, xSNI, xCurves, xPoints, xTicket, xSigAlgs, xSigAlgsCert, xReneg, xEMS, xALPN]
theorem applyExt_sct (m : Msg) (body : Bytes) (l : Bool) : applyExt m xSCT body l = caseSCT m body := by
  simp [applyExt, xStatus, xSNI, xCurves, xPoints, xTicket, xSigAlgs, xSigAlgsCert, xReneg, xEMS, xALPN, xSCT]
theorem applyExt_versions (m : Msg) (body : Bytes) (l : Bool) : applyExt m xVersions body l = caseVersions m body := by
  simp [applyExt, xStatus, xSNI, xCurves, xPoints, xTicket, xSigAlgs, xSigAlgsCert, xReneg, xEMS, xALPN, xSCT, xVersions]
theorem applyExt_cookie (m : Msg) (body : Bytes) (l : Bool) : applyExt m xCookie body l = caseCookie m body := by
  simp [applyExt, xStatus, xSNI, xCurves, xPoints, xTicket, xSigAlgs, xSigAlgsCert, xReneg, xEMS, xALPN, xSCT, xVersions,
    xCookie]
theorem applyExt_keyShare (m : Msg) (body : Bytes) (l : Bool) : applyExt m xKeyShare body l = caseKeyShare m body := by
  simp [applyExt, xStatus, xSNI, xCurves, xPoints, xTicket, xSigAlgs, xSigAlgsCert, xReneg, xEMS, xALPN, xSCT, xVersions,
    xCookie, xKeyShare]
theorem applyExt_early (m : Msg) (body : Bytes) (l : Bool) : applyExt m xEarly body l = caseEarly m body := by
  simp [applyExt, xStatus, xSNI, xCurves, xPoints, xTicket, xSigAlgs, xSigAlgsCert, xReneg, xEMS, xALPN, xSCT, xVersions,
    xCookie, xKeyShare, xEarly]
theorem applyExt_pskModes (m : Msg) (body : Bytes) (l : Bool) : applyExt m xPskModes body l = casePskModes m body := by
  simp [applyExt, xStatus, xSNI, xCurves, xPoints, xTicket, xSigAlgs, xSigAlgsCert, xReneg, xEMS, xALPN, xSCT, xVersions,
    xCookie, xKeyShare, xEarly, xPskModes]
theorem applyExt_quicTP (m : Msg) (body : Bytes) (l : Bool) : applyExt m xQuicTP body l = caseQuicTP m body := by
  simp [applyExt, xStatus, xSNI, xCurves, xPoints, xTicket, xSigAlgs, xSigAlgsCert, xReneg, xEMS, xALPN, xSCT, xVersions,
    xCookie, xKeyShare, xEarly, xPskModes, xQuicTP]
theorem applyExt_psk (m : Msg) (body : Bytes) (l : Bool) : applyExt m xPSK body l = casePSK m body l := by
  simp [applyExt, xStatus, xSNI, xCurves, xPoints, xTicket, xSigAlgs, xSigAlgsCert, xReneg, xEMS, xALPN, xSCT, xVersions,
    xCookie, xKeyShare, xEarly, xPskModes, xQuicTP, xPSK]
theorem applyExt_ech (m : Msg) (body : Bytes) (l : Bool) : applyExt m xECH body l = caseECH m body := by
  simp [applyExt, xStatus, xSNI, xCurves, xPoints, xTicket, xSigAlgs, xSigAlgsCert, xReneg, xEMS, xALPN, xSCT, xVersions,
    xCookie, xKeyShare, xEarly, xPskModes, xQuicTP, xPSK, xECH]

/-- the extension ids the parser has a `case` for. -/
def knownIds : List Nat :=
  [xSNI, xStatus, xCurves, xPoints, xTicket, xSigAlgs, xSigAlgsCert, xReneg, xEMS, xALPN, xSCT, xVersions,
   xCookie, xKeyShare, xEarly, xPskModes, xQuicTP, xPSK, xECH]

theorem applyExt_unknown (m : Msg) (id : Nat) (body : Bytes) (l : Bool) (h : id ∉ knownIds) :
    applyExt m id body l = some m := by
  simp only [knownIds, List.mem_cons, List.not_mem_nil, or_false, not_or] at h
  obtain ⟨h1, h2, h3, h4, h5, h6, h7, h8, h9, h10, h11, h12, h13, h14, h15, h16, h17, h18, h19⟩ := h
  simp [applyExt, h1, h2, h3, h4, h5, h6, h7, h8, h9, h10, h11, h12, h13, h14, h15, h16, h17, h18, h19]

/-! ### invariants -/

/-- invariants of a parsed message (all that the re-parse of its re-marshalling needs). -/
structure Inv (m : Msg) : Prop where
  vers : m.vers < 65536
  suites : ∀ x ∈ m.cipherSuites, x < 65536
  scsv : m.cipherSuites.contains scsvRenegotiation = true → m.secureRenegotiationSupported = true
  reneg : m.secureRenegotiationSupported = false → m.secureRenegotiation = []
  dot : m.serverName.getLast? ≠ some (UInt8.ofNat 46)
  ticket : m.ticketSupported = false → m.sessionTicket = []
  curves : ∀ x ∈ m.supportedCurves, x < 65536
  sigAlgs : ∀ x ∈ m.sigAlgs, x < 65536
  sigAlgsCert : ∀ x ∈ m.sigAlgsCert, x < 65536
  alpn : ∀ p ∈ m.alpnProtocols, p ≠ []
  versions : ∀ x ∈ m.supportedVersions, x < 65536
  keyShares : ∀ k ∈ m.keyShares, k.1 < 65536 ∧ k.2 ≠ []
  pskIds : ∀ p ∈ m.pskIdentities, p.1 ≠ [] ∧ p.2 < 4294967296
  binders : ∀ x ∈ m.pskBinders, x ≠ []
  pskBoth : m.pskIdentities = [] ↔ m.pskBinders = []

theorem Inv.withExtensions {m : Msg} (h : Inv m) (e : List Nat) : Inv { m with extensions := e } :=
  { h with }

/-! what the list parsers return -/

theorem ne_nil_of_isEmpty_false {α : Type} {l : List α} (h : l.isEmpty = false) : l ≠ [] := by
  intro hl; subst hl; simp at h

theorem parseVec8List_out : ∀ (fuel : Nat) (bs : Bytes) (xs : List Bytes),
    parseVec8List fuel bs = some xs → (∀ x ∈ xs, x ≠ []) ∧ (bs ≠ [] → xs ≠ [])
  | _, [], xs, h => by
    have : xs = [] := by cases ‹Nat› <;> simpa [parseVec8List] using h.symm
    subst this; exact ⟨(by intro x hx; cases hx), fun h => absurd rfl h⟩
  | 0, _ :: _, xs, h => by simp [parseVec8List] at h
  | fuel + 1, a :: t, xs, h => by
    simp only [parseVec8List] at h
    cases hr : readVec8 (a :: t) with
    | none => simp [hr] at h
    | some p =>
      obtain ⟨x, r⟩ := p
      simp only [hr] at h
      by_cases hx : x.isEmpty = true
      · simp [hx] at h
      · have hx' : x.isEmpty = false := by simpa using hx
        simp only [hx', Bool.false_eq_true, if_false, Option.map_eq_some_iff] at h
        obtain ⟨ys, hys, rfl⟩ := h
        have ih := parseVec8List_out fuel r ys hys
        refine ⟨?_, fun _ => by simp⟩
        intro y hy
        cases hy with
        | head => exact ne_nil_of_isEmpty_false hx'
        | tail _ hy' => exact ih.1 y hy'

theorem parseKeyShares_out : ∀ (fuel : Nat) (bs : Bytes) (ks : List (Nat × Bytes)),
    parseKeyShares fuel bs = some ks → ∀ k ∈ ks, k.1 < 65536 ∧ k.2 ≠ []
  | _, [], ks, h => by
    have : ks = [] := by cases ‹Nat› <;> simpa [parseKeyShares] using h.symm
    subst this; intro k hk; cases hk
  | 0, _ :: _, ks, h => by simp [parseKeyShares] at h
  | fuel + 1, a :: t, ks, h => by
    simp only [parseKeyShares] at h
    cases hr : readU16 (a :: t) with
    | none => simp [hr] at h
    | some p =>
      obtain ⟨g, r⟩ := p
      simp only [hr] at h
      cases hr2 : readVec16 r with
      | none => simp [hr2] at h
      | some q =>
        obtain ⟨d, r'⟩ := q
        simp only [hr2] at h
        by_cases hd : d.isEmpty = true
        · simp [hd] at h
        · have hd' : d.isEmpty = false := by simpa using hd
          simp only [hd', Bool.false_eq_true, if_false, Option.map_eq_some_iff] at h
          obtain ⟨ys, hys, rfl⟩ := h
          have ih := parseKeyShares_out fuel r' ys hys
          intro k hk
          cases hk with
          | head => exact ⟨readU16_lt hr, ne_nil_of_isEmpty_false hd'⟩
          | tail _ hk' => exact ih k hk'

theorem parsePskIds_out : ∀ (fuel : Nat) (bs : Bytes) (ps : List (Bytes × Nat)),
    parsePskIds fuel bs = some ps → (∀ p ∈ ps, p.1 ≠ [] ∧ p.2 < 4294967296) ∧ (bs ≠ [] → ps ≠ [])
  | _, [], ps, h => by
    have : ps = [] := by cases ‹Nat› <;> simpa [parsePskIds] using h.symm
    subst this; exact ⟨(by intro p hp; cases hp), fun h => absurd rfl h⟩
  | 0, _ :: _, ps, h => by simp [parsePskIds] at h
  | fuel + 1, a :: t, ps, h => by
    simp only [parsePskIds] at h
    cases hr : readVec16 (a :: t) with
    | none => simp [hr] at h
    | some p =>
      obtain ⟨l, r⟩ := p
      simp only [hr] at h
      cases hr2 : readU32 r with
      | none => simp [hr2] at h
      | some q =>
        obtain ⟨age, r'⟩ := q
        simp only [hr2] at h
        by_cases hl : l.isEmpty = true
        · simp [hl] at h
        · have hl' : l.isEmpty = false := by simpa using hl
          simp only [hl', Bool.false_eq_true, if_false, Option.map_eq_some_iff] at h
          obtain ⟨ys, hys, rfl⟩ := h
          have ih := parsePskIds_out fuel r' ys hys
          refine ⟨?_, fun _ => by simp⟩
          intro p hp
          cases hp with
          | head => exact ⟨ne_nil_of_isEmpty_false hl', readU32_lt hr2⟩
          | tail _ hp' => exact ih.1 p hp'

/-- the name the server_name loop ends with is the one it started with or one that passed the
trailing-dot check. -/
theorem parseSNINames_dot : ∀ (fuel : Nat) (bs cur n : Bytes),
    parseSNINames fuel bs cur = some n → cur.getLast? ≠ some (UInt8.ofNat 46) →
    n.getLast? ≠ some (UInt8.ofNat 46)
  | _, [], cur, n, h, hc => by
    have : n = cur := by cases ‹Nat› <;> simpa [parseSNINames] using h.symm
    subst this; exact hc
  | 0, _ :: _, cur, n, h, _ => by simp [parseSNINames] at h
  | fuel + 1, a :: t, cur, n, h, hc => by
    simp only [parseSNINames] at h
    cases hr : readU8 (a :: t) with
    | none => simp [hr] at h
    | some p =>
      obtain ⟨typ, r⟩ := p
      simp only [hr] at h
      cases hr2 : readVec16 r with
      | none => simp [hr2] at h
      | some q =>
        obtain ⟨name, r'⟩ := q
        simp only [hr2] at h
        by_cases h1 : name.isEmpty = true
        · simp [h1] at h
        · simp only [h1, Bool.false_eq_true, if_false] at h
          by_cases h2 : typ ≠ 0
          · simp only [h2, ne_eq, not_false_eq_true, if_true] at h
            exact parseSNINames_dot fuel r' cur n h hc
          · simp only [h2, if_false] at h
            by_cases h3 : (!cur.isEmpty) = true
            · simp [h3] at h
            · simp only [h3, Bool.false_eq_true, if_false] at h
              by_cases h4 : (name.getLast? == some (UInt8.ofNat 46)) = true
              · rw [if_pos h4] at h; cases h
              · simp only [h4, Bool.false_eq_true, if_false] at h
                exact parseSNINames_dot fuel r' name n h (by simpa using h4)

theorem parseU16ListExt_lt {body : Bytes} {xs : List Nat} (h : parseU16ListExt body = some xs) :
    ∀ x ∈ xs, x < 65536 := by
  unfold parseU16ListExt at h
  split at h
  · next l _ =>
    by_cases hl : l.isEmpty = true
    · simp [hl] at h
    · simp only [hl, Bool.false_eq_true, if_false] at h
      exact decU16s_lt l xs h
  · cases h

theorem forall_mem_append {α : Type} {p : α → Prop} {a b : List α}
    (ha : ∀ x ∈ a, p x) (hb : ∀ x ∈ b, p x) : ∀ x ∈ a ++ b, p x := by
  intro x hx
  rcases List.mem_append.mp hx with h | h
  · exact ha x h
  · exact hb x h

end CH
