import UtlsVerif.CHInv
/-! # CHInv2 — every `case` of the extension loop preserves `Inv`; `unmarshal raw = some m → Inv m`. -/
namespace CH
open Wire

theorem caseSNI_inv {m m' : Msg} {body : Bytes} (hi : Inv m) (h : caseSNI m body = some m') : Inv m' := by
  unfold caseSNI at h
  cases hr : readVec16 body with
  | none => simp [hr] at h
  | some p =>
    obtain ⟨names, r⟩ := p
    cases r with
    | cons _ _ => simp [hr] at h
    | nil =>
      simp only [hr] at h
      by_cases hn : names.isEmpty = true
      · simp [hn] at h
      · simp only [hn, Bool.false_eq_true, if_false, Option.map_eq_some_iff] at h
        obtain ⟨n, hn', rfl⟩ := h
        exact { hi with dot := parseSNINames_dot _ _ _ _ hn' hi.dot }

theorem caseStatus_inv {m m' : Msg} {body : Bytes} (hi : Inv m) (h : caseStatus m body = some m') : Inv m' := by
  unfold caseStatus at h
  cases hr : readU8 body with
  | none => simp [hr] at h
  | some p =>
    obtain ⟨t, r⟩ := p
    simp only [hr] at h
    cases hr2 : readVec16 r with
    | none => simp [hr2] at h
    | some q =>
      obtain ⟨_, r'⟩ := q
      simp only [hr2] at h
      cases hr3 : readVec16 r' with
      | none => simp [hr3] at h
      | some q' =>
        obtain ⟨_, r''⟩ := q'
        cases r'' with
        | cons _ _ => simp [hr3] at h
        | nil =>
          simp only [hr3, Option.some.injEq] at h
          subst h
          exact { hi with }

theorem caseCurves_inv {m m' : Msg} {body : Bytes} (hi : Inv m) (h : caseCurves m body = some m') : Inv m' := by
  simp only [caseCurves, Option.map_eq_some_iff] at h
  obtain ⟨xs, hxs, rfl⟩ := h
  exact { hi with curves := forall_mem_append hi.curves (parseU16ListExt_lt hxs) }

theorem caseSigAlgs_inv {m m' : Msg} {body : Bytes} (hi : Inv m) (h : caseSigAlgs m body = some m') : Inv m' := by
  simp only [caseSigAlgs, Option.map_eq_some_iff] at h
  obtain ⟨xs, hxs, rfl⟩ := h
  exact { hi with sigAlgs := forall_mem_append hi.sigAlgs (parseU16ListExt_lt hxs) }

theorem caseSigAlgsCert_inv {m m' : Msg} {body : Bytes} (hi : Inv m) (h : caseSigAlgsCert m body = some m') :
    Inv m' := by
  simp only [caseSigAlgsCert, Option.map_eq_some_iff] at h
  obtain ⟨xs, hxs, rfl⟩ := h
  exact { hi with sigAlgsCert := forall_mem_append hi.sigAlgsCert (parseU16ListExt_lt hxs) }

theorem casePoints_inv {m m' : Msg} {body : Bytes} (hi : Inv m) (h : casePoints m body = some m') : Inv m' := by
  unfold casePoints at h
  cases hr : readVec8 body with
  | none => simp [hr] at h
  | some p =>
    obtain ⟨x, r⟩ := p
    cases r with
    | cons _ _ => simp [hr] at h
    | nil =>
      simp only [hr] at h
      by_cases hx : x.isEmpty = true
      · simp [hx] at h
      · simp only [hx, Bool.false_eq_true, if_false, Option.some.injEq] at h
        subst h
        exact { hi with }

theorem caseTicket_inv {m m' : Msg} {body : Bytes} (hi : Inv m) (h : caseTicket m body = some m') : Inv m' := by
  simp only [caseTicket, Option.some.injEq] at h
  subst h
  exact { hi with ticket := by intro h; cases h }

theorem caseReneg_inv {m m' : Msg} {body : Bytes} (hi : Inv m) (h : caseReneg m body = some m') : Inv m' := by
  unfold caseReneg at h
  cases hr : readVec8 body with
  | none => simp [hr] at h
  | some p =>
    obtain ⟨x, r⟩ := p
    cases r with
    | cons _ _ => simp [hr] at h
    | nil =>
      simp only [hr, Option.some.injEq] at h
      subst h
      exact { hi with scsv := fun _ => rfl, reneg := by intro h; cases h }

theorem caseEMS_inv {m m' : Msg} {body : Bytes} (hi : Inv m) (h : caseEMS m body = some m') : Inv m' := by
  unfold caseEMS at h
  by_cases hb : body.isEmpty = true
  · simp only [hb, if_true, Option.some.injEq] at h; subst h; exact { hi with }
  · simp [hb] at h

theorem caseSCT_inv {m m' : Msg} {body : Bytes} (hi : Inv m) (h : caseSCT m body = some m') : Inv m' := by
  unfold caseSCT at h
  by_cases hb : body.isEmpty = true
  · simp only [hb, if_true, Option.some.injEq] at h; subst h; exact { hi with }
  · simp [hb] at h

theorem caseEarly_inv {m m' : Msg} {body : Bytes} (hi : Inv m) (h : caseEarly m body = some m') : Inv m' := by
  unfold caseEarly at h
  by_cases hb : body.isEmpty = true
  · simp only [hb, if_true, Option.some.injEq] at h; subst h; exact { hi with }
  · simp [hb] at h

theorem caseALPN_inv {m m' : Msg} {body : Bytes} (hi : Inv m) (h : caseALPN m body = some m') : Inv m' := by
  unfold caseALPN at h
  cases hr : readVec16 body with
  | none => simp [hr] at h
  | some p =>
    obtain ⟨l, r⟩ := p
    cases r with
    | cons _ _ => simp [hr] at h
    | nil =>
      simp only [hr] at h
      by_cases hl : l.isEmpty = true
      · simp [hl] at h
      · simp only [hl, Bool.false_eq_true, if_false, Option.map_eq_some_iff] at h
        obtain ⟨ps, hps, rfl⟩ := h
        exact { hi with alpn := forall_mem_append hi.alpn (parseVec8List_out _ _ _ hps).1 }

theorem caseVersions_inv {m m' : Msg} {body : Bytes} (hi : Inv m) (h : caseVersions m body = some m') : Inv m' := by
  unfold caseVersions at h
  cases hr : readVec8 body with
  | none => simp [hr] at h
  | some p =>
    obtain ⟨l, r⟩ := p
    cases r with
    | cons _ _ => simp [hr] at h
    | nil =>
      simp only [hr] at h
      by_cases hl : l.isEmpty = true
      · simp [hl] at h
      · simp only [hl, Bool.false_eq_true, if_false, Option.map_eq_some_iff] at h
        obtain ⟨vs, hvs, rfl⟩ := h
        exact { hi with versions := forall_mem_append hi.versions (decU16s_lt _ _ hvs) }

theorem caseCookie_inv {m m' : Msg} {body : Bytes} (hi : Inv m) (h : caseCookie m body = some m') : Inv m' := by
  unfold caseCookie at h
  cases hr : readVec16 body with
  | none => simp [hr] at h
  | some p =>
    obtain ⟨x, r⟩ := p
    cases r with
    | cons _ _ => simp [hr] at h
    | nil =>
      simp only [hr] at h
      by_cases hx : x.isEmpty = true
      · simp [hx] at h
      · simp only [hx, Bool.false_eq_true, if_false, Option.some.injEq] at h
        subst h
        exact { hi with }

theorem caseKeyShare_inv {m m' : Msg} {body : Bytes} (hi : Inv m) (h : caseKeyShare m body = some m') : Inv m' := by
  unfold caseKeyShare at h
  cases hr : readVec16 body with
  | none => simp [hr] at h
  | some p =>
    obtain ⟨l, r⟩ := p
    cases r with
    | cons _ _ => simp [hr] at h
    | nil =>
      simp only [hr, Option.map_eq_some_iff] at h
      obtain ⟨ks, hks, rfl⟩ := h
      exact { hi with keyShares := forall_mem_append hi.keyShares (parseKeyShares_out _ _ _ hks) }

theorem casePskModes_inv {m m' : Msg} {body : Bytes} (hi : Inv m) (h : casePskModes m body = some m') : Inv m' := by
  unfold casePskModes at h
  cases hr : readVec8 body with
  | none => simp [hr] at h
  | some p =>
    obtain ⟨x, r⟩ := p
    cases r with
    | cons _ _ => simp [hr] at h
    | nil =>
      simp only [hr, Option.some.injEq] at h
      subst h
      exact { hi with }

theorem caseQuicTP_inv {m m' : Msg} {body : Bytes} (hi : Inv m) (h : caseQuicTP m body = some m') : Inv m' := by
  simp only [caseQuicTP, Option.some.injEq] at h
  subst h
  exact { hi with }

theorem caseECH_inv {m m' : Msg} {body : Bytes} (hi : Inv m) (h : caseECH m body = some m') : Inv m' := by
  simp only [caseECH, Option.some.injEq] at h
  subst h
  exact { hi with }

theorem casePSK_inv {m m' : Msg} {body : Bytes} {l : Bool} (hi : Inv m) (h : casePSK m body l = some m') :
    Inv m' := by
  unfold casePSK at h
  by_cases hl : (!l) = true
  · simp [hl] at h
  · simp only [hl, Bool.false_eq_true, if_false] at h
    cases hr : readVec16 body with
    | none => simp [hr] at h
    | some p =>
      obtain ⟨ids, r⟩ := p
      simp only [hr] at h
      by_cases hids : ids.isEmpty = true
      · simp [hids] at h
      · simp only [hids, Bool.false_eq_true, if_false] at h
        cases hp : parsePskIds ids.length ids with
        | none => simp [hp] at h
        | some pis =>
          simp only [hp] at h
          cases hr2 : readVec16 r with
          | none => simp [hr2] at h
          | some q =>
            obtain ⟨bs, r'⟩ := q
            cases r' with
            | cons _ _ => simp [hr2] at h
            | nil =>
              simp only [hr2] at h
              by_cases hbs : bs.isEmpty = true
              · simp [hbs] at h
              · simp only [hbs, Bool.false_eq_true, if_false, Option.map_eq_some_iff] at h
                obtain ⟨bl, hbl, rfl⟩ := h
                have hpo := parsePskIds_out _ _ _ hp
                have hbo := parseVec8List_out _ _ _ hbl
                have hpis : pis ≠ [] := hpo.2 (ne_nil_of_isEmpty_false (by simpa using hids))
                have hblne : bl ≠ [] := hbo.2 (ne_nil_of_isEmpty_false (by simpa using hbs))
                exact { hi with
                  pskIds := forall_mem_append hi.pskIds hpo.1
                  binders := forall_mem_append hi.binders hbo.1
                  pskBoth := by
                    constructor
                    · intro h; exact absurd (List.append_eq_nil_iff.mp h).2 hpis
                    · intro h; exact absurd (List.append_eq_nil_iff.mp h).2 hblne }

/-- every `case` of the `switch` preserves the invariants. -/
theorem applyExt_inv {m m' : Msg} {id : Nat} {body : Bytes} {l : Bool} (hi : Inv m)
    (h : applyExt m id body l = some m') : Inv m' := by
  by_cases h1 : id = xSNI
  · subst h1; rw [applyExt_sni] at h; exact caseSNI_inv hi h
  by_cases h2 : id = xStatus
  · subst h2; rw [applyExt_status] at h; exact caseStatus_inv hi h
  by_cases h3 : id = xCurves
  · subst h3; rw [applyExt_curves] at h; exact caseCurves_inv hi h
  by_cases h4 : id = xPoints
  · subst h4; rw [applyExt_points] at h; exact casePoints_inv hi h
  by_cases h5 : id = xTicket
  · subst h5; rw [applyExt_ticket] at h; exact caseTicket_inv hi h
  by_cases h6 : id = xSigAlgs
  · subst h6; rw [applyExt_sigAlgs] at h; exact caseSigAlgs_inv hi h
  by_cases h7 : id = xSigAlgsCert
  · subst h7; rw [applyExt_sigAlgsCert] at h; exact caseSigAlgsCert_inv hi h
  by_cases h8 : id = xReneg
  · subst h8; rw [applyExt_reneg] at h; exact caseReneg_inv hi h
  by_cases h9 : id = xEMS
  · subst h9; rw [applyExt_ems] at h; exact caseEMS_inv hi h
  by_cases h10 : id = xALPN
  · subst h10; rw [applyExt_alpn] at h; exact caseALPN_inv hi h
  by_cases h11 : id = xSCT
  · subst h11; rw [applyExt_sct] at h; exact caseSCT_inv hi h
  by_cases h12 : id = xVersions
  · subst h12; rw [applyExt_versions] at h; exact caseVersions_inv hi h
  by_cases h13 : id = xCookie
  · subst h13; rw [applyExt_cookie] at h; exact caseCookie_inv hi h
  by_cases h14 : id = xKeyShare
  · subst h14; rw [applyExt_keyShare] at h; exact caseKeyShare_inv hi h
  by_cases h15 : id = xEarly
  · subst h15; rw [applyExt_early] at h; exact caseEarly_inv hi h
  by_cases h16 : id = xPskModes
  · subst h16; rw [applyExt_pskModes] at h; exact casePskModes_inv hi h
  by_cases h17 : id = xQuicTP
  · subst h17; rw [applyExt_quicTP] at h; exact caseQuicTP_inv hi h
  by_cases h18 : id = xPSK
  · subst h18; rw [applyExt_psk] at h; exact casePSK_inv hi h
  by_cases h19 : id = xECH
  · subst h19; rw [applyExt_ech] at h; exact caseECH_inv hi h
  have hu : id ∉ knownIds := by
    simp only [knownIds, List.mem_cons, List.not_mem_nil, or_false, not_or]
    exact ⟨h1, h2, h3, h4, h5, h6, h7, h8, h9, h10, h11, h12, h13, h14, h15, h16, h17, h18, h19⟩
  rw [applyExt_unknown m id body l hu] at h
  injection h with h
  subst h
  exact hi

theorem processExts_inv : ∀ (es : List (Nat × Bytes)) (m m' : Msg), Inv m → processExts m es = some m' → Inv m'
  | [], m, m', hi, h => by
    simp only [processExts, Option.some.injEq] at h
    subst h; exact hi
  | (id, body) :: rest, m, m', hi, h => by
    simp only [processExts] at h
    cases ha : applyExt { m with extensions := m.extensions ++ [id] } id body rest.isEmpty with
    | none => simp [ha] at h
    | some m1 =>
      simp only [ha] at h
      exact processExts_inv rest m1 m' (applyExt_inv (hi.withExtensions _) ha) h

theorem parseHeader_inv {data s : Bytes} {m : Msg} (h : parseHeader data = some (m, s)) : Inv m := by
  unfold parseHeader at h
  cases h1 : take? 4 data with
  | none => simp [h1] at h
  | some p1 =>
    obtain ⟨_, s1⟩ := p1
    simp only [h1] at h
    cases h2 : readU16 s1 with
    | none => simp [h2] at h
    | some p2 =>
      obtain ⟨vers, s2⟩ := p2
      simp only [h2] at h
      cases h3 : take? 32 s2 with
      | none => simp [h3] at h
      | some p3 =>
        obtain ⟨random, s3⟩ := p3
        simp only [h3] at h
        cases h4 : readVec8 s3 with
        | none => simp [h4] at h
        | some p4 =>
          obtain ⟨sid, s4⟩ := p4
          simp only [h4] at h
          cases h5 : readVec16 s4 with
          | none => simp [h5] at h
          | some p5 =>
            obtain ⟨cs, s5⟩ := p5
            simp only [h5] at h
            cases h6 : decU16s cs with
            | none => simp [h6] at h
            | some suites =>
              simp only [h6] at h
              cases h7 : readVec8 s5 with
              | none => simp [h7] at h
              | some p7 =>
                obtain ⟨comp, s7⟩ := p7
                simp only [h7, Option.some.injEq, Prod.mk.injEq] at h
                obtain ⟨rfl, _⟩ := h
                exact {
                  vers := readU16_lt h2
                  suites := decU16s_lt cs suites h6
                  scsv := fun hc => hc
                  reneg := fun _ => rfl
                  dot := by simp
                  ticket := fun _ => rfl
                  curves := by intro x hx; cases hx
                  sigAlgs := by intro x hx; cases hx
                  sigAlgsCert := by intro x hx; cases hx
                  alpn := by intro x hx; cases hx
                  versions := by intro x hx; cases hx
                  keyShares := by intro x hx; cases hx
                  pskIds := by intro x hx; cases hx
                  binders := by intro x hx; cases hx
                  pskBoth := ⟨fun _ => rfl, fun _ => rfl⟩ }

/-- **every accepted ClientHello yields a message satisfying the invariants.** -/
theorem unmarshal_inv {raw : Bytes} {m : Msg} (h : unmarshal raw = some m) : Inv m := by
  unfold unmarshal at h
  cases hh : parseHeader raw with
  | none => simp [hh] at h
  | some p =>
    obtain ⟨m0, s⟩ := p
    simp only [hh] at h
    have hi0 := parseHeader_inv hh
    by_cases hs : s.isEmpty = true
    · simp only [hs, if_true, Option.some.injEq] at h
      subst h; exact hi0
    · simp only [hs, Bool.false_eq_true, if_false] at h
      cases hr : readVec16 s with
      | none => simp [hr] at h
      | some q =>
        obtain ⟨exts, r⟩ := q
        cases r with
        | cons _ _ => simp [hr] at h
        | nil =>
          simp only [hr] at h
          cases hu : unframeExts exts.length exts with
          | none => simp [hu] at h
          | some es =>
            simp only [hu] at h
            by_cases hn : idsNodup (es.map (·.1)) = true
            · simp only [hn, if_true] at h
              exact processExts_inv es m0 m hi0 h
            · simp [hn] at h

end CH
