import UtlsVerif.CH
/-!
# CHLemmas — lemmas about the ClientHello codec model `CH` (used by Props/C31).

Part 1: bounds the readers guarantee, readers on exactly-framed input.
Part 2: the list codecs (`uint8`-prefixed strings, key shares, PSK identities, SNI entry, extension
framing) decode what they encode.
Part 3: `Inv` — what every parsed message satisfies — and its preservation by the extension loop.
Part 4: the extension loop over the extensions `marshalMsg` emits rebuilds the message.
Part 5: `reparse` — the re-marshalled hello parses to the same public fields.
-/
namespace CH
open Wire

/-! ## Part 1 — readers -/

theorem readU8_lt {bs r : Bytes} {n : Nat} (h : readU8 bs = some (n, r)) : n < 256 := by
  cases bs with
  | nil => simp [readU8] at h
  | cons a t =>
    simp only [readU8, Option.some.injEq, Prod.mk.injEq] at h
    have := a.toNat_lt
    omega

theorem readU16_lt {bs r : Bytes} {n : Nat} (h : readU16 bs = some (n, r)) : n < 65536 := by
  match bs, h with
  | a :: c :: t, h =>
    simp only [readU16, Option.some.injEq, Prod.mk.injEq] at h
    have := a.toNat_lt
    have := c.toNat_lt
    omega

theorem readU32_lt {bs r : Bytes} {n : Nat} (h : readU32 bs = some (n, r)) : n < 4294967296 := by
  match bs, h with
  | a :: c :: d :: e :: t, h =>
    simp only [readU32, Option.some.injEq, Prod.mk.injEq] at h
    have := a.toNat_lt
    have := c.toNat_lt
    have := d.toNat_lt
    have := e.toNat_lt
    omega

theorem decU16s_lt : ∀ (bs : Bytes) (xs : List Nat), decU16s bs = some xs → ∀ x ∈ xs, x < 65536
  | [], xs, h => by
    simp only [decU16s, Option.some.injEq] at h
    subst h; intro x hx; cases hx
  | [_], xs, h => by simp [decU16s] at h
  | a :: c :: r, xs, h => by
    simp only [decU16s, Option.map_eq_some_iff] at h
    obtain ⟨ys, hys, rfl⟩ := h
    intro x hx
    cases hx with
    | head =>
      have := a.toNat_lt
      have := c.toNat_lt
      omega
    | tail _ hx' => exact decU16s_lt r ys hys x hx'

theorem readVec8_nil (body : Bytes) (h : body.length < 256) : readVec8 (vec8 body) = some (body, []) := by
  have := readVec8_vec8 body [] h
  simpa using this

theorem readVec16_nil (body : Bytes) (h : body.length < 65536) : readVec16 (vec16 body) = some (body, []) := by
  have := readVec16_vec16 body [] h
  simpa using this

theorem isEmpty_false_of_ne {α : Type} {l : List α} (h : l ≠ []) : l.isEmpty = false := by
  cases l with
  | nil => exact absurd rfl h
  | cons _ _ => rfl

/-! ## Part 2 — list codecs -/

theorem encVec8List_length_pos (x : Bytes) (t : List Bytes) : 0 < (encVec8List (x :: t)).length := by
  simp [encVec8List, vec8]; omega

/-- non-empty `uint8`-prefixed strings. -/
theorem parseVec8List_enc : ∀ (xs : List Bytes) (fuel : Nat),
    (∀ x ∈ xs, x ≠ [] ∧ x.length < 256) → (encVec8List xs).length ≤ fuel →
    parseVec8List fuel (encVec8List xs) = some xs
  | [], fuel, _, _ => by cases fuel <;> rfl
  | x :: t, fuel, hx, hf => by
    have hx0 := hx x List.mem_cons_self
    cases fuel with
    | zero => simp [encVec8List, vec8] at hf
    | succ fuel =>
      have ht := parseVec8List_enc t fuel (fun y hy => hx y (List.mem_cons_of_mem _ hy))
        (by simp [encVec8List, vec8] at hf; omega)
      have hne : (vec8 x ++ encVec8List t) ≠ [] := by simp [vec8, u8]
      cases hcons : (vec8 x ++ encVec8List t) with
      | nil => exact absurd hcons hne
      | cons a r =>
        simp only [encVec8List, hcons, parseVec8List]
        rw [← hcons, readVec8_vec8 x _ hx0.2]
        simp [isEmpty_false_of_ne hx0.1, ht]

theorem parseKeyShares_enc : ∀ (ks : List (Nat × Bytes)) (fuel : Nat),
    (∀ k ∈ ks, k.1 < 65536 ∧ k.2 ≠ [] ∧ k.2.length < 65536) → (encKeyShares ks).length ≤ fuel →
    parseKeyShares fuel (encKeyShares ks) = some ks
  | [], fuel, _, _ => by cases fuel <;> rfl
  | (g, d) :: t, fuel, hk, hf => by
    have hk0 := hk (g, d) List.mem_cons_self
    cases fuel with
    | zero => simp [encKeyShares, u16] at hf
    | succ fuel =>
      have ht := parseKeyShares_enc t fuel (fun y hy => hk y (List.mem_cons_of_mem _ hy))
        (by simp [encKeyShares, vec16] at hf; omega)
      have hne : (u16 g ++ vec16 d ++ encKeyShares t) ≠ [] := by simp [u16]
      cases hcons : (u16 g ++ vec16 d ++ encKeyShares t) with
      | nil => exact absurd hcons hne
      | cons a r =>
        simp only [encKeyShares, hcons, parseKeyShares]
        rw [← hcons, List.append_assoc, readU16_u16]
        simp only [readVec16_vec16 d _ hk0.2.2, isEmpty_false_of_ne hk0.2.1, Nat.mod_eq_of_lt hk0.1]
        simp [ht]

theorem parsePskIds_enc : ∀ (ps : List (Bytes × Nat)) (fuel : Nat),
    (∀ p ∈ ps, p.1 ≠ [] ∧ p.1.length < 65536 ∧ p.2 < 4294967296) → (encPskIds ps).length ≤ fuel →
    parsePskIds fuel (encPskIds ps) = some ps
  | [], fuel, _, _ => by cases fuel <;> rfl
  | (l, age) :: t, fuel, hp, hf => by
    have hp0 := hp (l, age) List.mem_cons_self
    cases fuel with
    | zero => simp [encPskIds, vec16, u16] at hf
    | succ fuel =>
      have ht := parsePskIds_enc t fuel (fun y hy => hp y (List.mem_cons_of_mem _ hy))
        (by simp [encPskIds, vec16] at hf; omega)
      have hne : (vec16 l ++ u32 age ++ encPskIds t) ≠ [] := by simp [vec16, u16]
      cases hcons : (vec16 l ++ u32 age ++ encPskIds t) with
      | nil => exact absurd hcons hne
      | cons a r =>
        simp only [encPskIds, hcons, parsePskIds]
        rw [← hcons, List.append_assoc, readVec16_vec16 l _ hp0.2.1]
        simp only [readU32_u32, isEmpty_false_of_ne hp0.1, Nat.mod_eq_of_lt hp0.2.2]
        simp [ht]

/-- the one-entry server-name list `marshalMsg` writes. -/
theorem parseSNINames_single (name : Bytes) (h0 : name ≠ []) (hl : name.length < 65536)
    (hdot : name.getLast? ≠ some (UInt8.ofNat 46)) (fuel : Nat) (hf : 0 < fuel) :
    parseSNINames fuel (u8 0 ++ vec16 name) [] = some name := by
  cases fuel with
  | zero => omega
  | succ fuel =>
    have hne : (u8 0 ++ vec16 name) ≠ [] := by simp [u8]
    cases hcons : (u8 0 ++ vec16 name) with
    | nil => exact absurd hcons hne
    | cons a r =>
      simp only [parseSNINames]
      rw [← hcons, readU8_u8]
      have hv : readVec16 (vec16 name) = some (name, []) := readVec16_nil name hl
      simp only [hv, isEmpty_false_of_ne h0]
      have hdot' : ¬ name.getLast? = some 46 := by simpa using hdot
      have hp : parseSNINames fuel [] name = some name := by cases fuel <;> rfl
      simp [hp, hdot']

theorem frameExts_length_cons (id : Nat) (body : Bytes) (t : List (Nat × Bytes)) :
    (frameExts ((id, body) :: t)).length = 4 + body.length + (frameExts t).length := by
  simp [frameExts, vec16]; omega

/-- the extension block un-frames to the pairs it was framed from. -/
theorem unframeExts_frame : ∀ (es : List (Nat × Bytes)) (fuel : Nat),
    (∀ e ∈ es, e.1 < 65536 ∧ e.2.length < 65536) → (frameExts es).length ≤ fuel →
    unframeExts fuel (frameExts es) = some es
  | [], fuel, _, _ => by cases fuel <;> rfl
  | (id, body) :: t, fuel, he, hf => by
    have he0 := he (id, body) List.mem_cons_self
    cases fuel with
    | zero => rw [frameExts_length_cons] at hf; omega
    | succ fuel =>
      have ht := unframeExts_frame t fuel (fun y hy => he y (List.mem_cons_of_mem _ hy))
        (by rw [frameExts_length_cons] at hf; omega)
      have hne : (u16 id ++ vec16 body ++ frameExts t) ≠ [] := by simp [u16]
      cases hcons : (u16 id ++ vec16 body ++ frameExts t) with
      | nil => exact absurd hcons hne
      | cons a r =>
        simp only [frameExts, hcons, unframeExts]
        rw [← hcons, List.append_assoc, readU16_u16]
        simp only [readVec16_vec16 body _ he0.2, Nat.mod_eq_of_lt he0.1, ht]

end CH
