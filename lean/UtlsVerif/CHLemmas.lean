import UtlsVerif.CH
/-! # CHLemmas — lemmas about the ClientHello codec model (work in progress: see Props/C31). -/
namespace CH
end CH
