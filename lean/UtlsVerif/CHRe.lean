import UtlsVerif.CHInv2
/-!
# CHRe — the extension loop over the extensions `marshalMsg` emits rebuilds the message, block by block.

`extsOf m` is a concatenation of optional one-element blocks.  For each block `k` there is a `step_k`
(what the loop does to its accumulator) and a lemma
`processExts acc (block_k ++ rest) = processExts (step_k m acc) rest`.
-/
namespace CH
open Wire

/-- the named parts of `fits m = true`. -/
structure FitsP (m : Msg) : Prop where
  random : m.random.length = 32
  sid : m.sessionId.length < 256
  suites : 2 * m.cipherSuites.length < 65536
  comp : m.compressionMethods.length < 256
  sni : m.serverName.length + 5 < 65536
  points : m.supportedPoints.length < 256
  ticket : m.sessionTicket.length < 65536
  reneg : m.secureRenegotiation.length < 256
  quic : (m.quicTP.getD []).length < 65536
  ech : m.ech.length < 65536
  curves : 2 * m.supportedCurves.length + 2 < 65536
  sigAlgs : 2 * m.sigAlgs.length + 2 < 65536
  sigAlgsCert : 2 * m.sigAlgsCert.length + 2 < 65536
  alpnEach : ∀ p ∈ m.alpnProtocols, p.length < 256
  alpnLen : (encVec8List m.alpnProtocols).length + 2 < 65536
  versions : 2 * m.supportedVersions.length < 256
  cookie : m.cookie.length + 2 < 65536
  ksEach : ∀ k ∈ m.keyShares, k.2.length < 65536
  ksLen : (encKeyShares m.keyShares).length + 2 < 65536
  pskModes : m.pskModes.length < 256
  pskIdEach : ∀ p ∈ m.pskIdentities, p.1.length < 65536
  binderEach : ∀ x ∈ m.pskBinders, x.length < 256
  pskIdsLen : (encPskIds m.pskIdentities).length < 65536
  bindersLen : (encVec8List m.pskBinders).length < 65536
  pskTotal : (encPskIds m.pskIdentities).length + (encVec8List m.pskBinders).length + 4 < 65536
  extsLen : (frameExts (extsOf m)).length < 65536

theorem fits_spec {m : Msg} (h : fits m = true) : FitsP m := by
  simp only [fits, Bool.and_eq_true, decide_eq_true_eq, beq_iff_eq, List.all_eq_true] at h
  obtain ⟨⟨⟨⟨⟨⟨⟨⟨⟨⟨⟨⟨⟨⟨⟨⟨⟨⟨⟨⟨⟨⟨⟨⟨⟨h1, h2⟩, h3⟩, h4⟩, h5⟩, h6⟩, h7⟩, h8⟩, h9⟩, h10⟩, h11⟩, h12⟩, h13⟩, h14⟩, h15⟩, h16⟩,
    h17⟩, h18⟩, h19⟩, h20⟩, h21⟩, h22⟩, h23⟩, h24⟩, h25⟩, h26⟩ := h
  exact ⟨h1, h2, h3, h4, h5, h6, h7, h8, h9, h10, h11, h12, h13, h14, h15, h16, h17, h18, h19, h20, h21, h22,
    h23, h24, h25, h26⟩

/-! ### generic block lemmas -/

theorem processExts_opt_false (acc : Msg) (id : Nat) (body : Bytes) (rest : List (Nat × Bytes)) :
    processExts acc (opt false id body ++ rest) = processExts acc rest := rfl

theorem processExts_opt_true (acc acc' : Msg) (id : Nat) (body : Bytes) (rest : List (Nat × Bytes))
    (h : applyExt { acc with extensions := acc.extensions ++ [id] } id body rest.isEmpty = some acc') :
    processExts acc (opt true id body ++ rest) = processExts acc' rest := by
  simp only [opt, if_true, List.cons_append, List.nil_append, processExts, h]

/-! ### the blocks, in the order of `marshalMsg` -/

def stepSNI (m acc : Msg) : Msg :=
  { acc with serverName := if m.serverName.isEmpty then acc.serverName else m.serverName
             extensions := if m.serverName.isEmpty then acc.extensions else acc.extensions ++ [xSNI] }

theorem block_sni (m acc : Msg) (rest : List (Nat × Bytes))
    (hdot : m.serverName.getLast? ≠ some (UInt8.ofNat 46)) (hlen : m.serverName.length + 5 < 65536)
    (hacc : acc.serverName = []) :
    processExts acc (opt (!m.serverName.isEmpty) xSNI (vec16 (u8 0 ++ vec16 m.serverName)) ++ rest) =
      processExts (stepSNI m acc) rest := by
  cases he : m.serverName.isEmpty with
  | true =>
    have : stepSNI m acc = acc := by unfold stepSNI; rw [he]; rfl
    rw [this]; rfl
  | false =>
    have h0 : m.serverName ≠ [] := ne_nil_of_isEmpty_false he
    apply processExts_opt_true
    rw [applyExt_sni]
    have hl : (u8 0 ++ vec16 m.serverName).length < 65536 := by simp [vec16]; omega
    have hne : (u8 0 ++ vec16 m.serverName).isEmpty = false := by simp [u8]
    have hp := parseSNINames_single m.serverName h0 (by omega) hdot (u8 0 ++ vec16 m.serverName).length
      (by simp [u8])
    simp only [caseSNI, readVec16_nil _ hl, hne, Bool.false_eq_true, if_false, hacc, hp, Option.map_some,
      stepSNI, he]

def stepPoints (m acc : Msg) : Msg :=
  { acc with supportedPoints := if m.supportedPoints.isEmpty then acc.supportedPoints else m.supportedPoints
             extensions := if m.supportedPoints.isEmpty then acc.extensions else acc.extensions ++ [xPoints] }

theorem block_points (m acc : Msg) (rest : List (Nat × Bytes)) (hlen : m.supportedPoints.length < 256) :
    processExts acc (opt (!m.supportedPoints.isEmpty) xPoints (vec8 m.supportedPoints) ++ rest) =
      processExts (stepPoints m acc) rest := by
  cases he : m.supportedPoints.isEmpty with
  | true =>
    have : stepPoints m acc = acc := by unfold stepPoints; rw [he]; rfl
    rw [this]; rfl
  | false =>
    apply processExts_opt_true
    rw [applyExt_points]
    simp only [casePoints, readVec8_nil _ hlen, he, Bool.false_eq_true, if_false, stepPoints]

def stepTicket (m acc : Msg) : Msg :=
  { acc with ticketSupported := if m.ticketSupported then true else acc.ticketSupported
             sessionTicket := if m.ticketSupported then m.sessionTicket else acc.sessionTicket
             extensions := if m.ticketSupported then acc.extensions ++ [xTicket] else acc.extensions }

theorem block_ticket (m acc : Msg) (rest : List (Nat × Bytes)) :
    processExts acc (opt m.ticketSupported xTicket m.sessionTicket ++ rest) =
      processExts (stepTicket m acc) rest := by
  cases he : m.ticketSupported with
  | false =>
    have : stepTicket m acc = acc := by unfold stepTicket; rw [he]; rfl
    rw [this]; rfl
  | true =>
    apply processExts_opt_true
    rw [applyExt_ticket]
    simp only [caseTicket, stepTicket, he, if_true]

def stepReneg (m acc : Msg) : Msg :=
  { acc with secureRenegotiationSupported :=
               if m.secureRenegotiationSupported then true else acc.secureRenegotiationSupported
             secureRenegotiation :=
               if m.secureRenegotiationSupported then m.secureRenegotiation else acc.secureRenegotiation
             extensions := if m.secureRenegotiationSupported then acc.extensions ++ [xReneg] else acc.extensions }

theorem block_reneg (m acc : Msg) (rest : List (Nat × Bytes)) (hlen : m.secureRenegotiation.length < 256) :
    processExts acc (opt m.secureRenegotiationSupported xReneg (vec8 m.secureRenegotiation) ++ rest) =
      processExts (stepReneg m acc) rest := by
  cases he : m.secureRenegotiationSupported with
  | false =>
    have : stepReneg m acc = acc := by unfold stepReneg; rw [he]; rfl
    rw [this]; rfl
  | true =>
    apply processExts_opt_true
    rw [applyExt_reneg]
    simp only [caseReneg, readVec8_nil _ hlen, stepReneg, he, if_true]

def stepEMS (m acc : Msg) : Msg :=
  { acc with extendedMasterSecret := if m.extendedMasterSecret then true else acc.extendedMasterSecret
             extensions := if m.extendedMasterSecret then acc.extensions ++ [xEMS] else acc.extensions }

theorem block_ems (m acc : Msg) (rest : List (Nat × Bytes)) :
    processExts acc (opt m.extendedMasterSecret xEMS [] ++ rest) = processExts (stepEMS m acc) rest := by
  cases he : m.extendedMasterSecret with
  | false =>
    have : stepEMS m acc = acc := by unfold stepEMS; rw [he]; rfl
    rw [this]; rfl
  | true =>
    apply processExts_opt_true
    rw [applyExt_ems]
    simp only [caseEMS, List.isEmpty_nil, if_true, stepEMS, he]

def stepSCT (m acc : Msg) : Msg :=
  { acc with scts := if m.scts then true else acc.scts
             extensions := if m.scts then acc.extensions ++ [xSCT] else acc.extensions }

theorem block_sct (m acc : Msg) (rest : List (Nat × Bytes)) :
    processExts acc (opt m.scts xSCT [] ++ rest) = processExts (stepSCT m acc) rest := by
  cases he : m.scts with
  | false =>
    have : stepSCT m acc = acc := by unfold stepSCT; rw [he]; rfl
    rw [this]; rfl
  | true =>
    apply processExts_opt_true
    rw [applyExt_sct]
    simp only [caseSCT, List.isEmpty_nil, if_true, stepSCT, he]

def stepEarly (m acc : Msg) : Msg :=
  { acc with earlyData := if m.earlyData then true else acc.earlyData
             extensions := if m.earlyData then acc.extensions ++ [xEarly] else acc.extensions }

theorem block_early (m acc : Msg) (rest : List (Nat × Bytes)) :
    processExts acc (opt m.earlyData xEarly [] ++ rest) = processExts (stepEarly m acc) rest := by
  cases he : m.earlyData with
  | false =>
    have : stepEarly m acc = acc := by unfold stepEarly; rw [he]; rfl
    rw [this]; rfl
  | true =>
    apply processExts_opt_true
    rw [applyExt_early]
    simp only [caseEarly, List.isEmpty_nil, if_true, stepEarly, he]

def stepQuic (m acc : Msg) : Msg :=
  { acc with quicTP := if m.quicTP.isSome then m.quicTP else acc.quicTP
             extensions := if m.quicTP.isSome then acc.extensions ++ [xQuicTP] else acc.extensions }

theorem block_quic (m acc : Msg) (rest : List (Nat × Bytes)) :
    processExts acc (opt m.quicTP.isSome xQuicTP (m.quicTP.getD []) ++ rest) =
      processExts (stepQuic m acc) rest := by
  cases he : m.quicTP with
  | none =>
    have : stepQuic m acc = acc := by unfold stepQuic; rw [he]; rfl
    rw [this]; rfl
  | some q =>
    apply processExts_opt_true
    rw [applyExt_quicTP]
    simp only [caseQuicTP, Option.getD_some, stepQuic, he, Option.isSome_some, if_true]

def stepECH (m acc : Msg) : Msg :=
  { acc with ech := if m.ech.isEmpty then acc.ech else m.ech
             extensions := if m.ech.isEmpty then acc.extensions else acc.extensions ++ [xECH] }

theorem block_ech (m acc : Msg) (rest : List (Nat × Bytes)) :
    processExts acc (opt (!m.ech.isEmpty) xECH m.ech ++ rest) = processExts (stepECH m acc) rest := by
  cases he : m.ech.isEmpty with
  | true =>
    have : stepECH m acc = acc := by unfold stepECH; rw [he]; rfl
    rw [this]; rfl
  | false =>
    apply processExts_opt_true
    rw [applyExt_ech]
    simp only [caseECH, stepECH, he, Bool.false_eq_true, if_false]

def stepStatus (m acc : Msg) : Msg :=
  { acc with ocspStapling := if m.ocspStapling then true else acc.ocspStapling
             extensions := if m.ocspStapling then acc.extensions ++ [xStatus] else acc.extensions }

theorem block_status (m acc : Msg) (rest : List (Nat × Bytes)) :
    processExts acc (opt m.ocspStapling xStatus (u8 1 ++ u16 0 ++ u16 0) ++ rest) =
      processExts (stepStatus m acc) rest := by
  cases he : m.ocspStapling with
  | false =>
    have : stepStatus m acc = acc := by unfold stepStatus; rw [he]; rfl
    rw [this]; rfl
  | true =>
    apply processExts_opt_true
    rw [applyExt_status]
    have : caseStatus { acc with extensions := acc.extensions ++ [xStatus] } (u8 1 ++ u16 0 ++ u16 0) =
        some { acc with extensions := acc.extensions ++ [xStatus], ocspStapling := true } := by
      simp [caseStatus, u8, u16, readU8, readVec16, readU16, take?]
    rw [this]
    simp only [stepStatus, he, if_true]

end CH
