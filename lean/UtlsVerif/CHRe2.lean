import UtlsVerif.CHRe
/-! # CHRe2 — the remaining blocks (list-valued extensions and pre_shared_key). -/
namespace CH
open Wire

theorem encU16s_isEmpty {xs : List Nat} (h : xs ≠ []) : (encU16s xs).isEmpty = false := by
  cases xs with
  | nil => exact absurd rfl h
  | cons x t => simp [encU16s, u16]

theorem encVec8List_isEmpty {xs : List Bytes} (h : xs ≠ []) : (encVec8List xs).isEmpty = false := by
  cases xs with
  | nil => exact absurd rfl h
  | cons x t => simp [encVec8List, vec8, u8]

theorem encPskIds_isEmpty {xs : List (Bytes × Nat)} (h : xs ≠ []) : (encPskIds xs).isEmpty = false := by
  cases xs with
  | nil => exact absurd rfl h
  | cons x t => obtain ⟨l, a⟩ := x; simp [encPskIds, vec16, u16]

theorem parseU16ListExt_enc (xs : List Nat) (h0 : xs ≠ []) (hx : ∀ x ∈ xs, x < 65536)
    (hl : 2 * xs.length + 2 < 65536) : parseU16ListExt (vec16 (encU16s xs)) = some xs := by
  have hlen : (encU16s xs).length < 65536 := by simp; omega
  simp only [parseU16ListExt, readVec16_nil _ hlen, encU16s_isEmpty h0, Bool.false_eq_true, if_false,
    decU16s_encU16s xs hx]

def stepCurves (m acc : Msg) : Msg :=
  { acc with supportedCurves := if m.supportedCurves.isEmpty then acc.supportedCurves else m.supportedCurves
             extensions := if m.supportedCurves.isEmpty then acc.extensions else acc.extensions ++ [xCurves] }

theorem block_curves (m acc : Msg) (rest : List (Nat × Bytes)) (hx : ∀ x ∈ m.supportedCurves, x < 65536)
    (hl : 2 * m.supportedCurves.length + 2 < 65536) (hacc : acc.supportedCurves = []) :
    processExts acc (opt (!m.supportedCurves.isEmpty) xCurves (vec16 (encU16s m.supportedCurves)) ++ rest) =
      processExts (stepCurves m acc) rest := by
  cases he : m.supportedCurves.isEmpty with
  | true =>
    have : stepCurves m acc = acc := by unfold stepCurves; rw [he]; rfl
    rw [this]; rfl
  | false =>
    apply processExts_opt_true
    rw [applyExt_curves]
    simp only [caseCurves, parseU16ListExt_enc _ (ne_nil_of_isEmpty_false he) hx hl, Option.map_some, hacc,
      List.nil_append, stepCurves, he, Bool.false_eq_true, if_false]

def stepSigAlgs (m acc : Msg) : Msg :=
  { acc with sigAlgs := if m.sigAlgs.isEmpty then acc.sigAlgs else m.sigAlgs
             extensions := if m.sigAlgs.isEmpty then acc.extensions else acc.extensions ++ [xSigAlgs] }

theorem block_sigAlgs (m acc : Msg) (rest : List (Nat × Bytes)) (hx : ∀ x ∈ m.sigAlgs, x < 65536)
    (hl : 2 * m.sigAlgs.length + 2 < 65536) (hacc : acc.sigAlgs = []) :
    processExts acc (opt (!m.sigAlgs.isEmpty) xSigAlgs (vec16 (encU16s m.sigAlgs)) ++ rest) =
      processExts (stepSigAlgs m acc) rest := by
  cases he : m.sigAlgs.isEmpty with
  | true =>
    have : stepSigAlgs m acc = acc := by unfold stepSigAlgs; rw [he]; rfl
    rw [this]; rfl
  | false =>
    apply processExts_opt_true
    rw [applyExt_sigAlgs]
    simp only [caseSigAlgs, parseU16ListExt_enc _ (ne_nil_of_isEmpty_false he) hx hl, Option.map_some, hacc,
      List.nil_append, stepSigAlgs, he, Bool.false_eq_true, if_false]

def stepSigAlgsCert (m acc : Msg) : Msg :=
  { acc with sigAlgsCert := if m.sigAlgsCert.isEmpty then acc.sigAlgsCert else m.sigAlgsCert
             extensions := if m.sigAlgsCert.isEmpty then acc.extensions else acc.extensions ++ [xSigAlgsCert] }

theorem block_sigAlgsCert (m acc : Msg) (rest : List (Nat × Bytes)) (hx : ∀ x ∈ m.sigAlgsCert, x < 65536)
    (hl : 2 * m.sigAlgsCert.length + 2 < 65536) (hacc : acc.sigAlgsCert = []) :
    processExts acc (opt (!m.sigAlgsCert.isEmpty) xSigAlgsCert (vec16 (encU16s m.sigAlgsCert)) ++ rest) =
      processExts (stepSigAlgsCert m acc) rest := by
  cases he : m.sigAlgsCert.isEmpty with
  | true =>
    have : stepSigAlgsCert m acc = acc := by unfold stepSigAlgsCert; rw [he]; rfl
    rw [this]; rfl
  | false =>
    apply processExts_opt_true
    rw [applyExt_sigAlgsCert]
    simp only [caseSigAlgsCert, parseU16ListExt_enc _ (ne_nil_of_isEmpty_false he) hx hl, Option.map_some, hacc,
      List.nil_append, stepSigAlgsCert, he, Bool.false_eq_true, if_false]

def stepALPN (m acc : Msg) : Msg :=
  { acc with alpnProtocols := if m.alpnProtocols.isEmpty then acc.alpnProtocols else m.alpnProtocols
             extensions := if m.alpnProtocols.isEmpty then acc.extensions else acc.extensions ++ [xALPN] }

theorem block_alpn (m acc : Msg) (rest : List (Nat × Bytes))
    (hx : ∀ p ∈ m.alpnProtocols, p ≠ [] ∧ p.length < 256)
    (hl : (encVec8List m.alpnProtocols).length + 2 < 65536) (hacc : acc.alpnProtocols = []) :
    processExts acc (opt (!m.alpnProtocols.isEmpty) xALPN (vec16 (encVec8List m.alpnProtocols)) ++ rest) =
      processExts (stepALPN m acc) rest := by
  cases he : m.alpnProtocols.isEmpty with
  | true =>
    have : stepALPN m acc = acc := by unfold stepALPN; rw [he]; rfl
    rw [this]; rfl
  | false =>
    apply processExts_opt_true
    rw [applyExt_alpn]
    have hlen : (encVec8List m.alpnProtocols).length < 65536 := by omega
    simp only [caseALPN, readVec16_nil _ hlen, encVec8List_isEmpty (ne_nil_of_isEmpty_false he),
      Bool.false_eq_true, if_false, parseVec8List_enc _ _ hx (Nat.le_refl _), Option.map_some, hacc,
      List.nil_append, stepALPN, he]

def stepVersions (m acc : Msg) : Msg :=
  { acc with supportedVersions := if m.supportedVersions.isEmpty then acc.supportedVersions else m.supportedVersions
             extensions := if m.supportedVersions.isEmpty then acc.extensions else acc.extensions ++ [xVersions] }

theorem block_versions (m acc : Msg) (rest : List (Nat × Bytes)) (hx : ∀ x ∈ m.supportedVersions, x < 65536)
    (hl : 2 * m.supportedVersions.length < 256) (hacc : acc.supportedVersions = []) :
    processExts acc (opt (!m.supportedVersions.isEmpty) xVersions (vec8 (encU16s m.supportedVersions)) ++ rest) =
      processExts (stepVersions m acc) rest := by
  cases he : m.supportedVersions.isEmpty with
  | true =>
    have : stepVersions m acc = acc := by unfold stepVersions; rw [he]; rfl
    rw [this]; rfl
  | false =>
    apply processExts_opt_true
    rw [applyExt_versions]
    have hlen : (encU16s m.supportedVersions).length < 256 := by simp; omega
    simp only [caseVersions, readVec8_nil _ hlen, encU16s_isEmpty (ne_nil_of_isEmpty_false he),
      Bool.false_eq_true, if_false, decU16s_encU16s _ hx, Option.map_some, hacc, List.nil_append, stepVersions, he]

def stepCookie (m acc : Msg) : Msg :=
  { acc with cookie := if m.cookie.isEmpty then acc.cookie else m.cookie
             extensions := if m.cookie.isEmpty then acc.extensions else acc.extensions ++ [xCookie] }

theorem block_cookie (m acc : Msg) (rest : List (Nat × Bytes)) (hl : m.cookie.length + 2 < 65536) :
    processExts acc (opt (!m.cookie.isEmpty) xCookie (vec16 m.cookie) ++ rest) =
      processExts (stepCookie m acc) rest := by
  cases he : m.cookie.isEmpty with
  | true =>
    have : stepCookie m acc = acc := by unfold stepCookie; rw [he]; rfl
    rw [this]; rfl
  | false =>
    apply processExts_opt_true
    rw [applyExt_cookie]
    have hlen : m.cookie.length < 65536 := by omega
    simp only [caseCookie, readVec16_nil _ hlen, he, Bool.false_eq_true, if_false, stepCookie]

def stepKeyShare (m acc : Msg) : Msg :=
  { acc with keyShares := if m.keyShares.isEmpty then acc.keyShares else m.keyShares
             extensions := if m.keyShares.isEmpty then acc.extensions else acc.extensions ++ [xKeyShare] }

theorem block_keyShare (m acc : Msg) (rest : List (Nat × Bytes))
    (hx : ∀ k ∈ m.keyShares, k.1 < 65536 ∧ k.2 ≠ [] ∧ k.2.length < 65536)
    (hl : (encKeyShares m.keyShares).length + 2 < 65536) (hacc : acc.keyShares = []) :
    processExts acc (opt (!m.keyShares.isEmpty) xKeyShare (vec16 (encKeyShares m.keyShares)) ++ rest) =
      processExts (stepKeyShare m acc) rest := by
  cases he : m.keyShares.isEmpty with
  | true =>
    have : stepKeyShare m acc = acc := by unfold stepKeyShare; rw [he]; rfl
    rw [this]; rfl
  | false =>
    apply processExts_opt_true
    rw [applyExt_keyShare]
    have hlen : (encKeyShares m.keyShares).length < 65536 := by omega
    simp only [caseKeyShare, readVec16_nil _ hlen, parseKeyShares_enc _ _ hx (Nat.le_refl _), Option.map_some,
      hacc, List.nil_append, stepKeyShare, he, Bool.false_eq_true, if_false]

def stepPskModes (m acc : Msg) : Msg :=
  { acc with pskModes := if m.pskModes.isEmpty then acc.pskModes else m.pskModes
             extensions := if m.pskModes.isEmpty then acc.extensions else acc.extensions ++ [xPskModes] }

theorem block_pskModes (m acc : Msg) (rest : List (Nat × Bytes)) (hl : m.pskModes.length < 256) :
    processExts acc (opt (!m.pskModes.isEmpty) xPskModes (vec8 m.pskModes) ++ rest) =
      processExts (stepPskModes m acc) rest := by
  cases he : m.pskModes.isEmpty with
  | true =>
    have : stepPskModes m acc = acc := by unfold stepPskModes; rw [he]; rfl
    rw [this]; rfl
  | false =>
    apply processExts_opt_true
    rw [applyExt_pskModes]
    simp only [casePskModes, readVec8_nil _ hl, stepPskModes, he, Bool.false_eq_true, if_false]

def stepPSK (m acc : Msg) : Msg :=
  { acc with pskIdentities := if m.pskIdentities.isEmpty then acc.pskIdentities else m.pskIdentities
             pskBinders := if m.pskIdentities.isEmpty then acc.pskBinders else m.pskBinders
             extensions := if m.pskIdentities.isEmpty then acc.extensions else acc.extensions ++ [xPSK] }

theorem block_psk (m acc : Msg)
    (hid : ∀ p ∈ m.pskIdentities, p.1 ≠ [] ∧ p.1.length < 65536 ∧ p.2 < 4294967296)
    (hbd : ∀ x ∈ m.pskBinders, x ≠ [] ∧ x.length < 256)
    (hboth : m.pskIdentities = [] ↔ m.pskBinders = [])
    (hl1 : (encPskIds m.pskIdentities).length < 65536) (hl2 : (encVec8List m.pskBinders).length < 65536)
    (hacc1 : acc.pskIdentities = []) (hacc2 : acc.pskBinders = []) :
    processExts acc (opt (!m.pskIdentities.isEmpty) xPSK
        (vec16 (encPskIds m.pskIdentities) ++ vec16 (encVec8List m.pskBinders)) ++ []) =
      some (stepPSK m acc) := by
  cases he : m.pskIdentities.isEmpty with
  | true =>
    have : stepPSK m acc = acc := by unfold stepPSK; rw [he]; rfl
    rw [this]; rfl
  | false =>
    have hne : m.pskIdentities ≠ [] := ne_nil_of_isEmpty_false he
    have hbne : m.pskBinders ≠ [] := fun h => hne (hboth.mpr h)
    have : processExts acc (opt (!false) xPSK
        (vec16 (encPskIds m.pskIdentities) ++ vec16 (encVec8List m.pskBinders)) ++ []) =
        processExts (stepPSK m acc) [] := by
      apply processExts_opt_true
      rw [applyExt_psk]
      simp only [casePSK, List.isEmpty_nil, Bool.not_true, Bool.false_eq_true, if_false,
        readVec16_vec16 _ _ hl1, encPskIds_isEmpty hne, parsePskIds_enc _ _ hid (Nat.le_refl _),
        readVec16_nil _ hl2, encVec8List_isEmpty hbne, parseVec8List_enc _ _ hbd (Nat.le_refl _),
        Option.map_some, hacc1, hacc2, List.nil_append, stepPSK, he]
    simpa [processExts] using this

end CH
