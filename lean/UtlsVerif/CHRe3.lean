import UtlsVerif.CHRe2
/-!
# CHRe3 — assembling the blocks: the extension loop over `extsOf m` rebuilds `m`;
the re-marshalled hello parses to the same public fields (`reparse`).
-/
namespace CH
open Wire

/-- what `parseHeader` yields on the bytes `marshalMsg m` writes. -/
def hdrOf (m : Msg) : Msg :=
  { vers := m.vers, random := m.random, sessionId := m.sessionId, cipherSuites := m.cipherSuites,
    compressionMethods := m.compressionMethods,
    secureRenegotiationSupported := m.cipherSuites.contains scsvRenegotiation }

/-- `extsOf` with the appends nested to the right and a final `[]`. -/
def extsOfR (m : Msg) : List (Nat × Bytes) :=
  opt (!m.serverName.isEmpty) xSNI (vec16 (u8 0 ++ vec16 m.serverName)) ++
  (opt (!m.supportedPoints.isEmpty) xPoints (vec8 m.supportedPoints) ++
  (opt m.ticketSupported xTicket m.sessionTicket ++
  (opt m.secureRenegotiationSupported xReneg (vec8 m.secureRenegotiation) ++
  (opt m.extendedMasterSecret xEMS [] ++
  (opt m.scts xSCT [] ++
  (opt m.earlyData xEarly [] ++
  (opt m.quicTP.isSome xQuicTP (m.quicTP.getD []) ++
  (opt (!m.ech.isEmpty) xECH m.ech ++
  (opt m.ocspStapling xStatus (u8 1 ++ u16 0 ++ u16 0) ++
  (opt (!m.supportedCurves.isEmpty) xCurves (vec16 (encU16s m.supportedCurves)) ++
  (opt (!m.sigAlgs.isEmpty) xSigAlgs (vec16 (encU16s m.sigAlgs)) ++
  (opt (!m.sigAlgsCert.isEmpty) xSigAlgsCert (vec16 (encU16s m.sigAlgsCert)) ++
  (opt (!m.alpnProtocols.isEmpty) xALPN (vec16 (encVec8List m.alpnProtocols)) ++
  (opt (!m.supportedVersions.isEmpty) xVersions (vec8 (encU16s m.supportedVersions)) ++
  (opt (!m.cookie.isEmpty) xCookie (vec16 m.cookie) ++
  (opt (!m.keyShares.isEmpty) xKeyShare (vec16 (encKeyShares m.keyShares)) ++
  (opt (!m.pskModes.isEmpty) xPskModes (vec8 m.pskModes) ++
  (opt (!m.pskIdentities.isEmpty) xPSK (vec16 (encPskIds m.pskIdentities) ++ vec16 (encVec8List m.pskBinders)) ++
    []))))))))))))))))))

theorem extsOf_eq (m : Msg) : extsOf m = extsOfR m := by
  simp only [extsOf, extsOfR, List.append_assoc, List.append_nil]

/-- the accumulator after the loop has run over all blocks. -/
def rebuilt (m : Msg) : Msg :=
  stepPSK m (stepPskModes m (stepKeyShare m (stepCookie m (stepVersions m (stepALPN m (stepSigAlgsCert m
  (stepSigAlgs m (stepCurves m (stepStatus m (stepECH m (stepQuic m (stepEarly m (stepSCT m (stepEMS m
  (stepReneg m (stepTicket m (stepPoints m (stepSNI m (hdrOf m)))))))))))))))))))

/-- the invariants that concern what goes on the wire (all of `Inv` except the three implications
between fields the parser derives: SCSV ⇒ renegotiation flag, and the two "absent ⇒ empty"). -/
structure InvW (m : Msg) : Prop where
  vers : m.vers < 65536
  suites : ∀ x ∈ m.cipherSuites, x < 65536
  dot : m.serverName.getLast? ≠ some (UInt8.ofNat 46)
  curves : ∀ x ∈ m.supportedCurves, x < 65536
  sigAlgs : ∀ x ∈ m.sigAlgs, x < 65536
  sigAlgsCert : ∀ x ∈ m.sigAlgsCert, x < 65536
  alpn : ∀ p ∈ m.alpnProtocols, p ≠ []
  versions : ∀ x ∈ m.supportedVersions, x < 65536
  keyShares : ∀ k ∈ m.keyShares, k.1 < 65536 ∧ k.2 ≠ []
  pskIds : ∀ p ∈ m.pskIdentities, p.1 ≠ [] ∧ p.2 < 4294967296
  binders : ∀ x ∈ m.pskBinders, x ≠ []
  pskBoth : m.pskIdentities = [] ↔ m.pskBinders = []

theorem Inv.toW {m : Msg} (h : Inv m) : InvW m :=
  ⟨h.vers, h.suites, h.dot, h.curves, h.sigAlgs, h.sigAlgsCert, h.alpn, h.versions, h.keyShares, h.pskIds,
    h.binders, h.pskBoth⟩

/-- **the extension loop over what `marshalMsg` emits.** -/
theorem processExts_extsOf (m : Msg) (hi : InvW m) (hf : FitsP m) :
    processExts (hdrOf m) (extsOf m) = some (rebuilt m) := by
  rw [extsOf_eq]
  unfold extsOfR
  rw [block_sni m _ _ hi.dot hf.sni]
  rw [block_points m _ _ hf.points]
  rw [block_ticket, block_reneg m _ _ hf.reneg, block_ems, block_sct, block_early, block_quic, block_ech,
    block_status]
  rw [block_curves m _ _ hi.curves hf.curves]
  rw [block_sigAlgs m _ _ hi.sigAlgs hf.sigAlgs]
  rw [block_sigAlgsCert m _ _ hi.sigAlgsCert hf.sigAlgsCert]
  rw [block_alpn m _ _ (fun p hp => ⟨hi.alpn p hp, hf.alpnEach p hp⟩) hf.alpnLen]
  rw [block_versions m _ _ hi.versions hf.versions]
  rw [block_cookie m _ _ hf.cookie]
  rw [block_keyShare m _ _ (fun k hk => ⟨(hi.keyShares k hk).1, (hi.keyShares k hk).2, hf.ksEach k hk⟩) hf.ksLen]
  rw [block_pskModes m _ _ hf.pskModes]
  rw [block_psk m _ (fun p hp => ⟨(hi.pskIds p hp).1, hf.pskIdEach p hp, (hi.pskIds p hp).2⟩)
    (fun x hx => ⟨hi.binders x hx, hf.binderEach x hx⟩) hi.pskBoth hf.pskIdsLen hf.bindersLen]
  · rfl
  all_goals rfl

theorem ite_isEmpty_list {α : Type} (l : List α) : (if l.isEmpty then [] else l) = l := by
  cases l <;> rfl

/-- the rebuilt message shows the same public fields. -/
theorem pubView_rebuilt (m : Msg) (hi : Inv m) : pubView (rebuilt m) = pubView m := by
  have h1 := hi.scsv
  have h2 := hi.reneg
  have h3 := hi.ticket
  have h4 := hi.pskBoth
  obtain ⟨vers, random, sessionId, cipherSuites, compressionMethods, serverName, ocspStapling, supportedCurves,
    supportedPoints, ticketSupported, sessionTicket, sigAlgs, sigAlgsCert, srs, secureRenegotiation, ems,
    alpnProtocols, scts, supportedVersions, cookie, keyShares, earlyData, pskModes, pskIdentities, pskBinders,
    quicTP, ech, extensions⟩ := m
  simp only at h1 h2 h3 h4
  simp only [pubView, rebuilt, stepPSK, stepPskModes, stepKeyShare, stepCookie, stepVersions, stepALPN,
    stepSigAlgsCert, stepSigAlgs, stepCurves, stepStatus, stepECH, stepQuic, stepEarly, stepSCT, stepEMS,
    stepReneg, stepTicket, stepPoints, stepSNI, hdrOf, Msg.mk.injEq, ite_isEmpty_list, true_and, and_true]
  refine ⟨?_, ?_, ?_, ?_, ?_, ?_, ?_, ?_, ?_, ?_⟩
  · cases ocspStapling <;> rfl
  · cases ticketSupported <;> rfl
  · cases ticketSupported
    · simp [h3]
    · rfl
  · cases srs
    · cases hc : cipherSuites.contains scsvRenegotiation
      · rfl
      · exact absurd (h1 hc) (by simp)
    · rfl
  · cases srs
    · simp [h2]
    · rfl
  · cases ems <;> rfl
  · cases scts <;> rfl
  · cases earlyData <;> rfl
  · cases pskIdentities with
    | nil => simp [h4.mp rfl]
    | cons _ _ => rfl
  · cases quicTP <;> rfl

end CH
