import UtlsVerif.CHRe3
/-!
# CHRe4 — `reparse`: for every message satisfying the parser's invariants whose re-marshalling succeeds,
the re-marshalled bytes are accepted and yield the same public fields.
-/
namespace CH
open Wire

/-! ### ids of the emitted extensions: distinct, all below 2^16 -/

/-- the code points `marshalMsg` can emit, in its order. -/
def emitIds : List Nat :=
  [xSNI] ++ [xPoints] ++ [xTicket] ++ [xReneg] ++ [xEMS] ++ [xSCT] ++ [xEarly] ++ [xQuicTP] ++ [xECH] ++ [xStatus] ++
  [xCurves] ++ [xSigAlgs] ++ [xSigAlgsCert] ++ [xALPN] ++ [xVersions] ++ [xCookie] ++ [xKeyShare] ++ [xPskModes] ++
  [xPSK]

theorem opt_sub (c : Bool) (id : Nat) (body : Bytes) : List.Sublist ((opt c id body).map (·.1)) [id] := by
  cases c
  · exact List.nil_sublist _
  · exact List.Sublist.refl _

theorem extsOf_ids_sub (m : Msg) : List.Sublist ((extsOf m).map (·.1)) emitIds := by
  simp only [extsOf, List.map_append, emitIds]
  exact (((((((((((((((((((opt_sub _ _ _).append (opt_sub _ _ _)).append (opt_sub _ _ _)).append (opt_sub _ _ _)).append
    (opt_sub _ _ _)).append (opt_sub _ _ _)).append (opt_sub _ _ _)).append (opt_sub _ _ _)).append (opt_sub _ _ _)).append
    (opt_sub _ _ _)).append (opt_sub _ _ _)).append (opt_sub _ _ _)).append (opt_sub _ _ _)).append (opt_sub _ _ _)).append
    (opt_sub _ _ _)).append (opt_sub _ _ _)).append (opt_sub _ _ _)).append (opt_sub _ _ _)).append (opt_sub _ _ _))

theorem idsNodup_iff (l : List Nat) : idsNodup l = true ↔ l.Nodup := by
  induction l with
  | nil => simp [idsNodup]
  | cons x t ih =>
    simp only [idsNodup, Bool.and_eq_true, Bool.not_eq_true', List.nodup_cons, ih]
    constructor
    · rintro ⟨h1, h2⟩
      exact ⟨by simpa using h1, h2⟩
    · rintro ⟨h1, h2⟩
      exact ⟨by simpa using h1, h2⟩

theorem emitIds_nodup : emitIds.Nodup := by decide

theorem extsOf_idsNodup (m : Msg) : idsNodup ((extsOf m).map (·.1)) = true :=
  (idsNodup_iff _).mpr ((extsOf_ids_sub m).nodup emitIds_nodup)

theorem extsOf_ids_lt (m : Msg) : ∀ e ∈ extsOf m, e.1 < 65536 := by
  intro e he
  have hmem : e.1 ∈ emitIds := (extsOf_ids_sub m).subset (List.mem_map_of_mem he)
  have hall : ∀ i ∈ emitIds, i < 65536 := by decide
  exact hall _ hmem

theorem body_le_frame : ∀ (es : List (Nat × Bytes)), ∀ e ∈ es, e.2.length ≤ (frameExts es).length
  | [], e, he => by cases he
  | (id, body) :: t, e, he => by
    rw [frameExts_length_cons]
    cases he with
    | head => simp only; omega
    | tail _ h => have := body_le_frame t e h; omega

/-! ### the header of the re-marshalled bytes -/

theorem parseHeader_marshal (m : Msg) (hi : InvW m) (hf : FitsP m) (tail : Bytes) :
    parseHeader (u8 1 ++ vec24 (u16 m.vers ++ (m.random ++ (vec8 m.sessionId ++
      (vec16 (encU16s m.cipherSuites) ++ (vec8 m.compressionMethods ++ tail)))))) = some (hdrOf m, tail) := by
  generalize hX : (u16 m.vers ++ (m.random ++ (vec8 m.sessionId ++
      (vec16 (encU16s m.cipherSuites) ++ (vec8 m.compressionMethods ++ tail))))) = X
  have e1 : u8 1 ++ vec24 X = (u8 1 ++ u24 X.length) ++ X := by simp [vec24, List.append_assoc]
  have hl4 : (u8 1 ++ u24 X.length).length = 4 := by simp
  have t1 : take? 4 ((u8 1 ++ u24 X.length) ++ X) = some (u8 1 ++ u24 X.length, X) := by
    have := take?_append (u8 1 ++ u24 X.length) X
    rwa [hl4] at this
  have t2 : take? 32 (m.random ++ (vec8 m.sessionId ++ (vec16 (encU16s m.cipherSuites) ++
      (vec8 m.compressionMethods ++ tail)))) = some (m.random, vec8 m.sessionId ++
      (vec16 (encU16s m.cipherSuites) ++ (vec8 m.compressionMethods ++ tail))) := by
    have := take?_append m.random (vec8 m.sessionId ++ (vec16 (encU16s m.cipherSuites) ++
      (vec8 m.compressionMethods ++ tail)))
    rwa [hf.random] at this
  have hcs : (encU16s m.cipherSuites).length < 65536 := by simp; exact hf.suites
  unfold parseHeader
  rw [e1, t1]
  subst hX
  simp only [readU16_u16, Nat.mod_eq_of_lt hi.vers, t2, readVec8_vec8 _ _ hf.sid, readVec16_vec16 _ _ hcs,
    decU16s_encU16s _ hi.suites, readVec8_vec8 _ _ hf.comp, hdrOf]

/-! ### the theorem -/

/-- **re-parse.** If `m` satisfies the invariants every parsed message satisfies and its re-marshalling
(with `original` cleared) succeeds, the new bytes are accepted by the parser and give the same public
fields. -/
theorem unmarshal_of_marshalMsg (m : Msg) (hi : InvW m) (raw' : Bytes) (h : marshalMsg m = some raw') :
    unmarshal raw' = some (rebuilt m) := by
  unfold marshalMsg at h
  by_cases hfit : (fits m && decide ((bodyOf m).length < 16777216)) = true
  · rw [if_pos hfit] at h
    injection h with h
    subst h
    have hfb : fits m = true := by
      simp only [Bool.and_eq_true] at hfit; exact hfit.1
    have hf := fits_spec hfb
    have hloop := processExts_extsOf m hi hf
    by_cases he : (extsOf m).isEmpty = true
    · -- no extension block
      have hnil : extsOf m = [] := by
        cases hx : extsOf m with
        | nil => rfl
        | cons _ _ => rw [hx] at he; simp at he
      rw [hnil] at hloop
      simp only [processExts, Option.some.injEq] at hloop
      have hb : bodyOf m = u16 m.vers ++ (m.random ++ (vec8 m.sessionId ++
          (vec16 (encU16s m.cipherSuites) ++ (vec8 m.compressionMethods ++ [])))) := by
        simp only [bodyOf, he, if_true, List.append_assoc]
      unfold unmarshal
      rw [hb, parseHeader_marshal m hi hf []]
      simp only [List.isEmpty_nil, if_true, hloop]
    · -- an extension block
      have he' : (extsOf m).isEmpty = false := by simpa using he
      have hb : bodyOf m = u16 m.vers ++ (m.random ++ (vec8 m.sessionId ++
          (vec16 (encU16s m.cipherSuites) ++ (vec8 m.compressionMethods ++ vec16 (frameExts (extsOf m)))))) := by
        simp only [bodyOf, he', Bool.false_eq_true, if_false, List.append_assoc]
      have hs : (vec16 (frameExts (extsOf m))).isEmpty = false := by simp [vec16, u16]
      have hall : ∀ e ∈ extsOf m, e.1 < 65536 ∧ e.2.length < 65536 := fun e he =>
        ⟨extsOf_ids_lt m e he, Nat.lt_of_le_of_lt (body_le_frame _ e he) hf.extsLen⟩
      unfold unmarshal
      rw [hb, parseHeader_marshal m hi hf _]
      simp only [hs, Bool.false_eq_true, if_false, readVec16_nil _ hf.extsLen,
        unframeExts_frame _ _ hall (Nat.le_refl _), extsOf_idsNodup m, if_true, hloop]
  · rw [if_neg hfit] at h
    cases h

theorem reparse (m : Msg) (hi : Inv m) (raw' : Bytes) (h : marshalMsg m = some raw') :
    ∃ m', unmarshal raw' = some m' ∧ pubView m' = pubView m :=
  ⟨rebuilt m, unmarshal_of_marshalMsg m hi.toW raw' h, pubView_rebuilt m hi⟩

/-- **parse → clear Raw → marshal → parse.** For every accepted ClientHello whose re-marshalling
succeeds, the re-marshalled bytes are accepted and the public fields are the same. -/
theorem unmarshal_remarshal_unmarshal (raw : Bytes) (m : Msg) (h : unmarshal raw = some m)
    (raw' : Bytes) (h' : marshal none m = some raw') :
    ∃ m', unmarshal raw' = some m' ∧ pubView m' = pubView m :=
  reparse m (unmarshal_inv h) raw' h'

end CH
