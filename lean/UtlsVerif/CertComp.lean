import UtlsVerif.Wire
/-!
# CertComp — compressed server certificates (RFC 8879) as uTLS handles them (property C21)

Transcription of

* `utlsCompressedCertificateMsg.marshal/unmarshal`            (u_handshake_messages.go)
* `(*clientHandshakeStateTLS13).decompressCert`               (u_handshake_client.go, repaired:
  `io.ReadFull` + probe for trailing data — D14; declared length bounded before allocating — D18)
* `certificateMsgTLS13.unmarshal` / `unmarshalCertificate`    (handshake_messages.go)
* the certificate step of `readServerCertificate` with `utlsReadServerCertificate`
  (what is written to the transcript, which alert ends the handshake)
* the size limit `readHandshake` applies per message type (repaired: CompressedCertificate
  messages get the certificate-message limit, like the Certificate message they carry).

The three codecs (zlib, brotli, zstd) are **not** modelled: a decoder is an uninterpreted
function `Decoder` from (algorithm, compressed bytes) to a `Reader`, an abstract `io.Reader`
that yields the decompressed bytes in an arbitrary *chunking* and then ends cleanly (`eof`) or
with a decoder error. The chunking is exactly what distinguishes one `Read` from reading to
the end. Core Lean only.
-/
namespace CertComp
open Wire

/-! ## constants (checked against the working tree by the correspondence harness) -/

/-- `maxHandshake` (common.go). -/
def maxHandshake : Nat := 65536
/-- `maxHandshakeCertificateMsg` (common.go). -/
def maxCertMsg : Nat := 262144
def typeCertificate : Nat := 11
def typeCompressedCertificate : Nat := 25
def algZlib : Nat := 1
def algBrotli : Nat := 2
def algZstd : Nat := 3
def extStatusRequest : Nat := 5
def extSCT : Nat := 18

/-! ## the abstract decoder output: an `io.Reader` with an arbitrary chunking -/

/-- how the decoder's stream ends: clean end of the compressed stream (`io.EOF`); the decoder's
own report that its input ended too early (`io.ErrUnexpectedEOF` — which `io.ReadFull` also uses
for "fewer bytes than asked", so `decompressCert` cannot tell the two apart); any other decoder
error (corrupt input, checksum mismatch, trailing garbage). All are sticky. -/
inductive Term where
  | eof | trunc | err
  deriving DecidableEq, Repr

/-- An `io.Reader` over decompressed data. `chunks` is the pending output in the pieces the
decoder hands out (a piece may be empty: a `(0, nil)` read); `term` is what it reports once the
data is exhausted; `eager` says whether it reports `term` already together with the last piece
(`(n > 0, io.EOF)`, as compress/zlib and zstd do) or only on the following call. -/
structure Reader where
  chunks : List Bytes
  term : Term
  eager : Bool
  deriving Repr

/-- all the data the reader will deliver. -/
def Reader.flat (r : Reader) : Bytes := r.chunks.flatten

/-- one Go `Read(p)` with `len(p) = k`: bytes returned, error (`none` = nil), reader afterwards.
A buffer smaller than the pending piece gets its first `k` bytes. -/
def Reader.read (r : Reader) (k : Nat) : Bytes × Option Term × Reader :=
  match r.chunks with
  | [] => ([], some r.term, r)
  | c :: rest =>
    if k < c.length then (c.take k, none, { r with chunks := c.drop k :: rest })
    else (c, if rest.isEmpty && r.eager then some r.term else none, { r with chunks := rest })

/-- result of the `io.ReadAtLeast` loop: bytes gathered, error of the last `Read`, pieces left. -/
structure LoopRes where
  data : Bytes
  err : Option Term
  rest : List Bytes
  deriving Repr

/-- the loop of `io.ReadAtLeast(r, buf, len(buf))`:
`for n < min && err == nil { nn, err = r.Read(buf[n:]); n += nn }` with `k = min - n`. -/
def readLoop (term : Term) (eager : Bool) : List Bytes → Nat → LoopRes
  | cs, 0 => ⟨[], none, cs⟩
  | [], _ + 1 => ⟨[], some term, []⟩
  | c :: rest, k + 1 =>
    if k + 1 < c.length then ⟨c.take (k + 1), none, c.drop (k + 1) :: rest⟩
    else if rest.isEmpty && eager then ⟨c, some term, []⟩
    else
      let r := readLoop term eager rest (k + 1 - c.length)
      ⟨c ++ r.data, r.err, r.rest⟩

/-- error value of `io.ReadFull`. -/
inductive RErr where
  | eof            -- io.EOF: nothing was read
  | unexpectedEOF  -- io.ErrUnexpectedEOF: clean end after fewer bytes than asked, or the decoder's own
  | decode         -- the decoder's own error
  deriving DecidableEq, Repr

/-- `io.ReadFull(r, buf)` with `len(buf) = k`: the loop, then
`if n >= min { err = nil } else if n > 0 && err == EOF { err = ErrUnexpectedEOF }`. -/
def readFull (r : Reader) (k : Nat) : Bytes × Option RErr × Reader :=
  let x := readLoop r.term r.eager r.chunks k
  let e : Option RErr :=
    if k ≤ x.data.length then none
    else match x.err with
      | none => none
      | some .eof => some (if 0 < x.data.length then .unexpectedEOF else .eof)
      | some .trunc => some .unexpectedEOF
      | some .err => some .decode
  (x.data, e, { r with chunks := x.rest })

/-- `brotli.NewReader` / `zlib.NewReader` / `zstd.NewReader` applied to the compressed bytes:
`none` = the constructor returned an error (zlib checks its 2-byte header there). -/
abbrev Decoder := Nat → Bytes → Option Reader

/-! ## the TLS 1.3 Certificate message (`certificateMsgTLS13.unmarshal`) -/

/-- what the client keeps of a Certificate message. `ocsp = []` / `scts = []` when absent
(the parser rejects empty staples and empty SCTs, so nothing is lost). -/
structure CertMsg where
  certs : List Bytes
  ocsp : Bytes
  scts : List Bytes
  deriving DecidableEq, Repr

/-- the SCT list loop: every item is a non-empty uint16-prefixed string. -/
def parseSctItems : Nat → Bytes → Option (List Bytes)
  | 0, _ => none
  | f + 1, bs =>
    if bs.isEmpty then some [] else
    match readVec16 bs with
    | none => none
    | some (sct, rest) =>
      if sct.isEmpty then none else (parseSctItems f rest).map (sct :: ·)

/-- the extension loop of one CertificateEntry; OCSP and SCT are only looked at for the leaf. -/
def parseEntryExts (leaf : Bool) : Nat → Bytes → Bytes × List Bytes → Option (Bytes × List Bytes)
  | 0, _, _ => none
  | f + 1, bs, st =>
    if bs.isEmpty then some st else
    match readU16 bs with
    | none => none
    | some (ext, r1) =>
      match readVec16 r1 with
      | none => none
      | some (data, r2) =>
        if !leaf then parseEntryExts leaf f r2 st
        else if ext = extStatusRequest then
          match readU8 data with
          | none => none
          | some (ty, d1) =>
            if ty ≠ 1 then none else
            match readVec24 d1 with
            | none => none
            | some (staple, d2) =>
              if staple.isEmpty || !d2.isEmpty then none
              else parseEntryExts leaf f r2 (staple, st.2)
        else if ext = extSCT then
          match readVec16 data with
          | none => none
          | some (lst, d2) =>
            if lst.isEmpty then none else
            match parseSctItems (lst.length + 1) lst with
            | none => none
            | some items =>
              if !d2.isEmpty then none else parseEntryExts leaf f r2 (st.1, st.2 ++ items)
        else parseEntryExts leaf f r2 st

/-- the `for !certList.Empty()` loop of `unmarshalCertificate`. -/
def parseEntries : Nat → Bytes → Nat → CertMsg → Option CertMsg
  | 0, _, _, _ => none
  | f + 1, bs, idx, acc =>
    if bs.isEmpty then some acc else
    match readVec24 bs with
    | none => none
    | some (cert, r1) =>
      match readVec16 r1 with
      | none => none
      | some (exts, r2) =>
        match parseEntryExts (idx == 0) (exts.length + 1) exts (acc.ocsp, acc.scts) with
        | none => none
        | some (o, s) => parseEntries f r2 (idx + 1) ⟨acc.certs ++ [cert], o, s⟩

/-- `certificateMsgTLS13.unmarshal` on the message **body** (the bytes after the 4-byte handshake
header): empty request context, the certificate list, nothing after it. -/
def parseCertMsg (body : Bytes) : Option CertMsg :=
  match readVec8 body with
  | none => none
  | some (ctx, r1) =>
    if !ctx.isEmpty then none else
    match readVec24 r1 with
    | none => none
    | some (lst, r2) =>
      if !r2.isEmpty then none else parseEntries (lst.length + 1) lst 0 ⟨[], [], []⟩

/-- the Certificate handshake message `decompressCert` rebuilds: type, uint24 length, body. -/
def certRaw (body : Bytes) : Bytes := u8 typeCertificate ++ u24 body.length ++ body

/-! ## the CompressedCertificate message codec -/

structure CompMsg where
  alg : Nat        -- uint16 in Go
  declared : Nat   -- uncompressed_length: uint32 field holding a uint24
  payload : Bytes  -- compressed_certificate_message
  deriving DecidableEq, Repr

/-- field ranges of a message that came off the wire. -/
def CompMsg.WF (m : CompMsg) : Prop :=
  m.alg < 65536 ∧ m.declared < 16777216 ∧ 8 + m.payload.length < 16777216

instance (m : CompMsg) : Decidable m.WF := by unfold CompMsg.WF; infer_instance

def compBody (m : CompMsg) : Bytes := u16 m.alg ++ u24 m.declared ++ vec24 m.payload

/-- `marshal` (for a message without `raw`): cryptobyte's length-prefixed builders fail when a
child does not fit its 3-byte prefix; `AddUint24` truncates silently. -/
def marshal (m : CompMsg) : Option Bytes :=
  if 16777216 ≤ m.payload.length ∨ 16777216 ≤ (compBody m).length then none
  else some (u8 typeCompressedCertificate ++ vec24 (compBody m))

/-- `unmarshal`: skips the 4-byte header without looking at it, reads the three fields and does
**not** require the input to end there (trailing bytes are ignored). -/
def unmarshal (data : Bytes) : Option CompMsg :=
  if data.length < 4 then none else
  match readU16 (data.drop 4) with
  | none => none
  | some (alg, r1) =>
    match readU24 r1 with
    | none => none
    | some (declared, r2) =>
      match readVec24 r2 with
      | none => none
      | some (payload, _) => some ⟨alg, declared, payload⟩

/-! ## decompressCert -/

inductive Alert where
  | badCertificate | unexpectedMessage | decodeError | internalError
  deriving DecidableEq, Repr

/-- which return statement of `decompressCert` (or of its caller) ended the handshake. -/
inductive Why where
  | unadvertised   -- "unadvertised algorithm"
  | tooLarge       -- declared length above the certificate-message limit (D18 repair)
  | unsupported    -- advertised but none of zlib/brotli/zstd
  | openFailed     -- "failed to open zlib/zstd reader"
  | decodeErr      -- the decoder failed before the declared length was reached
  | short          -- "decompressed len does not match specified len"
  | long           -- data beyond the declared length (D14 repair)
  | trailingErr    -- decoder error where the end of the stream was expected (D14 repair)
  | unparsable     -- the decompressed bytes are not a Certificate message
  | noExtension    -- CompressedCertificate although the client has no compress_certificate extension
  | emptyCerts     -- "received empty certificates message"
  | malformed      -- the handshake message itself does not unmarshal
  | oversize       -- readHandshake: message longer than the limit for its type
  | notCertificate -- some other handshake message where the certificate was expected
  deriving DecidableEq, Repr

inductive Outcome where
  | ok (body : Bytes) (cert : CertMsg)
  | abort (alert : Alert) (why : Why)
  deriving DecidableEq, Repr

structure Result where
  outcome : Outcome
  /-- size of the `make([]byte, …)` for the decompressed message (0 when not reached). -/
  alloc : Nat
  deriving Repr

def supported (alg : Nat) : Bool := alg == algZlib || alg == algBrotli || alg == algZstd

/-- `decompressCert` from the `make` on: allocate the declared length (+4 for the handshake
header), `io.ReadFull` it, probe for trailing data, parse. -/
def readDeclared (declared : Nat) (r : Reader) : Result :=
  let alloc := declared + 4
  let x := readFull r declared              -- io.ReadFull(decompressed, rawMsg[4:])
  if x.2.1 = some .decode then ⟨.abort .badCertificate .decodeErr, alloc⟩
  else if x.1.length < declared then ⟨.abort .badCertificate .short, alloc⟩
  else
    let y := readFull x.2.2 1               -- io.ReadFull(decompressed, probe[:])
    if 0 < y.1.length then ⟨.abort .badCertificate .long, alloc⟩
    else if y.2.1 ≠ some .eof then ⟨.abort .badCertificate .trailingErr, alloc⟩
    else match parseCertMsg x.1 with
      | none => ⟨.abort .unexpectedMessage .unparsable, alloc⟩
      | some c => ⟨.ok x.1 c, alloc⟩

/-- `decompressCert` (repaired code). `adv` = `uconn.certCompressionAlgs`. -/
def decompressDecision (adv : List Nat) (m : CompMsg) (dec : Decoder) : Result :=
  if !adv.contains m.alg then ⟨.abort .badCertificate .unadvertised, 0⟩
  else if maxCertMsg < m.declared then ⟨.abort .badCertificate .tooLarge, 0⟩
  else if !supported m.alg then ⟨.abort .badCertificate .unsupported, 0⟩
  else match dec m.alg m.payload with
    | none => ⟨.abort .badCertificate .openFailed, 0⟩
    | some r => readDeclared m.declared r

/-! ## the certificate step of `readServerCertificate` -/

/-- the limit `readHandshake` applies to a message of this type once the version is known:
Certificate and (repaired) CompressedCertificate messages get the certificate-message limit. -/
def sizeLimit (msgType : Nat) : Nat :=
  if msgType = typeCertificate ∨ msgType = typeCompressedCertificate then maxCertMsg else maxHandshake

/-- client side: is there a `UtlsCompressCertExtension` in `uconn.Extensions`, and
`uconn.certCompressionAlgs`. -/
structure ClientCtx where
  hasExt : Bool
  adv : List Nat
  deriving Repr

structure Step where
  /-- handshake messages written to the transcript hash by this step, in order. -/
  transcript : List Bytes
  outcome : Outcome
  alloc : Nat
  deriving Repr

/-- The server's message where the client expects its certificate (`raw` = the whole handshake
message with header, as `readHandshake` returns it). No CertificateRequest, no PSK. -/
def readServerCert (ctx : ClientCtx) (raw : Bytes) (dec : Decoder) : Step :=
  match raw with
  | ty :: _ :: _ :: _ :: body =>
    if sizeLimit ty.toNat < body.length then ⟨[], .abort .internalError .oversize, 0⟩
    else if ty.toNat = typeCompressedCertificate then
      match unmarshal raw with
      | none => ⟨[], .abort .unexpectedMessage .malformed, 0⟩
      | some m =>
        if ctx.hasExt && !ctx.adv.isEmpty then
          let r := decompressDecision ctx.adv m dec
          match r.outcome with
          | .ok b c =>
            if c.certs.isEmpty then ⟨[raw], .abort .decodeError .emptyCerts, r.alloc⟩
            else ⟨[raw], .ok b c, r.alloc⟩
          | o => ⟨[raw], o, r.alloc⟩
        else ⟨[], .abort .unexpectedMessage .noExtension, 0⟩
    else if ty.toNat = typeCertificate then
      match parseCertMsg body with
      | none => ⟨[], .abort .unexpectedMessage .malformed, 0⟩
      | some c =>
        if c.certs.isEmpty then ⟨[], .abort .decodeError .emptyCerts, 0⟩
        else ⟨[raw], .ok body c, 0⟩
    else ⟨[], .abort .unexpectedMessage .notCertificate, 0⟩
  | _ => ⟨[], .abort .unexpectedMessage .malformed, 0⟩

/-! ## successive calls: every result is a fresh value

`decompressCert` `make`s the buffer the certificate message is decompressed into, and
`certificateMsgTLS13.unmarshal` keeps sub-slices of it: what a connection holds afterwards (and
`ConnectionState().PeerCertificates[i].Raw`) *is* that buffer. `Heap` is the list of all buffers
allocated by the calls of a process so far, in order; a call appends one (a fresh cell) and
touches no other. -/

abbrev Heap := List Bytes

structure Call where
  adv : List Nat
  msg : CompMsg
  dec : Decoder

/-- content of the buffer a call leaves behind: the rebuilt Certificate message when it succeeds
(after an abort nobody holds the buffer; its content is irrelevant and left as zeros here). -/
def bufferOf (r : Result) : Bytes :=
  match r.outcome with
  | .ok body _ => certRaw body
  | .abort _ _ => List.replicate r.alloc 0

/-- one call in a process whose earlier calls allocated `h`: the heap afterwards, the result, and
the index of the buffer the result points into (`none` when nothing was allocated). -/
def callDecompress (h : Heap) (c : Call) : Heap × Result × Option Nat :=
  let r := decompressDecision c.adv c.msg c.dec
  if r.alloc = 0 then (h, r, none) else (h ++ [bufferOf r], r, some h.length)

/-- any number of calls, one after the other (any connections, any algorithms). -/
def runCalls : Heap → List Call → Heap × List (Result × Option Nat)
  | h, [] => (h, [])
  | h, c :: cs =>
    let x := callDecompress h c
    let y := runCalls x.1 cs
    (y.1, (x.2.1, x.2.2) :: y.2)

/-! ## successive presets: what the client advertised is what the last hello carries

`ApplyPreset` replaces `uconn.Extensions`; `uconn.certCompressionAlgs` is written by the
compress_certificate extension of the spec when the hello is built (`writeToUConn`) and is **not**
cleared by a spec without that extension — the stale list survives. Removing the extension from
`uconn.Extensions` has the same effect as a preset without it. -/

structure Preset where
  /-- the algorithm list of the spec's compress_certificate extension, if it has one. -/
  compress : Option (List Nat)

def applyPreset (c : ClientCtx) (p : Preset) : ClientCtx :=
  match p.compress with
  | some a => ⟨true, a⟩
  | none => ⟨false, c.adv⟩

/-- the client state after a sequence of presets (hello built after each) on a fresh `UConn`. -/
def afterPresets (ps : List Preset) : ClientCtx := ps.foldl applyPreset ⟨false, []⟩

end CertComp
