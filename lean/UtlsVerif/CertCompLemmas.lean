import UtlsVerif.CertComp
/-!
# CertCompLemmas — helper lemmas for C21

The one fact everything rests on: the `io.ReadFull` loop over an abstract reader returns the
first `k` bytes of the reader's *flattened* data, whatever the chunking and whether or not the
decoder reports its final status together with the last piece.
-/
namespace CertComp
open Wire

/-- `readLoop` is the `io.ReadAtLeast` loop over `Reader.read`: nothing to do for `k = 0`;
otherwise one `Read`, stop on an error, go on for the missing bytes otherwise. -/
theorem readLoop_unfold (r : Reader) (k : Nat) (hk : 0 < k) :
    readLoop r.term r.eager r.chunks k =
      (let (d, e, r') := r.read k
       match e with
       | some t => ⟨d, some t, r'.chunks⟩
       | none =>
         let x := readLoop r'.term r'.eager r'.chunks (k - d.length)
         ⟨d ++ x.data, x.err, x.rest⟩) := by
  obtain ⟨cs, term, eager⟩ := r
  cases k with
  | zero => omega
  | succ k =>
    cases cs with
    | nil => simp [readLoop, Reader.read]
    | cons c rest =>
      simp only [Reader.read]
      by_cases h1 : k + 1 < c.length
      · have hlen : (List.take (k + 1) c).length = k + 1 := by simp; omega
        simp [readLoop, h1, hlen]
      · by_cases h2 : (rest.isEmpty && eager) = true
        · have hre : rest = [] ∧ eager = true := by
            cases rest with
            | nil => simpa using h2
            | cons _ _ => simp at h2
          obtain ⟨hr, he⟩ := hre
          subst hr; subst he
          simp [readLoop, h1]
        · simp [readLoop, h1, h2]

theorem readLoop_data (term : Term) (eager : Bool) :
    ∀ (cs : List Bytes) (k : Nat), (readLoop term eager cs k).data = cs.flatten.take k := by
  intro cs
  induction cs with
  | nil => intro k; cases k <;> simp [readLoop]
  | cons c rest ih =>
    intro k
    cases k with
    | zero => simp [readLoop]
    | succ k =>
      by_cases h1 : k + 1 < c.length
      · have : k + 1 - c.length = 0 := by omega
        simp [readLoop, h1, List.take_append, this]
      · have hc : c.take (k + 1) = c := List.take_of_length_le (by omega)
        by_cases h2 : (rest.isEmpty && eager) = true
        · have hre : rest = [] ∧ eager = true := by
            cases rest with
            | nil => simpa using h2
            | cons _ _ => simp at h2
          obtain ⟨hr, he⟩ := hre
          subst hr; subst he
          simp [readLoop, h1, hc]
        · simp [readLoop, h1, h2, ih, List.take_append, hc]

theorem readLoop_rest (term : Term) (eager : Bool) :
    ∀ (cs : List Bytes) (k : Nat), (readLoop term eager cs k).rest.flatten = cs.flatten.drop k := by
  intro cs
  induction cs with
  | nil => intro k; cases k <;> simp [readLoop]
  | cons c rest ih =>
    intro k
    cases k with
    | zero => simp [readLoop]
    | succ k =>
      by_cases h1 : k + 1 < c.length
      · have : k + 1 - c.length = 0 := by omega
        simp [readLoop, h1, List.drop_append, this]
      · have hc : c.drop (k + 1) = [] := List.drop_of_length_le (by omega)
        by_cases h2 : (rest.isEmpty && eager) = true
        · have hre : rest = [] ∧ eager = true := by
            cases rest with
            | nil => simpa using h2
            | cons _ _ => simp at h2
          obtain ⟨hr, he⟩ := hre
          subst hr; subst he
          simp [readLoop, h1, hc]
        · simp [readLoop, h1, h2, ih, List.drop_append, hc]

theorem readLoop_err (term : Term) (eager : Bool) :
    ∀ (cs : List Bytes) (k : Nat), cs.flatten.length < k → (readLoop term eager cs k).err = some term := by
  intro cs
  induction cs with
  | nil => intro k hk; cases k with
    | zero => simp at hk
    | succ k => simp [readLoop]
  | cons c rest ih =>
    intro k hk
    cases k with
    | zero => simp at hk
    | succ k =>
      have hlen : c.length + rest.flatten.length < k + 1 := by simpa using hk
      have h1 : ¬ (k + 1 < c.length) := by omega
      by_cases h2 : (rest.isEmpty && eager) = true
      · simp [readLoop, h1, h2]
      · simp only [readLoop, h1, h2, if_false]
        exact ih _ (by omega)

/-- `io.ReadFull` over any chunking, enough data: exactly the first `k` bytes, no error, and the
reader is left with exactly the remaining bytes. -/
theorem readFull_enough (r : Reader) (k : Nat) (h : k ≤ r.flat.length) :
    (readFull r k).1 = r.flat.take k ∧ (readFull r k).2.1 = none ∧
    (readFull r k).2.2.flat = r.flat.drop k ∧ (readFull r k).2.2.term = r.term := by
  have hd := readLoop_data r.term r.eager r.chunks k
  have hr := readLoop_rest r.term r.eager r.chunks k
  have hl : k ≤ (readLoop r.term r.eager r.chunks k).data.length := by
    rw [hd]; simp [Reader.flat] at h ⊢; omega
  refine ⟨by simp [readFull, hd, Reader.flat], ?_, by simp [readFull, hr, Reader.flat], by simp [readFull]⟩
  simp [readFull, hl]

/-- `io.ReadFull` over any chunking, too little data: all of it, and an error — the decoder's own
if the stream ends in one, `io.EOF` / `io.ErrUnexpectedEOF` after a clean end. -/
theorem readFull_short (r : Reader) (k : Nat) (h : r.flat.length < k) :
    (readFull r k).1 = r.flat ∧
    (readFull r k).2.1 = some (match r.term with
      | .err => .decode
      | .trunc => .unexpectedEOF
      | .eof => if 0 < r.flat.length then .unexpectedEOF else .eof) := by
  have hd := readLoop_data r.term r.eager r.chunks k
  have he := readLoop_err r.term r.eager r.chunks k (by simpa [Reader.flat] using h)
  have hfl : (readLoop r.term r.eager r.chunks k).data = r.flat := by
    rw [hd]; exact List.take_of_length_le (by simp [Reader.flat] at h ⊢; omega)
  refine ⟨by simp [readFull, hfl], ?_⟩
  have hl : ¬ (k ≤ r.flat.length) := by omega
  simp only [readFull, he, hfl, if_neg hl]
  cases r.term <;> rfl

/-! ### `readDeclared` depends only on the flattened data and on how the stream ends -/

/-- what `decompressCert` does from the allocation on, as a function of the decompressed data
`flat` and the way the stream ends — no chunking in sight. -/
def streamSpec (declared : Nat) (flat : Bytes) (term : Term) : Result :=
  if declared < flat.length then ⟨.abort .badCertificate .long, declared + 4⟩
  else if flat.length < declared then
    ⟨.abort .badCertificate (match term with | .eof => .short | .trunc => .short | .err => .decodeErr), declared + 4⟩
  else match term with
    | .err => ⟨.abort .badCertificate .trailingErr, declared + 4⟩
    | .trunc => ⟨.abort .badCertificate .trailingErr, declared + 4⟩
    | .eof =>
      match parseCertMsg flat with
      | none => ⟨.abort .unexpectedMessage .unparsable, declared + 4⟩
      | some c => ⟨.ok flat c, declared + 4⟩

theorem readDeclared_long (n : Nat) (r : Reader) (h : n < r.flat.length) :
    readDeclared n r = ⟨.abort .badCertificate .long, n + 4⟩ := by
  obtain ⟨h1, h2, h3, _⟩ := readFull_enough r n (Nat.le_of_lt h)
  have hlen : (readFull r n).1.length = n := by rw [h1]; simp; omega
  have h1' : 1 ≤ (readFull r n).2.2.flat.length := by rw [h3]; simp; omega
  obtain ⟨g1, _, _, _⟩ := readFull_enough _ 1 h1'
  have glen : 0 < (readFull (readFull r n).2.2 1).1.length := by rw [g1]; simp; omega
  simp [readDeclared, h2, hlen, glen]

theorem readDeclared_short (n : Nat) (r : Reader) (h : r.flat.length < n) :
    readDeclared n r =
      ⟨.abort .badCertificate (match r.term with | .eof => .short | .trunc => .short | .err => .decodeErr), n + 4⟩ := by
  obtain ⟨h1, h2⟩ := readFull_short r n h
  have hlen : (readFull r n).1.length < n := by rw [h1]; exact h
  cases ht : r.term with
  | eof =>
    have h2' : (readFull r n).2.1 ≠ some .decode := by
      rw [h2, ht]; by_cases h0 : 0 < r.flat.length <;> simp [h0]
    simp [readDeclared, h2', hlen]
  | trunc =>
    have h2' : (readFull r n).2.1 ≠ some .decode := by rw [h2, ht]; simp
    simp [readDeclared, h2', hlen]
  | err =>
    have h2' : (readFull r n).2.1 = some .decode := by rw [h2, ht]
    simp [readDeclared, h2']

theorem readDeclared_exact (n : Nat) (r : Reader) (h : r.flat.length = n) :
    readDeclared n r = (match r.term with
      | .err => ⟨.abort .badCertificate .trailingErr, n + 4⟩
      | .trunc => ⟨.abort .badCertificate .trailingErr, n + 4⟩
      | .eof =>
        match parseCertMsg r.flat with
        | none => ⟨.abort .unexpectedMessage .unparsable, n + 4⟩
        | some c => ⟨.ok r.flat c, n + 4⟩) := by
  obtain ⟨h1, h2, h3, h4⟩ := readFull_enough r n (Nat.le_of_eq h.symm)
  have hx : (readFull r n).1 = r.flat := by rw [h1]; exact List.take_of_length_le (Nat.le_of_eq h)
  have hlen : ¬ ((readFull r n).1.length < n) := by rw [hx]; omega
  have h3' : (readFull r n).2.2.flat.length < 1 := by rw [h3]; simp; omega
  have h30 : (readFull r n).2.2.flat = [] := by
    cases hf : (readFull r n).2.2.flat with
    | nil => rfl
    | cons _ _ => rw [hf] at h3'; simp at h3'
  obtain ⟨g1, g2⟩ := readFull_short _ 1 h3'
  have gl : ¬ (0 < (readFull (readFull r n).2.2 1).1.length) := by rw [g1, h30]; simp
  rw [h4, h30] at g2
  cases ht : r.term with
  | eof =>
    have g2' : (readFull (readFull r n).2.2 1).2.1 = some .eof := by rw [g2, ht]; simp
    have hlen' : ¬ (r.flat.length < n) := by omega
    simp [readDeclared, h2, gl, g2', hx, hlen']
    cases parseCertMsg r.flat <;> rfl
  | err =>
    have g2' : (readFull (readFull r n).2.2 1).2.1 = some .decode := by rw [g2, ht]
    have hlen' : ¬ (r.flat.length < n) := by omega
    simp [readDeclared, h2, gl, g2', hx, hlen']
  | trunc =>
    have g2' : (readFull (readFull r n).2.2 1).2.1 = some .unexpectedEOF := by rw [g2, ht]
    have hlen' : ¬ (r.flat.length < n) := by omega
    simp [readDeclared, h2, gl, g2', hx, hlen']

/-- **The decision is independent of the chunking**: for every reader (any pieces, empty pieces,
final status with or after the last piece) `readDeclared` is `streamSpec` of the flattened data. -/
theorem readDeclared_eq_spec (n : Nat) (r : Reader) :
    readDeclared n r = streamSpec n r.flat r.term := by
  unfold streamSpec
  by_cases h1 : n < r.flat.length
  · rw [readDeclared_long n r h1]; simp [h1]
  · by_cases h2 : r.flat.length < n
    · rw [readDeclared_short n r h2]; simp [h1, h2]
    · have h : r.flat.length = n := by omega
      rw [readDeclared_exact n r h]; simp [h1, h2]

end CertComp
