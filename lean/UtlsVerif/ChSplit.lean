import UtlsVerif.Wire
/-!
# ChSplit — extension-level splitter of a ClientHello handshake message

Splits the bytes of one `ClientHello` handshake message (`msg_type || uint24 length || body`) into
its fixed fields and the list of `(type, body)` extensions, checking **every** length field exactly
(no trailing bytes anywhere). This is an independent reader of wire bytes — it shares nothing with
the marshalling model — used to compare two hellos field by field (C17) and to pick single
extensions out of a recorded hello (C16). Core Lean only.
-/
namespace ChSplit
open Wire

/-- everything of a ClientHello that is not an extension. -/
structure Fixed where
  vers : Nat
  random : Bytes
  sid : Bytes
  suites : List Nat
  comp : Bytes
  deriving DecidableEq, Repr

/-- `extension*`: `uint16 type || uint16 length || body`, repeated until the block is used up exactly. -/
def splitExts : Nat → Bytes → Option (List (Nat × Bytes))
  | _, [] => some []
  | 0, _ => none
  | fuel + 1, bs =>
    match readU16 bs with
    | none => none
    | some (t, r) =>
      match readVec16 r with
      | none => none
      | some (body, r') => (splitExts fuel r').map ((t, body) :: ·)

structure Split where
  fixed : Fixed
  /-- whether the extensions block (its 2-byte length) is present at all. -/
  hasBlock : Bool
  exts : List (Nat × Bytes)
  deriving DecidableEq, Repr

/-- the body of the handshake message (after the 4-byte header). -/
def splitBody (bd : Bytes) : Option Split :=
  match readU16 bd with
  | none => none
  | some (vers, r) =>
    match take? 32 r with
    | none => none
    | some (random, r) =>
      match readVec8 r with
      | none => none
      | some (sid, r) =>
        match readVec16 r with
        | none => none
        | some (suites, r) =>
          match decU16s suites with
          | none => none
          | some ss =>
            match readVec8 r with
            | none => none
            | some (comp, r) =>
              let fixed : Fixed := ⟨vers, random, sid, ss, comp⟩
              match r with
              | [] => some ⟨fixed, false, []⟩
              | _ =>
                match readVec16 r with
                | some (block, []) => (splitExts block.length block).map fun es => ⟨fixed, true, es⟩
                | _ => none

/-- a full handshake message: type 1, `uint24` length covering exactly the rest. -/
def split (msg : Bytes) : Option Split :=
  match msg with
  | t :: r =>
    if t ≠ 1 then none else
    match readVec24 r with
    | some (bd, []) => splitBody bd
    | _ => none
  | [] => none

/-- the bodies of all extensions of type `t`, in order. -/
def bodiesOf (t : Nat) (es : List (Nat × Bytes)) : List Bytes := (es.filter (·.1 == t)).map (·.2)

/-- the extension list without the types in `ts` (relative order kept). -/
def without (ts : List Nat) (es : List (Nat × Bytes)) : List (Nat × Bytes) := es.filter fun e => !ts.contains e.1

/-- re-encoding of a `(type, body)` list (the inverse direction, used in the round-trip lemmas). -/
def encExts : List (Nat × Bytes) → Bytes
  | [] => []
  | (t, body) :: es => u16 t ++ vec16 body ++ encExts es

end ChSplit
