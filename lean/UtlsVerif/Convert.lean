/-!
# Convert — field-map model of the public<->private converters of `u_public.go` (C31).

A converter is modelled by its *copy map*: rows `(src, dst)` meaning "destination leaf `dst` receives
the value of source leaf `src`" (leaf paths as packed names).  The maps are not written by hand: they
are regenerated on every run by running the real converters on sentinel-filled values
(`Gen.FieldMaps`).  A record is a function from leaf to value; `convert` applies a map.  Core only.
-/
namespace Convert

abbrev FieldMap := List (Nat × Nat)

/-- a record: leaf ↦ value (`none` = leaf not present in this structure / zero). -/
abbrev Rec (α : Type) := Nat → Option α

/-- the source leaf a destination leaf is copied from (first row with that destination). -/
def srcOf : FieldMap → Nat → Option Nat
  | [], _ => none
  | (s, d) :: t, x => if d == x then some s else srcOf t x

/-- apply a converter: every destination leaf with a row gets its source's value; others get `none`. -/
def convert {α : Type} (m : FieldMap) (r : Rec α) : Rec α :=
  fun d => (srcOf m d).bind r

def mem (m : FieldMap) (s d : Nat) : Bool := m.any (fun p => p.1 == s && p.2 == d)

/-- `b` undoes `a` row by row: every copy `src → dst` of `a` is matched by a copy `dst → src` of `b`. -/
def backBy (a b : FieldMap) : Bool := a.all (fun p => mem b p.2 p.1)

/-- no destination leaf is written from two different sources. -/
def dstFunctional (m : FieldMap) : Bool :=
  m.all (fun p => m.all (fun q => !(q.2 == p.2) || q.1 == p.1))

/-- the table-level property: the two converters of a pair are mutually inverse copy maps. -/
def roundtripOK (toPriv toPub : FieldMap) : Bool :=
  backBy toPriv toPub && backBy toPub toPriv && dstFunctional toPriv && dstFunctional toPub

/-- leaves that have a counterpart through `a` (as sources). -/
def hasCounterpart (a : FieldMap) (s : Nat) : Bool := a.any (fun p => p.1 == s)

/-- the leaves of one side that have a counterpart in *either* direction: sources of `a` and
destinations of `b` (what the monitor quantifies over). -/
def counterpartLeaves (a b : FieldMap) : List Nat := (a.map (·.1)) ++ (b.map (·.2))

end Convert
