import UtlsVerif.Convert
/-! # ConvertLemmas — a pair of mutually inverse copy maps round-trips every record. -/
namespace Convert

theorem mem_iff (m : FieldMap) (s d : Nat) : mem m s d = true ↔ (s, d) ∈ m := by
  simp only [mem, List.any_eq_true, Bool.and_eq_true, beq_iff_eq]
  constructor
  · rintro ⟨⟨a, b⟩, hm, h1, h2⟩
    simp only at h1 h2
    subst h1; subst h2; exact hm
  · intro h; exact ⟨(s, d), h, rfl, rfl⟩

theorem srcOf_mem (m : FieldMap) (x s : Nat) (h : srcOf m x = some s) : (s, x) ∈ m := by
  induction m with
  | nil => simp [srcOf] at h
  | cons p t ih =>
    obtain ⟨s', d'⟩ := p
    by_cases hd : (d' == x) = true
    · simp only [srcOf, hd, if_true, Option.some.injEq] at h
      have : d' = x := by simpa using hd
      subst this; subst h
      exact List.mem_cons_self
    · have hd' : (d' == x) = false := by simpa using hd
      simp only [srcOf, hd'] at h
      exact List.mem_cons_of_mem _ (ih h)

theorem srcOf_isSome_of_mem (m : FieldMap) (x s : Nat) (h : (s, x) ∈ m) : ∃ s', srcOf m x = some s' := by
  induction m with
  | nil => cases h
  | cons p t ih =>
    obtain ⟨s', d'⟩ := p
    by_cases hd : (d' == x) = true
    · exact ⟨s', by simp [srcOf, hd]⟩
    · have hd' : (d' == x) = false := by simpa using hd
      cases h with
      | head => simp at hd
      | tail _ ht =>
        obtain ⟨s'', hs''⟩ := ih ht
        exact ⟨s'', by simp only [srcOf, hd']; exact hs''⟩

theorem dstFunctional_spec (m : FieldMap) (h : dstFunctional m = true) :
    ∀ p ∈ m, ∀ q ∈ m, q.2 = p.2 → q.1 = p.1 := by
  intro p hp q hq he
  have h1 := (List.all_eq_true.mp h) p hp
  have h2 := (List.all_eq_true.mp h1) q hq
  simp only [Bool.or_eq_true, Bool.not_eq_true', beq_eq_false_iff_ne, ne_eq, beq_iff_eq] at h2
  rcases h2 with h2 | h2
  · exact absurd he h2
  · exact h2

theorem backBy_spec (a b : FieldMap) (h : backBy a b = true) : ∀ p ∈ a, (p.2, p.1) ∈ b := by
  intro p hp
  exact (mem_iff b p.2 p.1).mp ((List.all_eq_true.mp h) p hp)

/-- **there and back.** If `b` undoes `a` and `a` undoes `b` row by row and `a` never writes a leaf
from two sources, then converting any record with `a` and back with `b` restores every source leaf
that has a counterpart — for all values of all leaves. -/
theorem convert_roundtrip {α : Type} (a b : FieldMap)
    (ha : dstFunctional a = true) (hab : backBy a b = true) (hba : backBy b a = true)
    (r : Rec α) (s : Nat) (hs : hasCounterpart a s = true) :
    convert b (convert a r) s = r s := by
  simp only [hasCounterpart, List.any_eq_true, beq_iff_eq] at hs
  obtain ⟨⟨s0, d⟩, hmem, hs0⟩ := hs
  simp only at hs0
  subst hs0
  -- b has a row into s0
  have hb : (d, s0) ∈ b := backBy_spec a b hab (s0, d) hmem
  obtain ⟨d', hd'⟩ := srcOf_isSome_of_mem b s0 d hb
  have hb' : (d', s0) ∈ b := srcOf_mem b s0 d' hd'
  -- hence a has the row s0 → d'
  have ha' : (s0, d') ∈ a := backBy_spec b a hba (d', s0) hb'
  obtain ⟨s'', hs''⟩ := srcOf_isSome_of_mem a d' s0 ha'
  have hmem'' : (s'', d') ∈ a := srcOf_mem a d' s'' hs''
  have : s'' = s0 := dstFunctional_spec a ha (s0, d') ha' (s'', d') hmem'' rfl
  subst this
  simp [convert, hd', hs'']

/-- the same from the single decidable table predicate. -/
theorem convert_roundtrip_of_ok {α : Type} (toPriv toPub : FieldMap) (h : roundtripOK toPriv toPub = true)
    (r : Rec α) :
    (∀ s, hasCounterpart toPriv s = true → convert toPub (convert toPriv r) s = r s) ∧
    (∀ s, hasCounterpart toPub s = true → convert toPriv (convert toPub r) s = r s) := by
  simp only [roundtripOK, Bool.and_eq_true] at h
  obtain ⟨⟨⟨h1, h2⟩, h3⟩, h4⟩ := h
  exact ⟨fun s hs => convert_roundtrip toPriv toPub h3 h1 h2 r s hs,
         fun s hs => convert_roundtrip toPub toPriv h4 h2 h1 r s hs⟩

/-- with mutually inverse maps "has a counterpart in either direction" is "is a source of `a`". -/
theorem counterpart_either (a b : FieldMap) (hba : backBy b a = true) (s : Nat)
    (h : s ∈ counterpartLeaves a b) : hasCounterpart a s = true := by
  simp only [counterpartLeaves, List.mem_append, List.mem_map] at h
  simp only [hasCounterpart, List.any_eq_true, beq_iff_eq]
  rcases h with ⟨p, hp, rfl⟩ | ⟨p, hp, rfl⟩
  · exact ⟨p, hp, rfl⟩
  · exact ⟨(p.2, p.1), backBy_spec b a hba p hp, rfl⟩

end Convert
