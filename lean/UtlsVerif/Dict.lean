/-!
# Dict — association tables as dumped from `dicttls` (C32), name packing, consistency predicate.

A Go `map[K]V` dumped by ranging over it is a list of `(key, value)` rows with pairwise distinct
keys; `lookup` (first match) is then the map lookup.  Names travel as natural numbers
(`packName` of their UTF-8 bytes) because kernel evaluation over `String` literals is far slower.
Core Lean only.
-/
namespace Dict

abbrev Table := List (Nat × Nat)

/-- the map lookup `m[k]` on the dumped rows (`none` = the `ok == false` outcome). -/
def lookup : Table → Nat → Option Nat
  | [], _ => none
  | (k', v) :: t, k => if k' == k then some v else lookup t k

/-- one row `(value, name)` of a value-indexed table resolves back through the name-indexed table. -/
def rowOk (ntab : Table) (r : Nat × Nat) : Bool := lookup ntab r.2 == some r.1

/-- the property clause: every row of the value-indexed table resolves back to the same value. -/
def consistent (vtab ntab : Table) : Bool := vtab.all (rowOk ntab)

/-- the rows that violate `rowOk` (what the check reports when `consistent` is false). -/
def badRows (vtab ntab : Table) : Table := vtab.filter (fun r => !rowOk ntab r)

/-- keys strictly increasing (what the generator emits): implies the keys are pairwise distinct, so
first-match `lookup` is the Go map lookup whatever the iteration order was. -/
def strictSorted : Table → Bool
  | [] => true
  | [_] => true
  | a :: b :: t => a.1 < b.1 && strictSorted (b :: t)

/-- pack the UTF-8 bytes of a name into a natural number: base-256 digits below a leading 1. -/
def packFrom (acc : Nat) : List UInt8 → Nat
  | [] => acc
  | b :: t => packFrom (acc * 256 + b.toNat) t

def packName (bs : List UInt8) : Nat := packFrom 1 bs

def packStr (s : String) : Nat := packName s.toUTF8.toList

/-- the packed name `"GREASE"` (the JSON format's spelling of a GREASE placeholder). -/
def greaseName : Nat := 0x01475245415345

/-- `isGREASEUint16`: both bytes equal and low nibble 0xa. -/
def isGrease (v : Nat) : Bool := (v / 256 == v % 256) && (v % 16 == 10)

/-- `GREASE_PLACEHOLDER`. -/
def greasePlaceholder : Nat := 0x0a0a

/-- `unGREASEUint16`. -/
def unGrease (v : Nat) : Nat := if isGrease v then greasePlaceholder else v

/-! ### alias names

A name-indexed row whose name is not the canonical (value-indexed) name of its value is an *alias*.
`dict_consistent` says nothing about such names (it quantifies over the value-indexed rows), so the
"intended code point" of an alias needs an oracle of its own: this **hand-written** table, taken from the
registries the `dicttls` sources cite — not from the maps.  Rows: (packed table name, packed alias name,
code point).  Keep it small and explicit; a new alias in the package must be added here after checking
the registry (until then the check reports it, see `Drv.C32`). -/

def tExtType : Nat := 0x0145787454797065                                   -- "ExtType"
def tSignatureScheme : Nat := 0x015369676e6174757265536368656d65            -- "SignatureScheme"
def tAuthorizationDataFormat : Nat := 0x01417574686f72697a6174696f6e44617461466f726d6174  -- "AuthorizationDataFormat"

def expectedAliases : List (Nat × Nat × Nat) :=
  [ -- RFC 9345 / IANA ExtensionType 34 "delegated_credential" (dicttls keeps the plural as canonical name)
    (tExtType, 0x0164656c6567617465645f63726564656e7469616c, 34),
    -- IANA TLS SignatureScheme 0x0202 "Reserved for backward compatibility" (dsa_sha1 of TLS 1.2)
    (tSignatureScheme, 0x01526573657276656420666f72206261636b7761726420636f6d7061746962696c697479, 0x0202),
    -- dicttls/authorization_data_formats.go: "Unassigned": 0 — the registry has no single code point for
    -- it; pinned to what the code documents so that a change is noticed
    (tAuthorizationDataFormat, 0x01556e61737369676e6564, 0) ]

/-- the expected code point of alias `name` of table `tab` (`none`: not an expected alias). -/
def expectedAlias : List (Nat × Nat × Nat) → Nat → Nat → Option Nat
  | [], _, _ => none
  | (t, n, v) :: rest, tab, name => if t == tab && n == name then some v else expectedAlias rest tab name

/-- every regenerated alias row is an expected alias with the expected code point. -/
def aliasesOk (regenerated : List (Nat × Nat × Nat)) : Bool :=
  regenerated.all fun r => expectedAlias expectedAliases r.1 r.2.1 == some r.2.2

end Dict
