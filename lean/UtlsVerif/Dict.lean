/-!
# Dict — association tables as dumped from `dicttls` (C32), name packing, consistency predicate.

A Go `map[K]V` dumped by ranging over it is a list of `(key, value)` rows with pairwise distinct
keys; `lookup` (first match) is then the map lookup.  Names travel as natural numbers
(`packName` of their UTF-8 bytes) because kernel evaluation over `String` literals is far slower.
Core Lean only.
-/
namespace Dict

abbrev Table := List (Nat × Nat)

/-- the map lookup `m[k]` on the dumped rows (`none` = the `ok == false` outcome). -/
def lookup : Table → Nat → Option Nat
  | [], _ => none
  | (k', v) :: t, k => if k' == k then some v else lookup t k

/-- one row `(value, name)` of a value-indexed table resolves back through the name-indexed table. -/
def rowOk (ntab : Table) (r : Nat × Nat) : Bool := lookup ntab r.2 == some r.1

/-- the property clause: every row of the value-indexed table resolves back to the same value. -/
def consistent (vtab ntab : Table) : Bool := vtab.all (rowOk ntab)

/-- the rows that violate `rowOk` (what the check reports when `consistent` is false). -/
def badRows (vtab ntab : Table) : Table := vtab.filter (fun r => !rowOk ntab r)

/-- keys strictly increasing (what the generator emits): implies the keys are pairwise distinct, so
first-match `lookup` is the Go map lookup whatever the iteration order was. -/
def strictSorted : Table → Bool
  | [] => true
  | [_] => true
  | a :: b :: t => a.1 < b.1 && strictSorted (b :: t)

/-- pack the UTF-8 bytes of a name into a natural number: base-256 digits below a leading 1. -/
def packFrom (acc : Nat) : List UInt8 → Nat
  | [] => acc
  | b :: t => packFrom (acc * 256 + b.toNat) t

def packName (bs : List UInt8) : Nat := packFrom 1 bs

def packStr (s : String) : Nat := packName s.toUTF8.toList

/-- the packed name `"GREASE"` (the JSON format's spelling of a GREASE placeholder). -/
def greaseName : Nat := 0x01475245415345

/-- `isGREASEUint16`: both bytes equal and low nibble 0xa. -/
def isGrease (v : Nat) : Bool := (v / 256 == v % 256) && (v % 16 == 10)

/-- `GREASE_PLACEHOLDER`. -/
def greasePlaceholder : Nat := 0x0a0a

/-- `unGREASEUint16`. -/
def unGrease (v : Nat) : Nat := if isGrease v then greasePlaceholder else v

end Dict
