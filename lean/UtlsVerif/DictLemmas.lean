import UtlsVerif.Dict
/-!
# DictLemmas — general lemmas about dumped association tables (used by Props/C32).

* `mergeOk` is a *linear* checker for `consistent` when the value-indexed rows are emitted sorted by
  packed name and the name-indexed rows sorted by key: one pass over both lists.  `mergeOk_sound`
  proves that it implies the row-by-row statement (`lookup ntab name = some value` for every row),
  so the kernel only has to evaluate the linear pass over the regenerated tables.
* `strictSorted` tables have pairwise distinct keys and `lookup` finds every row (map semantics).
* `packName` is injective.
-/
namespace Dict

/-- drop the leading rows whose key is below `nm`. -/
def advance : Table → Nat → Table
  | [], _ => []
  | (k, v) :: t, nm => if Nat.blt k nm then advance t nm else (k, v) :: t

/-- linear consistency pass: `vt` rows `(value, name)` sorted by name (checked on the fly through
`prev`), `nt` rows `(name, value)`; every `vt` row must meet, after skipping smaller keys, an `nt`
row with the same name and the same value. -/
def mergeOk : Nat → Table → Table → Bool
  | _, [], _ => true
  | prev, (v, nm) :: vt, nt =>
    Nat.ble prev nm &&
      match advance nt nm with
      | (k, v') :: rest => Nat.beq k nm && Nat.beq v' v && mergeOk nm vt ((k, v') :: rest)
      | [] => false

theorem lookup_append_of_lt (pre nt : Table) (nm : Nat) (h : ∀ r ∈ pre, r.1 < nm) :
    lookup (pre ++ nt) nm = lookup nt nm := by
  induction pre with
  | nil => rfl
  | cons a t ih =>
    obtain ⟨k, v⟩ := a
    have hk : k < nm := h (k, v) List.mem_cons_self
    have hne : (k == nm) = false := by
      simp only [beq_eq_false_iff_ne, ne_eq]; omega
    simp only [List.cons_append, lookup, hne]
    exact ih (fun r hr => h r (List.mem_cons_of_mem _ hr))

theorem advance_spec (nt : Table) (nm : Nat) :
    ∃ pre, nt = pre ++ advance nt nm ∧ ∀ r ∈ pre, r.1 < nm := by
  induction nt with
  | nil => exact ⟨[], rfl, by simp⟩
  | cons a t ih =>
    obtain ⟨k, v⟩ := a
    by_cases hk : Nat.blt k nm = true
    · obtain ⟨pre, hpre, hlt⟩ := ih
      refine ⟨(k, v) :: pre, ?_, ?_⟩
      · simp only [advance, hk, if_true, List.cons_append]
        exact congrArg _ hpre
      · intro r hr
        cases hr with
        | head => simpa [Nat.blt_eq] using hk
        | tail _ h => exact hlt r h
    · refine ⟨[], ?_, by simp⟩
      simp [advance, hk]

theorem mergeOk_sound : ∀ (vt : Table) (prev : Nat) (pre nt : Table),
    (∀ r ∈ pre, r.1 < prev) → mergeOk prev vt nt = true →
    ∀ x ∈ vt, lookup (pre ++ nt) x.2 = some x.1 := by
  intro vt
  induction vt with
  | nil => intro _ _ _ _ _ x hx; cases hx
  | cons a vt ih =>
    obtain ⟨v, nm⟩ := a
    intro prev pre nt hpre hm x hx
    simp only [mergeOk, Bool.and_eq_true] at hm
    obtain ⟨hle, hrest⟩ := hm
    have hle : prev ≤ nm := by simpa [Nat.ble_eq] using hle
    obtain ⟨d, hd, hdlt⟩ := advance_spec nt nm
    cases hadv : advance nt nm with
    | nil => rw [hadv] at hrest; cases hrest
    | cons b rest =>
      obtain ⟨k, v'⟩ := b
      rw [hadv] at hrest hd
      simp only [Bool.and_eq_true] at hrest
      obtain ⟨⟨hk, hv⟩, hrec⟩ := hrest
      have hk : k = nm := Nat.eq_of_beq_eq_true hk
      have hv : v' = v := Nat.eq_of_beq_eq_true hv
      subst hk; subst hv
      have hpre' : ∀ r ∈ pre ++ d, r.1 < k := by
        intro r hr
        rcases List.mem_append.mp hr with h | h
        · exact Nat.lt_of_lt_of_le (hpre r h) hle
        · exact hdlt r h
      have hrw : pre ++ nt = (pre ++ d) ++ (k, v') :: rest := by
        rw [hd, List.append_assoc]
      cases hx with
      | head =>
        rw [hrw, lookup_append_of_lt _ _ _ hpre']
        simp [lookup]
      | tail _ hx' =>
        rw [hrw]
        exact ih k (pre ++ d) ((k, v') :: rest) hpre' hrec x hx'

/-- what the kernel evaluates per table pair (linear). -/
def certOk (vtab ntab : Table) : Bool := mergeOk 0 vtab ntab

theorem rows_of_certOk (vtab ntab : Table) (h : certOk vtab ntab = true) :
    ∀ r ∈ vtab, lookup ntab r.2 = some r.1 := by
  have := mergeOk_sound vtab 0 [] ntab (by simp) h
  simpa using this

theorem consistent_of_certOk (vtab ntab : Table) (h : certOk vtab ntab = true) :
    consistent vtab ntab = true := by
  simp only [consistent, List.all_eq_true, rowOk, beq_iff_eq]
  exact rows_of_certOk vtab ntab h

theorem rows_of_consistent (vtab ntab : Table) (h : consistent vtab ntab = true) :
    ∀ r ∈ vtab, lookup ntab r.2 = some r.1 := by
  simpa only [consistent, List.all_eq_true, rowOk, beq_iff_eq] using h

/-! ### strictly sorted keys: `lookup` is the map lookup -/

theorem strictSorted_tail {a : Nat × Nat} {t : Table} (h : strictSorted (a :: t) = true) :
    strictSorted t = true := by
  cases t with
  | nil => rfl
  | cons b t => simp only [strictSorted, Bool.and_eq_true] at h; exact h.2

theorem strictSorted_head_lt {a : Nat × Nat} {t : Table} (h : strictSorted (a :: t) = true) :
    ∀ r ∈ t, a.1 < r.1 := by
  induction t generalizing a with
  | nil => intro r hr; cases hr
  | cons b t ih =>
    simp only [strictSorted, Bool.and_eq_true, decide_eq_true_eq] at h
    intro r hr
    cases hr with
    | head => exact h.1
    | tail _ hr' => exact Nat.lt_trans h.1 (ih h.2 r hr')

/-- in a table with strictly increasing keys every row is what `lookup` returns for its key. -/
theorem lookup_of_mem_strictSorted (t : Table) (h : strictSorted t = true) :
    ∀ r ∈ t, lookup t r.1 = some r.2 := by
  induction t with
  | nil => intro r hr; cases hr
  | cons a t ih =>
    obtain ⟨k, v⟩ := a
    intro r hr
    cases hr with
    | head => simp [lookup]
    | tail _ hr' =>
      have hlt : k < r.1 := strictSorted_head_lt h r hr'
      have hne : (k == r.1) = false := by
        simp only [beq_eq_false_iff_ne, ne_eq]; omega
      simp only [lookup, hne]
      exact ih (strictSorted_tail h) r hr'

/-- a successful lookup returns a row of the table. -/
theorem mem_of_lookup (t : Table) (k v : Nat) (h : lookup t k = some v) : (k, v) ∈ t := by
  induction t with
  | nil => simp [lookup] at h
  | cons a t ih =>
    obtain ⟨k', v'⟩ := a
    by_cases hk : (k' == k) = true
    · simp only [lookup, hk, if_true, Option.some.injEq] at h
      have : k' = k := by simpa using hk
      subst this; subst h
      exact List.mem_cons_self
    · have hk' : (k' == k) = false := by simpa using hk
      simp only [lookup, hk'] at h
      exact List.mem_cons_of_mem _ (ih h)

/-! ### name packing is injective -/

/-- the same packing read from the last byte: `[] ↦ acc`, `b :: t ↦ pack t * 256 + b`. -/
def packRevFrom (acc : Nat) : List UInt8 → Nat
  | [] => acc
  | b :: t => packRevFrom acc t * 256 + b.toNat

theorem packRevFrom_snoc (acc : Nat) (l : List UInt8) (b : UInt8) :
    packRevFrom acc (l ++ [b]) = packRevFrom (acc * 256 + b.toNat) l := by
  induction l with
  | nil => rfl
  | cons x l ih => simp [packRevFrom, ih]

theorem packFrom_eq_rev (acc : Nat) (bs : List UInt8) :
    packFrom acc bs = packRevFrom acc bs.reverse := by
  induction bs generalizing acc with
  | nil => rfl
  | cons b t ih => rw [List.reverse_cons, packRevFrom_snoc, packFrom, ih]

theorem packRevFrom_pos (l : List UInt8) : 0 < packRevFrom 1 l := by
  induction l with
  | nil => simp [packRevFrom]
  | cons b t ih => simp only [packRevFrom]; omega

theorem packRevFrom_injective : ∀ a b : List UInt8, packRevFrom 1 a = packRevFrom 1 b → a = b := by
  intro a
  induction a with
  | nil =>
    intro b h
    cases b with
    | nil => rfl
    | cons y u =>
      have := packRevFrom_pos u
      simp only [packRevFrom] at h
      omega
  | cons x t ih =>
    intro b h
    cases b with
    | nil =>
      have := packRevFrom_pos t
      simp only [packRevFrom] at h
      omega
    | cons y u =>
      simp only [packRevFrom] at h
      have hx : x.toNat < 256 := x.toNat_lt
      have hy : y.toNat < 256 := y.toNat_lt
      have h1 : packRevFrom 1 t = packRevFrom 1 u := by omega
      have h2 : x.toNat = y.toNat := by omega
      have : x = y := UInt8.toNat_inj.mp h2
      rw [ih u h1, this]

/-- distinct names have distinct packed representations (the `Nat` keys of `Gen.Dict` lose nothing). -/
theorem packName_injective (a b : List UInt8) (h : packName a = packName b) : a = b := by
  unfold packName at h
  rw [packFrom_eq_rev, packFrom_eq_rev] at h
  exact List.reverse_inj.mp (packRevFrom_injective _ _ h)

end Dict
