import UtlsVerif.Line
import UtlsVerif.BuildSM
import UtlsVerif.Drv.C02
/-! Driver side of C01: the model `BuildSM` is started from the post-build state the harness reports,
runs the effective edit list, and must predict both recorded ClientHellos and the final `Hello.Raw`
byte for byte; monitors on the implementation's output: first ClientHello = `Raw` at the first write,
every edit visible in the strictly parsed first hello, `Raw` afterwards = the last ClientHello sent. -/
namespace Drv.C01
open Wire Ext Ext.Ext Line Hello BuildSM

def splitFirst (s : String) (sep : String) : String × String :=
  match s.splitOn sep with
  | [] => ("", "")
  | a :: r => (a, sep.intercalate r)

def parseOp (t : String) : Option Op :=
  let (k, rest) := splitFirst t ":"
  if k == "R" then (unhex rest).map .setClientRandom
  else if k == "N" then (unhex rest).map .setSNI
  else if k == "E" then
    let (i, d) := splitFirst rest ":"
    do pure (.editExt (← i.toNat?) (← Drv.C02.parseExtDesc d))
  else if k == "I" then
    let (i, d) := splitFirst rest ":"
    do pure (.insertExt (← i.toNat?) (← Drv.C02.parseExtDesc d))
  else if k == "X" then rest.toNat?.map .removeExt
  else if k == "C" then ((listOf rest).mapM String.toNat?).map .setCipherSuites
  else if k == "S" then (unhex rest).map .setSessionId
  else if k == "B" then some .build
  else none

def parseOps (s : String) : Option (List Op) :=
  if s = "-" ∨ s = "" then some [] else (s.splitOn ";").mapM parseOp

def optHex (c : Case) (k : String) : Option (Option Bytes) :=
  match c.output.get k with
  | none => none
  | some "-" => some none
  | some h => (unhex h).map some

def lastSome {α : Type} (l : List (Option α)) : Option α := l.foldl (fun acc x => x.orElse fun _ => acc) none

def opTag : Op → String
  | .setClientRandom _ => "R" | .setSNI _ => "N" | .editExt _ _ => "E" | .insertExt _ _ => "I"
  | .removeExt _ => "X" | .setCipherSuites _ => "C" | .setSessionId _ => "S" | .build => "B"

/-- the extension list as `MarshalClientHelloNoECH` reads it (padding updated). -/
def updatedExts (st : St) : List Ext := st.exts.map (updatePad st.pol (unpaddedLen st.f st.exts))

def buildSM (c : Case) : Verdict :=
  match c.output.get "err", c.output.get "out" with
  | some e, _ => .ok s!"pre-error,{((e.drop 4).toString.splitOn "_").headD "?"}"
  | none, some o => .bad s!"implementation outcome: {o}"
  | none, none =>
    match optHex c "raw0", optHex c "rawstart", optHex c "w1", optHex c "w2", optHex c "rawafter", (c.output.get "eops").bind parseOps with
    | some raw0, some rawstart, some w1, some w2, some rawafter, some ops =>
      let srv := c.output.getD "srveff" "plain"
      let cerr := c.output.getD "cerr" "?"
      let lenTag := if ops.length = 0 then "ops=0" else if ops.length ≤ 2 then "ops=1-2" else if ops.length ≤ 5 then "ops=3-5" else "ops=6-8"
      if c.output.get "golang" == some "1" then
        -- the stated exclusion: Raw stays empty, before and after
        let cfg : Cfg := { golang := true, preset := none, goWire1 := w1.getD [], goWire2 := w2.getD [] }
        let st0 : St := { status := .notBuilt, f := { vers := 0, random := [], sessionId := [], cipherSuites := [], compressionMethods := [] }, pol := .none, exts := [], raw := [] }
        let o := handshake cfg (run cfg (build cfg st0).1 ops) (if srv == "plain" then .plain else .hrr 0 [] [] 0)
        if raw0 == none && rawstart == none && rawafter == none && o.final.raw == [] && w1.isSome then .ok s!"golang,{srv},{lenTag}"
        else .diff s!"golang,{srv}" "Raw is empty before and after the handshake"
      else
      if let some mode := c.output.get "echmode" then
        -- Encrypted Client Hello: the marshalling of the outer hello (HPKE) is outside this model, but both
        -- sentences of the property speak about the bytes on the wire, whatever produced them: the first
        -- record is Raw as rebuilt at handshake start, and Raw afterwards is the last (outer) hello sent.
        let tag := s!"ech-{mode},{if c.output.get "echacc" == some "1" then "accepted" else "not-accepted"},{if w2.isSome then "two-hellos" else if w1.isSome then "one-hello" else "no-hello"},{lenTag}"
        match w1 with
        | none => .ok tag
        | some w =>
          if rawstart ≠ some w then .propFail tag "first-record-is-not-raw-at-handshake-start"
          else if rawafter ≠ (w2.orElse fun _ => some w) then .propFail tag "raw-after-handshake-is-not-the-last-hello-sent"
          else if (parseCH w).isNone then .propFail tag "first-hello-does-not-parse"
          else .ok tag
      else
      match Drv.C02.parseState c with
      | none => .bad "unparsable state"
      | some s0 =>
        let st0 : St := { status := .byUtls, f := s0.f, pol := s0.pol, exts := s0.xs, raw := raw0.getD [] }
        let cfg : Cfg := { golang := false, preset := none }
        let resp : Option Resp :=
          if srv == "plain" then some .plain
          else do
            let g ← c.output.nat "g"
            let fresh ← optHex c "fresh"
            let ck ← optHex c "ck"
            let idx := ((c.output.getD "idx" "-1").toNat?).getD 0
            pure (.hrr g (fresh.getD []) (ck.getD []) idx)
        match resp with
        | none => .bad "unparsable HelloRetryRequest material"
        | some resp =>
          let fin := run cfg st0 ops
          let o := handshake cfg fin resp
          let kinds := String.join ((ops.map opTag).eraseDups)
          let tag := s!"{srv},{lenTag},{if kinds.isEmpty then "-" else kinds},{if w2.isSome then "two-hellos" else if w1.isSome then "one-hello" else "no-hello"},{if cerr == "ok" then "done" else "hs-failed"}"
          -- ---- monitors on the implementation's output ----
          let mon : Option String :=
            match w1 with
            | none => none
            | some w =>
              if rawstart ≠ some w then some "first-record-is-not-raw-at-handshake-start"
              else if rawafter ≠ (w2.orElse fun _ => some w) then some "raw-after-handshake-is-not-the-last-hello-sent"
              else if !(fieldsOK fin.f && fin.exts.all extOKb) then none
              else
                match parseCH w with
                | none => some "first-hello-does-not-parse"
                | some p =>
                  let lastR := lastSome (ops.map fun | .setClientRandom r => (if r.length = 32 then some r else none) | _ => none)
                  let lastC := lastSome (ops.map fun | .setCipherSuites x => some x | _ => none)
                  let lastS := lastSome (ops.map fun | .setSessionId x => some x | _ => none)
                  if lastR.isSome ∧ lastR ≠ some p.random then some "edit-not-visible:client-random"
                  else if lastC.isSome ∧ lastC ≠ some p.suites then some "edit-not-visible:cipher-suites"
                  else if lastS.isSome ∧ lastS ≠ some p.sessionId then some "edit-not-visible:session-id"
                  else
                    -- the extension sequence on the wire is the edited list (types, in order)
                    let want := ((updatedExts fin).filter emits).map fun e => (typeId e, body e)
                    if p.extList.map (·.1) ≠ want.map (·.1) then some "edit-not-visible:extension-sequence"
                    else
                      -- the last extension edit / insertion and the last SetSNI, at their parsed positions
                      let extOps := ops.filter fun | .editExt .. => true | .insertExt .. => true | .removeExt _ => true | .setSNI _ => true | _ => false
                      match extOps.getLast? with
                      | some (.editExt i e) | some (.insertExt i e) =>
                        if i < fin.exts.length ∧ emits e then
                          let k := (((updatedExts fin).take i).filter emits).length
                          if p.extList[k]? ≠ some (typeId e, body e) then some "edit-not-visible:extension-body" else none
                        else none
                      | some (.setSNI s) =>
                        if fin.exts.any (fun e => typeId e == 0) then
                          if (p.extList.find? (·.1 == 0)).map (·.2) ≠ Drv.C02.expectedSniBody s then some "edit-not-visible:sni" else none
                        else none
                      | _ => none
          match mon with
          | some cl => .propFail tag cl
          | none =>
            -- the client may refuse a HelloRetryRequest (acceptance checks are C17's) or time out before
            -- answering it: then only the first hello is predicted, and Raw must still be that hello
            let aborted := srv != "plain" && w2.isNone && cerr != "ok"
            if aborted then
              if o.wire1 == w1 && rawafter == w1 then .ok (tag ++ ",hrr-not-answered") else .diff tag "wire1 or raw-after differs (HelloRetryRequest not answered)"
            else
            if o.wire1 == w1 && o.wire2 == w2 && (w1.isNone || some o.final.raw == rawafter) then .ok tag
            else
              let what := if o.wire1 != w1 then "wire1" else if o.wire2 != w2 then "wire2" else "raw-after"
              .diff tag s!"{what} differs; model: wire1={o.wire1.map (·.length)} wire2={o.wire2.map (·.length)} raw={o.final.raw.length}"
    | _, _, _, _, _, _ => .bad "unparsable line"

def families : List (String × (Case → Verdict)) := [("build_sm", buildSM)]

end Drv.C01
