import UtlsVerif.Line
import UtlsVerif.Hello
import UtlsVerif.Drv.C08
/-! Driver side of C02 (shared with C05): the state `MarshalClientHelloNoECH` works from is read from
the line, the model predicts `Hello.Raw` / the error class, and the strict parser + validity
predicate run on the implementation's bytes. -/
namespace Drv.C02
open Wire Ext Ext.Ext Line Hello

/-- extension descriptions: those of C08 plus raw transport parameters and zero-filled generics. -/
def parseExtDesc (d : String) : Option Ext :=
  match d.splitOn "|" with
  | ["quic_raw", h] => (unhex h).map quicTP
  | ["zeros", id, n] => do pure (generic (← id.toNat?) (List.replicate (← n.toNat?) 0))
  | _ => Drv.C08.parseDesc d

def parseExts (s : String) : Option (List Ext) :=
  if s = "-" ∨ s = "" then some [] else (s.splitOn ";").mapM parseExtDesc

def parsePol (s : String) : Option PadPolicy :=
  if s = "none" then some .none
  else if s = "boring" then some .boring
  else match s.splitOn ":" with
    | ["padto", n] => n.toNat?.map .padTo
    | _ => none

structure St where
  f : HelloFields
  pol : PadPolicy
  xs : List Ext

/-- state tokens: the implementation's report (output side) wins over the generated input. -/
def getTok (c : Case) (k : String) : Option String :=
  match c.output.get k with
  | some v => some v
  | none => c.input.get k

def parseState (c : Case) : Option St := do
  let vers ← (getTok c "vers").bind String.toNat?
  let random ← (getTok c "random").bind unhex
  let sid ← (getTok c "sid").bind unhex
  let suites ← (getTok c "suites").bind fun s => (listOf s).mapM String.toNat?
  let comp ← (getTok c "comp").bind unhex
  let xs ← (getTok c "exts").bind parseExts
  let pol ← (getTok c "pol").bind parsePol
  pure { f := { vers := vers, random := random, sessionId := sid, cipherSuites := suites, compressionMethods := comp },
         pol := pol, xs := xs }

def errStr : MErr → String
  | .multiplePadding => "multiple-padding"
  | .extsTooLong => "exts-too-long"
  | .helloTooLong => "hello-too-long"
  | .short => "short"
  | .ext c => "ext:" ++ c
  | .length => "length"
  | .directLarge => "any"

def resStr : MRes → String
  | .ok bs => "raw=" ++ hex bs
  | .err e => "err=" ++ errStr e

/-- the implementation's outcome as reported on the line. -/
inductive Impl where
  | raw (bs : Bytes)
  | err (cls : String)
  | pre (cls : String)      -- failed before MarshalClientHelloNoECH (ApplyPreset, session controller, …)
  | other (s : String)

def implOf (c : Case) : Impl :=
  match c.output.get "raw", c.output.get "err", c.output.get "out" with
  | some r, _, _ => match unhex r with
      | some bs => .raw bs
      | none => .other "unparsable-raw"
  | none, some e, _ => if e.startsWith "pre:" then .pre (e.drop 4).toString else .err e
  | none, none, some o =>
    -- the session controller asserts (panics) on specs it considers API misuse, before anything is marshalled
    if o == "panic" && ((c.output.getD "msg" "").startsWith "tls:_checkSessionExts_failed") then .pre "panic-checkSessionExts"
    else .other o
  | none, none, none => .other "no-outcome"

/-- model and implementation agree? -/
def agrees (m : MRes) (i : Impl) : Bool :=
  match m, i with
  | .ok bs, .raw bs' => bs == bs'
  | .err .directLarge, .err _ => true
  | .err e, .err cls => errStr e == cls
  | _, _ => false

def sniClass (name : Bytes) : String :=
  if name.isEmpty then "sni-empty"
  else if Sni.isIP (Sni.hostPart name) then "sni-ip"
  else if (Sni.stripTrailingDots name).isEmpty then "sni-dots"
  else if name.getLast? = some 46 then "sni-trailing-dot"
  else if name.length > 255 then "sni-long"
  else "sni-plain"

/-- RFC 6066 §3 / property text: no SNI for empty, IP-literal and all-dots names, trailing dots stripped. -/
def expectedSniBody (name : Bytes) : Option Bytes :=
  let h := Sni.hostnameInSNI name
  if h.isEmpty then none else some (u16 (h.length + 3) ++ [0] ++ u16 h.length ++ h)

def stateSni (xs : List Ext) : Option Bytes :=
  xs.findSome? fun e => match e with
    | sni n => some n
    | _ => none

def wireExt (p : ParsedCH) (t : Nat) : Option Bytes := (p.extList.find? (·.1 == t)).map (·.2)

def isGreaseExt : Ext → Bool
  | grease _ _ => true
  | _ => false

/-- "each extension type at most once, pre_shared_key last" judged on a spec **as given to
ApplyPreset**: GREASE extensions are placeholders (at most two, the code gives them different code
points), everything else has pairwise different non-GREASE types. -/
def inputShapeOK (xs : List Ext) : Bool :=
  let ng := xs.filter fun e => !isGreaseExt e
  distinctB (ng.map typeId) && (ng.all fun e => !isGreaseU16 (typeId e)) &&
  (xs.filter isGreaseExt).length ≤ 2 && pskLastB (xs.map typeId)

/-- is the case inside the property's quantifier? Field values are judged on the reported state; the
"each type once / PSK last" part is judged on the **input**: for parrots, fingerprinted, JSON and
resumed hellos the input is a library spec (always inside), for generated specs it is the spec handed
to ApplyPreset, and only for direct marshalling the state itself. A repeated type that the library
*produces* from a good spec (GREASE collision) is therefore a violation, not an excuse. -/
def gateOK (c : Case) (st : St) : Bool :=
  if c.family == "ch_marshal" || c.family == "pad_direct" || c.family == "ch_bound" then specOK st.f st.xs
  else
    fieldsOK st.f && st.xs.all extOKb &&
    match c.input.get "exts" with
    | some s => match parseExts s with
      | some xs => inputShapeOK xs
      | none => false
    | none => true

/-- monitors of C02 on the implementation's bytes (only for specs inside the property's quantifier). -/
def monitor (c : Case) (st : St) (raw : Bytes) : Option String :=
  if !gateOK c st then none else
  match parseCH raw with
  | none => some "length-prefix-mismatch-or-trailing-bytes"
  | some p =>
    match invalidClause p with
    | some cl => some cl
    | none =>
      -- SNI shape, from the name the connection was configured with
      let cfg := match c.input.get "sni2" with
        | some s => unhex s
        | none => (c.input.get "sni").bind unhex
      let specNamed := match c.input.get "exts" with   -- a generated spec may carry its own name
        | some s => !((s.splitOn ";").any (· == "sni|-"))
        | none => c.family == "ch_marshal" || c.family == "pad_direct"
      match stateSni st.xs with
      | none => none
      | some nm =>
        let want := if specNamed then nm else cfg.getD nm
        if wireExt p 0 ≠ expectedSniBody want then some "sni-shape" else none

def outcomeTag (i : Impl) : String :=
  match i with
  | .raw _ => "ok"
  | .err cls => "err:" ++ cls
  | .pre _ => "pre-error"
  | .other s => s

def shapeTag (st : St) : String :=
  let sn := match stateSni st.xs with
    | some n => sniClass n
    | none => "sni-none"
  let psk := if st.xs.any fun e => typeId e == 41 && emits e then ",psk" else ""
  let tick := if st.xs.any fun e => match e with | sessionTicket t => !t.isEmpty | _ => false then ",ticket" else ""
  let quic := if st.f.sessionId.isEmpty then ",nosid" else ""
  let ech := if st.xs.any fun e => typeId e == 65037 then ",ech" else ""
  let wf := if specOK st.f st.xs then "" else ",beyond-limits"
  let g2 := if (st.xs.filter isGreaseExt).length = 2 then ",grease2" else ""
  s!"n={if st.xs.length ≤ 3 then toString st.xs.length else if st.xs.length ≤ 12 then "4-12" else "13+"},{sn}{psk}{tick}{quic}{ech}{g2}{wf}"

/-- shared skeleton: `extra` = additional monitors on the implementation's bytes and additional tag. -/
def check (c : Case) (extra : St → Bytes → Option String) (xtag : St → Impl → String) : Verdict :=
  match implOf c with
  | .pre cls => .ok s!"pre-error,{(cls.splitOn "_").headD "?"}"
  | .other s =>
    -- a panic on a generated spec that is itself outside the property's quantifier (values beyond their
    -- limits / repeated types) and never reached the marshaller says nothing about C02
    let specBeyond := match (c.input.get "exts").bind parseExts with
      | some xs => !(xs.all extOKb && distinctB (xs.map typeId) && pskLastB (xs.map typeId))
      | none => false
    if s == "panic" && specBeyond then .ok "pre-error,panic-on-spec-beyond-limits"
    else .bad s!"implementation outcome: {s}"
  | impl =>
    match parseState c with
    | none => .bad "unparsable state"
    | some st =>
      let m := marshalNoECH st.f st.pol st.xs
      let tag := s!"{shapeTag st},{outcomeTag impl}{xtag st impl}"
      let mon := match impl with
        | .raw bs => (monitor c st bs).orElse fun _ => extra st bs
        | _ => none
      match mon with
      | some cl => .propFail tag cl
      | none =>
        if agrees m impl then .ok tag
        else
          let ms := resStr m
          .diff tag (if ms.length > 300 then (ms.take 300).toString ++ "…" else ms)

def ch (c : Case) : Verdict := check c (fun _ _ => none) (fun _ _ => "")

/-! ### both ClientHellos of a handshake with a HelloRetryRequest (`ch_hrr`) -/

/-- strict parse + validity of one hello on the wire. -/
def wireClause (raw : Bytes) : Option String :=
  match parseCH raw with
  | none => some "length-prefix-mismatch-or-trailing-bytes"
  | some p => invalidClause p

/-- `ch_hrr`: the input is a TLS 1.3 parrot or a generated spec within limits (each type once, no
cookie of its own); **both** hellos on the wire must be valid ClientHellos — in particular the second
one, re-marshalled after the cookie was inserted and the key share replaced, must not repeat a type.
The state after the handshake is what the second marshal read: the model must predict the second hello. -/
def chHrr (c : Case) : Verdict :=
  match implOf c with
  | .pre cls => .ok s!"pre-error,{(cls.splitOn "_").headD "?"}"
  | _ =>
    -- generated specs: shape judged on the spec handed to ApplyPreset (keys and names are filled in later),
    -- field values on the state reported after the handshake
    let inputOK := match c.input.get "exts" with
      | some s => match parseExts s with
        | some xs => inputShapeOK xs
        | none => false
      | none => true
    let kind := if (c.input.get "exts").isSome then "custom" else "parrot"
    let ck := match c.input.nat "ck" with
      | some 0 => "nocookie" | some n => if n ≥ 1000 then "cookie1000" else if n ≥ 32 then "cookie32+" else "cookie-small"
      | none => "?"
    let grp := if c.input.nat "g" == some 0 then "cookie-only" else "newgroup"
    match (c.output.get "ch1").bind unhex with
    | none => .bad "ch_hrr: no first hello"
    | some ch1 =>
      let ch2 := match c.output.get "ch2" with
        | some "-" => none
        | some h => unhex h
        | none => none
      let tag := s!"{kind},{ck},{grp},hellos={if ch2.isSome then 2 else 1},{c.output.getD "cerr" "?"}"
      if !inputOK then .ok (tag ++ ",input-beyond-limits") else
      match wireClause ch1 with
      | some cl => .propFail tag s!"{cl}@ch1"
      | none =>
        match ch2 with
        | none => .ok tag
        | some raw2 =>
          match parseState c with
          | none => .bad "ch_hrr: unparsable state"
          | some st =>
            if !(fieldsOK st.f && st.xs.all extOKb) then .ok (tag ++ ",state-beyond-limits") else
            match wireClause raw2 with
            | some cl => .propFail tag s!"{cl}@ch2"
            | none =>
              let m := marshalNoECH st.f st.pol st.xs
              if agrees m (.raw raw2) then .ok tag
              else
                let ms := resStr m
                .diff tag (if ms.length > 300 then (ms.take 300).toString ++ "…" else ms)

def families : List (String × (Case → Verdict)) :=
  [("ch_parrot", ch), ("ch_custom", ch), ("ch_marshal", ch), ("ch_fp", ch), ("ch_json", ch), ("ch_resume", ch),
   ("ch_bound", ch), ("ch_grease", ch), ("ch_hrr", chHrr)]

end Drv.C02
