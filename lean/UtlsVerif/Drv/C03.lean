import UtlsVerif.Line
import UtlsVerif.Preset
import UtlsVerif.Drv.C02
import UtlsVerif.Gen.Parrots
/-! Driver side of C03: the regenerated spec row of the id is rendered with the connection's material
through the reference encoder and compared with the strict parse of the implementation's ClientHello
bytes — exactly (tie), and modulo the per-connection fields (`shape`: the property's monitor). -/
namespace Drv.C03
open Wire Ext Ext.Ext Line Hello Preset

def packName (s : String) : Nat := s.toUTF8.foldl (fun a c => a * 256 + c.toNat) 0

def findRow (name : String) : Option Gen.Parrots.Row :=
  Gen.Parrots.rows.find? fun r => r.name == packName name

def parseSwaps (s : String) : Option (List (Nat × Nat)) :=
  (listOf s).mapM fun t => match t.splitOn ":" with
    | [a, c] => do pure ((← a.toNat?), (← c.toNat?))
    | _ => none

def seedsOf (g : Bytes) : Grease.Seeds := Grease.seedsOfBytes g

/-- the per-connection material reported on the output side of a line. -/
def materialOf (c : Case) (serverName : Bytes) (omitPsk : Bool) (sfx : String := "") : Option Material := do
  let g ← c.output.bytes "gseed"
  let random ← c.output.bytes ("random" ++ sfx)
  let sid ← c.output.bytes ("sid" ++ sfx)
  let keys ← (c.output.get "keys").bind Drv.C08.parseHexList
  let ticket ← match c.output.get "ticket" with
    | some t => (unhex t).map some
    | none => some none
  let pskE ← match c.output.get "psk" with
    | some d => (Drv.C08.parseDesc d).map some
    | none => some none
  let psk := match pskE with
    | some (Ext.Ext.psk f _ s ids b) => some (f, s, ids, b)
    | _ => none
  let ech ← match c.output.get "ech" with
    | some d => (Drv.C08.parseDesc ("ech|" ++ d)).map some
    | none => some none
  let (k, a, cid, enc, pl) := match ech with
    | some (greaseECH k a cid enc pl) => (k, a, cid, enc, pl)
    | _ => (0, 0, 0, [], [])
  pure { random := random, sessionId := sid, seeds := seedsOf g, serverName := serverName, keys := keys,
         omitEmptyPsk := omitPsk, echKdf := k, echAead := a, echCid := cid, echEnc := enc, echPayload := pl,
         ticket := ticket, psk := psk }

/-- types with GREASE values replaced by the placeholder. -/
def typesOf (p : ParsedCH) : List Nat := p.extList.map fun x => unGrease x.1

def isFixedType (t : Nat) : Bool := t == greasePlaceholder || t == 21 || t == 41

/-- the fixed-kind entries at their positions, everything else blanked. -/
def mask (ts : List Nat) : List (Option Nat) := ts.map fun t => if isFixedType t then some t else none

def count (x : Nat) (l : List Nat) : Nat := (l.filter (· == x)).length
def sameMultiset (a c : List Nat) : Bool := a.length == c.length && a.all fun x => count x a == count x c

/-- the monitor of C03: the implementation's bytes against the canonical row rendered with this
connection's material, modulo the per-connection fields. `want` = reference for the *canonical* order. -/
def monitor (row : Gen.Parrots.Row) (m : Material) (want got : ParsedCH) : Option String :=
  let ws := shape want
  let gs := shape got
  if got.vers ≠ want.vers then some "legacy-version-not-min(max,1.2)"
  else if gs.suites ≠ ws.suites then some "cipher-suites-differ-from-spec"
  else if got.comps ≠ want.comps then some "compression-methods-differ-from-spec"
  else if got.exts.isNone ≠ want.exts.isNone then some "extensions-block-presence"
  else
    let wt := typesOf want
    let gt := typesOf got
    let seqBad :=
      if row.shuffle then
        if !sameMultiset wt gt then some "shuffled:extension-multiset-differs-from-spec"
        else if mask wt ≠ mask gt then some "shuffled:grease-padding-psk-moved"
        else none
      else if wt ≠ gt then some "extension-sequence-differs-from-spec"
      else none
    match seqBad with
    | some cl => some cl
    | none =>
      -- bodies modulo the per-connection fields: position by position, or as a multiset of (type, body)
      -- pairs for a shuffled id (two GREASE extensions share the placeholder type)
      let cnt (l : List (Nat × Bytes)) (x : Nat × Bytes) : Nat := (l.filter (· == x)).length
      let bad :=
        if row.shuffle then gs.exts.find? fun x => cnt gs.exts x != cnt ws.exts x
        else ((gs.exts.zip ws.exts).find? fun x => x.1 != x.2).map (·.1)
      match bad with
      | some x => some s!"extension-body-differs-from-spec-type-{x.1}"
      | none =>
        -- GREASE placeholders must have been replaced by GREASE values, nothing else
        if (got.suites.zip want.suites).any (fun x => isGreaseU16 x.1 != isGreaseU16 x.2) then some "grease-position-in-cipher-suites"
        else
          -- GREASE ECH drawn from the spec's candidates
          match got.extList.find? (·.1 == 65037) with
          | some (_, bd) =>
            if row.echSuites.isEmpty then none
            else if !(row.echSuites.contains (m.echKdf, m.echAead)) then some "ech-suite-not-a-candidate"
            else if !(row.echLens.contains (m.echPayload.length - 16)) then some "ech-payload-length-not-a-candidate"
            else if bd.take 5 ≠ [0] ++ u16 m.echKdf ++ u16 m.echAead then some "ech-body-prefix"
            else none
          | none => none

def sniTag (name : Bytes) : String :=
  let h := Sni.hostnameInSNI name
  if 246 ≤ h.length ∧ h.length ≤ 253 then s!"sni-len{h.length}" else Drv.C02.sniClass name

/-- class of the caller-pinned Config.MinVersion/MaxVersion of the case. -/
def cfgTag (c : Case) : String :=
  match c.input.nat "cmin", c.input.nat "cmax" with
  | some mn, some mx =>
    if mn = 0 ∧ mx = 0 then "cfgvers=unset"
    else if mx ≠ 0 ∧ mx < 0x0303 then "cfgvers=max-below-1.2"
    else if mn ≠ 0 ∧ mx ≠ 0 ∧ mx < mn then "cfgvers=inverted"
    else "cfgvers=pinned"
  | _, _ => "cfgvers=unset"

def parrotWire (c : Case) : Verdict :=
  match c.output.get "err", c.output.get "out" with
  | some e, _ =>
    -- a predefined parrot refuses to build only where the model says so: a PSK parrot without a session
    -- and without OmitEmptyPsk ("empty psk detected"). Anything else means no ClientHello for a sane
    -- configuration — in particular the Config's own MinVersion/MaxVersion must not matter.
    let name := c.input.getD "id" ""
    let hasPsk := match findRow name with
      | some row => row.spec.exts.any fun x => typeId x == 41
      | none => false
    let expected := hasPsk && c.input.getD "omitpsk" "1" == "0" && (c.input.get "fakepsk").isNone
    let cls := ((e.drop 4).toString.splitOn "_").headD "?"
    if expected then .ok s!"pre-error,{cls}"
    else .propFail s!"no-hello,{cfgTag c}" s!"parrot-sends-no-client-hello:{(e.drop 4).toString}"
  | none, some o => .bad s!"implementation outcome: {o}"
  | none, none =>
    let name := c.input.getD "id" ""
    match findRow name, c.output.bytes "raw", c.input.bytes "sni", (c.output.get "swaps").bind parseSwaps with
    | some row, some raw, some sniB, some swaps =>
      let omitPsk := c.input.getD "omitpsk" "1" != "0"
      match materialOf c sniB omitPsk with
      | none => .bad "unparsable material"
      | some m =>
        if c.output.get "n10" ≠ some "1" then .bad "GREASE seed read not identified" else
        let canon := row.spec
        let spec : Spec := if row.shuffle then { canon with exts := shuffleWith fixedKind swaps canon.exts } else canon
        let tag := s!"{if row.shuffle then "shuffle" else "fixed"},{sniTag sniB}" ++
          (if c.output.get "psk" |>.isSome then ",psk" else "") ++ (if c.output.get "ech" |>.isSome then ",ech" else "") ++
          (if (c.output.getD "ticket" "-") != "-" then ",ticket" else "") ++
          (if c.input.getD "wire" "0" == "1" then ",wire" else "") ++ (if c.input.getD "quic" "0" == "1" then ",quic" else "") ++
          (if Grease.boring m.seeds.ext1 == Grease.boring m.seeds.ext2 then ",dedup" else "") ++
          (if cfgTag c == "cfgvers=unset" then "" else "," ++ cfgTag c)
        if !(specWF spec && matOK spec m) then .bad "row or material not well-formed" else
        match parseCH raw with
        | none => .propFail tag "client-hello-does-not-parse"
        | some got =>
          match render canon m, render spec m with
          | some want, some exact =>
            match monitor row m want got with
            | some cl => .propFail tag cl
            | none =>
              if exact == got then .ok tag
              else .diff tag s!"types={typesOf exact} len-of-model-exts={exact.extList.length}"
          | _, _ => .diff tag "model: ApplyPreset fails"
    | none, _, _, _ => .bad s!"no spec row for {name}"
    | _, _, _, _ => .bad "unparsable line"

def families : List (String × (Case → Verdict)) := [("parrot_wire", parrotWire)]

end Drv.C03
