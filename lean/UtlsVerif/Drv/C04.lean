import UtlsVerif.Line
import UtlsVerif.Grease
namespace Drv.C04
open Wire Grease Line

def greaseVal (c : Case) : Verdict :=
  match c.input.nat "seed", c.output.nats "vals" with
  | some s, some vals =>
    let want := boring s
    let tag := s!"nibble={(s % 256) / 16 % 4}"
    if vals.any (fun v => ¬ isGrease v) then .propFail tag "value-not-0x?A?A"
    else if vals = List.replicate 5 want then .ok tag
    else .diff tag s!"vals={want}"
  | _, _ => .bad "grease_val: bad input"

def seedsList (s : Seeds) : List Nat := [s.cipher, s.group, s.ext1, s.ext2, s.version]

def greaseHello (c : Case) : Verdict :=
  let o := c.output
  if o.get "out" = some "nospec" then .ok "nospec" else
  match o.bytes "gbytes", o.nats "seeds", o.nats "sciphers", o.nats "sgroups", o.nats "sshares", o.nats "svers",
        o.nats "ciphers", o.nats "groups", o.nats "shares", o.nats "vers", o.nats "gext" with
  | some gb, some seeds, some sc, some sg, some ss, some sv, some ci, some gr, some sh, some ve, some gext =>
    let s := dedup (seedsOfBytes gb)
    let anyG (xs : List Nat) := xs.any isGrease
    let tag := s!"gext={gext.length},{if anyG sc then "c" else ""}{if anyG sg then "g" else ""}{if anyG ss then "k" else ""}{if anyG sv then "v" else ""}{if seedsOfBytes gb ≠ s then ",dedup" else ""}"
    -- monitors (the property's clauses, on the implementation's values)
    let allGreaseShaped := (ci ++ gr ++ sh ++ ve).all fun v => ¬ (v % 16 = 10 ∧ v / 256 % 16 = 10 ∧ v % 256 / 16 = v / 4096) || isGrease v
    if gext.any (fun v => ¬ isGrease v) then .propFail tag "grease-extension-id-not-0x?A?A"
    else if gext.length = 2 ∧ gext.getD 0 0 = gext.getD 1 0 then .propFail tag "two-grease-extensions-same-code-point"
    else if (gr.filter isGrease) ≠ [] ∧ (sh.filter isGrease) ≠ [] ∧ (gr.filter isGrease).head? ≠ (sh.filter isGrease).head? then
      .propFail tag "key_share-grease-group-differs-from-supported_groups"
    else if ¬ allGreaseShaped then .propFail tag "malformed-grease"
    else
      -- correspondence with the model
      let model := s!"seeds={natsStr (seedsList s)} ciphers={natsStr (subst s.cipher sc)} groups={natsStr (subst s.group sg)} shares={natsStr (subst s.group ss)} vers={natsStr (subst s.version sv)} gext={natsStr ((List.range gext.length).map (extValue s))}"
      let impl := s!"seeds={natsStr seeds} ciphers={natsStr ci} groups={natsStr gr} shares={natsStr sh} vers={natsStr ve} gext={natsStr gext}"
      if o.nat "n10" ≠ some 1 then .diff tag "exactly-one-10-byte-read-expected"
      else if model = impl then .ok tag else .diff tag model
  | _, _, _, _, _, _, _, _, _, _, _ => .bad "grease_hello: bad output"

def beNat (bs : Bytes) : Nat := bs.foldl (fun a x => a * 256 + x.toNat) 0

def greaseQuic (c : Case) : Verdict :=
  let o := c.output
  match o.nat "id", o.bytes "idlog", o.nat "ver", o.bytes "verlog", o.nat "idfinal", o.bytes "id3log", o.bytes "vival", o.bytes "vilog", c.input.nat "idover" with
  | some id, some idlog, some ver, some verlog, some idfinal, some id3log, some vival, some vilog, some over =>
    let tag := s!"over={if isGreaseId over then "valid" else "invalid"},retry={if idlog.length > 8 then "y" else "n"}"
    -- monitors
    if ¬ isGreaseId id ∨ id ≥ 4611686018427387904 then .propFail tag "GetGREASEID-not-31N+27"
    else if ¬ isGreaseVersion ver then .propFail tag "GetGREASEVersion-not-0x?a?a?a?a"
    else if ¬ isGreaseId idfinal then .propFail tag "GREASE-parameter-ID-not-31N+27"
    else
      let vwords := [beNat (vival.drop 4 |>.take 4), beNat (vival.drop 12 |>.take 4)]
      if vival.length ≠ 16 ∨ vwords.any (fun v => ¬ isGreaseVersion v) then .propFail tag "version-information-grease-version-shape"
      else
        -- correspondence: replicate rand.Int on the logged bytes
        let mId := (randInt greaseMaxMult idlog).map fun (k, _) => greaseId k
        let mVer := (randInt 4294967295 verlog).map fun (r, _) => greaseVersion r
        let mFinal := if isGreaseId over then some over else (randInt greaseMaxMult id3log).map fun (k, _) => greaseId k
        let mVi := match randInt 4294967295 vilog with
          | some (r1, rest) => (randInt 4294967295 rest).map fun (r2, _) => u32 1 ++ u32 (greaseVersion r1) ++ u32 1 ++ u32 (greaseVersion r2)
          | none => none
        let isg := o.getD "isgrease" "?"
        if mId ≠ some id then .diff tag s!"id={mId}"
        else if mVer ≠ some ver then .diff tag s!"ver={mVer}"
        else if mFinal ≠ some idfinal then .diff tag s!"idfinal={mFinal}"
        else if mVi ≠ some vival then .diff tag s!"vival={mVi.map hex}"
        else if isg ≠ toString (isGreaseId over) then .diff tag s!"isgrease={isGreaseId over}"
        else .ok tag
  | _, _, _, _, _, _, _, _, _ => .bad "grease_quic: bad output"

/-- families served by this module (collected by the generated `DrvAll`). -/
def families : List (String × (Case → Verdict)) := [("grease_val", greaseVal), ("grease_hello", greaseHello), ("grease_quic", greaseQuic)]

end Drv.C04
