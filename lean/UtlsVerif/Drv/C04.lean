import UtlsVerif.Line
import UtlsVerif.Grease
import UtlsVerif.GreaseReapply
namespace Drv.C04
open Wire Grease Line

def greaseVal (c : Case) : Verdict :=
  match c.input.nat "seed", c.output.nats "vals" with
  | some s, some vals =>
    let want := boring s
    let tag := s!"nibble={(s % 256) / 16 % 4}"
    if vals.any (fun v => ¬ isGrease v) then .propFail tag "value-not-0x?A?A"
    else if vals = List.replicate 5 want then .ok tag
    else .diff tag s!"vals={want}"
  | _, _ => .bad "grease_val: bad input"

def seedsList (s : Seeds) : List Nat := [s.cipher, s.group, s.ext1, s.ext2, s.version]

def greaseHello (c : Case) : Verdict :=
  let o := c.output
  if o.get "out" = some "nospec" then .ok "nospec" else
  match o.bytes "gbytes", o.nats "seeds", o.nats "sciphers", o.nats "sgroups", o.nats "sshares", o.nats "svers",
        o.nats "ciphers", o.nats "groups", o.nats "shares", o.nats "vers", o.nats "gext" with
  | some gb, some seeds, some sc, some sg, some ss, some sv, some ci, some gr, some sh, some ve, some gext =>
    let s := dedup (seedsOfBytes gb)
    let anyG (xs : List Nat) := xs.any isGrease
    let tag := s!"gext={gext.length},{if anyG sc then "c" else ""}{if anyG sg then "g" else ""}{if anyG ss then "k" else ""}{if anyG sv then "v" else ""}{if seedsOfBytes gb ≠ s then ",dedup" else ""}"
    -- monitors (the property's clauses, on the implementation's values)
    let allGreaseShaped := (ci ++ gr ++ sh ++ ve).all fun v => ¬ (v % 16 = 10 ∧ v / 256 % 16 = 10 ∧ v % 256 / 16 = v / 4096) || isGrease v
    if gext.any (fun v => ¬ isGrease v) then .propFail tag "grease-extension-id-not-0x?A?A"
    else if gext.length = 2 ∧ gext.getD 0 0 = gext.getD 1 0 then .propFail tag "two-grease-extensions-same-code-point"
    else if (gr.filter isGrease) ≠ [] ∧ (sh.filter isGrease) ≠ [] ∧ (gr.filter isGrease).head? ≠ (sh.filter isGrease).head? then
      .propFail tag "key_share-grease-group-differs-from-supported_groups"
    else if ¬ allGreaseShaped then .propFail tag "malformed-grease"
    else
      -- correspondence with the model
      let model := s!"seeds={natsStr (seedsList s)} ciphers={natsStr (subst s.cipher sc)} groups={natsStr (subst s.group sg)} shares={natsStr (subst s.group ss)} vers={natsStr (subst s.version sv)} gext={natsStr ((List.range gext.length).map (extValue s))}"
      let impl := s!"seeds={natsStr seeds} ciphers={natsStr ci} groups={natsStr gr} shares={natsStr sh} vers={natsStr ve} gext={natsStr gext}"
      if o.nat "n10" ≠ some 1 then .diff tag "exactly-one-10-byte-read-expected"
      else if model = impl then .ok tag else .diff tag model
  | _, _, _, _, _, _, _, _, _, _, _ => .bad "grease_hello: bad output"

def beNat (bs : Bytes) : Nat := bs.foldl (fun a x => a * 256 + x.toNat) 0

def greaseQuic (c : Case) : Verdict :=
  let o := c.output
  match o.nat "id", o.bytes "idlog", o.nat "ver", o.bytes "verlog", o.nat "idfinal", o.bytes "id3log", o.bytes "vival", o.bytes "vilog", c.input.nat "idover" with
  | some id, some idlog, some ver, some verlog, some idfinal, some id3log, some vival, some vilog, some over =>
    let tag := s!"over={if isGreaseId over then "valid" else "invalid"},retry={if idlog.length > 8 then "y" else "n"}"
    -- monitors
    if ¬ isGreaseId id ∨ id ≥ 4611686018427387904 then .propFail tag "GetGREASEID-not-31N+27"
    else if ¬ isGreaseVersion ver then .propFail tag "GetGREASEVersion-not-0x?a?a?a?a"
    else if ¬ isGreaseId idfinal then .propFail tag "GREASE-parameter-ID-not-31N+27"
    else
      let vwords := [beNat (vival.drop 4 |>.take 4), beNat (vival.drop 12 |>.take 4)]
      if vival.length ≠ 16 ∨ vwords.any (fun v => ¬ isGreaseVersion v) then .propFail tag "version-information-grease-version-shape"
      else
        -- correspondence: replicate rand.Int on the logged bytes
        let mId := (randInt greaseMaxMult idlog).map fun (k, _) => greaseId k
        let mVer := (randInt 4294967295 verlog).map fun (r, _) => greaseVersion r
        let mFinal := if isGreaseId over then some over else (randInt greaseMaxMult id3log).map fun (k, _) => greaseId k
        let mVi := match randInt 4294967295 vilog with
          | some (r1, rest) => (randInt 4294967295 rest).map fun (r2, _) => u32 1 ++ u32 (greaseVersion r1) ++ u32 1 ++ u32 (greaseVersion r2)
          | none => none
        let isg := o.getD "isgrease" "?"
        if mId ≠ some id then .diff tag s!"id={mId}"
        else if mVer ≠ some ver then .diff tag s!"ver={mVer}"
        else if mFinal ≠ some idfinal then .diff tag s!"idfinal={mFinal}"
        else if mVi ≠ some vival then .diff tag s!"vival={mVi.map hex}"
        else if isg ≠ toString (isGreaseId over) then .diff tag s!"isgrease={isGreaseId over}"
        else .ok tag
  | _, _, _, _, _, _, _, _, _ => .bad "grease_quic: bad output"

/-! ### grease_reapply — one spec object applied `n` times (two-step build on one connection, one spec
shared by several connections, literal GREASE values in the spec) -/

/-- what step `j` reported: the 10 GREASE bytes, the seed words, state values, wire values. -/
structure Step where
  n10 : Nat
  gb : Bytes
  seeds : List Nat
  st : HelloGrease
  wire : HelloGrease

def parseStep (o : KV) (j : Nat) : Option Step := do
  let f (k : String) := o.nats s!"{k}{j}"
  pure { n10 := (← o.nat s!"n10_{j}"), gb := (← o.bytes s!"gb{j}"), seeds := (← f "seeds"),
         st := ⟨← f "ciphers", ← f "groups", ← f "shares", ← f "vers", ← f "gext"⟩,
         wire := ⟨← f "wc", ← f "wg", ← f "wk", ← f "wv", ← f "we"⟩ }

def greaseOf (xs : List Nat) : List Nat := xs.filter isGrease

/-- the property's per-hello clauses on one hello's values (state or wire). -/
def helloClause (h : HelloGrease) : Option String :=
  let shaped := (h.ciphers ++ h.groups ++ h.shares ++ h.versions).all fun v =>
    ¬ (v % 16 = 10 ∧ v / 256 % 16 = 10 ∧ v % 256 / 16 = v / 4096) || isGrease v
  if h.exts.any (fun v => ¬ isGrease v) then some "grease-extension-id-not-0x?A?A"
  else if h.exts.length = 2 ∧ h.exts.getD 0 0 = h.exts.getD 1 0 then some "two-grease-extensions-same-code-point"
  else if greaseOf h.groups ≠ [] ∧ greaseOf h.shares ≠ [] ∧
      ((greaseOf h.groups ++ greaseOf h.shares).any fun g => some g ≠ (greaseOf h.groups).head?) then
    some "key_share-grease-group-differs-from-supported_groups"
  else if ¬ shaped then some "malformed-grease"
  else none

/-- freshness across the applications of one spec object: when this connection's seed word gives another
value than the previous connection's, the GREASE values of that class must not be the previous hello's
(a value that survives in the shared spec object no longer varies across connections). -/
def staleClause (prev cur : HelloGrease) (ps cs : Seeds) : Option String :=
  let stale (a c : List Nat) (p q : Nat) : Bool :=
    boring p ≠ boring q && greaseOf c ≠ [] && greaseOf c == greaseOf a && (greaseOf c).all (· ≠ boring q)
  if stale prev.groups cur.groups ps.group cs.group then some "supported_groups-grease-kept-from-the-previous-application-of-the-spec"
  else if stale prev.shares cur.shares ps.group cs.group then some "key_share-grease-kept-from-the-previous-application-of-the-spec"
  else if stale prev.ciphers cur.ciphers ps.cipher cs.cipher then some "cipher-grease-kept-from-the-previous-application-of-the-spec"
  else if stale prev.versions cur.versions ps.version cs.version then some "version-grease-kept-from-the-previous-application-of-the-spec"
  else if prev.exts.length = cur.exts.length ∧ cur.exts ≠ [] ∧ prev.exts = cur.exts ∧
      cur.exts ≠ (List.range cur.exts.length).map (extValue cs) then
    some "extension-grease-kept-from-the-previous-application-of-the-spec"
  else none

def showHello (h : HelloGrease) : String :=
  s!"ciphers={natsStr h.ciphers} groups={natsStr h.groups} shares={natsStr h.shares} vers={natsStr h.versions} gext={natsStr h.exts}"

def greaseReapply (c : Case) : Verdict :=
  let o := c.output
  if o.get "out" = some "nospec" then .ok "nospec" else
  match o.nat "n", o.nat "next", o.nats "sciphers", o.nats "sgroups", o.nats "sshares", o.nats "svers" with
  | some n, some next, some sc, some sg, some ss, some sv =>
    match (List.range n).mapM (parseStep o) with
    | none => .bad "grease_reapply: bad step"
    | some steps =>
      let spec : SpecLists := ⟨sc, sg, ss, sv⟩
      let anyG (xs : List Nat) := xs.any isGrease
      let lit := (sc ++ sg ++ ss ++ sv).any fun v => isGrease v && v ≠ 0x0a0a
      let raws := steps.map fun st => seedsOfBytes st.gb
      let distinct := (raws.map fun r => boring r.group).eraseDups.length
      let tag := s!"{c.input.getD "mode" "?"},n={n},gext={next},{if anyG sc then "c" else ""}{if anyG sg then "g" else ""}{if anyG ss then "k" else ""}{if anyG sv then "v" else ""}{if lit then ",lit" else ""},groupseeds={if distinct > 1 then "differ" else "same"}"
      -- monitors on the implementation's values: every hello, state and wire
      let perHello := steps.findSome? fun st => (helloClause st.wire).orElse fun _ => helloClause st.st
      match perHello with
      | some cl => .propFail tag cl
      | none =>
        let pairs := (steps.zip raws).zip ((steps.zip raws).drop 1)
        let stale := pairs.findSome? fun ((p, pr), (q, qr)) =>
          (staleClause p.wire q.wire (dedup pr) (dedup qr)).orElse fun _ => staleClause p.st q.st (dedup pr) (dedup qr)
        match stale with
        | some cl => .propFail tag cl
        | none =>
          -- correspondence: the in-place chain of the model, step by step
          let model := applySpecAll next raws spec
          let bad := (steps.zip ((model.zip raws))).findSome? fun (st, (m, r)) =>
            if st.n10 ≠ 1 then some "exactly-one-10-byte-read-per-application-expected"
            else if st.seeds ≠ seedsList (dedup r) then some s!"seeds={natsStr (seedsList (dedup r))}"
            else if st.st ≠ m then some (showHello m)
            else if st.wire ≠ m then some ("wire:" ++ showHello m)
            else none
          match bad with
          | some msg => .diff tag msg
          | none => if model.length = steps.length then .ok tag else .diff tag "length"
  | _, _, _, _, _, _ =>
    if o.get "out" = some "err" then .diff "err" s!"no-error-expected:{o.getD "msg" "?"}" else .bad "grease_reapply: bad output"

/-- families served by this module (collected by the generated `DrvAll`). -/
def families : List (String × (Case → Verdict)) := [("grease_val", greaseVal), ("grease_hello", greaseHello), ("grease_reapply", greaseReapply), ("grease_quic", greaseQuic)]

end Drv.C04
