import UtlsVerif.Drv.C02
/-! Driver side of C05: the padding monitors on the implementation's bytes (unpadded length
recovered from the parsed hello), on top of the C02 tie (model predicts raw / error class). -/
namespace Drv.C05
open Wire Ext Ext.Ext Line Hello Drv.C02

def lenClass (u : Nat) : String :=
  if u < 255 then "lt255" else if u = 255 then "255" else if u = 256 then "256"
  else if u < 507 then "257-506" else if u = 507 then "507" else if u = 508 then "508"
  else if u < 511 then "509-510" else if u = 511 then "511" else if u = 512 then "512" else "gt512"

/-- unpadded handshake-message length of a parsed hello: total minus the padding extension(s). -/
def unpaddedOfWire (raw : Bytes) (p : ParsedCH) : Nat :=
  raw.length - (p.paddings.map fun bd => 4 + bd.length).sum

def polStr : PadPolicy → String
  | .none => "none"
  | .boring => "boring"
  | .padTo _ => "padto"

def padMonitor (c : Case) (st : St) (raw : Bytes) : Option String :=
  if !gateOK c st then none else
  match parseCH raw with
  | none => none     -- reported by the C02 monitor
  | some p =>
    let pads := p.paddings
    let u := unpaddedOfWire raw p
    if pads.length > 1 then some "padding-extension-duplicated"
    else if pads.any fun bd => !(bd.all (· == 0)) then some "padding-body-not-zero"
    else
      let polFail :=
        match st.pol with
        | .boring =>
          if 256 ≤ u ∧ u ≤ 511 then
            match pads with
            | [bd] =>
              if u ≤ 507 then (if raw.length = 512 then none else some "boring:not-padded-to-512")
              else (if bd.length = 1 then none else some "boring:short-gap-body-not-1")
            | _ => some "boring:no-padding-in-256..511"
          else if pads.isEmpty then none else some "boring:padding-outside-256..511"
        | _ => none
      match polFail with
      | some cl => some cl
      | none =>
        -- fingerprinted capture with a non-empty padding extension, replayed with a name of the captured length
        match c.output.nat "caplen", c.output.get "cappad", c.output.nat "capsni", c.output.nat "newsni" with
        | some caplen, some cappad, some s1, some s2 =>
          if cappad ≠ "-1" ∧ cappad ≠ "0" ∧ s1 = s2 ∧ raw.length ≠ caplen then some "capture-length-not-reproduced" else none
        | _, _, _, _ => none

def padTag (st : St) (impl : Impl) : String :=
  match impl with
  | .raw raw =>
    match parseCH raw with
    | some p =>
      let body := match p.paddings with
        | [] => "nopad"
        | [bd] => if bd.length = 1 then "pad1" else "padN"
        | _ => "pad-many"
      s!",U={lenClass (unpaddedOfWire raw p)},{polStr st.pol},{body}"
    | none => s!",unparsed,{polStr st.pol}"
  | _ => s!",{polStr st.pol}"

def pad (c : Case) : Verdict :=
  let same := match c.output.nat "capsni", c.output.nat "newsni", c.output.get "cappad" with
    | some a, some b, some cp => if a = b ∧ cp ≠ "-1" then ",samelen-padded-capture" else if cp = "-1" then ",unpadded-capture" else ",otherlen"
    | _, _, _ => ""
  check c (padMonitor c) (fun st i => padTag st i ++ same)

/-! ### sequences of marshals over one padding-extension object (`pad_seq`) -/

/-- the sub-case of step `k`: output keys `k.<key>`. -/
def stepCase (c : Case) (k : Nat) : Case :=
  let pre := s!"{k}."
  { c with output := c.output.filterMap fun kv =>
      if kv.1.startsWith pre then some ((kv.1.drop pre.length).toString, kv.2) else none }

/-- does the policy pad at this unpadded length? (tag only) -/
def stepClass (c : Case) : String :=
  match parseState c with
  | none => "x"
  | some st =>
    let u := unpaddedLen st.f st.xs
    match st.pol with
    | .boring => if 256 ≤ u ∧ u ≤ 511 then "in" else "out"
    | .padTo n => if u < n then "in" else "out"
    | .none => "nopol"

/-- every step is checked like a `pad_*` case of its own: the model — which knows nothing of earlier
marshals (`C05.padding_stateless`) — must predict the bytes, and the padding monitors run on them. -/
def padSeq (c : Case) : Verdict :=
  match c.output.nat "n" with
  | none => pad c            -- failed before the first marshal: `err=pre:…`
  | some n =>
    let steps := (List.range n).map (stepCase c)
    let tag := s!"{c.input.getD "kind" "?"},fp{c.input.getD "fp" "0"}," ++ ">".intercalate (steps.map stepClass)
    let bad := (List.range n).findSome? fun k =>
      match pad (stepCase c k) with
      | .ok _ => none
      | .diff t m => some (.diff s!"{tag},step{k}:{t}" m)
      | .propFail t cl => some (.propFail s!"{tag},step{k}:{t}" s!"{cl}@step{k}")
      | .bad m => some (.bad s!"step{k}: {m}")
    bad.getD (.ok tag)

def families : List (String × (Case → Verdict)) :=
  [("pad_sweep", pad), ("pad_direct", pad), ("pad_fp", pad), ("pad_seq", padSeq)]

end Drv.C05
