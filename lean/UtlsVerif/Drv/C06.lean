import UtlsVerif.Line
import UtlsVerif.Fp
import UtlsVerif.Drv.C02
import UtlsVerif.Drv.C03
/-! Driver side of C06: both hellos normalised by `shape`; length equality under equal sizes; the two
fingerprints compared modulo per-connection parts; and the exact prediction of hello 2 from hello 1 and
the material of connection 2 by the model of `FromRaw ∘ ApplyPreset ∘ MarshalClientHelloNoECH`. -/
namespace Drv.C06
open Wire Ext Ext.Ext Line Hello Preset Fp

def stripProbe (d : String) : String := (d.splitOn "@").headD d

def parseSpecCore (c : Case) (p : String) : Option SpecCore := do
  let suites ← (c.output.get (p ++ "suites")).bind fun s => (listOf s).mapM String.toNat?
  let comp ← c.output.bytes (p ++ "comp")
  let vmin ← c.output.nat (p ++ "vmin")
  let vmax ← c.output.nat (p ++ "vmax")
  let ds := c.output.getD (p ++ "exts") "-"
  let exts ← if ds = "-" then some [] else (ds.splitOn ";").mapM fun d => Drv.C08.parseDesc (stripProbe d)
  pure (specCore { suites := suites, comp := comp, vmin := vmin, vmax := vmax, exts := exts.map fun e => { ext := e } })

/-- sizes of the per-connection parts of a parsed hello: session id, session ticket, key_share (the
regenerated keys have their group's size; a capture may carry keys of other sizes), GREASE-ECH, PSK. -/
def perConnSizes (p : ParsedCH) : List Nat :=
  let bodyLen (t : Nat) : Nat := ((p.extList.find? (·.1 == t)).map (·.2.length)).getD 0
  [p.sessionId.length, bodyLen 35, bodyLen 51, bodyLen 65037, bodyLen 41]

def drop41 (s : Shape) : Shape := { s with exts := s.exts.filter fun x => x.1 != 41 }

def fpRT (c : Case) : Verdict :=
  match c.output.get "err", c.output.get "out" with
  | some e, _ => .ok s!"pre-error,{((e.drop 4).toString.splitOn "_").headD "?"}"
  | none, some o => .bad s!"implementation outcome: {o}"
  | none, none =>
    let flags := c.input.getD "flags" "-"
    let fb := flags.contains 'b'
    let fpd := flags.contains 'p'
    let fr := flags.contains 'r'
    match Drv.C02.parseState c, c.output.bytes "raw1", c.input.bytes "sni2" with
    | some s1, some raw1, some sni2 =>
      let repr := representable fb fr s1.f s1.pol s1.xs
      let es := emitted s1.f s1.pol s1.xs
      let kind := (if c.input.getD "id" "" == "Custom" then "custom" else if (c.input.getD "id" "").startsWith "Randomized" then "randomized" else "parrot")
      let tag0 := s!"{kind},flags={flags},{if repr then "repr" else "not-repr"}" ++
        (if es.any (fun e => typeId e == 41) then ",psk" else "") ++ (if es.any (fun e => typeId e == 65037) then ",ech" else "") ++
        (if es.any isPadding then ",padded" else ",unpadded") ++ (if es.any (fun e => !hasWriterB e) then ",generic" else "") ++
        (match c.input.get "reuse" with
         | some r => if r.endsWith ":0" then ",reuse-current" else ",reuse-kept"
         | none => "")
      match c.output.get "fperr", c.output.get "applyerr" with
      | some e, _ =>
        -- the fingerprinter refused the capture
        if repr then .propFail s!"{tag0},fp-error" s!"representable-capture-refused-by-the-fingerprinter:{e}"
        else .ok s!"{tag0},fp-error"
      | none, some e =>
        if repr && Sni.hostnameInSNI sni2 != [] then .propFail s!"{tag0},apply-error" s!"representable-capture-not-applicable:{e}"
        else .ok s!"{tag0},apply-error"
      | none, none =>
        match c.output.bytes "raw2", Drv.C03.materialOf c sni2 true "2" with
        | some raw2, some m2 =>
          if c.output.get "n10" ≠ some "1" then .bad "GREASE seed read not identified" else
          let sameLen := c.output.nat "capsni" == c.output.nat "newsni"
          let tag := s!"{tag0},{if sameLen then "samelen" else "otherlen"}"
          match parseCH raw1, parseCH raw2 with
          | some p1, some p2 =>
            let sh1 := if fr then drop41 (shape p1) else shape p1
            let sh2 := if fr then drop41 (shape p2) else shape p2
            let hostOK := (Sni.hostnameInSNI sni2 != []) || !(es.any fun e => typeId e == 0)
            let mon : Option String :=
              if !repr || !hostOK then none
              else if sh2.vers ≠ sh1.vers then some "legacy-version-not-reproduced"
              else if sh2.suites ≠ sh1.suites then some "cipher-suites-not-reproduced"
              else if sh2.comps ≠ sh1.comps then some "compression-methods-not-reproduced"
              else if sh2.exts.map (·.1) ≠ sh1.exts.map (·.1) then some "extension-order-not-reproduced"
              else
                match (sh2.exts.zip sh1.exts).find? fun x => x.1 != x.2 with
                | some x => some s!"extension-body-not-reproduced-type-{x.1.1}"
                | none =>
                  -- total length, for a server name of the same length and per-connection parts of equal size
                  let cappad := p1.paddings
                  let lenApplies := sameLen && perConnSizes p1 == perConnSizes p2 && !(fr && es.any fun e => typeId e == 41) &&
                    (cappad.all (fun bd => !bd.isEmpty)) && (!fpd || !cappad.isEmpty || p2.paddings.isEmpty)
                  if lenApplies && raw2.length ≠ raw1.length then some "total-length-not-reproduced"
                  else
                    -- idempotence: the spec of the regenerated hello is equivalent to the spec of the capture
                    match parseSpecCore c "s1", parseSpecCore c "s2" with
                    | some a, some b => if a ≠ b then some "fingerprint-not-idempotent" else none
                    | _, _ => if c.output.get "fp2err" |>.isSome then some "regenerated-hello-refused-by-the-fingerprinter" else none
            match mon with
            | some cl => .propFail tag cl
            | none =>
              match roundtrip raw1 fb fpd fr m2 with
              | some bs => if bs == raw2 then .ok tag else .diff tag s!"model hello 2 has {bs.length} bytes, implementation {raw2.length}"
              | none => .diff tag "model: round trip fails"
          | _, _ => if repr then .propFail tag "hello-does-not-parse" else .ok s!"{tag},unparsable"
        | _, _ => .bad "unparsable material"
    | _, _, _ => .bad "unparsable line"

def families : List (String × (Case → Verdict)) := [("fp_rt", fpRT), ("fp_bound", fpRT)]

end Drv.C06
