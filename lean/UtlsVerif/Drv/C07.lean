import UtlsVerif.Line
import UtlsVerif.Import
import UtlsVerif.ImportJson
import UtlsVerif.Drv.C08
import UtlsVerif.Gen.ImportDicts
/-! Driver side of C07: the importers (`fp`: raw hellos through the Fingerprinter, `imp`:
ImportTLSClientHello, `json`: ClientHelloSpec.UnmarshalJSON). -/
namespace Drv.C07
open Wire Ext Line Import

/-- `GetPaddingLen(unpaddedLen)`. -/
def padLen : PadPolicy → Nat → Option (Nat × Bool)
  | .unset, _ => none
  | .boring, u =>
    if 0xff < u ∧ u < 0x200 then
      let p := 0x200 - u
      some (if p ≥ 5 then p - 4 else 1, true)
    else some (0, false)
  | .padTo n, u =>
    if u < n then
      let p := n - u
      some (if p ≥ 5 then p - 4 else 1, true)
    else some (0, false)

def probes : List Nat := [0, 100, 256, 300, 511, 512, 600, 2000]

def probeStr (p : PadPolicy) : String :=
  match p with
  | .unset => "nil"
  | _ => "_".intercalate (probes.map fun u =>
      match padLen p u with
      | some (l, w) => s!"{l}:{if w then "1" else "0"}"
      | none => "?")

def describeS (x : SExt) : String :=
  match x.ext with
  | .padding n w => s!"padding|{n}|{if w then "1" else "0"}|{if x.pol = .unset then "none" else "policy"}@{probeStr x.pol}"
  | e => Drv.C08.describe e

def specStr (s : Spec) : String :=
  s!"suites={natsStr s.suites} comp={hex s.comp} vmin={s.vmin} vmax={s.vmax} exts=" ++
    (if s.exts.isEmpty then "-" else ";".intercalate (s.exts.map describeS))

def outStr : ImportRes → String
  | .ok s => "out=ok " ++ specStr s
  | .err => "out=err"
  | .panic => "out=panic"
  | .hang => "out=timeout"

def outClass : ImportRes → String
  | .ok _ => "ok" | .err => "err" | .panic => "panic" | .hang => "timeout"

def implSpecStr (o : KV) : String :=
  match o.getD "out" "?" with
  | "ok" => s!"out=ok suites={o.getD "suites" "?"} comp={o.getD "comp" "?"} vmin={o.getD "vmin" "?"} vmax={o.getD "vmax" "?"} exts={o.getD "exts" "?"}"
  | x => s!"out={x}"

/-! strict framing of a ClientHello record: every length prefix exact, nothing trailing. -/

/-- extension framing; collects the extension types in order. -/
def extsFramed : Nat → Bytes → List Nat → Option (List Nat)
  | _, [], acc => some acc.reverse
  | 0, _, _ => none
  | fuel + 1, bs, acc =>
    match readU16 bs with
    | none => none
    | some (id, r) =>
      match readVec16 r with
      | none => none
      | some (_, r') => extsFramed fuel r' (id :: acc)

/-- RFC 8446 §4.2: no extension type twice; pre_shared_key, if present, last. -/
def typesOK (ids : List Nat) : Bool :=
  ids.eraseDups.length == ids.length && (!ids.contains 41 || ids.getLast? == some 41)

/-- a syntactically valid ClientHello record at the framing level: every length prefix exact,
nothing trailing, session id ≤ 32 bytes, non-empty even cipher-suite vector, non-empty compression
vector, distinct extension types, PSK last. -/
def frameOK (raw : Bytes) : Bool :=
  match raw with
  | 22 :: _ :: _ :: l1 :: l0 :: rest =>
    if l1.toNat * 256 + l0.toNat ≠ rest.length then false else
    match rest with
    | 1 :: h2 :: h1 :: h0 :: body =>
      if h2.toNat * 65536 + h1.toNat * 256 + h0.toNat ≠ body.length then false else
      match take? 34 body with
      | none => false
      | some (_, s) =>
        match readVec8 s with
        | none => false
        | some (sid, s) =>
          if sid.length > 32 then false else
          match readVec16 s with
          | none => false
          | some (suites, s) =>
            if suites.length % 2 ≠ 0 ∨ suites.length = 0 then false else
            match readVec8 s with
            | none => false
            | some (comp, s) =>
              if comp.isEmpty then false else
              if s.isEmpty then true else
              match readVec16 s with
              | none => false
              | some (eb, tail) =>
                tail.isEmpty && (match extsFramed eb.length eb [] with
                  | some ids => typesOK ids
                  | none => false)
    | _ => false
  | _ => false

def srcClass (c : Case) : String := ((c.input.getD "src" "?").splitOn ":").headD "?"

def fp (c : Case) : Verdict :=
  match c.input.bytes "raw" with
  | none => .bad "fp: bad raw"
  | some raw =>
    let flag (k : String) := c.input.getD k "0" = "1"
    let valid := c.input.getD "valid" "0"
    let m := rawClientHello raw (flag "blunt") (flag "pad") (flag "psk")
    let o := c.output
    let out := o.getD "out" "?"
    let apply := o.getD "apply" "-"
    let framed := frameOK raw
    let tag := s!"{srcClass c},{out}"
    if out = "panic" then .propFail tag "importer-panicked"
    else if out = "timeout" then .propFail tag "importer-did-not-terminate"
    else if out = "ok" ∧ framed ∧ apply.startsWith "panic" then .propFail tag "spec-of-a-valid-hello-panics-when-applied"
    else if valid = "1" ∧ !framed then .bad "fp: generator marked an ill-framed hello valid"
    else if valid = "1" ∧ flag "blunt" ∧ out ≠ "ok" then .propFail tag "valid-capture-rejected"
    else if valid = "1" ∧ out = "ok" ∧ apply ≠ "ok" then .propFail tag "valid-capture-gives-unusable-spec"
    else
      let model := outStr m
      if model = implSpecStr o then .ok (tag ++ (if out = "ok" ∧ apply.startsWith "panic" then ",apply-panic-on-ill-framed-input" else ""))
      else .diff tag model

def impMap (i : KV) : Option ImportMap :=
  let g (k : String) : Option (Option Bytes) :=
    match i.get k with
    | none => some none
    | some v => (unhex v).map some
  do
    let cs ← g "cipher_suites"; let cm ← g "compression_methods"; let ex ← g "extensions"
    let pf ← g "pt_fmts"; let sa ← g "sig_algs"; let sv ← g "supported_versions"
    let cu ← g "curves"; let al ← g "alpn"; let ks ← g "key_share"
    let pm ← g "psk_key_exchange_modes"; let cc ← g "cert_compression_algs"; let rl ← g "record_size_limit"
    pure { cipherSuites := cs, compressionMethods := cm, extensions := ex, ptFmts := pf, sigAlgs := sa,
           supportedVersions := sv, curves := cu, alpn := al, keyShare := ks, pskModes := pm,
           certCompressionAlgs := cc, recordSizeLimit := rl }

def imp (c : Case) : Verdict :=
  match impMap c.input, c.input.nat "vmin0", c.input.nat "vmax0" with
  | some m, some v0, some v1 =>
    let r := importTLS m v0 v1
    let o := c.output
    let out := o.getD "out" "?"
    let tag := s!"{srcClass c},{out}"
    if out = "panic" then .propFail tag "importer-panicked"
    else if out = "timeout" then .propFail tag "importer-did-not-terminate"
    else if (o.getD "jsame" "?").startsWith "0:out_panic" then .propFail tag "importer-panicked-via-FromJSON"
    else
      let model := outStr r ++ " jsame=1"
      if model = implSpecStr o ++ s!" jsame={o.getD "jsame" "?"}" then .ok tag else .diff tag model
  | _, _, _ => .bad "imp: bad input"

/-! JSON documents travel as comma separated prefix-notation tokens. -/

def strOfHex (h : String) : Option String :=
  (if h.isEmpty then some [] else unhexChars h.toList).bind fun bs => String.fromUTF8? (ByteArray.mk bs.toArray)

/-- parse `count` values. Object keys (`k…`) are read as strings and paired up afterwards. -/
def parseN : Nat → Nat → List String → Option (List JVal × List String)
  | 0, _, _ => none
  | _ + 1, 0, toks => some ([], toks)
  | _ + 1, _ + 1, [] => none
  | fuel + 1, cnt + 1, t :: rest =>
    let cont (v : JVal) (rest : List String) := (parseN fuel cnt rest).map fun (vs, r) => (v :: vs, r)
    let body := (t.drop 1).toString
    match t.front with
    | 'z' => cont .null rest
    | 't' => cont (.bool true) rest
    | 'f' => cont (.bool false) rest
    | 'r' => cont .frac rest
    | 'i' => body.toInt?.bind fun n => cont (.num n) rest
    | 's' | 'k' => (strOfHex body).bind fun s => cont (.str s) rest
    | 'a' => body.toNat?.bind fun n => (parseN fuel n rest).bind fun (xs, r) => cont (.arr xs) r
    | 'o' => body.toNat?.bind fun n => (parseN fuel (2 * n) rest).bind fun (xs, r) =>
        let rec pair : List JVal → Option (List (String × JVal))
          | [] => some []
          | .str k :: v :: more => (pair more).map ((k, v) :: ·)
          | _ => none
        (pair xs).bind fun kvs => cont (.obj kvs) r
    | _ => none

def parseDoc (s : String) : Option JVal :=
  let toks := s.splitOn ","
  match parseN (toks.length + 1) 1 toks with
  | some ([v], []) => some v
  | _ => none

def dicts : Dicts where
  extNames := Gen.ImportDicts.extNames
  suites := Gen.ImportDicts.suites
  compMethods := Gen.ImportDicts.compMethods
  groups := Gen.ImportDicts.groups
  sigSchemes := Gen.ImportDicts.sigSchemes
  pointFormats := Gen.ImportDicts.pointFormats
  certCompAlgs := Gen.ImportDicts.certCompAlgs
  pskModes := Gen.ImportDicts.pskModes

def json (c : Case) : Verdict :=
  match (c.input.get "doc").bind parseDoc with
  | none => .bad "json: bad doc"
  | some v =>
    let syn := c.input.getD "syn" "none"
    let pad := c.input.getD "pad" "0" = "1"
    -- text that is not one complete JSON value is rejected by encoding/json before any uTLS code runs
    let r : ImportRes := if syn = "none" then jsonClientHello dicts v pad else .err
    let o := c.output
    let out := o.getD "out" "?"
    let tag := s!"{srcClass c},{out}"
    if out = "panic" then .propFail tag "importer-panicked"
    else if out = "timeout" then .propFail tag "importer-did-not-terminate"
    else
      let model := outStr r
      if model = implSpecStr o then .ok tag else .diff tag model

def families : List (String × (Case → Verdict)) := [("fp", fp), ("imp", imp), ("json", json)]

end Drv.C07
