import UtlsVerif.Line
import UtlsVerif.Ext
import UtlsVerif.Varint
/-! Driver side of C08 (and the shared description syntax of extensions). -/
namespace Drv.C08
open Wire Ext Ext.Ext Line

def unhexE (s : String) : Option Bytes := if s = "e" then some [] else unhex s
def hexE (bs : Bytes) : String := if bs.isEmpty then "e" else hex bs

def parseNats (s : String) : Option (List Nat) := (listOf s).mapM String.toNat?
def parseHexList (s : String) : Option (List Bytes) := (listOf s).mapM unhexE
def hexList (xs : List Bytes) : String := if xs.isEmpty then "-" else ",".intercalate (xs.map hexE)

def parsePairs (s : String) : Option (List (String × String)) :=
  (listOf s).mapM fun t => match t.splitOn ":" with
    | [a, c] => some (a, c)
    | _ => none

/-- description → model value. -/
def parseDesc (desc : String) : Option Ext :=
  match desc.splitOn "|" with
  | ["sni", n] => (unhex n).map sni
  | ["status_request"] => some statusRequest
  | ["curves", l] => (parseNats l).map supportedCurves
  | ["points", l] => (parseNats l).map supportedPoints
  | ["sigalgs", l] => (parseNats l).map sigAlgs
  | ["status_request_v2"] => some statusRequestV2
  | ["sigalgs_cert", l] => (parseNats l).map sigAlgsCert
  | ["delegated", l] => (parseNats l).map delegatedCreds
  | ["alpn", l] => (parseHexList l).map alpn
  | ["alps", n, l] => (parseHexList l).map (alps (n = "1"))
  | ["sct"] => some sct
  | ["generic", id, d] => do pure (generic (← id.toNat?) (← unhex d))
  | ["ems"] => some ems
  | ["grease", v, d] => do pure (grease (← v.toNat?) (← unhex d))
  | ["padding", n, w] => do pure (padding (← n.toNat?) (w = "1"))
  | ["padding", n, w, _] => do pure (padding (← n.toNat?) (w = "1"))
  | ["compress_cert", l] => (parseNats l).map compressCert
  | ["key_share", l] => do
      let ps ← parsePairs l
      let ss ← ps.mapM fun (g, d) => do pure ((← g.toNat?), (← unhexE d))
      pure (keyShare ss)
  | ["quic_tp", l] => do
      let ps ← parsePairs l
      let tps ← ps.mapM fun (i, d) => do pure (Varint.RawTP.mk (← i.toNat?) (← unhexE d))
      match Varint.marshalTPs tps with
      | .ok bs => pure (quicTP bs)
      | .panic => none
  | ["psk_modes", l] => (parseNats l).map pskModes
  | ["versions", l] => (parseNats l).map supportedVersions
  | ["cookie", c] => (unhex c).map cookie
  | ["npn"] => some npn
  | ["reneg", d] => (unhex d).map renegInfo
  | ["channel_id", o] => some (channelId (o = "1"))
  | ["record_size_limit", n] => n.toNat?.map recordSizeLimit
  | ["token_binding", a, c, l] => do pure (tokenBinding (← a.toNat?) (← c.toNat?) (← parseNats l))
  | ["session_ticket", t] => (unhex t).map sessionTicket
  | ["psk", f, o, s, ids, bs] => do
      let ps ← parsePairs ids
      let ids ← ps.mapM fun (l, a) => do pure ((← unhexE l), (← a.toNat?))
      pure (psk (f = "1") (o = "1") (s = "1") ids (← parseHexList bs))
  | ["ech", k, a, c, enc, pl] => do
      pure (greaseECH (← k.toNat?) (← a.toNat?) (← c.toNat?) (← unhex enc) (← unhex pl))
  | _ => none

def b2s (x : Bool) : String := if x then "1" else "0"

/-- model value → description, in the harness's `describeExt` syntax (for results of `Write`). -/
def describe : Ext → String
  | sni n => s!"sni|{hex n}"
  | statusRequest => "status_request"
  | supportedCurves c => s!"curves|{natsStr c}"
  | supportedPoints c => s!"points|{natsStr c}"
  | sigAlgs c => s!"sigalgs|{natsStr c}"
  | statusRequestV2 => "status_request_v2"
  | sigAlgsCert c => s!"sigalgs_cert|{natsStr c}"
  | delegatedCreds c => s!"delegated|{natsStr c}"
  | alpn ps => s!"alpn|{hexList ps}"
  | alps n ps => s!"alps|{b2s n}|{hexList ps}"
  | sct => "sct"
  | generic id d => s!"generic|{id}|{hex d}"
  | ems => "ems"
  | grease v d => s!"grease|{v}|{hex d}"
  | padding n w => s!"padding|{n}|{b2s w}|policy"
  | compressCert c => s!"compress_cert|{natsStr c}"
  | keyShare ss => "key_share|" ++ (if ss.isEmpty then "-" else ",".intercalate (ss.map fun (g, d) => s!"{g}:{hexE d}"))
  | quicTP _ => "quic_tp|?"
  | pskModes c => s!"psk_modes|{natsStr c}"
  | supportedVersions c => s!"versions|{natsStr c}"
  | cookie c => s!"cookie|{hex c}"
  | npn => "npn"
  | renegInfo d => s!"reneg|{hex d}"
  | channelId o => s!"channel_id|{b2s o}"
  | recordSizeLimit l => s!"record_size_limit|{l}"
  | tokenBinding a c l => s!"token_binding|{a}|{c}|{natsStr l}"
  | sessionTicket t => s!"session_ticket|{hex t}"
  | psk f o s ids bs =>
      s!"psk|{b2s f}|{b2s o}|{b2s s}|" ++
      (if ids.isEmpty then "-" else ",".intercalate (ids.map fun (l, a) => s!"{hexE l}:{a}")) ++ "|" ++ hexList bs
  | greaseECH k a c enc pl => s!"ech|{k}|{a}|{c}|{hex enc}|{hex pl}"

def readStr : ReadRes → String
  | .ok bs => "ok:" ++ hex bs
  | .short => "short"
  | .eof0 => "eof0"
  | .err c => "err:" ++ c

/-- Bool mirror of `Ext.WF` (gates the framing/round-trip monitors). -/
def wfb : Ext → Bool
  | sni name => (Sni.hostnameInSNI name).length + 5 < 65536
  | supportedCurves c => !c.isEmpty && 2 + 2 * c.length < 65536 && c.all (· < 65536)
  | supportedPoints p => !p.isEmpty && p.length < 256 && p.all (· < 256)
  | sigAlgs a | sigAlgsCert a | delegatedCreds a => !a.isEmpty && 2 + 2 * a.length < 65536 && a.all (· < 65536)
  | alpn ps | alps _ ps => !ps.isEmpty && vec8sLen ps + 2 < 65536 && ps.all fun p => !p.isEmpty && p.length < 256
  | generic id d => id < 65536 && d.length < 65536
  | grease v bd => isGreaseU16 v && v < 65536 && bd.length < 65536
  | padding n _ => n < 65536
  | compressCert a => 2 * a.length < 256 && a.all (· < 65536)
  | keyShare s => sharesLen s + 2 < 65536 && s.all fun x => x.1 < 65536 && !x.2.isEmpty
  | quicTP m => m.length < 65536
  | pskModes m => m.length < 256 && m.all (· < 256)
  | supportedVersions v => !v.isEmpty && 2 * v.length < 256 && v.all (· < 65536)
  | cookie c => 2 + c.length < 65536
  | renegInfo d => d.length < 256
  | recordSizeLimit l => l < 65536
  | tokenBinding ma mi p => ma < 256 && mi < 256 && p.length < 256 && p.all (· < 256)
  | sessionTicket t => t.length < 65536
  | psk _ _ _ ids binders =>
      pskExtLen ids binders < 65536 && ids.all (·.2 < 4294967296) && binders.all (·.length < 256)
  | greaseECH kdf aead cid enc payload =>
      (kdf = 1 || kdf = 2 || kdf = 3) && (aead = 1 || aead = 2 || aead = 3) && cid < 256 &&
      16 ≤ payload.length && 10 + enc.length + payload.length < 65536
  | _ => true

def hasWriterB : Ext → Bool
  | generic _ _ | quicTP _ | cookie _ => false
  | _ => true

def realPskOf : Ext → Bool
  | psk fake _ _ _ _ => !fake
  | _ => false

def kindName (e : Ext) : String := (describe e).splitOn "|" |>.headD "?"

def bufOf (spec : String) (l : Nat) (e : Ext) : Nat :=
  let n := match spec with
    | "0" => 0 | "-1" => l - 1 | "+0" => l | "+1" => l + 1 | "+2000" => l + 2000 | "half" => l / 2
    | _ => l
  match e, spec with
  | psk false true false _ _, "+2000" => 4000
  | _, _ => n

def ext (c : Case) : Verdict :=
  match (c.input.get "e").bind parseDesc with
  | none => .bad "ext: bad description"
  | some e =>
    let l := len e
    let buf := bufOf (c.input.getD "buf" "+0") l e
    let r := Ext.read e buf
    let wf := wfb e
    let o := c.output
    let implRead := o.getD "read" "?"
    let tag := s!"{kindName e},{if wf then "wf" else "beyond-limits"},{match r with | .ok _ => "ok" | .short => "short" | .eof0 => "eof0" | .err _ => "err"}"
    -- model line
    let base := s!"len={l} buf={buf} n={match r with | .ok bs => bs.length | _ => 0} read={readStr r} dirty=0"
    let wpart := match r with
      | .ok bs =>
        if bs.length < 4 then "" else
        match write (realPskOf e) (typeId e % 65536) (bs.drop 4) with
        | .unknown => " write=unknown"
        | .err => " write=err"
        | .ok e' =>
          let rr := Ext.read e' (len e')
          let rrs := match e', rr with
            | greaseECH .., .ok b2 => s!"ok:ech:{hex (b2.take 9)}:{b2.length}"
            | _, rr => readStr rr
          s!" write={describe e'} reread={rrs}"
      | _ => ""
    let model := base ++ wpart
    let impl := s!"len={o.getD "len" "?"} buf={o.getD "buf" "?"} n={o.getD "n" "?"} read={implRead} dirty={if wf then o.getD "dirty" "?" else "0"}" ++
      (match o.get "write" with | some w => s!" write={w}" | none => "") ++
      (match o.get "reread" with | some w => s!" reread={w}" | none => "")
    -- monitors on the implementation's output
    let implLen := (o.nat "len").getD 0
    let implBuf := (o.nat "buf").getD 0
    let implBytes := if implRead.startsWith "ok:" then unhex (implRead.drop 3).toString else none
    -- beyond wire limits an error return may leave a partly written header behind (n = 0: nothing usable)
    if wf ∧ o.getD "dirty" "0" ≠ "0" then .propFail tag "read-wrote-beyond-returned-n" else
    match implBytes with
    | some bs =>
      if bs.length ≠ implLen ∨ o.nat "n" ≠ some implLen then .propFail tag "Len-differs-from-bytes-written"
      else if implBuf < implLen then .propFail tag "success-on-short-buffer"
      else if wf ∧ bs ≠ u16 (typeId e) ++ vec16 (bs.drop 4) then .propFail tag "length-field-does-not-match-body"
      else if wf ∧ hasWriterB e ∧ write (realPskOf e) (typeId e) (bs.drop 4) ≠ .ok (norm e) then
        .propFail tag "body-does-not-decode-to-the-normalised-extension"
      else if wf ∧ hasWriterB e ∧ o.get "write" ≠ some (describe (norm e)) then
        .propFail tag "Write-of-own-body-differs-from-documented-normalisation"
      else if wf ∧ hasWriterB e ∧ o.get "reread" ≠ some (
          let ne := norm e
          match ne, Ext.read ne (len ne) with
          | greaseECH .., .ok b2 => s!"ok:ech:{hex (b2.take 9)}:{b2.length}"
          | _, rr => readStr rr) then
        .propFail tag "re-encoding-differs-from-the-normalised-encoding"
      else if model = impl then .ok tag else .diff tag model
    | none =>
      if implRead.startsWith "ok" then .bad "unparsable read" else
      if model = impl then .ok tag else .diff tag model

/-- families served by this module (collected by the generated `DrvAll`). -/
def families : List (String × (Case → Verdict)) := [("ext", ext)]

end Drv.C08
