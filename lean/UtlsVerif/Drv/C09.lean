import UtlsVerif.Line
import UtlsVerif.Randomized
import UtlsVerif.Sni
import UtlsVerif.RandomizedTables
import UtlsVerif.Drv.C30
/-! Driver side of C09: `generateRandomizedSpec` predicted from the tapped SHAKE stream; the property's
consistency predicates evaluated on the implementation's own spec. -/
namespace Drv.C09
open Randomized Line Prng Wire

/-- `FlipWeightedCoin` with IEEE doubles (`Drv.C30.coinFloat`, validated by the C30 correspondence);
the removal weight is `maxRemovalProbability * float64(i) / float64(len)`. -/
def coinFloat : Coin
  | .bits b, v => Drv.C30.coinFloat (Float.ofBits (UInt64.ofNat b)) v
  | .scaled b i n, v => Drv.C30.coinFloat (Float.ofBits (UInt64.ofNat b) * Float.ofNat i / Float.ofNat n) v

/-- the regenerated tables in the shape the model takes. -/
def tbl : List (Nat × Bool) := realTbl
def t13 : List Nat := realT13

def oneBits : Nat := 4607182418800017408
def off (b : Nat) : Bool := b == 0
def on (b : Nat) : Bool := b == oneBits

def hexe (b : Bytes) : String := if b.isEmpty then "e" else hex b
def unhexe (s : String) : Option Bytes := if s = "e" then some [] else unhex s
def hexList (bs : List Bytes) : String := if bs.isEmpty then "-" else ",".intercalate (bs.map hexe)
def parseHexList (s : String) : Option (List Bytes) := (listOf s).mapM unhexe
def b2i (b : Bool) : String := if b then "1" else "0"
def parseNats (s : String) : Option (List Nat) := (listOf s).mapM String.toNat?

def renderExt : RExt → String
  | .sni n => "sni|" ++ hex n
  | .sessionTicket t s i => s!"session_ticket|{hex t}|{b2i s}|{b2i i}"
  | .sigAlgs a => "sigalgs|" ++ natsStr a
  | .points p => "points|" ++ natsStr p
  | .curves c => "curves|" ++ natsStr c
  | .alpn ps => "alpn|" ++ hexList ps
  | .padding l w p => s!"padding|{l}|{b2i w}|{if p = 0 then "none" else if p = 1 then "boring" else "other"}"
  | .statusRequest => "status_request"
  | .sct => "sct"
  | .reneg m d => s!"reneg|{m}|{hex d}"
  | .ems => "ems"
  | .keyShare sh => "key_share|" ++ (if sh.isEmpty then "-" else ",".intercalate (sh.map fun x => s!"{x.1}:{hexe x.2}"))
  | .pskModes m => "psk_modes|" ++ natsStr m
  | .versions v => "versions|" ++ natsStr v
  | .alps ps => "alps|" ++ hexList ps
  | .other d => d

def parseBool (s : String) : Option Bool := if s = "1" then some true else if s = "0" then some false else none

def parseShare (s : String) : Option (Nat × Bytes) :=
  match s.splitOn ":" with
  | [g, d] => do pure ((← g.toNat?), (← unhexe d))
  | _ => none

def parseExtKnown (s : String) : Option RExt :=
  match s.splitOn "|" with
  | ["sni", n] => (unhex n).map .sni
  | ["session_ticket", t, se, i] => do pure (.sessionTicket (← unhex t) (← parseBool se) (← parseBool i))
  | ["sigalgs", a] => (parseNats a).map .sigAlgs
  | ["points", p] => (parseNats p).map .points
  | ["curves", c] => (parseNats c).map .curves
  | ["alpn", ps] => (parseHexList ps).map .alpn
  | ["padding", l, w, p] => do
    let pol ← if p = "none" then some 0 else if p = "boring" then some 1 else if p = "other" then some 2 else none
    pure (.padding (← l.toNat?) (← parseBool w) pol)
  | ["status_request"] => some .statusRequest
  | ["sct"] => some .sct
  | ["reneg", m, d] => do pure (.reneg (← m.toNat?) (← unhex d))
  | ["ems"] => some .ems
  | ["key_share", sh] => ((listOf sh).mapM parseShare).map .keyShare
  | ["psk_modes", m] => (parseNats m).map .pskModes
  | ["versions", v] => (parseNats v).map .versions
  | ["alps", ps] => (parseHexList ps).map .alps
  | _ => none

def parseExt (s : String) : RExt := (parseExtKnown s).getD (.other s)

def extsStr (es : List RExt) : String := if es.isEmpty then "-" else ";".intercalate (es.map renderExt)
def parseExts (s : String) : List RExt := if s = "-" ∨ s = "" then [] else (s.splitOn ";").map parseExt

/-- extension code points (for the marshalled ClientHello). -/
def typeId : RExt → Nat
  | .sni _ => 0 | .sessionTicket _ _ _ => 35 | .sigAlgs _ => 13 | .points _ => 11 | .curves _ => 10
  | .alpn _ => 16 | .padding _ _ _ => 21 | .statusRequest => 5 | .sct => 18 | .reneg _ _ => 65281
  | .ems => 23 | .keyShare _ => 51 | .pskModes _ => 45 | .versions _ => 43 | .alps _ => 17513
  | .other _ => 65536

def parseWeights : List Nat → Option Weights
  | [a, b, c, d, e, f, g, h, i, j, k, l, m, n, o, p, q] => some ⟨a, b, c, d, e, f, g, h, i, j, k, l, m, n, o, p, q⟩
  | _ => none

def parseClient (s : String) : Option Client :=
  if s = "R" then some .randomized else if s = "A" then some .alpn else if s = "N" then some .noAlpn else none

def specStr (sp : Spec) : String :=
  s!"vmin={sp.versMin} vmax={sp.versMax} suites={natsStr sp.suites} cm={natsStr sp.compression} exts={extsStr sp.exts}"

def weightClass (ws : List Nat) : String :=
  if ws.all (· == 0) then "w0" else if ws.all (· == oneBits) then "w1"
  else if ws.any (fun b => b == 0 ∨ b == oneBits) then "wcorner" else "wmid"

/-- the property's clauses on the implementation's spec, first failing clause. -/
def monitor (client : Client) (w : Weights) (sp : Spec) : Option String :=
  if !suiteOrderOk tbl t13 sp then some "suites-not-ordered-tls13-then-tls12-then-older"
  else if !tls13RulesOk rc4All sp then some "tls13-spec-lacks-rsa-pss-or-padding-or-supported-versions-or-has-rc4"
  else if !alpsNeedsAlpnOk sp then some "alps-without-alpn"
  else if !keyShareSubsetOk sp then some "key-share-group-not-in-supported-groups"
  else if !hybridHasShareOk sp then some "hybrid-group-in-supported-groups-without-key-share"
  else if !absentOk off client w tbl t13 sp then some "weight-0-feature-present"
  else if !presentOk on client w sp then some "weight-1-feature-absent"
  else none

def rspec (c : Case) : Verdict :=
  let o := c.output
  match parseClient (c.input.getD "client" "?"), (c.input.nats "w"), (c.input.get "sni").bind unhex,
        (c.input.get "protos").bind parseHexList with
  | some client, some ws, some sni, some protos =>
    match parseWeights ws with
    | none => .bad "rspec: 17 weights expected"
    | some w =>
      if o.get "out" = some "err" then .diff "error" "generateRandomizedSpec returned an error"
      else
      match o.nat "vmin", o.nat "vmax", o.nats "suites", o.nats "cm", o.get "exts", o.nats "draws", o.nats "adraws" with
      | some vmin, some vmax, some suites, some cm, some extsS, some draws, some adraws =>
        let impl : Spec := { suites := suites, versMin := vmin, versMax := vmax, compression := cm, exts := parseExts extsS }
        let cl := match client with | .randomized => "R" | .alpn => "A" | .noAlpn => "N"
        let tag := s!"{cl},{weightClass ws},{if vmax = vTLS13 then "tls13" else "tls12"},{if impl.hasAlpn then "alpn" else "noalpn"},{if impl.hasAlps then "alps" else "noalps"},{if impl.curves.contains gX25519MLKEM768 then "hybrid" else "classic"}"
        if o.getD "again" "?" ≠ "true" then .propFail tag "same-id-built-twice-gives-different-specs"
        else if ((o.getD "hello" "?").take 8).toString = "differs:" then .propFail tag "public-client-path-builds-a-different-fingerprint"
        else match monitor client w impl with
        | some clause => .propFail tag clause
        | none =>
          match gen client w coinFloat tbl t13 sni protos draws adraws with
          | none => .diff tag "model: stream log exhausted"
          | some m =>
            -- on the wire the SNI extension is omitted when `hostnameInSNI` is empty (IP literal / empty name)
            let ids := (m.exts.map typeId).filter fun i => !(i == 0 && (Sni.hostnameInSNI sni).isEmpty)
            let wexts := (o.nats "wexts").getD []
            if specStr m ≠ specStr impl ∨ extsStr m.exts ≠ extsS then .diff tag (specStr m)
            else if o.getD "idkept" "?" ≠ "true" then .diff tag "id.Seed/id.Weights kept"
            else if o.getD "hello" "?" ≠ "same" then .diff tag "hello=same"
            else if o.nats "wsuites" ≠ some m.suites then .diff tag s!"wsuites={natsStr m.suites}"
            else if wexts ≠ ids ∧ wexts ≠ ids.filter (· ≠ 21) then .diff tag s!"wexts={natsStr ids}"
            else .ok tag
      | _, _, _, _, _, _, _ => .bad "rspec: bad output"
  | _, _, _, _ => .bad "rspec: bad input"

/-- families served by this module (collected by the generated `DrvAll`). -/
def families : List (String × (Case → Verdict)) := [("rspec", rspec)]

end Drv.C09
