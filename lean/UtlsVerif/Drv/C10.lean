import UtlsVerif.Line
import UtlsVerif.Neg2Wire
import UtlsVerif.Gen.NegImpl
/-! Driver side of C10: every offered fingerprint completes a handshake with a compliant server. -/
namespace Drv.C10
open Line Negotiate Neg2Wire
open NegotiateWire (outcomeTag)

def impl : Impl :=
  { suites12 := Gen.NegImpl.suites12, ecdhe12 := Gen.NegImpl.ecdhe12, suites13 := Gen.NegImpl.suites13,
    curves := Gen.NegImpl.curves, canary12 := Gen.NegImpl.canary12, canary11 := Gen.NegImpl.canary11,
    hrrRandom := Gen.NegImpl.hrrRandom }

/-- the failure was raised by the client itself (a local error), not reported to it by the server. -/
def clientOriginated (cerr : String) : Bool :=
  cerr.startsWith "err:" || cerr.startsWith "alert:" || cerr == "timeout"

/-- classes of the case for the distribution counters: protocol version, retry, kind of key exchange. -/
def shape (e : Eval) : String :=
  let v := peerVersion e.resp.hello1
  let vs := if v == tls13 then "13" else if v == tls12 then "12" else if v == tls11 then "11" else if v == tls10 then "10" else "?"
  let hrr := if isHRR impl e.resp.hello1 then "+hrr" else ""
  let g := (finalHello impl e.resp).shareGroup
  let kx := if v != tls13 then (if e.resp.skxCurve != 0 then "+ecdhe" else "+rsa")
            else if isHybrid g then "+hybrid"
            else if e.offer.shareGroups.filter (fun x => !Grease.isGrease x) |>.head? |> (· == some g) then "+first"
            else "+later"
  let res := if (match e.model with | .accept st => st.resumed | _ => false) then "+resumed" else ""
  s!"v{vs}{hrr}{kx}{res}"

/-- the C10 monitors on an evaluated case (shared with the C11 / C18 drivers): against a compliant server the
handshake completes and application data round-trips; it may fail only because the *server* rejected the
offer. -/
def monitorC10 (e : Eval) (tag : String) : Option Verdict :=
  if !e.completed && clientOriginated e.cerr then
    some (.propFail tag s!"client-aborted-against-compliant-server:{e.cerr}")
  else if e.completed && !e.app then
    some (.propFail tag "handshake-completed-but-application-data-did-not-round-trip")
  else if !e.completed && !serverRefused e.cerr e.serr then
    some (.bad s!"cannot tell which side failed: cerr={e.cerr} serr={e.serr}")
  else none

/-- the tie: `clientStep` predicts accept/abort, the alert and the negotiated parameters; the hypotheses of
the completeness theorem hold on every real completed handshake. -/
def tieC10 (e : Eval) (tag : String) : Option Verdict :=
  if !e.completed then
    -- the server gave up after its ServerHello (its own local error, e.g. no signature algorithm in common
    -- with its certificate): the response is incomplete, there is nothing to predict
    none
  else match diff e with
    | some m => some (.diff tag m)
    | none =>
      if !e.compliant then some (.diff tag "compliantB=false on a completed handshake with the in-package server")
      else if !e.ready then some (.diff tag "clientReady=false on a completed handshake")
      else none

def verdictC10 (e : Eval) (tag : String) : Option Verdict :=
  match monitorC10 e tag with
  | some v => some v
  | none => tieC10 e tag

def hs (c : Case) : Verdict :=
  match parseCase impl c with
  | .bad m => .bad m
  | .skipped why => .ok s!"skip,{why}"
  | .prepareError msg => .propFail "prepare-error" s!"client-could-not-build-the-hello:{msg}"
  | .refused mode cerr serr completed =>
    if completed then .bad "completed without a ServerHello"
    else if serverRefused cerr serr then .ok s!"{mode},server-refused"
    else if clientOriginated cerr then .propFail s!"{mode},no-server-hello" s!"client-failed-before-any-server-hello:{cerr}"
    else .bad s!"cannot tell which side failed: cerr={cerr} serr={serr}"
  | .eval e =>
    let tag := if !e.completed && serverRefused e.cerr e.serr then s!"{e.mode},server-refused-late"
               else s!"{e.mode},{shape e},{outcomeTag e.model}"
    match verdictC10 e tag with
    | some v => v
    | none => .ok tag

/-- independent peer (OpenSSL `s_server`, thorough tier): only the client side is observable. The handshake
completes and the echo comes back unless the server refused; what the client reports was offered by the
recorded hello. -/
def ossl (c : Case) : Verdict :=
  let mode := c.input.getD "mode" "?"
  match c.output.get "out" with
  | some "skip" => .ok s!"skip,{c.output.getD "reason" "?"}"
  | some o => .bad s!"harness outcome {o} {c.output.getD "msg" ""}"
  | none =>
  let cerr := c.output.getD "cerr" "?"
  let app := c.output.getD "app" "0" == "1"
  if cerr != "ok" then
    if cerr.startsWith "ralert:" || cerr == "eof" then .ok s!"{mode},server-refused"
    else .propFail s!"{mode},abort" s!"client-aborted-against-openssl:{cerr}"
  else if !app then .propFail s!"{mode},no-echo" "handshake-completed-but-application-data-did-not-round-trip"
  else
  match (c.output.bytes "ch").bind NegotiateWire.parseOffer, (c.output.get "cstate").bind parseConn with
  | some o, some st =>
    let vs := if st.version == tls13 then "13" else if st.version == tls12 then "12" else "?"
    let hrr := if c.output.getD "hrr" "0" == "1" then "+hrr" else ""
    let tag := s!"{mode},v{vs}{hrr},accept"
    if !o.suites.contains st.suite then .propFail tag "reported-suite-not-offered"
    else if st.curve != 0 && !(o.shareGroups.contains st.curve || o.groups.contains st.curve) then .propFail tag "reported-curve-not-offered"
    else if !st.alpn.isEmpty && !o.alpn.contains st.alpn then .propFail tag "reported-protocol-not-offered"
    else if !advertised o st.version then .propFail tag "reported-version-not-advertised"
    else if (c.output.getD "hrr" "0" == "1") != st.didHRR then .diff tag "HRR flag differs from the number of ClientHellos on the wire"
    else .ok tag
  | _, _ => .bad "unparsable c10_ossl line"

def families : List (String × (Case → Verdict)) := [("c10_hs", hs), ("c10_ossl", ossl)]

end Drv.C10
