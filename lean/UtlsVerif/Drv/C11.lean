import UtlsVerif.Line
import UtlsVerif.Neg2Wire
import UtlsVerif.Drv.C10
/-! Driver side of C11: client and server agree on every negotiated parameter and exported key. -/
namespace Drv.C11
open Wire Line Negotiate Neg2Wire Report
open NegotiateWire (outcomeTag)

def impl : Impl := Drv.C10.impl

def strBytes (s : String) : Bytes := s.toUTF8.toList

/-- where the names of this case come from, read off the input tokens. -/
def namesOf (kv : KV) : Names :=
  let cfg := (kv.bytes "sname").getD (strBytes "example.golang")
  let mods := listOf (kv.getD "mods" "")
  let explicit := (mods.find? (·.startsWith "sni=")).bind fun m => unhex (m.drop 4).toString
  let sniExt : Option Bytes :=
    if kv.getD "rmsni" "0" == "1" || mods.contains "nosni" then none
    else some (explicit.getD [])
  let base : Names := { cfgName := cfg, sniExt := sniExt, ech := kv.getD "ech" "0" == "1", publicName := strBytes "public.verif.test" }
  -- edits made to the built UConn before Handshake builds the hello again
  let post := kv.getD "post" ""
  if post == "rmext" then { base with sniExt := none }
  else if post.startsWith "extname:" then
    match unhex (post.drop 8).toString with
    | some n => if base.sniExt.isSome then { base with sniExt := some n } else base
    | none => base
  else if post.startsWith "setsni:" then
    -- SetSNI(name): Config.ServerName and the extension's name both become hostnameInSNI(name)
    match unhex (post.drop 7).toString with
    | some n => { base with cfgName := Sni.hostnameInSNI n, sniExt := base.sniExt.map fun _ => Sni.hostnameInSNI n }
    | none => base
  else base

/-- fields in which two reported states differ (the fields the property lists). -/
def differing (a b : Conn) : List String :=
  (if a.version != b.version then ["version"] else []) ++
  (if a.suite != b.suite then ["suite"] else []) ++
  (if a.alpn != b.alpn then ["alpn"] else []) ++
  (if a.curve != b.curve then ["curve"] else []) ++
  (if a.didResume != b.didResume then ["did-resume"] else []) ++
  (if a.echAccepted != b.echAccepted then ["ech-accepted"] else []) ++
  (if a.serverName != b.serverName then ["server-name"] else [])

def answerClass : Answer → String
  | .bytes _ => "bytes"
  | .refused c => c

def expectClass (r : Option Refusal) : String :=
  match r with
  | none => "bytes"
  | some w => refusalClass w

/-- exporter monitors and model comparison for one probe. `Except` error = PROPFAIL clause, `some` = DIFF. -/
def checkProbe (cs ss : Side) (p : ProbeResult) : Except String (Option String) :=
  -- monitors on the implementation's answers
  match p.cpub, p.spub with
  | .bytes a, .bytes b =>
    if a != b then .error "exported-keying-material-differs" else
    match p.craw, p.sraw with
    | .bytes x, .bytes y => if x != y then .error "exporter-secret-differs" else
        if a.length != p.probe.length then .ok (some s!"exported {a.length} bytes for length {p.probe.length}") else .ok none
    | _, _ => .ok none
  | _, _ =>
    match p.craw, p.sraw with
    | .bytes x, .bytes y => if x != y then .error "exporter-secret-differs" else checkModel
    | _, _ => checkModel
where
  checkModel : Except String (Option String) :=
    let ec := expectClass (refusal cs p.probe.label p.probe.context)
    let es := expectClass (refusal ss p.probe.label p.probe.context)
    let er := expectClass (rawRefusal cs.version p.probe.label p.probe.context)
    if answerClass p.cpub != ec then .ok (some s!"client exporter: model {ec}, implementation {answerClass p.cpub}")
    else if answerClass p.spub != es then .ok (some s!"server exporter: model {es}, implementation {answerClass p.spub}")
    else if answerClass p.craw != er || answerClass p.sraw != er then
      .ok (some s!"raw exporter: model {er}, implementation {answerClass p.craw}/{answerClass p.sraw}")
    else .ok none

def checkProbes (cs ss : Side) : List ProbeResult → Except String (Option String)
  | [] => .ok none
  | p :: rest =>
    match checkProbe cs ss p with
    | .error e => .error e
    | .ok (some d) => .ok (some d)
    | .ok none =>
      -- a pair of byte answers was only checked by the monitors above: still compare with the model
      match checkProbe.checkModel cs ss p with
      | .error e => .error e
      | .ok (some d) => .ok (some d)
      | .ok none => checkProbes cs ss rest

def hs (c : Case) : Verdict :=
  match parseCase impl c with
  | .bad m => .bad m
  | .skipped why => .ok s!"skip,{why}"
  | .prepareError msg => .propFail "prepare-error" s!"client-could-not-build-the-hello:{msg}"
  | .refused mode cerr serr completed =>
    if completed then .bad "completed without a ServerHello"
    else if serverRefused cerr serr then .ok s!"{mode},server-refused"
    else .propFail s!"{mode},no-server-hello" s!"client-failed-before-any-server-hello:{cerr}"
  | .eval e =>
    let names := namesOf e.input
    let echAcc := names.ech
    let v := peerVersion e.resp.hello1
    let ems := emsNegotiated e.offer e.ctx e.resp.hello1
    let cs : Side := { version := v, ems := ems, reneg := e.creneg != 0 }
    let ss : Side := { version := v, ems := ems, reneg := false }
    let pubAvail := if (refusal cs [] none).isNone then "+ekm" else if e.creneg != 0 then "+reneg" else "+noems"
    let sni := if names.ech then "+ech" else if (sentName names).isEmpty then "+nosni" else "+sni"
    let tag := if !e.completed && serverRefused e.cerr e.serr then s!"{e.mode},server-refused-late"
               else s!"{e.mode},{Drv.C10.shape e}{sni}{pubAvail},{outcomeTag e.model}"
    match Drv.C10.monitorC10 e tag with
    | some v => v
    | none =>
    if !e.completed then .ok tag else
    match e.cstate, e.sstate with
    | some cst, some sst =>
      -- monitors: the two ends report the same; the client reports the name it actually sent; exported bytes agree
      let d := differing cst sst
      if !d.isEmpty then .propFail tag s!"reports-differ:{"+".intercalate d}"
      else if !cst.echAccepted && cst.serverName != e.sniWire.getD [] then
        .propFail tag "client-reports-a-server-name-it-did-not-send"
      else
      match checkProbes cs ss e.probes with
      | .error clause => .propFail tag clause
      | .ok probeDiff =>
      -- model: accept/abort and parameters (C10 tie), both reports, the name on the wire, the extended
      -- master secret, the exporter answers
      match Drv.C10.tieC10 e tag, e.model with
      | some v, _ => v
      | none, .abort _ => .bad "completed handshake the model aborts"
      | none, .accept st =>
      let mc := reportClient st echAcc (clientName names echAcc)
      let ms := reportServer impl e.offer e.ctx e.resp echAcc (serverName names echAcc)
      let wireName := if (sentName names).isEmpty then none else some (sentName names)
      if cst != mc then .diff tag s!"client state {renderConn mc}"
      else if sst != ms then .diff tag s!"server state {renderConn ms}"
      else if e.sniWire != wireName then .diff tag s!"SNI on the wire {hex (wireName.getD [])}"
      else if v != tls13 && (e.cems != ems || e.sems != ems) then .diff tag s!"extended master secret {ems}"
      else match probeDiff with
        | some d => .diff tag d
        | none => .ok tag
    | _, _ => .bad "completed handshake without both connection states"

def families : List (String × (Case → Verdict)) := [("c11_hs", hs)]

end Drv.C11
