import UtlsVerif.Line
import UtlsVerif.NegotiateWire
import UtlsVerif.Gen.NegImpl
/-! Driver side of C12: the client rejects any server choice its on-wire ClientHello did not offer. -/
namespace Drv.C12
open Line Negotiate NegotiateWire

/-- the regenerated implementation tables. -/
def impl : Impl :=
  { suites12 := Gen.NegImpl.suites12, ecdhe12 := Gen.NegImpl.ecdhe12, suites13 := Gen.NegImpl.suites13,
    curves := Gen.NegImpl.curves, canary12 := Gen.NegImpl.canary12, canary11 := Gen.NegImpl.canary11,
    hrrRandom := Gen.NegImpl.hrrRandom }

/-- which of the server's selections (as sent on the wire) the ClientHello did not offer. Computed
from the recorded bytes only — independent of `clientStep`. -/
def unoffered (e : Eval) : List String :=
  let o := e.offer
  let shF := e.hellos.getLast?.getD default
  let sel13 := shF.supportedVersion == tls13
  let hrrSel := (e.hellos.filter fun h => isHRR impl h).foldl (fun acc h => if h.selectedGroup != 0 then h.selectedGroup else acc) 0
  let sharesNow := if hrrSel != 0 then [hrrSel] else o.shareGroups
  (if e.hellos.any fun h => !o.suites.contains h.suite then ["suite"] else []) ++
  (if e.hellos.any fun h => !o.compressions.contains h.compression then ["compression"] else []) ++
  (if sel13 && (e.hellos.any fun h => isHRR impl h && h.selectedGroup != 0 && !o.groups.contains h.selectedGroup) then ["hrr-group"] else []) ++
  (if sel13 && !isHRR impl shF && shF.shareGroup != 0 && !sharesNow.contains shF.shareGroup then ["group"] else []) ++
  (if !sel13 && e.skx != 0 && o.hasGroups && !o.groups.contains e.skx then ["group"] else []) ++
  (if !e.resp.eeAlpn.isEmpty && !o.alpn.contains e.resp.eeAlpn then ["alpn"] else []) ++
  (if !shF.alpn.isEmpty && !o.alpn.contains shF.alpn then ["alpn"] else []) ++
  (if sel13 && shF.pskPresent && shF.pskIdx ≥ o.pskCount then ["psk"] else []) ++
  (match e.certSent with
   | .compressed alg _ => if o.certCompAlgs.contains alg then [] else ["cert-compression"]
   | .plain => []) ++
  (if sel13 && (e.hellos.any fun h => h.sessionId != o.sessionId) then ["session-id"] else [])

/-- values of the reported ConnectionState that the hello did not offer. -/
def stateUnoffered (e : Eval) : List String :=
  match e.state with
  | none => []
  | some s =>
    let o := e.offer
    (if o.suites.contains s.suite then [] else ["suite"]) ++
    (if s.curve == 0 || o.shareGroups.contains s.curve || o.groups.contains s.curve ||
        (s.version != tls13 && !o.hasGroups) then [] else ["group"]) ++
    (if s.alpn.isEmpty || o.alpn.contains s.alpn then [] else ["alpn"])

def hs (c : Case) : Verdict :=
  match parseCase impl c with
  | .bad m => .bad m
  | .skipped _ => .ok "skip"
  | .refused mode completed => if completed then .bad "completed without a ServerHello" else .ok s!"{mode},server-refused"
  | .eval e =>
    let tag := s!"{e.mode},{outcomeTag e.model}"
    let un := unoffered e
    let su := stateUnoffered e
    -- monitors (on the implementation's behaviour)
    if !un.isEmpty && (e.completed || e.app || e.state.isSome) then
      .propFail tag s!"accepted-unoffered-{"+".intercalate un}"
    else if !su.isEmpty then
      .propFail tag s!"connection-state-shows-unoffered-{"+".intercalate su}"
    else match diff e with
      | some m => .diff tag m
      | none => .ok tag

def families : List (String × (Case → Verdict)) := [("c12_hs", hs), ("c12_quic", hs)]

end Drv.C12
