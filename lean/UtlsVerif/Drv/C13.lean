import UtlsVerif.Line
import UtlsVerif.NegotiateWire
import UtlsVerif.Drv.C12
/-! Driver side of C13: the client never settles on a protocol version it did not advertise. -/
namespace Drv.C13
open Line Negotiate NegotiateWire

def impl : Impl := Drv.C12.impl

/-- "a version its on-wire ClientHello advertised": listed in supported_versions when present,
otherwise between the spec's minimum (Config.MinVersion as SetTLSVers left it) and legacy_version. -/
def advertisedWire (o : Offer) (specMin : Nat) (v : Nat) : Bool :=
  if o.hasVersions then o.versions.contains v else (specMin ≤ v && v ≤ o.legacyVersion)

def hs (c : Case) : Verdict :=
  match parseCase impl c with
  | .bad m => .bad m
  | .skipped _ => .ok "skip"
  | .refused mode completed => if completed then .bad "completed without a ServerHello" else .ok s!"{mode},server-refused"
  | .eval e =>
    let tag := s!"{e.mode},{outcomeTag e.model}"
    let o := e.offer
    let shF := e.hellos.getLast?.getD default
    let h1 := e.hellos.head?.getD default
    let settled := e.completed || e.app || e.state.isSome
    -- monitors (on the implementation's behaviour)
    let badState := match e.state with
      | some s => !advertisedWire o e.ctx.cfgMin s.version
      | none => false
    if badState then .propFail tag "settled-on-unadvertised-version"
    else if settled && !advertisedWire o e.ctx.cfgMin (peerVersion shF) then
      .propFail tag "completed-with-a-server-hello-selecting-an-unadvertised-version"
    else if settled && o.versions.contains tls13 && peerVersion h1 ≤ tls12 &&
        (hasCanary12 impl h1 || hasCanary11 impl h1) then
      .propFail tag "downgrade-sentinel-accepted-although-tls13-was-offered"
    else match diff e with
      | some m => .diff tag m
      | none => .ok tag

/-- `exts` token: comma-separated extensions, each `e` (empty list) or dot-separated 4-hex versions. -/
def parseExtsTok (s : String) : Option (List (List Nat)) :=
  (listOf s).mapM fun e => if e == "e" then some [] else (e.splitOn ".").mapM hex16?

def hex4 (n : Nat) : String :=
  String.ofList [hexDigit (n / 4096 % 16), hexDigit (n / 256 % 16), hexDigit (n / 16 % 16), hexDigit (n % 16)]

def hexList (xs : List Nat) : String := if xs.isEmpty then "-" else ",".intercalate (xs.map hex4)

def setvers (c : Case) : Verdict :=
  match hex16? (c.input.getD "min" ""), hex16? (c.input.getD "max" ""), parseExtsTok (c.input.getD "exts" "-") with
  | some mn, some mx, some exts =>
    let ech := c.input.getD "ech" "0" == "1"
    let kind := if mn != 0 || mx != 0 then "explicit" else if exts.isEmpty then "default" else "derived"
    match setTLSVers mn mx exts with
    | .error err =>
      let cls := match err with
        | .invalidVersions => "invalid-versions" | .multipleExts => "multiple-exts"
        | .badMin => "bad-min" | .badMax => "bad-max"
      let tag := s!"{kind},err:{cls}"
      if c.output.getD "err" "?" == cls then .ok tag else .diff tag s!"err={cls}"
    | .ok (a, b) =>
      -- what the Config held before the call: irrelevant unless an ECH config list is set
      let (c0min, c0max) := match (listOf (c.input.getD "cfg0" "-")).map hex16? with
        | [some a', some b'] => (a', b')
        | _ => (0, 0)
      let base : ClientCtx := { cfgMin := c0min, cfgMax := c0max, ecdheGroup := 0, hybridKeys := false }
      let ctx := ctxOfVers a b ech base
      let len := makeSupportedVersionsLen a b
      let head := (List.range (min len 6)).map (makeSupportedVersionsAt b)
      let model := s!"err=- cfg={hex4 ctx.cfgMin},{hex4 ctx.cfgMax} svlen={len} svhead={hexList head} accepts={hexList (cfgVersions ctx)}"
      let implS := s!"err={c.output.getD "err" "?"} cfg={c.output.getD "cfg" "?"} svlen={c.output.getD "svlen" "?"} svhead={c.output.getD "svhead" "?"} accepts={c.output.getD "accepts" "?"}"
      let tag := s!"{kind},ok{if ech then ",ech" else ""}{if c0min != 0 || c0max != 0 then ",pinned" else ""}{if (cfgVersions ctx).isEmpty then ",empty" else ""}"
      if implS == model then .ok tag else .diff tag model
  | _, _, _ => .bad "c13_setvers: bad input"

def families : List (String × (Case → Verdict)) := [("c13_hs", hs), ("c13_setvers", setvers)]

end Drv.C13
