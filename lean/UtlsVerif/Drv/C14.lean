import UtlsVerif.Line
import UtlsVerif.VerifyPlan
/-! Driver side of C14 (`cert_hs`). x509 is an oracle table on the line (computed by the harness with
crypto/x509 for the presented leaf, independent of the code under test); the model turns the Config
into a plan, looks it up and predicts the outcome of the connection. -/
namespace Drv.C14
open Line VerifyPlan

/-- `name@time:bit` entries. -/
def lookup (tbl : List String) (key : String) : Option Bool :=
  tbl.findSome? fun e =>
    match e.splitOn ":" with
    | [k, v] => if k = key then some (v = "1") else none
    | _ => none

def nameKey : Option String → String
  | none => "-"
  | some n => n

def timeKey : TimeSpec → String
  | .configured => "cfg"
  | .leafNotAfter => "na"

/-- the chain is fixed per line; the oracle is the table. Unknown entries count as "does not verify"
and are reported separately. -/
def tableOracle (orc : List String) : Oracle Unit := fun p _ =>
  (lookup orc s!"{nameKey p.name}@{timeKey p.time}").getD false

def planKnown (orc : List String) (d : Decision) : Bool :=
  match d with
  | .skip => true
  | .verify p => (lookup orc s!"{nameKey p.name}@{timeKey p.time}").isSome

def outcomeStr : Outcome → String
  | .accepted r => s!"c=ok resumed={if r then "1" else "0"}"
  | .certError => "c=certerr resumed=0"
  | .echRejection => "c=echrej resumed=0"

/-- the name / time the *property text* prescribes for a handshake that is not ECH-rejected. -/
def specName (sn nv : String) : Option String :=
  if nv = "-" then (if sn = "" then none else some sn) else if nv = "*" then none else some nv

def certHs (c : Case) : Verdict :=
  let i := c.input
  let o := c.output
  if o.getD "out" "?" ≠ "ok" then .diff "harness" s!"out=ok (got {o.getD "out" "?"})" else
  let sn := i.getD "sn" ""
  let nvTok := i.getD "nv" "-"
  let nv := if nvTok = "-" then "" else nvTok
  let skipv := i.getD "skipv" "0" = "1"
  let skipt := i.getD "skipt" "0" = "1"
  let ech := i.getD "ech" "none"
  let pub := "public.verif.test"
  let cfg : Cfg := ⟨sn, nv, skipv, skipt, ech ≠ "none"⟩
  let orc := listOf (o.getD "orc" "-")
  let host := listOf (o.getD "host" "-")
  let O := tableOracle orc
  let S : SessOracle Unit := ⟨fun _ => o.getD "exp2" "0" = "1", fun n _ => (lookup host n).getD false⟩
  let resumedObs := o.getD "resumed" "0" = "1"
  let cObs := o.getD "c" "?"
  let cached : Option (Session Unit) :=
    if i.getD "mode" "fresh" = "resumed" ∧ o.getD "sess" "0" = "1" then some ⟨(), o.getD "chains1" "0" = "1"⟩ else none
  let echAccepted := ech = "acc"
  let connName := if ech = "rej" then pub else sn
  let leafKind := ((i.getD "leaf" "?").splitOn ":").headD "?"
  let nk := if i.getD "nosni" "0" = "1" then "nosni" else if o.getD "sni" "?" = "-" then "ip" else "dns"
  let tag := s!"{if i.getD "id" "?" = "Golang-0" then "go" else "utls"},{i.getD "vers" "?"},{nk},{ech},{i.getD "mode" "?"},{leafKind},{if resumedObs then "resumed" else cObs}"
  let tkey := if skipt then "na" else "cfg"
  -- ---- monitors on the implementation's output, as the property states them
  let expName := specName sn nvTok
  let verifiedAsAsked := (lookup orc s!"{nameKey expName}@{tkey}").getD false
  let pubVerified := (lookup orc s!"{pub}@{tkey}").getD false
  let hostOfExp : Bool := match expName with | none => true | some n => (lookup host n).getD false
  if cObs = "ok" ∧ ¬ resumedObs ∧ ¬ skipv ∧ ech ≠ "rej" ∧ ¬ verifiedAsAsked then
    .propFail tag "accepted-although-chain-does-not-verify-for-the-requested-name/time"
  else if ech = "rej" ∧ cObs = "ok" then .propFail tag "ech-rejected-but-connection-accepted"
  else if ech = "rej" ∧ nvTok = "-" ∧ cObs = "echrej" ∧ ¬ pubVerified then
    .propFail tag "ech-rejection-reported-though-certificate-not-valid-for-public-name"
  else if ech = "rej" ∧ nvTok = "-" ∧ pubVerified ∧ cObs ≠ "echrej" then
    .propFail tag "ech-rejected-with-valid-public-name-certificate-but-no-ECHRejectionError"
  else if resumedObs ∧ ¬ ((skipt ∨ o.getD "exp2" "0" = "0") ∧
      (skipv ∨ (o.getD "chains1" "0" = "1" ∧ hostOfExp = true))) then
    .propFail tag "resumed-session-used-although-cached-leaf-fails-the-recheck"
  else
  -- ---- correspondence: the model's prediction
  let plan := verifyPlan cfg echAccepted connName
  if ¬ planKnown orc plan then .bad s!"cert_hs: oracle table lacks the plan" else
  let pred := connect O S cfg cached true resumedObs echAccepted connName ()
  let got := s!"c={cObs} resumed={o.getD "resumed" "?"}"
  if outcomeStr pred ≠ got then .diff tag (outcomeStr pred) else .ok tag

def families : List (String × (Case → Verdict)) := [("cert_hs", certHs)]

end Drv.C14
