import UtlsVerif.Line
import UtlsVerif.Ech
import UtlsVerif.VerifyPlan
/-! Driver side of C15: `ech_codec` (inner hello encoder / decoder) and `ech_hs` (real ECH handshakes).
HPKE and the transcript functions are instantiated by injective toy functions: the model run only
needs "the right key opens, another does not" and "equal transcripts give equal confirmations". -/
namespace Drv.C15
open Line Wire Ech

/-- injective numbering of (public key, info) pairs: digits 0..255 for bytes, 256 as separator. -/
def ctxNum (pk info : Bytes) : Nat :=
  (pk.map (·.toNat) ++ 256 :: info.map (·.toNat)).foldr (fun d acc => (d + 1) + 258 * acc) 0

def ctxTag (k : Nat) : Bytes := (toString k).toUTF8.toList

def toyC : Crypto where
  conf := fun l r tr => u8 l ++ vec16 r ++ tr
  mhash := fun m => [0xfe] ++ vec24 m
  ctx := ctxNum
  seqCtx := fun a n => 2 ^ n * (2 * a + 1)
  hseal := fun k _ pt => vec16 (ctxTag k) ++ pt
  hopen := fun k _ ct => match readVec16 ct with
    | some (t, rest) => if t = ctxTag k then some rest else none
    | none => none

def errName : DecErr → String
  | .invalidInner => "invalidInner"
  | .invalidOuterExts => "invalidOuterExts"
  | .invalidRecon => "invalidRecon"
  | .invalidEchExt => "invalidEchExt"
  | .badVersions => "badVersions"

def renderDec : R Hello → String
  | .ok h => hex h.marshal
  | .err e => "err:" ++ errName e

def strBytes (s : String) : Bytes := s.toUTF8.toList

/-- is `pat` a contiguous sub-list of `xs`? -/
def isInfix (pat : Bytes) : Bytes → Bool
  | [] => pat.isEmpty
  | x :: xs => pat.isPrefixOf (x :: xs) || isInfix pat xs

/-- types listed by the `ech_outer_extensions` extensions of an encoded inner extension list. -/
def listedOf (es : List RawExt) : List Nat :=
  es.flatMap fun e =>
    if e.typ = extOuterExts then
      match readVec8 e.data with
      | some (l, _) => (decU16s l).getD []
      | none => []
    else []

/-- extension list of an encoded inner hello (bytes), if it parses. -/
def encExtsOf (enc : Bytes) : Option (List RawExt) :=
  match take? 34 enc with
  | some (_, r1) =>
    match readVec8 r1 with
    | some (_, r2) =>
      match readVec16 r2 with
      | some (_, r3) =>
        match readVec8 r3 with
        | some (_, r4) =>
          match readVec16 r4 with
          | some (eb, _) => parseExts eb
          | none => none
        | none => none
      | none => none
    | none => none
  | none => none

/-- monitor: in a successfully reconstructed inner hello every extension that was compressed carries
the outer hello's value, every other extension is the one that was sent encrypted. -/
def expansionOk (outer recon : Hello) (enc : Bytes) : Bool :=
  match encExtsOf enc with
  | none => false
  | some es =>
    let listed := listedOf es
    listed.all (fun t => findExt recon.exts t == findExt outer.exts t && (findExt outer.exts t).isSome) &&
    (es.filter (·.typ != extOuterExts)).all (fun e => findExt recon.exts e.typ == some e.data)

def codec (c : Case) : Verdict :=
  let i := c.input
  let o := c.output
  if o.getD "out" "?" ≠ "ok" then .diff "harness" s!"out=ok (got {o.getD "out" "?"})" else
  match (i.bytes "outer").bind parseHello with
  | none => .bad "ech_codec: outer does not parse"
  | some outer =>
    let kind := i.getD "kind" "?"
    let reconS := o.getD "recon" "?"
    let cls := if reconS.startsWith "err:" then (reconS.drop 4).toString else "ok"
    if kind = "enc" then
      match (o.bytes "canon").bind parseHello, i.nat "mnl", i.nats "oext" with
      | some inner, some mnl, some oext =>
        let reorder := i.getD "reorder" "0" = "1"
        let ot := if reorder then some oext else none
        let tag := s!"enc,{if reorder then "utls" else "go"},{cls}"
        let encM := encodeInner inner mnl ot
        match o.bytes "enc" with
        | none => .bad "ech_codec: enc"
        | some enc =>
          if encM ≠ enc then .diff tag s!"enc={hex encM}" else
          let d := decodeInner outer enc
          if renderDec d ≠ reconS then .diff tag s!"recon={renderDec d}" else
          -- monitors on the implementation's reconstruction
          match (o.bytes "recon").bind parseHello with
          | some recon =>
            if !expansionOk outer recon enc then .propFail tag "expanded-extension-differs-from-outer-or-order"
            else if recon.serverName ≠ inner.serverName then .propFail tag "inner-server-name-changed"
            else if (enc.drop (encodeInnerCore inner ot).length).any (· != 0) then .propFail tag "padding-not-zero"
            else .ok tag
          | none => .ok tag
      | _, _, _ => .bad "ech_codec: enc inputs"
    else
      match i.bytes "e" with
      | none => .bad "ech_codec: e"
      | some enc =>
        let mutS := ((i.getD "mut" "none").splitOn "+").headD "none"
        let tag := s!"dec,{mutS},{cls}"
        let d := decodeInner outer enc
        if renderDec d ≠ reconS then .diff tag s!"recon={renderDec d}" else
        match (o.bytes "recon").bind parseHello with
        | some recon =>
          if !expansionOk outer recon enc then .propFail tag "expanded-extension-differs-from-outer-or-order"
          else .ok tag
        | none => .ok tag

/-! ## ech_hs -/

/-- key_share extension body → shares. -/
def parseSharesAux : Nat → Bytes → Option (List KS)
  | 0, bs => if bs.isEmpty then some [] else none
  | f + 1, bs =>
    if bs.isEmpty then some [] else
    match readU16 bs with
    | none => none
    | some (g, r) =>
      match readVec16 r with
      | none => none
      | some (d, r') => (parseSharesAux f r').map (⟨g, d⟩ :: ·)

def sharesOf (h : Hello) : List KS :=
  match findExt h.exts extKeyShare with
  | none => []
  | some d =>
    match readVec16 d with
    | some (l, _) => (parseSharesAux l.length l).getD []
    | none => []

def groupsOf (h : Hello) : List Nat :=
  match findExt h.exts 10 with
  | none => []
  | some d =>
    match readVec16 d with
    | some (l, _) => (decU16s l).getD []
    | none => []

/-- x509 of the run: the server presents a leaf for exactly one name; roots and times are fine. -/
def nameOracle : VerifyPlan.Oracle (List String) := fun p chain =>
  match p.name with
  | none => true
  | some n => chain.contains n

structure Pred where
  c : String
  cech : String
  sech : String
  csn : String
  ssn : String
  retry : String
  deriving Repr

def Pred.render (p : Pred) : String :=
  s!"c={p.c} cech={p.cech} sech={p.sech} csn={p.csn} ssn={p.ssn} retry={p.retry}"

def bytesStr (b : Bytes) : String := String.ofList (b.map fun x => Char.ofNat x.toNat)

/-- the server's keys from the line: `configHex:sendAsRetry` in order; the HPKE key is identified
by the public key inside the config it was configured with. -/
def serverKeys (toks : List String) : Option (List SKey) :=
  toks.mapM fun t =>
    match t.splitOn ":" with
    | [c, r] =>
      match unhex c with
      | some cb =>
        match parseConfig cb with
        | .cfg cfg => some ⟨cfg.publicKey, cb, r = "1"⟩
        | _ => none
      | none => none
    | _ => none

/-- (kdf, aead, config id) of an outer ECH extension body. -/
def echHeader (h : Hello) : Option (Nat × Nat × Nat) :=
  match findExt h.exts extECH with
  | some (0 :: a :: c :: d :: e :: i :: _) => some (a.toNat * 256 + c.toNat, d.toNat * 256 + e.toNat, i.toNat)
  | _ => none

def finishPred (cfg : VerifyPlan.Cfg) (sn pub : String) (innerRandom trC : Bytes)
    (view : SrvView) (trS : Bytes) : Pred :=
  match view with
  | .abort => ⟨"abort", "0", "0", "-", "-", "-"⟩
  | .accepted inner' =>
    let sig := serverSignal toyC (inner'.vr.drop 2) trS []
    let sh : SHello := ⟨[], sig, false, 0, []⟩
    let ssn := (inner'.serverName.map bytesStr).getD "-"
    match clientFinish toyC nameOracle cfg (strBytes sn) pub innerRandom trC sh none [ssn] with
    | .accepted n e => ⟨"ok", if e then "1" else "0", "1", bytesStr n, ssn, "-"⟩
    | .echRejection r => ⟨"echrej", "0", "1", "-", ssn, hex r⟩
    | .certError => ⟨"certerr", "0", "1", "-", ssn, "-"⟩
    | .abort => ⟨"abort", "0", "1", "-", ssn, "-"⟩
  | .rejected retry =>
    let sh : SHello := ⟨[], List.replicate 8 0, false, 0, []⟩
    match clientFinish toyC nameOracle cfg (strBytes sn) pub innerRandom trC sh retry [pub] with
    | .accepted n e => ⟨"ok", if e then "1" else "0", "0", bytesStr n, pub, "-"⟩
    | .echRejection r => ⟨"echrej", "0", "0", "-", pub, hex r⟩
    | .certError => ⟨"certerr", "0", "0", "-", "-", "-"⟩
    | .abort => ⟨"abort", "0", "0", "-", "-", "-"⟩

def hs (c : Case) : Verdict :=
  let i := c.input
  let o := c.output
  if o.getD "out" "?" = "no-hello" then
    -- the client sent nothing: a violation iff its list holds a config the selection rules accept
    match ((o.bytes "clist").bind parseConfigList).map pickConfig with
    | some (some _) => .propFail s!"nohello,{i.getD "srv" "?"}" s!"no-ClientHello-although-the-config-list-has-a-usable-config({o.getD "c" "?"},{o.getD "prep" "?"})"
    | some none => .ok "nohello,nousable"
    | none => .ok "nohello,malformed-list"
  else
  if o.getD "out" "?" ≠ "ok" then .diff "harness" s!"out=ok (got {o.getD "out" "?"})" else
  let srv := i.getD "srv" "?"
  let sn := i.getD "sn" "?"
  let pub := i.getD "pub" "?"
  let idClass := if i.getD "id" "?" = "Golang-0" then "go" else "utls"
  let layout := i.getD "cl" "P"
  let lclass := if layout = "P" then "single" else if layout.endsWith "P" then "last" else if layout.startsWith "P" then "first" else "middle"
  let pre := i.getD "pre" "plain"
  let preClass := if pre = "plain" then "" else s!"{pre},"
  let tag := s!"{idClass},{srv},{preClass}{lclass},{o.getD "c" "?"}"
  let nch := (o.nat "nch").getD 0
  let secret := strBytes sn
  let accepting := srv = "accept" ∨ srv = "accept2" ∨ srv = "hrr"
  let hrrMode := srv = "hrr" ∨ srv = "rejhrr"
  match (o.bytes "ch1").bind parseHello, (o.bytes "clist").bind parseConfigList, serverKeys (listOf (o.getD "skeys" "-")) with
  | some outer1, some cfgs, some keys =>
    match pickConfig cfgs with
    | none => .bad "ech_hs: the model picks no config from the client's list"
    | some picked =>
    let ch1B := (o.bytes "ch1").getD []
    let ch2B := (o.bytes "ch2").getD []
    let outer2 := (o.bytes "ch2").bind parseHello
    let c2 := o.getD "c2" "-"
    -- ---- monitors on the implementation's output (property clauses), part 1: needs no decryption
    if o.getD "prenote" "ok" ≠ "ok" then .diff tag s!"prenote=ok (the pre-handshake steps themselves failed: {o.getD "prenote" "?"})" else
    if o.getD "leak" "?" ≠ "0" ∨ isInfix secret ch1B ∨ (nch ≥ 2 ∧ isInfix secret ch2B) then
      .propFail tag "server-name-in-plaintext-flight"
    else if outer1.serverName ≠ some (strBytes pub) ∨ (nch ≥ 2 ∧ (outer2.bind (·.serverName)) ≠ some (strBytes pub)) then
      .propFail tag "outer-sni-is-not-the-public-name"
    else if accepting ∧ ¬ (o.getD "c" "?" = "ok" ∧ o.getD "cech" "?" = "1" ∧ o.getD "sech" "?" = "1" ∧
        o.getD "csn" "?" = sn ∧ o.getD "ssn" "?" = sn ∧ o.getD "echo" "?" = "1") then
      .propFail tag "accepting-server-but-handshake-not-completed-with-ECHAccepted-and-ServerName"
    else if ¬ accepting ∧ ¬ (o.getD "c" "?" = "echrej" ∧ o.getD "retry" "?" = o.getD "srvretry" "!") then
      .propFail tag "rejecting-server-but-no-ECHRejectionError-with-its-retry-configs"
    else if ¬ accepting ∧ o.getD "retry" "-" ≠ "-" ∧ ¬ (c2 = "ok" ∧ o.getD "cech2" "?" = "1" ∧ o.getD "sech2" "?" = "1" ∧
        o.getD "csn2" "?" = sn ∧ o.getD "ssn2" "?" = sn) then
      .propFail tag "retry-config-list-not-accepted-by-the-server-that-sent-it"
    else
    match o.bytes "enc1", (o.bytes "inner").bind parseHello, o.nat "imnl", o.nats "oext" with
    | some enc1, some inner, some mnl, some oext =>
    let utls := o.getD "reorder" "0" = "1"
    let ot := if utls then some oext else none
    let recon1 := (o.bytes "recon1").bind parseHello
    let recon2 := (o.bytes "recon2").bind parseHello
    -- ---- monitors, part 2: what the holder of the key finds inside
    if recon1.isNone then
      .propFail tag s!"server-cannot-reconstruct-the-inner-hello({o.getD "open" "?"},{(o.getD "recon1" "?").take 24})"
    else if (recon1.bind (·.serverName)) ≠ some secret then .propFail tag "decrypted-inner-hello-does-not-name-ServerName"
    else if (match recon1 with | some r => !expansionOk outer1 r enc1 | none => true) then
      .propFail tag "compressed-extension-does-not-expand-to-outer-value"
    else if srv = "hrr" ∧ ¬ (nch = 2 ∧ (recon2.map fun r => decide ((sharesOf r).length = 1 ∧ r.serverName = some secret)) = some true) then
      .propFail tag "second-inner-hello-after-HRR-not-one-key-share"
    else
    -- ---- correspondence with the model
    -- (0) config selection: the outer ECH extension announces the picked config and suite
    let hdrM := (pickSuite picked).map fun s => (s.1, s.2, picked.configId)
    if echHeader outer1 ≠ hdrM then .diff tag s!"ech-ext-header(kdf,aead,id)={repr hdrM}" else
    -- (1) decoder on every opened hello
    let d1 := decodeInner outer1 enc1
    if renderDec d1 ≠ o.getD "recon1" "?" then .diff tag s!"recon1={renderDec d1}" else
    let d2 := match outer2, o.bytes "enc2" with
      | some o2, some e2 => some (decodeInner o2 e2)
      | _, _ => none
    if (d2.map fun d => decide (renderDec d ≠ o.getD "recon2" "?")) = some true then
      .diff tag s!"recon2={(d2.map renderDec).getD "-"}" else
    -- (2) encoder: the client's inner hello ↦ what was found inside the last opened payload
    let lastEnc := (o.bytes "enc2").getD enc1
    let encM := encodeInner inner mnl ot
    if encM ≠ lastEnc then .diff tag s!"enc={hex encM}" else
    -- (3) the handshake run; HPKE contexts from (public key, "tls ech\0" ‖ config bytes) on both sides
    let cfg : VerifyPlan.Cfg := ⟨sn, "", false, false, true⟩
    let cctx := clientCtx toyC picked
    let aad1 := outer1.body
    let innerRandom := inner.vr.drop 2
    -- the first hello is sealed at sequence 0 by the context of its last marshal (`marshalSeq`), whatever
    -- BuildHandshakeState / MarshalClientHello calls preceded; the server's fresh receiver opens at 0
    let nMarshal := if pre = "build1" then 2 else if pre = "build2" ∨ pre = "remarshal" then 3 else 1
    let marshals := (List.range nMarshal).map fun _ => (cctx, aad1, enc1)
    let payload1 := ((marshalSeq toyC none marshals).1).getD []
    let view1 := tryKeys toyC keys 0 outer1 aad1 payload1
    let pred : Pred :=
      if !hrrMode then
        match clientInnerMsg utls inner outer1 mnl ot with
        | none => ⟨"abort", "0", "0", "-", "-", "-"⟩
        | some m =>
          let trS := match view1 with | .accepted i' => i'.marshal | _ => []
          finishPred cfg sn pub innerRandom (innerTranscript toyC m none) view1 trS
      else
        match outer2 with
        | none => ⟨"no-second-hello", "0", "0", "-", "-", "-"⟩
        | some o2 =>
          -- first round: the client hashed its first inner hello; on the crypto/tls path that is
          -- (by the round-trip theorem) the reconstruction of hello 1
          let m1 := match d1 with | .ok h => h.marshal | .err _ => []
          let hrrRaw : Bytes := [2]
          let (hrrSig, srvAcc1) := match view1 with
            | .accepted i1 => (serverHrrSignal toyC (i1.vr.drop 2) i1.marshal [], true)
            | _ => ([], false)
          let hrrMsg : SHello := ⟨[], hrrSig, srvAcc1, 8, hrrRaw⟩
          match clientHrrConfirms toyC innerRandom m1 hrrMsg with
          | none => ⟨"abort", "0", "0", "-", "-", "-"⟩
          | some acc =>
            let innerBefore := match d1 with | .ok h => h | .err _ => inner
            let newKey := match sharesOf inner with | [k] => k.data | _ => []
            let hin : HrrIn := ⟨acc, utls, sharesOf outer1, sharesOf innerBefore,
              groupsOf (if acc then innerBefore else outer1), 24, false,
              if acc then newKey else ((sharesOf o2).headD ⟨0, []⟩).data⟩
            match processHrrShares hin with
            | .error _ => ⟨"abort-hrr", "0", "0", "-", "-", "-"⟩
            | .ok ho =>
              if ho.wireShares ≠ sharesOf o2 then ⟨"wire-shares-differ", "0", "0", "-", "-", "-"⟩
              else if !serverAcceptsSecond 24 ho.wireShares then ⟨"ralert:illegal_parameter", "0", "0", "-", "-", "-"⟩
              else
                let aad2 := o2.body
                if acc then
                  let view2 := tryKeys toyC keys 1 o2 aad2 (Sender.seal toyC ⟨cctx, 1⟩ aad2 lastEnc).1
                  match clientInnerMsg utls inner o2 mnl ot with
                  | none => ⟨"abort", "0", "0", "-", "-", "-"⟩
                  | some m2 =>
                    let trC := innerTranscript toyC m1 (some (hrrRaw, m2))
                    let trS := match view1, view2 with
                      | .accepted i1, .accepted i2 => innerTranscript toyC i1.marshal (some (hrrRaw, i2.marshal))
                      | _, _ => []
                    finishPred cfg sn pub innerRandom trC view2 trS
                else
                  finishPred cfg sn pub innerRandom m1 (.rejected (retryList keys)) []
    let got : Pred := ⟨o.getD "c" "?", o.getD "cech" "?", o.getD "sech" "?", o.getD "csn" "?", o.getD "ssn" "?", o.getD "retry" "?"⟩
    if pred.render ≠ got.render then .diff tag pred.render else
    -- (4) the second connection with the returned retry list: the model picks from that list
    let pred2 : String :=
      match o.bytes "retry" with
      | some rl =>
        if rl.isEmpty ∨ o.getD "c" "?" ≠ "echrej" then "-" else
        match (parseConfigList rl).bind pickConfig with
        | none => "no-usable-config"
        | some p2 => if keys.any (fun k => k.ctxOf toyC == clientCtx toyC p2) then "ok" else "echrej"
      | none => "-"
    if pred2 ≠ c2 then .diff tag s!"c2={pred2}" else .ok tag
    | _, _, _, _ =>
      .propFail tag s!"first-ClientHello-ECH-payload-does-not-open-with-the-picked-config's-key-and-info({o.getD "open" "?"})"
  | _, _, _ => .bad "ech_hs: unparsable output"

def families : List (String × (Case → Verdict)) := [("ech_codec", codec), ("ech_hs", hs)]

end Drv.C15
