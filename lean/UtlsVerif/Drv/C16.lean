import UtlsVerif.Line
import UtlsVerif.GreaseEch
import UtlsVerif.ChSplit
/-! Driver side of C16: families `ech_init` (one extension object, draws replayed from the
crypto/rand log) and `ech_conn` (the five GREASE-ECH parrots over real connections). -/
namespace Drv.C16
open Wire Line ChSplit GreaseEch

def parsePairsNat (s : String) : Option (List (Nat × Nat)) :=
  (listOf s).mapM fun t => match t.splitOn ":" with
    | [a, c] => do pure ((← a.toNat?), (← c.toNat?))
    | _ => none

def unhexE (s : String) : Option Bytes := if s = "e" then some [] else unhex s

def parseFrozen (s : String) : Option Frozen :=
  match s.splitOn "|" with
  | [k, a, c, e, p] => do pure ⟨← k.toNat?, ← a.toNat?, ← c.toNat?, ← unhex e, ← unhex p⟩
  | _ => none

def frozenStr (f : Frozen) : String := s!"{f.kdf}|{f.aead}|{f.configId}|{hex f.enc}|{hex f.payload}"

def parseCfg (kv : KV) (pfx : String) (encKey : String) : Option Cfg := do
  pure ⟨← (kv.get (pfx ++ "suites")).bind parsePairsNat, ← kv.nats (pfx ++ "ids"), ← kv.bytes (pfx ++ encKey), ← kv.nats (pfx ++ "lens")⟩

def readStr : Ext.ReadRes → String
  | .ok bs => "ok:" ++ hex bs
  | .short => "short"
  | .eof0 => "eof0"
  | .err c => "err:" ++ c

/-- the ECH extension of a recorded hello: `some body` iff exactly one extension of type 0xfe0d. -/
def echBody (ch : Bytes) : Option Bytes :=
  match split ch with
  | some sp => match bodiesOf 0xfe0d sp.exts with
    | [b] => some b
    | _ => none
  | none => none

def echInit (c : Case) : Verdict :=
  let i := c.input
  let o := c.output
  match parseCfg i "" "enc" with
  | none => .bad "ech_init: bad input"
  | some cfg =>
    let cfgTag := s!"s{min cfg.suites.length 3},i{min cfg.configIds.length 3},{if cfg.enc.isEmpty then "kem" else "preset"},l{min cfg.payloadLens.length 5}"
    if o.get "out" = some "panic" then
      -- the only panic the model knows: an AEAD id `cipherLen` rejects (or an index out of range)
      if cfg.suites.any (fun s => ¬ (s.2 = 1 ∨ s.2 = 2 ∨ s.2 = 3)) then .ok (cfgTag ++ ",panic")
      else .diff (cfgTag ++ ",panic") "no panic predicted"
    else
    match (o.get "frozen").bind parseFrozen, (o.get "frozen2").bind parseFrozen, (o.get "log").map (fun s => (listOf s).mapM unhexE) with
    | some fr, some fr2, some (some chunks) =>
      let implRead := o.getD "read" "?"
      let implBytes := if implRead.startsWith "ok:" then unhex (implRead.drop 3).toString else none
      -- ---- monitors on the implementation's values ----
      let frameClause : Option String :=
        match implBytes with
        | none => some "Read-at-Len-failed"
        | some bs =>
          if bs.take 2 ≠ [0xfe, 0x0d] then some "type-not-0xfe0d"
          else if bs.take 4 ≠ u16 0xfe0d ++ u16 (bs.length - 4) then some "length-field"
          else match parseOuter (bs.drop 4) with
            | none => some "not-an-outer-ECH-body"
            | some ou =>
              if ¬ frameOk cfg 32 ou then some "suite/key-length/payload-length-not-from-the-candidates"
              else if (ou.kdf, ou.aead, ou.configId, ou.enc, ou.payload) ≠ (fr.kdf, fr.aead, fr.configId, fr.enc, fr.payload) then
                some "bytes-are-not-the-frozen-state"
              else none
      let frozenClause : Option String :=
        if fr2 ≠ fr then some "state-changed-by-a-later-Len/Read"
        else if o.nat "drawn2" ≠ some 0 then some "random-bytes-drawn-after-init"
        else if o.nat "len2" ≠ o.nat "len" then some "Len-changed"
        else if o.get "readbig" ≠ o.get "read" then some "Read-depends-on-the-buffer"
        else none
      match frameClause, frozenClause with
      | some cl, _ => .propFail cfgTag ("frame:" ++ cl)
      | _, some cl => .propFail cfgTag ("frozen:" ++ cl)
      | none, none =>
        -- ---- correspondence: replay init from the log ----
        match drawsOfLog cfg chunks fr.enc with
        | none => .diff cfgTag "the crypto/rand log does not parse as init's draws"
        | some d =>
          match (fresh cfg).init d with
          | .panic => .diff cfgTag "model: panic"
          | .ok o1 =>
            match o1.frozen with
            | none => .diff cfgTag "model: not frozen"
            | some mfr =>
              let l := Ext.len (toExt mfr)
              let after : Option Cfg := parseCfg o "after:" "encpre"
              let model := s!"frozen={frozenStr mfr} len={l} read={readStr (Ext.read (toExt mfr) l)} readshort={readStr (Ext.read (toExt mfr) (l - 1))}"
              let impl := s!"frozen={frozenStr fr} len={o.getD "len" "?"} read={implRead} readshort={o.getD "readshort" "?"}"
              if ¬ drawsWF cfg 32 d then .diff cfgTag "replayed draws are not well-formed (index out of range / key length / payload bytes)"
              else if mfr.payload.length ≠ d.payload.length then .diff cfgTag "payload read is not exactly cipherLen bytes"
              else if model ≠ impl then .diff cfgTag model
              else if after ≠ some o1.cfg then .diff cfgTag s!"exported fields after init: enc={hex o1.cfg.enc} lens={natsStr o1.cfg.payloadLens}"
              else if o1.init d ≠ .ok o1 then .diff cfgTag "model: second init not the identity"
              else .ok cfgTag
    | _, _, _ => .bad "ech_init: bad output"

def echConn (c : Case) : Verdict :=
  let o := c.output
  match o.get "out" with
  | some x => .diff s!"noresult:{x}" "a GREASE ECH extension was expected in the spec"
  | none =>
  match parseCfg o "" "encpre", c.input.nat "k" with
  | some cfg, some k =>
    let srv := c.input.getD "srv" "?"
    let conns := (List.range k).map fun n =>
      let p := s!"c{n}."
      (o.bytes (p ++ "ch1"), (if o.get (p ++ "ch2") = some "-" then none else o.bytes (p ++ "ch2")),
       (o.get (p ++ "pre")).bind parseFrozen, (o.get (p ++ "post")).bind parseFrozen, decide (o.get (p ++ "done") = some "1"))
    let specA := (o.get "specA").bind parseFrozen
    let specB := (o.get "specB").bind parseFrozen
    -- per connection
    let perConn : List (Option String × Option String) := conns.map fun (ch1, ch2, pre, post, _) =>
      match ch1, pre, post with
      | some h1, some fr, some po =>
        match echBody h1 with
        | none => (some "first-hello-has-not-exactly-one-ECH-extension", none)
        | some b1 =>
          match parseOuter b1 with
          | none => (some "not-an-outer-ECH-body", none)
          | some ou =>
            if ¬ frameOk cfg 32 ou then (some "suite/key-length/payload-length-not-from-the-candidates", none)
            else
              let second : Option String := match ch2 with
                | none => none
                | some h2 => if echBody h2 = some b1 then none else some "ECH-bytes-differ-in-the-second-hello"
              match second with
              | some cl => (some cl, none)
              | none =>
                if po ≠ fr then (some "frozen-state-changed-during-the-handshake", none) else
                -- correspondence: the wire bytes are the model's encoding of the frozen state
                match Ext.read (toExt fr) (Ext.len (toExt fr)) with
                | .ok bs => if bs = u16 0xfe0d ++ vec16 b1 then (none, none) else (none, some s!"wire ECH body differs from the model's encoding {hex bs}")
                | _ => (none, some "model cannot encode the frozen state")
      | _, _, _ => (none, some "connection produced no hello / no ECH object")
    let draws : List Frozen := (conns.filterMap fun (_, _, pre, _, _) => pre) ++ specA.toList ++ specB.toList
    let distinct (xs : List Bytes) : Bool := xs.eraseDups.length == xs.length
    let cidRep := (draws.map (·.configId)).length - (draws.map (·.configId)).eraseDups.length
    let hellos := if conns.all (fun (_, ch2, _, _, _) => ch2.isSome) then 2 else if conns.all (fun (_, ch2, _, _, _) => ch2.isNone) then 1 else 0
    let tag := s!"{(c.input.getD "id" "?")},{srv},hellos={hellos},cidrep={min cidRep 2}"
    match perConn.findSome? (·.1) with
    | some cl => .propFail tag cl
    | none =>
      if o.get "sameobj" = some "1" then .propFail tag "one-ECH-object-shared-by-two-UTLSIdToSpec-calls"
      else if ¬ distinct (draws.map (·.enc)) ∨ ¬ distinct (draws.map (·.payload)) then .propFail tag "enc-or-payload-repeated-across-connections"
      else match perConn.findSome? (·.2) with
        | some m => .diff tag m
        | none =>
          if draws.length ≠ k + 2 then .diff tag "missing frozen states"
          else if srv ≠ "plain" ∧ hellos ≠ 2 then .diff tag "a HelloRetryRequest (two hellos) was expected"
          else if srv = "plain" ∧ hellos ≠ 1 then .diff tag "one hello was expected"
          else if ¬ conns.all (fun (_, _, _, _, done) => done) then .diff tag "handshake did not complete"
          else .ok tag
  | _, _ => .bad "ech_conn: bad output"

def families : List (String × (Case → Verdict)) := [("ech_init", echInit), ("ech_conn", echConn)]

end Drv.C16
