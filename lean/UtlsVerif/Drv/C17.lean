import UtlsVerif.Line
import UtlsVerif.Hrr
import UtlsVerif.Drv.C08
/-! Driver side of C17: families `hrr` (real server) and `hrr_script` (scripted peer). -/
namespace Drv.C17
open Wire Ext Ext.Ext Line ChSplit Hrr

def parseExts (s : String) : Option (List Ext) :=
  if s = "-" ∨ s = "" then some [] else (s.splitOn ";").mapM Drv.C08.parseDesc

def parsePolicy (s : String) : Option Policy :=
  match s with
  | "none" => some none
  | "boring" => some (some boringPadding)
  | _ => none

def parseSH (o : KV) (p : String := "h") : Option SH := do
  let flags := listOf (o.getD (p ++ ".flags") "-")
  let ck ← match o.get (p ++ ".cookie") with
    | some "none" => some none
    | some s => (unhex s).map some
    | none => none
  pure {
    vers := ← o.nat (p ++ ".vers"), sv := ← o.nat (p ++ ".sv"), suite := ← o.nat (p ++ ".suite"), sid := ← o.bytes (p ++ ".sid"),
    comp := ← o.nat (p ++ ".comp"), group := ← o.nat (p ++ ".group"), share := ← o.nat (p ++ ".share"), cookie := ck,
    forbidden := flags.any fun f => f = "ocsp" ∨ f = "ticket" ∨ f = "ems" ∨ f = "reneg" ∨ f = "alpn" ∨ f = "sct",
    ech := flags.contains "ech" }

/-- groups of a supported_groups body / (group, data) of a key_share body, read off the wire. -/
def wireCurves (es : List (Nat × Bytes)) : List Nat :=
  match (bodiesOf 10 es).getLast? with
  | some bd => match readVec16 bd with
    | some (l, _) => (decU16s l).getD []
    | none => []
  | none => []

def wireSharesOf (bd : Bytes) : Option (List (Nat × Bytes)) :=
  match readVec16 bd with
  | some (l, []) => decSharesFuel l.length l
  | _ => none

def wireShares (es : List (Nat × Bytes)) : List (Nat × Bytes) :=
  match (bodiesOf 51 es).getLast? with
  | some bd => (wireSharesOf bd).getD []
  | none => []

/-- public-key sizes of the groups `generateECDHEKey` serves. -/
def shareLen (g : Nat) : Nat := if g = 29 then 32 else if g = 23 then 65 else if g = 24 then 97 else if g = 25 then 133 else 0

def failStr : Fail → String
  | .pskHrr => "utls-psk-hrr"
  | .noKeyShareExt => "no-keyshare-ext"
  | .cookieIndex => "cookie-index"
  | .marshal .multiPadding => "multi-padding"
  | .marshal .short => "err:short_buffer"
  | .marshal (.ext cls) => s!"ext:{cls}"
  | .marshal .length => "hello-length"
  | .marshal .tooLong => "too-long"

def outcomeStr : Outcome → String
  | .abort a cls => s!"abort:{a}:{cls}"
  | .fail r => s!"fail:{failStr r}"
  | .notModelled w => s!"not-modelled:{w}"
  | .panic => "panic"
  | .sent _ raw => s!"sent:{raw.length}B"

def ckClass (h : SH) : String :=
  match h.cookie with
  | none => "ck0"
  | some c => if c.length = 1 then "ck1" else if c.length ≤ 32 then "ck32" else if c.length ≤ 999 then "ckN"
              else if c.length ≤ 60000 then "ck1000" else "ckhuge"

/-- TLS 1.3 offered on the wire: in the first supported_versions extension, or by legacy_version. -/
def wireAdvertises13 (sp1 : Split) : Bool :=
  match bodiesOf 43 sp1.exts with
  | bd :: _ => match readVec8 bd with
    | some (l, _) => ((decU16s l).getD []).contains 0x0304
    | none => false
  | [] => decide (0x0304 ≤ sp1.fixed.vers)

/-- the class of the HelloRetryRequest as the property statement partitions them (computed from the
first hello's wire bytes and the HRR, not from the model). -/
def hrrClass (sp1 : Split) (h : SH) (psk : Bool) (basicOk : Bool) : String :=
  let curves := wireCurves sp1.exts
  let shares := (wireShares sp1.exts).map (·.1)
  if ¬ wireAdvertises13 sp1 then "noversion"
  else if ¬ basicOk then "badfields"
  else if h.group = 0 ∧ h.cookie = none then "nochange"
  else if h.share ≠ 0 then "malformed"
  else if h.group = 0 then "cookieonly"
  else if (bodiesOf 51 sp1.exts).length ≠ 1 then "noks-or-dupks"     -- not a well-formed TLS 1.3 offer
  else if (bodiesOf 10 sp1.exts).isEmpty then "nogroups"             -- nothing offered on the wire
  else if ¬ curves.contains h.group then "unlisted"
  else if shares.contains h.group then "shared"
  else if psk then "psk"
  else if ¬ classical h.group then "nonec"
  -- no ClientHello can echo such a cookie: the extensions block is limited to 65535 bytes
  else if (match h.cookie with | some ck => decide (ck.length > 60000) | none => false) then "toobig"
  else "valid"

def check (isScript : Bool) (c : Case) : Verdict :=
  let o := c.output
  let i := c.input
  match o.get "out" with
  | some "skip" => .ok "skip"
  | some "na" => .ok "na"
  | some other => .diff s!"noresult:{other}" "the case was expected to reach a HelloRetryRequest"
  | none =>
  match (o.get "exts").bind parseExts, (o.get "pol").bind parsePolicy, o.bytes "ch1", parseSH o with
  | some exts, some pol, some ch1, some h =>
    match split ch1 with
    | none => .bad "first ClientHello does not split"
    | some sp1 =>
      let psk := o.get "psk" = some "1"
      let cl : Client := { fixed := sp1.fixed, exts := exts, defaultCurves := (o.nats "hcurves").getD [], pol := pol,
                           pskInUse := psk, realECH := false }
      let ch2s := o.getD "ch2" "-"
      let ch2 := if ch2s = "-" then none else unhex ch2s
      let fresh := (o.bytes "fresh").getD []
      let implAlert := o.getD "alert" "-"
      let implErr := o.getD "cerr" "?"
      let n := exts.length
      let ins := insertsCookie cl h
      let basicOk := (checkSH sp1.fixed none h).isNone ∧ ¬ h.ech
      let cls := hrrClass sp1 h psk basicOk
      let pre := i.getD "pre" "-"
      let kind := (if (i.getD "id" "").startsWith "Custom-" then "custom" else "parrot") ++ (if pre = "-" then "" else "+" ++ pre)
      let lenClass := if n ≤ 3 then s!"n{n}" else "n4+"
      -- ---------- the model's prediction ----------
      -- first hello: the described extension list marshals to the recorded bytes
      let m1 := marshal pol sp1.fixed exts
      let firstOk : Bool := match m1 with
        | .ok (e1, raw1) => decide (raw1 = ch1 ∧ e1 = exts)
        | .error _ => false
      -- index: exact (from the prng stream) or any admissible one that reproduces the bytes
      let streamS := o.getD "stream" "-"
      let exactIdx : Option Nat :=
        if streamS = "-" then none else
        match (listOf streamS).mapM String.toNat? with
        | some ws => cookieIndex n ws
        | none => none
      let cands : List Nat :=
        if isScript ∨ ¬ ins then [exactIdx.getD 0]
        else List.range (if n ≤ 3 then 1 else n - 2)
      let outs := cands.map fun k => (k, hrrStepAt cl h fresh k)
      let matchOut (out : Outcome) : Bool :=
        match out with
        | .sent _ raw => ch2 = some raw
        | .abort a cl' => ch2 = none ∧ implAlert = toString a ∧ implErr = cl'
        | .fail r => ch2 = none ∧ implAlert = "-" ∧ implErr = failStr r
        | .notModelled _ => false
        | .panic => false
      let hit := outs.find? fun p => matchOut p.2
      let idxTag := match hit with
        | some (k, .sent ..) => if ins then (if k = 0 then ",ins0" else if k + 3 = n then ",insmax" else ",insmid") else ""
        | _ => ""
      let outTag := match outs.head? with
        | some (_, .sent ..) => "sent"
        | some (_, .abort a _) => s!"abort{a}"
        | some (_, .fail r) => s!"fail:{failStr r}"
        | _ => "none"
      let tag := s!"{kind},{cls},{ckClass h},{lenClass},{outTag}{idxTag}"
      -- ---------- monitors on the implementation's output (independent of hrrStep) ----------
      let sp2 := ch2.bind split
      let changeable := [51, 44, 21]
      let mon : Option String :=
        match ch2 with
        | some _ =>
          match sp2 with
          | none => some "second-hello-malformed"
          | some s2 =>
            if cls = "nochange" ∨ cls = "unlisted" ∨ cls = "shared" then some "no-abort-on-invalid-hrr"
            else if s2.fixed ≠ sp1.fixed ∨ s2.hasBlock ≠ sp1.hasBlock then some "non-extension-field-changed"
            else if without changeable s2.exts ≠ without changeable sp1.exts then some "other-extension-changed-or-reordered"
            else if (s2.exts.any (·.1 == 41)) ∧ (s2.exts.getLast?.map (·.1)) ≠ some 41 then some "pre_shared_key-not-last"
            else if cls = "valid" then
              let ks2 := bodiesOf 51 s2.exts
              let okKs : Bool := match ks2 with
                | [bd] => match wireSharesOf bd with
                  | some [(g, d)] => decide (g = h.group ∧ d.length = shareLen g ∧ ¬ (wireShares sp1.exts).any (·.2 == d))
                  | _ => false
                | _ => false
              let ck1 := bodiesOf 44 sp1.exts
              let ck2 := bodiesOf 44 s2.exts
              let okCk : Bool := match h.cookie with
                | none => decide (ck2 = ck1)
                | some ck => decide (ck2 = List.replicate (max 1 ck1.length) (vec16 ck))
              if ¬ okKs then some "key_share-is-not-exactly-one-fresh-share-of-the-selected-group"
              else if ¬ okCk then some "cookie-not-echoed-exactly"
              else if ¬ isScript ∧ o.get "done" ≠ some "1" then some "handshake-did-not-complete-after-valid-hrr"
              else none
            else none
        | none =>
          if cls = "valid" then some "valid-hrr-not-answered-with-a-second-hello"
          -- a finite-field group (ffdhe2048..8192) is a classical, non-hybrid group too: listed without a
          -- share and selected by the server, it must be served like the elliptic-curve ones
          else if cls = "nonec" ∧ 256 ≤ h.group ∧ h.group ≤ 260 then some "listed-unshared-ffdhe-group-not-served"
          else none
      match mon with
      | some clause => .propFail tag clause
      | none =>
        if ¬ wireWF sp1.fixed exts then .diff tag "first hello beyond wire limits (wireWF)"
        else if ¬ firstOk then .diff tag s!"first-hello: model marshal of the described extensions differs ({match m1 with | .ok (_, r) => hex r | .error _ => "error"})"
        else match hit with
          | some (_, .sent e3 _) =>
            if ¬ wireWF sp1.fixed e3 then .diff tag "second hello beyond wire limits (wireWF)" else
            -- a scripted case that inserted a cookie must have drawn its index from the logged prng seed
            if isScript ∧ ins ∧ exactIdx.isNone then .diff tag s!"no cookie index available (stream={streamS} crlog={o.getD "crlog" "-"})"
            else
              -- the scripted answer to the second hello (changed suite / a second HelloRetryRequest)
              match parseSH o "s" with
              | none => .ok tag
              | some sh2 =>
                match secondServerHello sp1.fixed h.suite sh2 (o.get "s.hrr" = some "1") with
                | some (.abort a cl') =>
                  if implAlert = toString a ∧ implErr = cl' then .ok (tag ++ ",second:" ++ cl')
                  else .diff (tag ++ ",second:" ++ cl') s!"after the second hello: abort:{a}:{cl'}"
                | _ => .ok (tag ++ ",second:continues")
          | some _ => .ok tag
          | none => .diff tag (match outs.head? with
              | some (_, .sent _ raw) => s!"{outcomeStr (.sent [] raw)} ch2={hex raw}"
              | some (_, out) => outcomeStr out
              | none => "none")
  | _, _, _, _ => .bad "hrr: unparsable output"

def families : List (String × (Case → Verdict)) := [("hrr", check false), ("hrr_script", check true)]

end Drv.C17
