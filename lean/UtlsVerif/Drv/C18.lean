import UtlsVerif.Line
import UtlsVerif.KeyShare
import UtlsVerif.Neg2Wire
import UtlsVerif.Drv.C10
import UtlsVerif.Gen.KeyShareFacts
/-! Driver side of C18: key shares are fresh, correctly sized, and backed by the matching private key. -/
namespace Drv.C18
open Wire Line Negotiate KeyShare Neg2Wire
open NegotiateWire (outcomeTag)

/-- `g:n,g:n,…` -/
def parsePairs (s : String) : Option (List (Nat × Nat)) :=
  (listOf s).mapM fun t =>
    match t.splitOn ":" with
    | [a, b] => do
      let a ← a.toNat?
      let b ← b.toNat?
      pure (a, b)
    | _ => none

def renderPairs (xs : List (Nat × Nat)) : String :=
  if xs.isEmpty then "-" else ",".intercalate (xs.map fun (a, b) => s!"{a}:{b}")

/-- `name:idx,…` with idx possibly -1. -/
def parseSrcs (s : String) : Option (List (String × Int)) :=
  (listOf s).mapM fun t =>
    match t.splitOn ":" with
    | [a, b] => (b.toInt?).map fun i => (a, i)
    | _ => none

def sortNat (xs : List Nat) : List Nat := xs.mergeSort (· ≤ ·)

def plus (xs : List Nat) : String := if xs.isEmpty then "-" else "+".intercalate (xs.map toString)

/-- the key set as the harness renders it: `<Ecdhe curve>,<Mlkem>,<MlkemEcdhe>,<EcdheKeys>,<MlkemKeys>`. -/
def renderKeys (k : Keys) : String :=
  let b := fun (x : Bool) => if x then "1" else "0"
  s!"{k.ecdhe},{b k.mlkem},{b k.mlkemEcdhe},{plus (sortNat k.ecdheKeys)},{plus (sortNat k.mlkemKeys)}"

/-- indices of the shares whose key the key set can be checked against: generated, first of their group. -/
def checkable (spec : List SpecShare) : List (Nat × SpecShare) :=
  let rec go (i : Nat) (seen : List Nat) : List SpecShare → List (Nat × SpecShare)
    | [] => []
    | s :: rest =>
      if generated s && !seen.contains s.group then (i, s) :: go (i + 1) (s.group :: seen) rest
      else go (i + 1) (if Grease.isGrease s.group then seen else s.group :: seen) rest
  go 0 [] spec

def indexOf? (reads : List (Material × Nat)) (m : Material) : Int :=
  match reads.findIdx? (·.1 == m) with
  | some i => i
  | none => -1

/-- material → index of its read, as the harness lists it (`off` = reads before this application;
`keyReads` = the reads the keys are looked up in). -/
def expectSrcs (quic : Bool) (pre : List (Material × Nat)) (off : Nat) (keyReadsAll : List (Material × Nat)) (koff : Nat)
    (held : List (Nat × SpecShare)) : List (String × Int) :=
  [("random", indexOf? pre .random + off)] ++
  (if quic then [] else [("sid", indexOf? pre .sessionId + off)]) ++
  [("grease", indexOf? pre .grease + off)] ++
  held.flatMap fun (i, s) =>
    [(s!"k{i}", indexOf? keyReadsAll (.ecdhe i) + koff)] ++
    (if isHybrid s.group then [(s!"m{i}", indexOf? keyReadsAll (.mlkem i) + koff)] else [])

def renderSrcs (xs : List (String × Int)) : String :=
  if xs.isEmpty then "-" else ",".intercalate (xs.map fun (a, b) => s!"{a}:{b}")

/-- the GREASE group on the wire: the group of the first share whose spec entry is a GREASE placeholder. -/
def greaseOnWire (spec : List SpecShare) (wire : List (Nat × Nat)) : Nat :=
  ((spec.zip wire).find? fun (s, _) => Grease.isGrease s.group).map (·.2.1) |>.getD 0x0a0a

/-- `name:offset:length,…` (offset -1 = not found in the served stream). -/
def parseOffs (s : String) : Option (List (String × Int × Nat)) :=
  (listOf s).mapM fun t =>
    match t.splitOn ":" with
    | [a, b, c] => do
      let b ← b.toInt?
      let c ← c.toNat?
      pure (a, b, c)
    | _ => none

def materialName : Material → Option String
  | .random => some "random" | .sessionId => some "sid" | .grease => some "grease"
  | .ecdhe i => some s!"k{i}" | .mlkem i => some s!"m{i}" | .sessionId0 => none

def isEcdheRead : Material → Bool
  | .ecdhe _ => true
  | _ => false

/-- walk the model's reads along the served stream: a located secret must start where the model says — up to
one probe byte (`MaybeReadByte`) in front of each ECDH key read when the probes share the stream — and have
the model's length; reads whose secret is not observable (the discarded first session id, keys that are
not retained) advance the window. Returns the window for the total number of bytes served. -/
def walkReads (probes : Bool) (offs : List (String × Int × Nat)) : List (Material × Nat) → Nat → Nat → Except String (Nat × Nat)
  | [], lo, hi => .ok (lo, hi)
  | (m, n) :: rest, lo, hi =>
    let extra := if probes && isEcdheRead m then 1 else 0
    match (materialName m).bind fun nm => (offs.find? (·.1 == nm)) with
    | some (nm, off, len) =>
      if len != n then .error s!"{nm}: {len} bytes, model {n}"
      else if off < (lo : Int) || off > ((hi + extra : Nat) : Int) then .error s!"{nm} at offset {off}, model {lo}..{hi + extra}"
      else walkReads probes offs rest (off.toNat + n) (off.toNat + n)
    | none => walkReads probes offs rest (lo + n) (hi + n + extra)

structure Built where
  spec : List SpecShare
  wire : List (Nat × Nat)
  keys : String
  matched : List String
  sid : Nat
  reads : List Nat
  srcs : List (String × Int)
  offs : List (String × Int × Nat) := []
  total : Nat := 0

def parseBuilt (c : Case) : Option Built := do
  let spec ← parsePairs (c.output.getD "spec" "-")
  let wire ← parsePairs (c.output.getD "wire" "-")
  let sid ← c.output.nat "sid"
  let reads ← c.output.nats "reads"
  let srcs ← parseSrcs (c.output.getD "srcs" "-")
  let offs ← parseOffs (c.output.getD "offs" "-")
  pure { spec := spec.map fun (g, n) => { group := g, dataLen := n }, wire := wire, keys := c.output.getD "keys" "?",
         matched := listOf (c.output.getD "match" "-"), sid := sid, reads := reads, srcs := srcs,
         offs := offs, total := (c.output.nat "total").getD 0 }

/-- monitors on a built hello (independent of the model): sizes, matching private keys, session id, reads. -/
def monitors (quic : Bool) (b : Built) (suffix : String) : Option String :=
  let pairs := (b.spec.zip b.wire).zip (b.matched ++ List.replicate b.wire.length "n")
  let badSize := pairs.any fun ((s, w), _) => generated s && shareSize w.1 != some w.2
  let badGroup := pairs.any fun ((s, w), _) => generated s && w.1 != s.group
  let noKey := (checkable b.spec).any fun (i, _) => (b.matched ++ List.replicate b.wire.length "n").getD i "n" != "1"
  let idxs := b.srcs.map (·.2)
  let rec dup : List Int → Bool
    | [] => false
    | x :: xs => xs.contains x || dup xs
  if b.wire.length != b.spec.length then some s!"key-share-count-differs-from-the-spec{suffix}"
  else if badGroup then some s!"generated-key-share-changed-its-group{suffix}"
  else if badSize then some s!"key-share-size-not-what-its-group-requires{suffix}"
  else if noKey then some s!"key-share-without-matching-private-key{suffix}"
  else if quic && b.sid != 0 then some s!"quic-hello-with-non-empty-session-id{suffix}"
  else if !quic && b.sid != 32 then some s!"session-id-not-32-bytes{suffix}"
  else if idxs.any (· < 0) || dup idxs then some s!"material-not-from-a-read-of-its-own{suffix}"
  else if b.offs.any (·.2.1 < 0) then
    some s!"secret-not-among-the-bytes-Config.Rand-served:{",".intercalate ((b.offs.filter (·.2.1 < 0)).map (·.1))}{suffix}"
  else none

def shapeOf (spec : List SpecShare) : String :=
  let g := spec.filter generated
  let nh := (g.filter fun s => isHybrid s.group).length
  let nc := g.length - nh
  let gr := if spec.any fun s => Grease.isGrease s.group then "+grease" else ""
  let pre := if spec.any fun s => !Grease.isGrease s.group && s.dataLen > 1 then "+supplied" else ""
  s!"c{nc}h{nh}{gr}{pre}"

def shares (c : Case) : Verdict :=
  match c.output.get "out" with
  | some o => .bad s!"harness outcome {o} {c.output.getD "msg" ""}"
  | none =>
  let via := c.input.getD "via" "tls"
  let quic := via != "tls"
  let src := c.input.getD "src" "parrot"
  match parsePairs (c.output.getD "spec" "-") with
  | none => .bad "unparsable spec"
  | some sp =>
  let spec : List SpecShare := sp.map fun (g, n) => { group := g, dataLen := n }
  let err := c.output.getD "err" "-"
  if err != "-" then
    -- the build failed: the model must fail as well (a group it cannot generate)
    let tag := s!"{src},{via},error"
    match applyPreset quic 0x0a0a false none spec with
    | none => .ok tag
    | some _ => .diff tag s!"model builds the hello, implementation: {err}"
  else
  match parseBuilt c with
  | none => .bad "unparsable c18_shares line"
  | some b =>
    let rd := c.input.getD "rd" "full"
    let tag := s!"{src},{via},{shapeOf b.spec}{if rd == "full" then "" else "," ++ rd}"
    -- a spec the library itself produced (predefined id, randomized, fingerprinted copy) must have every
    -- non-GREASE key share generated per connection: none may come with ready-made (captured) key bytes
    if src != "custom" && b.spec.any (fun s => !Grease.isGrease s.group && decide (s.dataLen > 1)) then
      .propFail tag "library-produced-spec-carries-a-ready-made-key-share"
    else
    match monitors quic b "" with
    | some clause => .propFail tag clause
    | none =>
    -- the fingerprinted copy: its key shares are the captured ones with every non-GREASE key dropped
    let capDiff : Option String :=
      if src == "fp" then
        match (c.output.get "cap").bind parsePairs with
        | some cap =>
          if fingerprintShares cap != b.spec then
            some s!"spec={renderPairs ((fingerprintShares cap).map fun s => (s.group, s.dataLen))}" else none
        | none => some "no captured shares reported"
      else none
    if let some d := capDiff then .diff tag d else
    let gg := greaseOnWire b.spec b.wire
    match applyPreset quic gg false none b.spec with
    | none => .diff tag "model: ApplyPreset fails"
    | some out =>
      let held := checkable b.spec
      let es := expectSrcs quic out.reads 0 out.reads 0 held
      let em := (List.range b.spec.length).map fun i => if held.any (·.1 == i) then "1" else "n"
      if out.wire != b.wire then .diff tag s!"wire={renderPairs out.wire}"
      else if renderKeys out.keys != b.keys then .diff tag s!"keys={renderKeys out.keys}"
      else if em != b.matched then .diff tag s!"match={",".intercalate em}"
      else if out.sessionIdLen != b.sid then .diff tag s!"sid={out.sessionIdLen}"
      else if rd == "full" && out.reads.map (·.2) != b.reads then .diff tag s!"reads={natsStr (out.reads.map (·.2))}"
      else if rd == "full" && es != b.srcs then .diff tag s!"srcs={renderSrcs es}"
      else if c.output.get "offs" |>.isNone then .ok tag
      else
        -- every secret lies in the served stream where the model's reads put it, and the number of bytes
        -- consumed is the model's, however the reader chunked the stream
        match walkReads (rd != "full") b.offs out.reads 0 0 with
        | .error m => .diff tag s!"stream: {m}"
        | .ok (lo, hi) =>
          if b.total < lo || b.total > hi then .diff tag s!"{b.total} bytes consumed, model {lo}..{hi}" else .ok tag

def clientOriginated (herr : String) : Bool :=
  herr.startsWith "err:" || herr.startsWith "alert:" || herr.startsWith "prepare:" || herr == "timeout"

def reapply (c : Case) : Verdict :=
  match c.output.get "out" with
  | some o => .bad s!"harness outcome {o} {c.output.getD "msg" ""}"
  | none =>
  let src := c.input.getD "src" "parrot"
  if c.output.getD "err" "-" != "-" then .ok s!"{src},error" else
  match parseBuilt c, parsePairs (c.output.getD "wire1" "-"), c.output.nat "first" with
  | some b, some wire1, some first =>
    let keep := Gen.KeyShareFacts.reapplyKeepsKeys
    let tag := s!"{src},{shapeOf b.spec},{if keep then "keys-kept" else "keys-reset"}"
    let hs := c.output.getD "hs" "?"
    -- monitors: after the second application every generated share still has its private key, and a
    -- handshake started that way completes
    match monitors false b "-after-second-build" with
    | some clause => .propFail tag clause
    | none =>
    if clientOriginated hs then .propFail tag s!"handshake-after-build-twice-failed:{hs}" else
    let gg1 := greaseOnWire b.spec wire1
    let gg2 := greaseOnWire b.spec b.wire
    match applyPreset false gg1 false none b.spec with
    | none => .diff tag "model: first ApplyPreset fails"
    | some out1 =>
    match applyPreset false gg2 keep (some out1.keys) (specAfter out1) with
    | none => .diff tag "model: second ApplyPreset fails"
    | some out2 =>
      let held := if keep then checkable b.spec else []
      let es := expectSrcs false out2.reads first out1.reads 0 held
      let em := (List.range b.spec.length).map fun i => if held.any (·.1 == i) then "1" else "n"
      if out1.wire != wire1 then .diff tag s!"wire1={renderPairs out1.wire}"
      else if out2.wire != b.wire then .diff tag s!"wire={renderPairs out2.wire}"
      else if out1.reads.length != first then .diff tag s!"first={out1.reads.length}"
      else if renderKeys out2.keys != b.keys then .diff tag s!"keys={renderKeys out2.keys}"
      else if em != b.matched then .diff tag s!"match={",".intercalate em}"
      else if (out1.reads ++ out2.reads).map (·.2) != b.reads then .diff tag s!"reads={natsStr ((out1.reads ++ out2.reads).map (·.2))}"
      else if es != b.srcs then .diff tag s!"srcs={renderSrcs es}"
      else .ok tag
  | _, _, _ => .bad "unparsable c18_reapply line"

/-- `a/b` -/
def parseFrac (s : String) : Option (Nat × Nat) :=
  match s.splitOn "/" with
  | [a, b] => do
    let a ← a.toNat?
    let b ← b.toNat?
    pure (a, b)
  | _ => none

def fresh (c : Case) : Verdict :=
  match c.output.get "out" with
  | some o => .bad s!"harness outcome {o} {c.output.getD "msg" ""}"
  | none =>
  match c.input.nat "n", c.output.nat "rands", c.output.nat "sids", parseFrac (c.output.getD "shares" "") with
  | some n, some r, some s, some (a, b) =>
    let tag := s!"{c.input.getD "src" "parrot"},{if b == 0 then "no-shares" else "shares"}"
    if r != n then .propFail tag s!"client-random-repeated:{r}-distinct-of-{n}"
    else if s != n then .propFail tag s!"session-id-repeated:{s}-distinct-of-{n}"
    else if a != b then .propFail tag s!"key-share-repeated:{a}-distinct-of-{b}"
    else .ok tag
  | _, _, _, _ => .bad "unparsable c18_fresh line"

def hs (c : Case) : Verdict :=
  match Neg2Wire.parseCase Drv.C10.impl c with
  | .bad m => .bad m
  | .skipped why => .ok s!"skip,{why}"
  | .prepareError msg => .propFail "prepare-error" s!"client-could-not-build-the-hello:{msg}"
  | .refused mode cerr serr completed =>
    if completed then .bad "completed without a ServerHello"
    else if serverRefused cerr serr then .ok s!"{mode},server-refused"
    else .propFail s!"{mode},no-server-hello" s!"client-failed-before-any-server-hello:{cerr}"
  | .eval e =>
    let tag := if !e.completed && serverRefused e.cerr e.serr then s!"{e.mode},server-refused-late"
               else s!"{e.mode},{Drv.C10.shape e},{outcomeTag e.model}"
    match Drv.C10.verdictC10 e tag with
    | some v => v
    | none =>
      -- the server was forced to one group: that group is the one both ends report
      let forced : Option Nat := if e.input.getD "kyber" "0" == "1" then some x25519Kyber768Draft00
                                 else (e.input.nats "curves").bind (·.head?)
      match forced, e.cstate, e.sstate with
      | some g, some cst, some sst =>
        if cst.curve != g || sst.curve != g then .diff tag s!"forced group {g}, reported {cst.curve}/{sst.curve}" else .ok tag
      | _, _, _ => .ok tag

def families : List (String × (Case → Verdict)) :=
  [("c18_shares", shares), ("c18_reapply", reapply), ("c18_fresh", fresh), ("c18_hs", hs)]

end Drv.C18
