import UtlsVerif.Line
import UtlsVerif.Resume
/-! Driver side of C19: `resume_load` (one crafted cache entry, the hello the real code writes),
`resume_seq` (2–5 real handshakes over one cache), `resume_ext` (`pskExtLen`). -/
namespace Drv.C19
open Line Wire Resume

def flag (s : String) (c : Char) : Bool := s.toList.contains c

def nameOf (s : String) : Name :=
  match s with
  | "a" => 1 | "b" => 2 | "w" => 3 | "r" => 4 | _ => 0

def labelOf (n : Name) : String :=
  match n with
  | 1 => "a" | 2 => "b" | 3 => "w" | 4 => "r" | _ => "e"

def hexNat (s : String) : Option Nat :=
  s.toList.foldlM (fun acc c => (hexVal c).map (acc * 16 + ·)) 0

def dotList (s : String) : List String := if s = "-" ∨ s = "" then [] else s.splitOn "."

def hexNats (s : String) : Option (List Nat) := (dotList s).mapM hexNat

/-- `k:v;k:v` record. -/
def parseRec (s : String) : KV :=
  (s.splitOn ";").filterMap fun t =>
    match t.splitOn ":" with
    | [_] => none
    | k :: rest => some (k, ":".intercalate rest)
    | [] => none

def parseTables (kv : KV) : Option Tables := do
  let k12 ← hexNats (kv.getD "k12" "-")
  let h13 ← (dotList (kv.getD "h13" "-")).mapM fun p =>
    match p.splitOn ":" with
    | [a, b] => do let a ← hexNat a; let b ← b.toNat?; pure (a, b)
    | _ => none
  pure { known12 := k12, hash13 := h13 }

def parseHello (f : KV) : Option Hello := do
  let vs ← hexNats (f.getD "vs" "-")
  let cs ← hexNats (f.getD "cs" "-")
  pure { golang := f.getD "g" "0" = "1", hasTicketExt := f.getD "tk" "0" = "1", hasPskExt := f.getD "pk" "0" = "1",
         ems := f.getD "ems" "0" = "1", modes := f.getD "md" "0" = "1", versions := vs, suites := cs }

def mkCfg (flags : String) (sn : Name) (remote : Name) (isn : Option Name) (skipOnNil : Bool) : Cfg :=
  { ticketsDisabled := flag flags 'd', hasCache := !flag flags 'n', serverName := sn, remoteAddr := remote,
    skipVerify := flag flags 'v', skipTimeVerify := flag flags 't', nameToVerify := isn, skipOnNil := skipOnNil,
    omitEmptyPsk := flag flags 'o' }

def opStr : Op → String
  | .hit k => "g" ++ labelOf k
  | .miss k => "m" ++ labelOf k
  | .del k => "d" ++ labelOf k
  | .put k => "p" ++ labelOf k

def opsStr (ops : List Op) : String := if ops.isEmpty then "-" else ".".intercalate (ops.map opStr)

def errStr : Option Err → String
  | none => "ok"
  | some .assertNoExt => "panic-noext"
  | some .panicIndex => "panic-index"
  | some .emptyPsk => "emptypsk"
  | some .pskHrr => "psk-hrr"
  | some .emsAbort => "eof"
  | some .certTime => "certtime"
  | some .certName => "certname"
  | some .noVersion => "noversion"

def offStr : Decision → String
  | .ticket12 _ => "tk"
  | .psk13 _ => "psk"
  | _ => "none"

/-! ## resume_load -/

def resumeLoad (c : Case) : Verdict :=
  let i := c.input
  let o := c.output
  let flags := i.getD "cfg" "-"
  match i.nat "sc", i.nat "su", i.nat "sa", i.nat "tl", i.nat "now", (i.get "sv").bind hexNat, (i.get "ss").bind hexNat,
        parseTables o, parseHello (parseRec (o.getD "f" "")), o.nat "na" with
  | some sc, some su, some sa, some tl, some now, some sv, some ss, some T, some h, some na =>
    let f := parseRec (o.getD "f" "")
    let sn := nameOf (i.getD "sn" "-")
    let key := nameOf (i.getD "key" "-")
    let isn : Option Name := match i.getD "isn" "-" with | "-" => none | "*" => some 0 | x => some (nameOf x)
    let cfg := mkCfg flags sn 4 isn (f.getD "sk" "0" = "1")
    let vh := (o.getD "vh" "000").toList
    let validFor : List Name := ([1, 2, 3].zip vh).filterMap fun (n, ch) => if ch = '1' then some n else none
    let s : Session := { version := sv, suite := ss, ems := i.getD "sems" "0" = "1", createdAt := sc, useBy := su, ageAdd := sa,
                         ticket := zeros tl, certNotAfter := na, chains := i.getD "ch" "1" = "1", validFor := validFor,
                         origin := key, srvCreatedAt := sc }
    let faulty := flag flags 'f'
    let ck := cacheKey cfg
    let cache : Cache := [(if faulty then ck else key, s)]
    let d := loadDecision T cache cfg h now
    let off := o.getD "off" "?"
    let out := o.getD "out" "?"
    let tag := s!"{if h.golang then "golang" else if h.hasPskExt then "pskid" else if h.hasTicketExt then "tkid" else "noext"},v={i.getD "sv" "?"},{off},{out},{if loadDeletes T cache cfg h now then "del" else "nodel"}"
    -- ---- monitors on the implementation's output
    let hasHello := off ≠ "nohello"
    let offered := off = "tk" ∨ off = "psk"
    let nameBad : Bool := match dnsName cfg with | some n => !validFor.contains n | none => false
    if off = "bad" then .propFail tag "clienthello-does-not-parse"
    else if o.getD "dup" "0" = "1" then .propFail tag "duplicate-session-extension"
    else if off = "psk" ∧ (o.nat "pos").map (· + 1) ≠ o.nat "n" then .propFail tag "psk-not-last"
    else if off = "psk" ∧ o.getD "bv" "?" ≠ "1" then .propFail tag "binder-does-not-verify"
    else if out = "panic-patchlen" then .propFail tag "patch-changed-hello-length"
    else if out.startsWith "panic:" then .propFail tag "cached-session-makes-the-client-panic"
    else if (o.get "raw0").isSome ∧ ((o.bytes "raw0").map (·.length) ≠ (o.bytes "raw1").map (·.length) ∨ o.getD "sent" "?" ≠ "1") then
      .propFail tag "patch-changed-hello-length"
    else if offered ∧ o.getD "idm" "?" ≠ "1" then .propFail tag "offered-identity-is-not-the-cached-ticket"
    else if off = "tk" ∧ s.ems ∧ o.getD "wems" "?" = "0" then .propFail tag "ems-session-offered-without-ems"
    else if off = "psk" ∧ now > su then .propFail tag "expired-ticket-offered"
    else if offered ∧ ¬ cfg.skipTimeVerify ∧ now > na then .propFail tag "session-with-expired-certificate-offered"
    else if offered ∧ ¬ faulty ∧ key ≠ nameOf (o.getD "ck" "?") then .propFail tag "offered-under-another-cache-key"
    else if offered ∧ sn ≠ 0 ∧ nameOf (o.getD "ck" "?") ≠ sn then .propFail tag "cache-key-is-not-the-server-name"
    else if offered ∧ ¬ cfg.skipVerify ∧ nameBad then
      .propFail tag "offered-session-not-valid-for-the-name"
    else if offered ∧ cfg.ticketsDisabled then .propFail tag "offered-although-tickets-disabled"
    -- ---- correspondence
    else
      let emptyPsk := !h.golang && h.hasPskExt && !cfg.omitEmptyPsk && !(match d with | .psk13 _ => true | _ => false)
      let mOut := match d with
        | .assertNoExt => "panic-noext"
        | .panicIndex => "panic-index"
        | _ => if emptyPsk then "emptypsk" else "eof"
      let mHello := mOut = "eof"
      let mOff := if mHello then offStr d else "nohello"
      let calls := callsLoad cfg h && !h.versions.isEmpty && ck != 0
      let mOps : List Op := (if calls then [if (cache.get ck).isSome then Op.hit ck else Op.miss ck] else []) ++
        (if loadDeletes T cache cfg h now then [Op.del ck] else [])
      if labelOf ck ≠ o.getD "ck" "?" then .diff tag s!"ck={labelOf ck}"
      else if mOut ≠ out then .diff tag s!"out={mOut}"
      else if mOff ≠ off then .diff tag s!"off={mOff}"
      else if opsStr mOps ≠ o.getD "ops" "?" then .diff tag s!"ops={opsStr mOps}"
      else if hasHello ∧ (o.getD "wems" "?" = "1") ≠ h.ems then .diff tag "wems"
      else if !mHello then .ok tag
      else match d with
        | .ticket12 s => if o.nat "idl" ≠ some s.ticket.length then .diff tag s!"idl={s.ticket.length}" else .ok tag
        | .psk13 s =>
          match T.hash s.suite with
          | none => .diff tag "hash-unknown"
          | some hs =>
            let age := obfuscatedAge s now
            let xl := pskExtLen [(s.ticket, age)] [zeros hs]
            if o.nat "nid" ≠ some 1 ∨ o.nat "nb" ≠ some 1 then .diff tag "nid=1 nb=1"
            else if o.nat "idl" ≠ some s.ticket.length then .diff tag s!"idl={s.ticket.length}"
            else if o.nat "age" ≠ some age then .diff tag s!"age={age}"
            else if o.nat "bl" ≠ some hs then .diff tag s!"bl={hs}"
            else if o.nat "xl" ≠ some xl ∨ o.nat "extlen" ≠ some xl then .diff tag s!"xl={xl}"
            else match o.get "raw0" with
              | none => .ok tag
              | some _ =>
                match o.bytes "raw0", o.bytes "raw1", o.bytes "bnd" with
                | some raw0, some raw1, some bnd =>
                  -- the symbolic binder function instantiated by the independently computed value
                  let F : Bytes → Bytes := fun t => if t = raw0.take (raw0.length - (2 + Ext.vec8sLen [zeros hs])) then bnd else []
                  if o.getD "patch" "?" ≠ "1" then .diff tag "patch=1"
                  else match patchBinders F raw0 [zeros hs] with
                    | .error e => .diff tag s!"patch-error:{e}"
                    | .ok r => if r ≠ raw1 then .diff tag "raw1" else
                        if !serverBinderOk F r [bnd] then .diff tag "server-binder" else .ok tag
                | _, _, _ => .bad "resume_load: raw"
        | _ => .ok tag
  | _, _, _, _, _, _, _, _, _, _ => .bad "resume_load: unparsable"

/-! ## resume_seq -/

structure SeqIn where
  id : String
  sn : Name
  smax : Nat
  ct : Nat
  st : Nat
  hrrAsked : Bool
  flags : String
  /-- pre-handshake calls: B BuildHandshakeState, R SetClientRandom, S SetSNI (same name), A ALPN edit -/
  ops : List String
  /-- InsecureServerNameToVerify: none = unset, some 0 = "*", some n = a name -/
  isn : Option Name

def parseSeqIn (s : String) : Option SeqIn :=
  let mk (id sn smax ct st h fl : String) (ops : List String) (isn : Option Name) : Option SeqIn := do
    let smax ← smax.toNat?
    let ct ← ct.toNat?
    let st ← st.toNat?
    pure ⟨id, nameOf sn, smax, ct, st, h = "1", fl, ops, isn⟩
  let opsOf (ops : String) : List String := if ops = "-" then [] else ops.splitOn "."
  let isnOf (x : String) : Option Name := if x = "-" then none else if x = "*" then some 0 else some (nameOf x)
  match s.splitOn "/" with
  | [id, sn, smax, ct, st, h, fl] => mk id sn smax ct st h fl [] none
  | [id, sn, smax, ct, st, h, fl, ops] => mk id sn smax ct st h fl (opsOf ops) none
  | [id, sn, smax, ct, st, h, fl, ops, isn] => mk id sn smax ct st h fl (opsOf ops) (isnOf isn)
  | _ => none

/-- the pre-handshake calls as model operations (an edit changes the bytes before the binders block). -/
def preOpsOf (ops : List String) : List PreOp :=
  ops.map fun o => if o = "B" then PreOp.build else if o = "W" then PreOp.marshalOnly else PreOp.edit (fun h => 0 :: h)

def peekStr (s : Option Session) : String :=
  match s with
  | none => "-"
  | some s => s!"{s.version}.{s.suite}.{if s.ems then 1 else 0}.{s.createdAt}.{s.useBy}.{s.certNotAfter}.{if s.chains then 1 else 0}"

def peekNorm (p : String) : String :=
  match p.splitOn "." with
  | [v, su, e, c, u, na, ch] =>
    match hexNat v, hexNat su with
    | some v, some su => s!"{v}.{su}.{e}.{c}.{u}.{na}.{ch}"
    | _, _ => p
  | _ => p

structure SeqState where
  cache : Cache
  fails : List String       -- violated clauses (monitors)
  diffs : List String
  nOff : String
  nRes : Nat
  anyHrr : Bool
  anyErr : Bool
  anyDel : Bool
  first : Option SeqIn
  prev : Option (SeqIn × KV)
  idx : Nat
  okNames : List Name       -- names of earlier completed connections

def kitNotBefore : Nat := 8640000 - 86400

def seqStep (T : Tables) (na : Nat) (st : SeqState) (x : SeqIn × KV) : SeqState :=
  let (ci, r) := x
  match parseHello r with
  | none => { st with diffs := st.diffs ++ [s!"#{st.idx}:unparsable-record"], idx := st.idx + 1 }
  | some h =>
    let cfg := mkCfg ci.flags ci.sn 0 ci.isn (r.getD "sk" "0" = "1")
    let key := cacheKey cfg
    let entry := st.cache.get key
    let obsSuite := (hexNat (r.getD "su" "0")).getD 0
    let suite := if obsSuite ≠ 0 then obsSuite else match entry with | some s => s.suite | none => 0
    let hrrObs := r.getD "hrr" "0" = "1"
    let srv : Server := { maxVer := if ci.smax = 13 then vTLS13 else vTLS12, now := ci.st, hrr := hrrObs, suite := suite,
                          certNotBefore := kitNotBefore, certNotAfter := na, certNames := [1, 2], newTicket := [], newAgeAdd := 0 }
    let c : ConnIn := { cfg := cfg, hello := h, now := ci.ct, srv := srv }
    -- a session-less build that comes before the first full build fails early on a PSK spec without OmitEmptyPsk
    let wFirst := ((ci.ops.filter fun o => o = "B" ∨ o = "W").head?) = some "W"
    let m0 := stepConn T st.cache c
    let m : ConnOut := if wFirst && noSessionBuildFails cfg h then
        { decision := .none, hrr := false, srvRes := .full, err := some .emptyPsk, resumed := false, ops := [], cache := st.cache }
      else m0
    let off := r.getD "off" "nohello"
    let cOk := r.getD "c" "?" = "ok"
    let sOk := r.getD "s" "?" = "ok"
    let cr := r.getD "cr" "0" = "1"
    let sr := r.getD "sr" "0" = "1"
    let offered := off = "tk" ∨ off = "psk"
    let pe := peekNorm (r.getD "pe" "-")
    let peF := pe.splitOn "."
    let peUseBy := (peF.getD 4 "0").toNat?.getD 0
    let peEms := peF.getD 2 "0" = "1"
    let nv := negotiated c
    let p := s!"#{st.idx}:"
    -- ---------------- monitors (implementation output + inputs only)
    let mon : List String :=
      (if off = "bad" ∨ r.getD "off2" "" = "bad" then [p ++ "clienthello-does-not-parse"] else []) ++
      (if r.getD "dup" "0" = "1" ∨ r.getD "dup2" "0" = "1" then [p ++ "duplicate-session-extension"] else []) ++
      (if off = "psk" ∧ (r.nat "pos").map (· + 1) ≠ r.nat "n" then [p ++ "psk-not-last"] else []) ++
      (if r.getD "off2" "" = "psk" ∧ (r.nat "pos2").map (· + 1) ≠ r.nat "n2" then [p ++ "psk-not-last-after-hrr"] else []) ++
      (if off = "psk" ∧ r.getD "bv" "1" ≠ "1" then [p ++ "binder-is-not-the-binder-of-the-bytes-sent"] else []) ++
      (if r.getD "off2" "" = "psk" ∧ r.getD "bv2" "1" ≠ "1" then [p ++ "binder-is-not-the-binder-of-the-bytes-sent-after-hrr"] else []) ++
      (match (r.get "pl").map (·.splitOn ".") with
        | some [a, b, sent] => if a ≠ b ∨ sent ≠ "1" then [p ++ "patch-changed-hello-length"] else []
        | some _ => [p ++ "patch-changed-hello-length"]
        | none => []) ++
      (if r.getD "c" "" = "panic-patchlen" then [p ++ "patch-changed-hello-length"] else []) ++
      (if offered ∧ ¬ st.okNames.contains ci.sn then [p ++ "offered-for-a-name-without-earlier-session"] else []) ++
      (if offered ∧ r.getD "idm" "?" ≠ "1" then [p ++ "offered-identity-is-not-this-name's-cached-ticket"] else []) ++
      (if cr ∧ ¬ st.okNames.contains ci.sn then [p ++ "resumed-across-server-names"] else []) ++
      (if off = "psk" ∧ ci.ct > peUseBy then [p ++ "expired-ticket-offered"] else []) ++
      (if offered ∧ ¬ flag ci.flags 't' ∧ ci.ct > na then [p ++ "session-with-expired-certificate-offered"] else []) ++
      (if off = "tk" ∧ peEms ∧ r.getD "wems" "?" = "0" then [p ++ "ems-session-offered-without-ems"] else []) ++
      (if offered ∧ flag ci.flags 'd' then [p ++ "offered-although-tickets-disabled"] else []) ++
      -- a resumption attempt must never make the handshake fail
      (if off = "psk" ∧ hrrObs ∧ r.getD "c" "" = "psk-hrr" then [p ++ "psk-hrr-unsupported"]
       else if offered ∧ (¬ cOk ∨ ¬ sOk) then [p ++ s!"offered-session-broke-handshake(c={r.getD "c" "?"},s={r.getD "s" "?"})"] else []) ++
      (if cr ≠ sr then [p ++ "DidResume-differs-between-the-sides"] else []) ++
      (if (r.getD "c" "").startsWith "panic:" then [p ++ "cached-session-makes-the-client-panic"] else []) ++
      -- resumption the property promises: same parrot, name, server configuration, within every lifetime
      (match st.prev, st.first with
        | some (pi, pr), some fi =>
          let same := pi.id = ci.id ∧ pi.sn = ci.sn ∧ pi.smax = ci.smax ∧ pi.flags = ci.flags ∧ pi.hrrAsked = ci.hrrAsked ∧ pi.isn = ci.isn
          let prevOk := pr.getD "c" "?" = "ok" ∧ pr.getD "s" "?" = "ok"
          let inLife := pi.ct ≤ ci.ct ∧ pi.st ≤ ci.st ∧ ci.ct ≤ fi.ct + week ∧ ci.st ≤ fi.st + week ∧ fi.ct ≤ ci.ct ∧ fi.st ≤ ci.st ∧
            ci.ct ≤ na ∧ kitNotBefore ≤ ci.ct
          let usable := ¬ flag ci.flags 'd' ∧ ¬ flag ci.flags 'n' ∧ (flag ci.flags 'o' ∨ ¬ h.hasPskExt ∨ h.golang)
          let hasExt := if nv = vTLS13 then (h.hasPskExt ∨ h.golang) ∧ h.modes else (h.hasTicketExt ∨ h.golang)
          if same ∧ prevOk ∧ inLife ∧ usable ∧ hasExt ∧ ¬ (cr ∧ sr ∧ cOk) ∧ ¬ (off = "psk" ∧ hrrObs ∧ r.getD "c" "" = "psk-hrr") then
            [p ++ "expected-resumption-missing"] else []
        | _, _ => [])
    -- ---------------- correspondence
    let mOff := match m.err with
      | some .assertNoExt | some .panicIndex | some .emptyPsk => "nohello"
      | _ => offStr m.decision
    let mc := errStr m.err
    let dif : List String :=
      (if peekStr entry ≠ pe then [p ++ s!"cache={peekStr entry}"] else []) ++
      (if mOff ≠ off then [p ++ s!"off={mOff}"] else []) ++
      (if mc ≠ r.getD "c" "?" then [p ++ s!"c={mc}"] else []) ++
      (if m.err.isNone ∧ ¬ sOk then [p ++ "s=ok"] else []) ++
      (if m.err = some .emsAbort ∧ r.getD "s" "?" ≠ "ems-abort" then [p ++ "s=ems-abort"] else []) ++
      (if m.resumed ≠ cr ∨ m.resumed ≠ sr then [p ++ s!"resumed={m.resumed}"] else []) ++
      (if opsStr m.ops ≠ r.getD "ops" "?" then [p ++ s!"ops={opsStr m.ops}"] else []) ++
      (if m.err.isNone ∧ (hexNat (r.getD "v" "0")) ≠ some nv then [p ++ s!"v={nv}"] else []) ++
      (if m.hrr ≠ hrrObs ∧ m.err.isNone then [p ++ s!"hrr={m.hrr}"] else []) ++
      (match m.decision with
        | .psk13 s =>
          if mOff ≠ "psk" then [] else
          match T.hash s.suite with
          | none => [p ++ "hash-unknown"]
          | some hs =>
            let dage := (((ci.ct : Int) - (s.createdAt : Int)) * 1000).emod 4294967296 |>.toNat
            let idl := (r.nat "idl").getD 0
            (if r.nat "bl" ≠ some hs then [p ++ s!"bl={hs}"] else []) ++
            (if r.nat "nid" ≠ some 1 then [p ++ "nid=1"] else []) ++
            (if r.nat "xl" ≠ some (pskExtLen [(zeros idl, 0)] [zeros hs]) ∨ r.getD "xok" "?" ≠ "1" then [p ++ "xl"] else []) ++
            (if r.nat "dage" ≠ some dage then [p ++ s!"dage={dage}"] else []) ++
            (if r.getD "bv" "?" ≠ "1" then [p ++ "bv=1"] else []) ++
            -- rebuilds: `PatchBuiltHello` runs once per build (recording extension)
            (if (ci.id.splitOn "~rec").length > 1 then
              let b := sentAfter (fun _ => zeros hs) (builtInit [] hs) (preOpsOf ci.ops)
              if r.nat "pn" ≠ some b.patches then [p ++ s!"pn={b.patches}"] else []
             else []) ++
            -- after a HelloRetryRequest crypto/tls re-binds the identity in the second hello
            (if m.hrr ∧ m.err.isNone then
              (if r.getD "off2" "?" ≠ "psk" then [p ++ "off2=psk"] else []) ++
              (if r.nat "dage2" ≠ some dage ∨ r.nat "bl2" ≠ some hs then [p ++ "psk2"] else [])
             else [])
        | _ => [])
    let offL := if off = "tk" then "t" else if off = "psk" then "p" else ""
    { cache := m.cache, fails := st.fails ++ mon, diffs := st.diffs ++ dif,
      nOff := if st.nOff.contains (offL.toList.headD ' ') then st.nOff else st.nOff ++ offL,
      nRes := st.nRes + (if cr then 1 else 0),
      anyHrr := st.anyHrr || hrrObs, anyErr := st.anyErr || !cOk,
      anyDel := st.anyDel || (r.getD "ops" "").contains 'd',
      first := st.first.orElse fun _ => some ci, prev := some (ci, r), idx := st.idx + 1,
      okNames := if cOk ∧ sOk then ci.sn :: st.okNames else st.okNames }

def resumeSeq (c : Case) : Verdict :=
  let o := c.output
  if o.getD "out" "?" ≠ "ok" then .bad s!"resume_seq: out={o.getD "out" "?"}" else
  match (listOf (c.input.getD "conns" "-")).mapM parseSeqIn, parseTables o, o.nat "na" with
  | some ins, some T, some na =>
    let recs := (listOf (o.getD "r" "-")).map parseRec
    if recs.length ≠ ins.length then .bad "resume_seq: record count" else
    let st0 : SeqState := { cache := [], fails := [], diffs := [], nOff := "", nRes := 0, anyHrr := false, anyErr := false,
                            anyDel := false, first := none, prev := none, idx := 0, okNames := [] }
    let st := (ins.zip recs).foldl (seqStep T na) st0
    let golang := ins.any (·.id = "Golang-0")
    let names := (ins.map (·.sn)).eraseDups.length
    let anyOps := ins.any (fun i => !i.ops.isEmpty)
    let anyEdit := ins.any (fun i => i.ops.any (fun o => o ≠ "B" ∧ o ≠ "W"))
    let anyW := ins.any (fun i => i.ops.contains "W")
    let anyStar := ins.any (fun i => i.isn = some 0)
    let anyIsn := ins.any (fun i => i.isn.isSome)
    let tag := s!"n{ins.length},off={if st.nOff = "" then "x" else st.nOff},r{min st.nRes 2}{if st.anyHrr then ",hrr" else ""}{if golang then ",go" else ""}{if st.anyErr then ",err" else ""}{if st.anyDel then ",del" else ""}{if names > 1 then ",names" else ""}{if anyEdit then ",edit" else if anyOps then ",build" else ""}{if anyW then ",nosess" else ""}{if anyStar then ",star" else if anyIsn then ",isn" else ""}"
    -- a violation other than the known PSK+HRR one is reported first
    let other := st.fails.filter fun f => decide ((f.splitOn "psk-hrr-unsupported").length ≤ 1)
    match other, st.diffs, st.fails with
    | f :: _, _, _ => .propFail tag f
    | [], d :: _, _ => .diff tag d
    | [], [], f :: _ => .propFail tag f
    | [], [], [] => .ok tag
  | _, _, _ => .bad "resume_seq: unparsable"

/-! ## resume_ext -/

def resumeExt (c : Case) : Verdict :=
  match c.input.nats "ids", c.input.nats "bs", c.output.nat "len" with
  | some ids, some bs, some l =>
    let m := pskExtLen (ids.map fun n => (zeros n, 0)) (bs.map zeros)
    let tag := s!"ids={min ids.length 2},bs={min bs.length 2}"
    if m ≠ l then .diff tag s!"len={m}" else .ok tag
  | _, _, _ => .bad "resume_ext: unparsable"

def families : List (String × (Case → Verdict)) :=
  [("resume_load", resumeLoad), ("resume_seq", resumeSeq), ("resume_ext", resumeExt)]

end Drv.C19
