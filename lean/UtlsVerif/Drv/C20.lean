import UtlsVerif.Line
import UtlsVerif.SessionCtl
/-! Driver side of C20: replays a call sequence of the session API on the `SessionCtl` machine,
compares every outcome / state dump / handshake result with the implementation's, and evaluates
the property's predicate (legal orders are never refused, forbidden ones are, injected tickets /
identities are on the wire verbatim, legal handshakes complete and resume) on the
implementation's output. -/
namespace Drv.C20
open SessionCtl Line

structure Ctx where
  kind : String
  cfg : Cfg
  neg : Neg
  hasCache : Bool
  lr : LoadRes

def mkCtx (kind : String) (cfgMode : Nat) (kc : String) (smax : Nat) : Option Ctx :=
  let base : Option (Cfg × Neg) :=
    match kind with
    | "t12" => some (⟨false, false, true, false, true, false⟩, ⟨false, false, 0⟩)
    | "t13" => some (⟨false, false, true, false, true, false⟩, ⟨true, false, 1⟩)
    | "psk" => some (⟨false, false, true, true, true, false⟩, ⟨true, false, 1⟩)
    | "noext" => some (⟨false, false, false, false, true, false⟩, ⟨true, false, 1⟩)
    | "golang" => some (⟨true, false, false, false, true, false⟩, ⟨true, false, 2⟩)
    | "cpsk" => some (⟨false, true, false, true, true, false⟩, ⟨true, false, 1⟩)
    | _ => none
  base.map fun (c, n) =>
    let lr : LoadRes := if kc == "s12" then .s12 else if kc == "s13" then (if n.idMax13 then .s13 else .none) else .none
    { kind := kind, cfg := { c with disabled := cfgMode == 2 }, neg := { n with serverMax13 := smax == 13 },
      hasCache := cfgMode ≥ 1, lr := lr }

def parseOp (lr : LoadRes) : String → Option Op
  | "C" => some .setCache
  | "W" => some .buildNoSession
  | "B" => some (.build lr)
  | "H" => some (.handshake lr)
  | "Ti" => some (.setTicket .real)
  | "Tu" => some (.setTicket .uninit)
  | "Tn" => some (.setTicket .nil)
  | "Sr" => some (.setTicket .real)
  | "Sf" => some (.setTicket .forged)
  | "Sn" => some (.setTicket .initNil)
  | "Pi" => some (.setPsk .real)
  | "Pu" => some (.setPsk .uninit)
  | "Pn" => some (.setPsk .nil)
  | "Er" => some .edit     -- SetClientRandom
  | "En" => some .edit     -- SetSNI (same name)
  | "Ea" => some .edit     -- ALPN edit
  | _ => none

def srcTok : Src → String
  | .user => "U" | .forged => "F" | .psk => "P" | .cache => "K"

def optTok : Option Src → String
  | none => "-"
  | some s => srcTok s

def slotTok : Slot → String
  | .absent => "N" | .empty => "-" | .tok s => srcTok s

def siteStr : Site → String
  | .locked => "locked" | .built => "built" | .canskip => "canskip" | .state => "state"
  | .finalcheck => "finalcheck" | .sync => "sync" | .init => "init" | .about => "about"
  | .setticket => "setticket" | .setpsk => "setpsk" | .binders => "binders" | .initguard => "initguard"
  | .tracker => "tracker" | .buildstatus => "buildstatus"

def outStr : Outcome → String
  | .ok => "ok"
  | .err .disabled => "err:disabled"
  | .err .noTicketSpec => "err:noticketspec"
  | .err .noPskSpec => "err:nopskspec"
  | .panic .documented s => s!"pan:doc:{siteStr s}"
  | .panic .assertion s => s!"pan:assert:{siteStr s}"

def b01 (b : Bool) : String := if b then "1" else "0"

def dumpStr (n : Neg) (s : St) : String :=
  let te := match s.tRef with
    | none => "n"
    | some r => (if (s.tObj r).init then "i" else "u") ++ optTok (s.tObj r).ticket
  let pe := match s.pRef with
    | none => "n"
    | some r => (if (s.pObj r).sess.isSome then "i" else "u") ++ optTok (s.pObj r).id
  let hs := match s.hsSession with
    | none => "n"
    | some x => srcTok x
  let (rt, rp) := match s.raw with
    | none => ("0", "0")
    | some (t, p) => (slotTok t, slotTok p)
  let keys := if !s.helloShares || n.nShares == 0 then "-"
    else String.ofList (List.replicate n.nShares (if s.keysHeld then 'k' else 'p'))
  s!"{s.state.toNat}.{b01 s.locked}.{s.tracker.toNat}.{b01 s.calling}.{s.status.toNat}.{te}.{pe}.{hs}.{optTok s.helloTicket}.{optTok s.helloPsk}.{rt}.{rp}.{keys}"

/-- model replay: outcome strings, dumps, final state, whether a Handshake ran. The harness stops at
the first panic and after the Handshake. -/
def replay (cx : Ctx) : St → List (String × Op) → List String × List String × St × Bool
  | s, [] => ([], [], s, false)
  | s, (tok, op) :: rest =>
    let (s', o) := step cx.cfg s op
    if tok == "H" then
      let o' := if o == .ok && !hsCompletes cx.neg s' then "err:hs:local_error:_tls:_internal_error" else outStr o
      ([o'], ["h"], s', true)
    else
      match o with
      | .panic _ _ => ([outStr o], [dumpStr cx.neg s'], s', false)
      | _ =>
        let (os, ds, sf, h) := replay cx s' rest
        (outStr o :: os, dumpStr cx.neg s' :: ds, sf, h)

def isRefusalStr (o : String) : Bool :=
  o.startsWith "err:disabled" || o.startsWith "err:noticketspec" || o.startsWith "err:nopskspec" || o.startsWith "pan:doc:"

def isBuildTok (t : String) : Bool := t == "W" || t == "B" || t == "H"

/-- field `i` (0-based) of a dot-separated dump. -/
def dumpField (d : String) (i : Nat) : String := ((d.splitOn ".")[i]?).getD "?"

/-- property monitor over the implementation's outcomes `rs` and dumps `ds`, following the
documentation automaton. Returns the violated clause, and the class of the sequence. -/
def monitor (cx : Ctx) : Doc → List (String × Op) → List String → List String → Option String × String
  | _, [], _, _ => (none, "legal")
  | _, _, [], _ => (none, "legal")      -- not executed (sequence ended earlier)
  | d, (tok, op) :: rest, r :: rs, ds =>
    let dmp := ds.head?.getD ""
    match legalStep cx.cfg d op with
    | some d' =>
      if r.startsWith "pan:assert" then (some s!"assertion-panic-in-legal-order:{tok}:{r}", "legal")
      else if tok == "H" then
        if r != "ok" then (some s!"legal-handshake-failed:{r}", "legal") else (none, "legal")
      else if r != "ok" then (some s!"legal-call-refused:{tok}:{r}", "legal")
      else
        -- an injected initialised extension is what every later build marshals
        let bad : Option String :=
          if isBuildTok tok then
            match d'.injT, d'.injP with
            | some a, _ =>
              let want := optTok a.ext.ticket
              if dumpField dmp 10 != want then some s!"injected-ticket-not-marshalled:want={want},got={dumpField dmp 10}" else none
            | _, some _ =>
              if dumpField dmp 11 != "P" then some s!"injected-psk-not-marshalled:got={dumpField dmp 11}" else none
            | _, _ => none
          else none
        match bad with
        | some c => (some c, "legal")
        | none => monitor cx d' rest rs ds.tail
    | none =>
      -- not allowed by the documentation: which kind?
      let isSetter := match op with | .setTicket _ => true | .setPsk _ => true | _ => false
      let nonNil := match op with | .setTicket a => a != .nil | .setPsk a => a != .nil | _ => false
      let initArg := match op with | .setTicket a => a.isInit | .setPsk a => a.isInit | _ => false
      if d.done then (none, "legal")
      else if isSetter && !d.cache then
        -- no usable cache: must be refused; nothing changed, keep judging
        if !isRefusalStr r then (some s!"forbidden-not-refused:nocache:{tok}:{r}", "forbid")
        else
          let (c, _) := monitor cx d rest rs ds.tail
          (c, "forbid")
      else if isSetter && nonNil && (d.injected || (d.built && !cx.cfg.golang)) then
        if !isRefusalStr r then (some s!"forbidden-not-refused:late-or-twice:{tok}:{r}", "forbid") else (none, "forbid")
      else if isSetter && initArg && !cx.cfg.golang && !cx.cfg.custom then
        -- the spec lacks the extension: the setter may succeed, the next build must return the error
        if r.startsWith "pan:assert" then (some s!"assertion-panic:{tok}:{r}", "forbid")
        else
          let later := (rest.zip rs).find? fun x => isBuildTok x.1.1
          match later with
          | some ((t2, _), r2) =>
            if !isRefusalStr r2 then (some s!"forbidden-not-refused:spec-lacks-ext:{t2}:{r2}", "forbid") else (none, "forbid")
          | none => (none, "forbid")
      else (none, "unspec")

def injTag (ops : List (String × Op)) : String :=
  let ts := ops.map (·.1)
  if ts.any (fun t => t == "Pi") then "P"
  else if ts.any (fun t => t == "Ti" || t == "Sr") then "T"
  else if ts.any (fun t => t == "Sf") then "F"
  else if ts.any (fun t => t == "Sn") then "N"
  else "none"

def c20 (c : Case) : Verdict :=
  match c.input.get "kind", c.input.nat "cfg", c.input.get "kc", c.input.nat "smax" with
  | some kind, some cfgMode, some kc, some smax =>
    match mkCtx kind cfgMode kc smax with
    | none => .bad "c20: bad kind"
    | some cx =>
      let toks := listOf (c.input.getD "ops" "-")
      match toks.mapM (fun t => (parseOp cx.lr t).map fun o => (t, o)) with
      | none => .bad "c20: bad op"
      | some ops =>
        if cx.cfg.custom && ops.any (fun o => match o.2 with | .setTicket a => a != .nil | .setPsk a => a != .nil | _ => false) then
          .bad "c20: extension setters after ApplyPreset on HelloCustom are outside the model" else
        if c.output.get "out" == some "nosession" then .bad "c20: harness could not obtain sessions" else
        let s0 := St.start cx.cfg cx.hasCache
        let (mr, md, sf, ranH) := replay cx s0 ops
        let ir := listOf (c.output.getD "r" "-")
        let id := listOf (c.output.getD "d" "-")
        -- handshake part
        let hsI := c.output.get "hs"
        let mHsOk := ranH && mr.getLast? == some "ok"
        let resumed := hsResumes cx.neg sf
        let vers := if cx.neg.tls13 then "0304" else "0303"
        let (wt, wp) := match sf.raw with
          | some (t, p) => (slotTok t ++ "/1", slotTok p)
          | none => ("nowire", "N")
        let bv := match sf.raw with
          | some (_, .tok _) => b01 sf.binderFresh
          | _ => "-"
        let mHs := if mHsOk then s!"ok/ok/{vers}/{b01 resumed}/{b01 resumed} wt={wt} wp={wp} bv={bv}" else "-"
        let iHs := match hsI with
          | some h => if h.startsWith "ok/" then s!"{h} wt={c.output.getD "wt" "?"} wp={c.output.getD "wp" "?"} bv={c.output.getD "bv" "?"}" else "-"
          | none => "-"
        -- classification
        let (clause, cls) := monitor cx (Doc.init cx.cfg cx.hasCache) ops ir id
        let legal := (legalRun cx.cfg (Doc.init cx.cfg cx.hasCache) (ops.map (·.2))).isSome
        let lastR := ir.getLast?.getD "-"
        let endTag :=
          if ranH then
            (if iHs == "-" then "H-fail" else if (hsI.getD "").endsWith "/1/1" then "H-resumed" else "H-full")
          else if lastR.startsWith "pan:doc" then "pan-doc"
          else if lastR.startsWith "pan:assert" then "pan-assert"
          else if ir.any (fun r => r.startsWith "err:") then "err"
          else "noH"
        let tag := s!"{kind},{cls},inj={injTag ops},{endTag}"
        -- a PSK on the wire of a documented order must carry the binder of the bytes sent
        if legal && ranH && c.output.get "bv" == some "0" then
          .propFail tag "binder-on-wire-is-not-the-binder-of-the-bytes-sent" else
        match clause with
        | some cl => .propFail tag cl
        | none =>
          -- handshake-level clauses on the implementation's output (legal sequences only)
          let hsClause : Option String :=
            if legal && ranH && iHs != "-" then
              let h := hsI.getD ""
              let srvOk := (h.splitOn "/")[1]? == some "ok"
              let d := legalRun cx.cfg (Doc.init cx.cfg cx.hasCache) (ops.map (·.2))
              let injT := d.bind (·.injT)
              let injP := d.bind (·.injP)
              let iwt := c.output.getD "wt" "?"
              let iwp := c.output.getD "wp" "?"
              if !srvOk then some s!"legal-handshake-failed-at-server:{h}"
              else if injT.isSome && iwt != optTok ((injT.getD .nil).ext.ticket) ++ "/1" then some s!"injected-ticket-not-on-wire:wt={iwt}"
              else if injP.isSome && iwp != "P" then some s!"injected-psk-not-on-wire:wp={iwp}"
              else if injP.isSome && c.output.get "wage" != c.output.get "uage" then some "injected-psk-age-changed"
              else if (injT.isSome || injP.isSome) && c.output.get "inj" != none && c.output.get "inj" != c.output.get "wire" then some "injected-bytes-differ-on-wire"
              else
                let wantResume := (injT == some .real && !cx.neg.tls13) || (injP == some .real && cx.neg.tls13)
                if wantResume && !h.endsWith "/1/1" then some s!"injected-session-not-resumed:{h}" else none
            else none
          match hsClause with
          | some cl => .propFail tag cl
          | none =>
            if ir != mr then .diff tag s!"r={",".intercalate mr}"
            else if id != md then .diff tag s!"d={",".intercalate md}"
            else if ranH && iHs != mHs then .diff tag s!"hs={mHs}"
            else .ok tag
  | _, _, _, _ => .bad "c20: bad input"

def families : List (String × (Case → Verdict)) := [("c20", c20)]

end Drv.C20
