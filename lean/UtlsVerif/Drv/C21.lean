import UtlsVerif.Line
import UtlsVerif.CertComp
/-! Driver side of C21: run the `CertComp` model on the chunking the harness observed from the
real decoder, compare with what the real `decompressCert` / the real handshake did
(correspondence), and evaluate the property's clauses on the implementation's output (monitor). -/
namespace Drv.C21
open Wire Line CertComp

/-! byte strings here reach 256 KiB: everything below is iterative / tail recursive. -/

def hexNib (c : UInt8) : Option UInt8 :=
  if 48 ≤ c ∧ c ≤ 57 then some (c - 48)
  else if 97 ≤ c ∧ c ≤ 102 then some (c - 87)
  else if 65 ≤ c ∧ c ≤ 70 then some (c - 55)
  else none

/-- hex → bytes, iteratively (`Line.unhex` recurses once per byte). `-` is the empty string. -/
def unhexFast (s : String) : Option Bytes :=
  if s = "-" then some [] else
  let u := s.toUTF8
  if u.size % 2 ≠ 0 then none else Id.run do
    let mut acc : Array UInt8 := Array.mkEmpty (u.size / 2)
    let mut ok := true
    for i in [0:u.size / 2] do
      match hexNib (u.get! (2 * i)), hexNib (u.get! (2 * i + 1)) with
      | some a, some c => acc := acc.push (a * 16 + c)
      | _, _ => ok := false
    return if ok then some acc.toList else none

def bytesEq : Bytes → Bytes → Bool
  | [], [] => true
  | a :: as, c :: cs => if a == c then bytesEq as cs else false
  | _, _ => false

def listEq : List Bytes → List Bytes → Bool
  | [], [] => true
  | a :: as, c :: cs => if bytesEq a c then listEq as cs else false
  | _, _ => false

/-- comma-separated hex strings; `-` = empty list, `e` = an empty element. -/
def hexListOf (s : String) : Option (List Bytes) :=
  (listOf s).mapM fun t => if t = "e" then some [] else unhexFast t

def splitBy : Bytes → List Nat → List Bytes
  | _, [] => []
  | bs, n :: ns => bs.take n :: splitBy (bs.drop n) ns

def sumNat (xs : List Nat) : Nat := xs.foldl (· + ·) 0

def algName (a : Nat) : String :=
  if a = 1 then "zlib" else if a = 2 then "brotli" else if a = 3 then "zstd" else "other"

def sizeClass (n : Nat) : String :=
  if n ≤ 16 then "s0" else if n ≤ 600 then "s1" else if n ≤ 5000 then "s2"
  else if n ≤ 32700 then "s3" else if n ≤ 70000 then "s4" else "s5"

def chunkClass (n : Nat) : String :=
  if n = 0 then "c0" else if n = 1 then "c1" else if n ≤ 4 then "c2-4" else "c5+"

def alertStr : Alert → String
  | .badCertificate => "bad_certificate"
  | .unexpectedMessage => "unexpected_message"
  | .decodeError => "decode_error"
  | .internalError => "internal_error"

/-- the class the harness can tell from the error text. -/
def whyStr : Why → String
  | .unadvertised => "unadvertised"
  | .tooLarge => "tooLarge"
  | .unsupported => "unsupported"
  | .openFailed => "openFailed"
  | .decodeErr => "decode"
  | .trailingErr => "decode"
  | .short => "short"
  | .long => "long"
  | .unparsable => "unexpected"
  | .noExtension => "unexpected"
  | .malformed => "unexpected"
  | .notCertificate => "unexpected"
  | .emptyCerts => "emptyCerts"
  | .oversize => "oversize"

/-- the decoder the harness observed: `none` when the constructor failed. `cut` (the harness
stopped draining a decompression bomb beyond 300 000 bytes) is longer than any declared length
that reaches the reader, so its status is irrelevant. -/
def mkReader (d : Bytes) (cs : List Nat) (term : String) (eager : Bool) : Option Reader :=
  if term = "open" then none
  else some ⟨splitBy d cs, if term = "err" then .err else if term = "trunc" then .trunc else .eof, eager⟩

def encMatches (enc : String) (alg : Nat) : Bool :=
  (enc.startsWith "zlib:" && alg == 1) || (enc.startsWith "brotli:" && alg == 2) || (enc.startsWith "zstd:" && alg == 3)

def mutKind (m : String) : String := (m.splitOn ":").headD "none"

structure Content where
  certs : List Bytes
  ocsp : Bytes
  scts : List Bytes

def contentEq (a : Content) (c : CertMsg) : Bool :=
  listEq a.certs c.certs && bytesEq a.ocsp c.ocsp && listEq a.scts c.scts

def slack : Nat := 1048576

/-- family `cc_decomp`. -/
def decomp (c : Case) : Verdict :=
  let i := c.input
  let o := c.output
  match i.nats "algs", i.nat "alg", i.nat "declared", (o.get "orig").bind unhexFast,
        o.nats "cs", o.nat "alloc", o.nat "base", o.nat "lim",
        (o.get "certs").bind hexListOf, (o.get "ocsp").bind unhexFast, (o.get "scts").bind hexListOf with
  | some algs, some alg, some declared, some orig, some cs, some alloc, some base, some lim,
    some icerts, some iocsp, some iscts =>
    let dS := o.getD "d" "-"
    match (if dS = "orig" then some orig else unhexFast dS) with
    | none => .bad "cc_decomp: bad d"
    | some d =>
      let term := o.getD "term" "?"
      let eager := o.getD "eager" "false" == "true"
      let mut_ := i.getD "mut" "none"
      let enc := i.getD "enc" "-"
      let res := o.getD "res" "?"
      let why := o.getD "why" "?"
      let impl : Content := ⟨icerts, iocsp, iscts⟩
      if sumNat cs ≠ d.length then .bad "cc_decomp: chunk sizes do not add up" else
      if lim ≠ maxCertMsg then .diff "const" s!"maxHandshakeCertificateMsg={maxCertMsg}" else
      let dec : Decoder := fun _ _ => mkReader d cs term eager
      let r := decompressDecision algs ⟨alg, declared, []⟩ dec
      let adv := algs.contains alg
      let valid := mut_ == "none" && encMatches enc alg && adv && declared == orig.length && orig.length ≤ lim
      let mk := if !adv then "unadv" else if !encMatches enc alg then "wrongcodec"
        else if mut_ ≠ "none" then mutKind mut_
        else if declared < orig.length then "decl-" else if declared > orig.length then "decl+" else "valid"
      let outS := match r.outcome with
        | .ok _ _ => "ok"
        | .abort _ w => whyStr w
      let tag := s!"{algName alg},{sizeClass orig.length},{chunkClass cs.length},{mk},{outS}"
      -- ---- monitor: the property's clauses on the implementation's output
      if valid && !(bytesEq d orig && term == "eof") then
        .bad s!"cc_decomp: the codec library did not round-trip a valid encoding (term={term})"
      else if valid && (parseCertMsg orig).isSome &&
          !(res == "ok" && (match parseCertMsg orig with | some pc => contentEq impl pc | none => false)) then
        .propFail tag s!"valid-encoding-not-recovered res={res} why={why}"
      else if !adv && res ≠ "abort:bad_certificate" then
        .propFail tag s!"unadvertised-algorithm-not-bad_certificate res={res}"
      else if adv && term ≠ "open" && d.length ≠ declared && res ≠ "abort:bad_certificate" then
        .propFail tag s!"length-mismatch-not-bad_certificate declared={declared} actual={d.length} res={res}"
      else if res == "ok" && !(adv && term == "eof" && d.length == declared &&
          (match parseCertMsg d with | some pc => contentEq impl pc | none => false)) then
        .propFail tag "accepted-something-else-than-the-decoded-stream"
      else if res == "ok" && o.getD "after" "same" ≠ "same" then
        -- the result was read again after other connections had their certificates decompressed
        .propFail tag "recovered-certificate-changed-after-later-decompressions"
      else if alloc > base + lim + 4 + slack &&
          (match o.nat "mk" with | some mk => mk > lim + 4 + 4096 | none => true) then
        -- coarse figure (TotalAlloc) excessive and the exact one (bytes allocated by decompressCert
        -- itself, measured by the harness on a repeat of the call) above the limit, or missing
        .propFail tag s!"allocation-beyond-certificate-message-limit alloc={alloc} decoder={base} make={o.getD "mk" "-"}"
      -- ---- correspondence with the model
      else
        let same := match r.outcome with
          | .ok _ pc => res == "ok" && contentEq impl pc
          | .abort a w => res == s!"abort:{alertStr a}" && why == whyStr w
        if same then .ok tag
        else .diff tag (match r.outcome with
          | .ok _ pc => s!"res=ok certs={pc.certs.length}"
          | .abort a w => s!"res=abort:{alertStr a} why={whyStr w}")
  | _, _, _, _, _, _, _, _, _, _, _ => .bad "cc_decomp: bad line"

/-- family `cc_codec`. -/
def codec (c : Case) : Verdict :=
  let i := c.input
  let o := c.output
  let op := i.getD "op" "?"
  let implM := o.getD "m" "?"
  let implU := o.getD "u" "?"
  let showU (x : Option CompMsg) : String := match x with
    | none => "fail"
    | some m => s!"{m.alg}:{m.declared}:{hex m.payload}"
  if op = "raw" then
    match (i.get "data").bind unhexFast with
    | none => .bad "cc_codec: bad data"
    | some data =>
      let mu := showU (unmarshal data)
      let tag := s!"raw,{if mu = "fail" then "fail" else "ok"}"
      if implU = mu then .ok tag else .diff tag s!"u={mu}"
  else
    match i.nat "alg", i.nat "declared", (i.get "payload").bind unhexFast with
    | some alg, some declared, some payload =>
      let m : CompMsg := ⟨alg, declared, payload⟩
      match marshal m with
      | none => if implM = "err" then .ok s!"{op},marshal-err" else .diff s!"{op},marshal-err" "m=err"
      | some bs =>
        let data? : Option Bytes :=
          if op = "rt" then some bs
          else if op = "cut" then (i.nat "cut").map fun k => bs.take k
          else if op = "tail" then ((i.get "tail").bind unhexFast).map fun t => bs ++ t
          else if op = "lie" then (i.nat "add").map fun a =>
            bs.take 9 ++ u24 (payload.length + a) ++ bs.drop 12
          else none
        match data? with
        | none => .bad "cc_codec: bad op"
        | some data =>
          let mu := showU (unmarshal data)
          let wf := decide m.WF
          let tag := s!"{op},{if wf then "wf" else "trunc"},{if mu = "fail" then "fail" else "ok"}"
          -- monitor: a message with in-range fields survives marshal → unmarshal
          if (op = "rt" ∨ op = "tail") ∧ wf ∧ implU ≠ showU (some m) then .propFail tag "codec-roundtrip"
          else if o.getD "rawsame" "true" ≠ "true" then .propFail tag "raw-is-not-the-received-message"
          else if implM = hex bs ∧ implU = mu then .ok tag
          else .diff tag s!"m={hex bs} u={mu}"
    | _, _, _ => .bad "cc_codec: bad line"

/-- `w1+2` = preset with the extension listing 1,2; `wo` = preset without it; `drop` = the
extension removed from `uconn.Extensions` (same effect on the state the model keeps). -/
def parsePreset (s : String) : Option Preset :=
  if s = "wo" ∨ s = "drop" then some ⟨none⟩
  else if s.startsWith "w" then
    (((s.drop 1).toString.splitOn "+").mapM String.toNat?).map fun a => ⟨some a⟩
  else none

/-- family `cc_hs`. -/
def hs (c : Case) : Verdict :=
  let i := c.input
  let o := c.output
  if (o.get "out").isSome then .bad s!"cc_hs: {o.getD "out" ""} client={o.getD "client" ""}" else
  match i.nat "alg", o.nats "algs", (o.get "orig").bind unhexFast, o.nats "cs",
        (o.get "peer").bind hexListOf, (o.get "ocsp").bind unhexFast, (o.get "scts").bind hexListOf with
  | some alg, some algs, some orig, some cs, some ipeer, some iocsp, some iscts =>
    let plain := i.getD "mode" "comp" == "plain"
    let dS := o.getD "d" "-"
    let rawS := o.getD "raw" "-"
    match (if dS = "orig" then some orig else unhexFast dS),
          (if rawS = "plain" then some (certRaw orig) else unhexFast rawS) with
    | some d, some raw0 =>
      let raw := raw0 ++ List.replicate ((o.nat "rawpad").getD 0) 0
      let ext := o.getD "ext" "false" == "true"
      let term := o.getD "term" "?"
      let eager := o.getD "eager" "false" == "true"
      let client := o.getD "client" "?"
      let why := o.getD "why" "?"
      let server := o.getD "server" "?"
      let mut_ := i.getD "mut" "none"
      let enc := i.getD "enc" "-"
      let dd := i.getD "dd" "0"
      let impl : Content := ⟨ipeer, iocsp, iscts⟩
      if !plain && sumNat cs ≠ d.length then .bad "cc_hs: chunk sizes do not add up" else
      let dec : Decoder := fun _ _ => mkReader d cs term eager
      -- the client state: from the hello on the wire, or (rebuilt hellos) from the model of the
      -- preset sequence, which must then agree with the hello on the wire
      let seqS := i.getD "seq" "-"
      let presets := if seqS = "-" then some [] else (seqS.splitOn ">").mapM parsePreset
      match presets with
      | none => .bad "cc_hs: bad seq"
      | some ps =>
      let ctx : ClientCtx := if ps.isEmpty then ⟨ext, algs⟩ else afterPresets ps
      if !ps.isEmpty && !(ctx.hasExt == ext && (!ext || ctx.adv == algs)) then
        .diff "rebuilt" s!"hello after presets: ext={ctx.hasExt} algs={natsStr ctx.adv}"
      else
      let st := readServerCert ctx raw dec
      let adv := algs.contains alg
      let tampered := !plain && !bytesEq d orig       -- the bytes the client decodes are not the server's
      let valid := !plain && ext && adv && mut_ == "none" && dd == "0" && encMatches enc alg &&
        raw.length ≤ 4 + maxCertMsg
      let alertSeen := server.startsWith "ralert:"
      let mk := if !ps.isEmpty then (if ext && adv then "rebuilt-adv" else "rebuilt-stale")
        else if plain then "plain" else if !ext then "noext" else if !adv then "unadv"
        else if !encMatches enc alg then "wrongcodec" else if mut_ ≠ "none" then mutKind mut_
        else if dd ≠ "0" then "decl" else if i.getD "tail" "0" ≠ "0" then "tail" else "valid"
      let outS := match st.outcome with
        | .ok _ _ => if tampered then "ok-at-decompress" else "ok"
        | .abort a w => s!"{whyStr w}:{if alertSeen then alertStr a else "alert-lost"}"
      let tag := s!"{if plain then "plain" else algName alg},{sizeClass orig.length},{mk},{outS}"
      let origPc := parseCertMsg orig
      -- ---- monitor
      if valid && !(bytesEq d orig && term == "eof") then
        .bad s!"cc_hs: the codec library did not round-trip a valid encoding (term={term})"
      else if valid && !(client == "ok" && o.getD "echo" "false" == "true" &&
          (match origPc with | some pc => contentEq impl pc | none => false)) then
        .propFail tag s!"valid-compressed-certificate-handshake-failed client={client} why={why} server={server}"
      else if !plain && !ext && client == "ok" then
        -- judged on the hello actually sent: no compress_certificate extension in it
        .propFail tag "compressed-certificate-accepted-although-the-hello-sent-did-not-advertise-compression"
      else if client == "ok" && o.getD "peerafter" "same" ≠ "same" && o.getD "peerafter" "-" ≠ "-" then
        .propFail tag "peer-certificates-changed-after-a-later-handshake"
      else if client == "ok" && !(match parseCertMsg (if plain then orig else d) with
          | some pc => listEq ipeer pc.certs | none => false) then
        .propFail tag "peer-certificates-differ-from-the-decoded-certificate-message"
      else if !plain && ext && !algs.isEmpty && raw.length ≤ 4 + maxCertMsg && (unmarshal raw).isSome &&
          (!adv || (term ≠ "open" && some d.length ≠ (unmarshal raw).map (·.declared))) &&
          (client == "ok" || (alertSeen && server ≠ "ralert:bad_certificate")) then
        .propFail tag s!"mismatch-not-aborted-with-bad_certificate client={client} server={server}"
      -- ---- correspondence
      else match st.outcome with
        | .ok _ pc =>
          if tampered then
            -- decompression accepts the (cleanly decoding) tampered stream; x509 verification of
            -- whatever it decodes to is outside this model: only "not accepted as someone else" above
            .ok tag
          else if client == "ok" && contentEq impl pc && o.getD "vers" "" == "0304" then .ok tag
          else .diff tag s!"client=ok peer={pc.certs.length} certs"
        | .abort a w =>
          if client == "fail" && why == whyStr w && (!alertSeen || server == s!"ralert:{alertStr a}") then .ok tag
          else .diff tag s!"client=fail why={whyStr w} server=ralert:{alertStr a}"
    | _, _ => .bad "cc_hs: bad d/raw"
  | _, _, _, _, _, _, _ => .bad "cc_hs: bad line"

def families : List (String × (Case → Verdict)) :=
  [("cc_decomp", decomp), ("cc_codec", codec), ("cc_hs", hs)]

end Drv.C21
