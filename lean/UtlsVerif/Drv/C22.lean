import UtlsVerif.Line
import UtlsVerif.Alps
/-! Driver side of C22: real ALPS handshakes (`alps_hs`) and the three message codecs (`alps_codec`)
against the `Alps` model, plus the property monitors on the implementation's output. -/
namespace Drv.C22
open Line Wire Alps

def hexList (s : String) : Option (List Bytes) := (listOf s).mapM unhex

/-- `nil` | `empty` | `hexname:hexvalue,…` -/
def parseMap (s : String) : Option SettingsMap :=
  if s = "nil" ∨ s = "empty" ∨ s = "" then some [] else
  (s.splitOn ",").mapM fun e =>
    match e.splitOn ":" with
    | [k, v] => do
        let k ← unhex k
        let v ← unhex v
        pure (k, v)
    | _ => none

/-- server ALPS list of the input line: `-` | `cp:hex,cp:hex` -/
def parseAlps (s : String) : Option (List (Nat × Bytes)) :=
  (listOf s).mapM fun e =>
    match e.splitOn ":" with
    | [k, v] => do
        let k ← k.toNat?
        let v ← unhex v
        pure (k, v)
    | _ => none

def errStr : Err → String
  | .badEE => "err:local_error:_tls:_unexpected_message"
  | .alpnUnrequested => "err:server_advertised_unrequested_ALPN_extension"
  | .alpnUnadvertised => "err:server_selected_unadvertised_ALPN_protocol"
  | .alpsVersion => "err:server_sent_application_settings_at_invalid_version"
  | .alpsNoAlpn => "err:server_sent_application_settings_without_ALPN"
  | .quicTP => "err:server_sent_an_unexpected_quic_transport_parameters_extension"
  | .earlyData => "err:server_sent_an_unexpected_early_data_extension"
  | .clientEEMarshal => "err:cryptobyte"

def alertStr : Alert → String
  | .unexpectedMessage => "unexpected_message"
  | .noApplicationProtocol => "no_application_protocol"
  | .unsupportedExtension => "unsupported_extension"

def sizeClass (n : Nat) : String :=
  if n = 0 then "0" else if n < 256 then "s" else if n ≤ 1024 then "1k" else "big"

def strBytes (s : String) : Bytes := s.toUTF8.toList

def alpsHS (c : Case) : Verdict :=
  let i := c.input
  let o := c.output
  if o.getD "out" "?" ≠ "ok" then .diff "harness" s!"out=ok (got {o.getD "out" "?"})" else
  match parseMap (i.getD "cset" "nil"), parseAlps (i.getD "salps" "-"),
        (o.get "calpn").bind hexList, o.bytes "ees", o.bytes "peer", o.bytes "np" with
  | some cfg, some salps, some calpn, some ees, some peer, some np =>
    let smax := i.getD "smax" "13"
    let wher := i.getD "where" "ee"
    let salpn := i.getD "salpn" "none"
    let vers := if smax = "12" then VersionTLS12 else VersionTLS13
    let cI := o.getD "c" "?"
    let sI := o.getD "s" "?"
    let ceeI := o.getD "cee" "?"
    let ceedI := o.getD "ceed" "?"
    let offered := ((o.get "offered").map listOf).getD []
    -- what the harness made the server do (independent of the model)
    let sentInEE := wher = "ee" ∧ smax = "13" ∧ ¬ salps.isEmpty
    let proto := strBytes salpn
    let alpnNeg := salpn ≠ "none" ∧ calpn.contains proto
    let lastA := salps.getLast?
    let codes := salps.map (·.1)
    let alpsCls :=
      if salps.isEmpty then "noalps"
      else if codes.length > 1 then "both"
      else (if codes = [cpOld] then "old" else "new") ++
        (if offered.contains (toString (codes.headD 0)) then ",match" else ",unoffered")
    let cfgCls :=
      if i.getD "cset" "nil" = "nil" then "nil" else if i.getD "cset" "" = "empty" then "empty"
      else match lookup cfg proto with
        | some v => "hit" ++ sizeClass v.length
        | none => "miss"
    let alpnCls := if alpnNeg then "neg" else if calpn.isEmpty then "notoffered" else "none"
    -- prev=1: this is the second connection over one session cache / one set of ticket keys
    let prev := i.getD "prev" "0" = "1"
    let resumed := o.getD "cres" "0" = "1" ∧ o.getD "sres" "0" = "1"
    let extra := (if i.getD "ccert" "0" = "1" then ",ccert" else "") ++ (if o.getD "hellos" "1" = "2" then ",hrr" else "") ++
      (if prev then (if resumed then ",resumed" else ",second") else "")
    let tag := s!"{smax},{wher},{alpsCls},{alpnCls},{cfgCls},{if cI = "ok" then "ok" else "abort"}{extra}"
    -- ---- property monitors on the implementation's output ----
    if smax = "12" ∧ (peer ≠ [] ∨ ceeI ≠ "none") then .propFail tag "application-settings-exposed-or-answered-below-TLS1.3"
    else if sentInEE ∧ ¬ alpnNeg ∧ cI = "ok" then .propFail tag "alps-without-negotiated-alpn-accepted"
    else
    let negotiated := sentInEE ∧ alpnNeg ∧ codes.length = 1 ∧ offered.contains (toString (codes.headD 0))
    let want := match lastA with
      | some (cp, _) => s!"{cp}:{hex ((lookup cfg proto).getD [])}"
      | none => "none"
    let mon : Option String :=
      if ¬ negotiated then none
      else if cI ≠ "ok" then some "negotiated-alps-rejected-by-client"
      else if some peer ≠ lastA.map (·.2) then some "PeerApplicationSettings-differ-from-the-server's-settings"
      else if ceeI = "none" then
        (if sI = "ok" then some "client-EncryptedExtensions-missing" else some "client-EncryptedExtensions-missing-or-unreadable")
      else if ceedI = "bad" then some "client-EncryptedExtensions-malformed"
      else if (ceedI.splitOn ":").headD "" ≠ toString (codes.headD 0) then some "code-point-not-echoed"
      else if ceedI ≠ want then some "client-settings-are-not-those-configured-for-the-negotiated-protocol"
      else if sI ≠ "ok" then some s!"server-Finished-check-failed(client-EE-not-covered-by-the-transcript?):{sI}"
      else if o.getD "echo" "0" ≠ "1" then some "no-application-data-after-handshake"
      else none
    match mon with
    | some cl => .propFail tag cl
    | none =>
    -- ---- correspondence with the model ----
    let inp : Input := { vers := vers, offeredAlpn := calpn, cfg := cfg, eeRaw := ees, alpn12 := np }
    let r := runConn (fun _ => []) (decide resumed) inp
    let cM : String := match r.err with | none => "ok" | some e => errStr e
    let ceeM := if r.err.isSome ∨ r.conn.utls.cp = 0 then "none" else
      match r.flight.wire with
      | m :: _ => hex m
      | [] => "none"
    let sOK : Bool := match r.err with
      | none => sI == "ok"
      | some e => match e.alert with
        | some a => sI == "ralert:" ++ alertStr a || sI == "eof"
        | none => sI != "ok"
    -- the first connection had the same parameters: same prediction
    let firstM := s!"{cM}/" 
    if prev ∧ ¬ firstM.isPrefixOf (o.getD "first" "?") then .diff tag s!"first={cM}/…"
    else if prev ∧ r.err.isNone ∧ ¬ (s!"ok/ok/{ceedI}").isPrefixOf (o.getD "first" "?") then .diff tag s!"first=ok/ok/{ceedI}"
    else if prev ∧ r.err.isNone ∧ ¬ resumed then .diff tag "cres=1 sres=1"
    else if ¬ cM.isPrefixOf cI then .diff tag s!"c={cM}"
    else if hex r.conn.utls.peer ≠ hex peer then .diff tag s!"peer={hex r.conn.utls.peer}"
    else if r.conn.clientProtocol ≠ np then .diff tag s!"np={hex r.conn.clientProtocol}"
    else if ceeM ≠ ceeI then .diff tag s!"cee={ceeM}"
    else if ¬ sOK then .diff tag s!"s-for-{cM}"
    else if o.getD "vers" "?" ≠ (if smax = "12" then "0303" else "0304") then .diff tag "vers"
    else if (r.err.isNone) ≠ (o.getD "echo" "0" == "1") then .diff tag "echo"
    else .ok tag
  | _, _, _, _, _, _ => .bad "alps_hs: unparsable line"

def wfClientEE (m : ClientEE) : Bool :=
  (m.cp == cpOld || m.cp == cpNew || (m.cp == 0 && m.settings.isEmpty)) && m.custom.isEmpty &&
    m.settings.length ≤ 65531

def alpsCodec (c : Case) : Verdict :=
  let i := c.input
  let o := c.output
  match i.getD "op" "?" with
  | "cm" =>
    match i.nat "cp", i.bytes "set", i.bytes "cust" with
    | some cp, some set, some cust =>
      let m : ClientEE := { cp := cp, settings := set, custom := cust }
      let cpCls := if cp = 0 then "cp0" else if isAlps cp then "alps" else "othercp"
      let tag := s!"cm,{cpCls},{if cust.isEmpty then "nocust" else "cust"},{sizeClass set.length},{if wfClientEE m then "wf" else "nwf"}"
      let outM := match m.marshal with | none => "err" | some raw => hex raw
      -- monitor: decode-of-encode on well-formed messages (real encoder, real decoder)
      if wfClientEE m ∧ o.getD "back" "?" ≠ s!"{cp}:{hex set}" then .propFail tag "client-EE-unmarshal-of-marshal-differs"
      else if o.getD "out" "?" ≠ outM then .diff tag s!"out={outM}"
      else
        let backM := match m.marshal with
          | none => none
          | some raw => some (match ClientEE.unmarshal raw with | none => "bad" | some x => s!"{x.cp}:{hex x.settings}")
        match backM with
        | some bm => if o.getD "back" "?" ≠ bm then .diff tag s!"back={bm}" else .ok tag
        | none => .ok (tag ++ ",err")
    | _, _, _ => .bad "alps_codec cm: bad input"
  | "cu" =>
    match i.bytes "data" with
    | some d =>
      let outM := match ClientEE.unmarshal d with
        | none => "ok=0"
        | some m => s!"ok=1 cp={m.cp} set={hex m.settings}"
      let outI := if o.getD "ok" "?" = "1" then s!"ok=1 cp={o.getD "cp" "?"} set={o.getD "set" "?"}" else s!"ok={o.getD "ok" "?"}"
      let tag := s!"cu,{if outM = "ok=0" then "rej" else "acc"}"
      if outI ≠ outM then .diff tag outM else .ok tag
    | none => .bad "alps_codec cu: bad input"
  | "su" =>
    match i.bytes "data" with
    | some d =>
      let oh (x : Option Bytes) : String := match x with | none => "nil" | some b => hex b
      let outM := match ServerEE.unmarshal d with
        | none => "ok=0"
        | some m => s!"ok=1 alpn={hex m.alpn} cp={m.alpsCp} set={hex m.alps} quic={oh m.quicTP} early={if m.earlyData then 1 else 0} ech={oh m.ech}"
      let outI := if o.getD "ok" "?" = "1" then
          s!"ok=1 alpn={o.getD "alpn" "?"} cp={o.getD "cp" "?"} set={o.getD "set" "?"} quic={o.getD "quic" "?"} early={o.getD "early" "?"} ech={o.getD "ech" "?"}"
        else s!"ok={o.getD "ok" "?"}"
      let cls := match ServerEE.unmarshal d with
        | none => "rej"
        | some m => "acc" ++ (if m.alpsCp ≠ 0 then ",alps" else "") ++ (if m.alpn ≠ [] then ",alpn" else "")
      let tag := s!"su,{cls}"
      if outI ≠ outM then .diff tag outM else .ok tag
    | none => .bad "alps_codec su: bad input"
  | _ => .bad "alps_codec: bad op"

/-- families served by this module (collected by the generated `DrvAll`). -/
def families : List (String × (Case → Verdict)) :=
  [("alps_hs", alpsHS), ("alps_codec", alpsCodec)]

end Drv.C22
