import UtlsVerif.Line
import UtlsVerif.Quic
import UtlsVerif.QuicSys
import UtlsVerif.QuicQueue
/-! Driver side of C23: monitors on the real client's call history / event trace, the model's
prediction (completion vs error, HelloRetryRequest) and trace inclusion of the observed history in
the `Quic` transition system instantiated with the regenerated skeleton (`Quic.theSys`). -/
namespace Drv.C23
open Quic Line

/-! ## parsing -/

inductive OEv
  | ev (e : Ev)       -- an event the model knows
  | write (lvl : Nat) (len : Nat)
  | other (s : String) -- timeout / panic / overflow / unknown kinds
  deriving Repr

def levelOfNat : Nat → Option Level
  | 0 => some .initial
  | 1 => some .early
  | 2 => some .handshake
  | 3 => some .app
  | _ => none

def parseEv (s : String) : OEv :=
  let head := (s.splitOn "/").headD ""
  let tail := ((s.splitOn "/").drop 1).headD ""
  if head = "TP" then .ev .tp
  else if head = "HD" then .ev .hd
  else if head = "TPR" then .ev .tpr
  else if head = "RED" then .ev .red
  else if head.startsWith "SW" then
    match (head.drop 2).toString.toNat?.bind levelOfNat with
    | some l => .ev (.sw l)
    | none => .other s
  else if head.startsWith "SR" then
    match (head.drop 2).toString.toNat?.bind levelOfNat with
    | some l => .ev (.sr l)
    | none => .other s
  else if head.startsWith "W" then
    match (head.drop 1).toString.toNat?, tail.toNat? with
    | some l, some n => .write l n
    | _, _ => .other s
  else .other s

structure Call where
  name : String          -- start | hd<level> | stp | close
  res : String           -- ok | err | timeout | panic
  evs : List OEv

/-- `name:res[ev;ev]` -/
def parseCall (s : String) : Option Call :=
  match s.splitOn "[" with
  | [hd, tl] =>
    match hd.splitOn ":" with
    | [name, res] =>
      let body := (tl.splitOn "]").headD ""
      let evs := if body = "" then [] else (body.splitOn ";").map parseEv
      some { name := name, res := res, evs := evs }
    | _ => none
  | _ => none

def lvlStr : Level → String
  | .initial => "0"
  | .early => "1"
  | .handshake => "2"
  | .app => "3"

def evStr : Ev → String
  | .sw l => "SW" ++ lvlStr l
  | .sr l => "SR" ++ lvlStr l
  | .tp => "TP"
  | .hd => "HD"
  | .tpr => "TPR"
  | .red => "RED"

def traceStr (t : List Ev) : String := ",".intercalate (t.map evStr)

def modelEvs (evs : List OEv) : List Ev := evs.filterMap fun e => match e with | .ev x => some x | _ => none

def hasOther (evs : List OEv) : Bool := evs.any fun e => match e with | .other _ => true | _ => false

/-! ## the model's prediction -/

inductive Class | complete | startErr | hsErr
  deriving DecidableEq, Repr

def Class.str : Class → String
  | .complete => "complete"
  | .startErr => "starterr"
  | .hsErr => "hserr"

def defaultServerGroups : List String := ["mlkem", "x25519", "p256", "p384", "p521"]

structure Scenario where
  spec : String
  golang : Bool
  raw : Bool
  tp : Int
  calpn : List String
  salpn : List String
  sgroups : List String
  sni : Bool
  insecure : Bool
  minver13 : Bool
  s13 : Bool
  apply : Bool
  inject : String
  injected : Bool
  cg : List String
  cs : List String
  answerTPR : Bool   -- the pump answers QUICTransportParametersRequired (HelloGolang)

def Scenario.buildFails (sc : Scenario) : Bool :=
  (!sc.sni && !sc.insecure) || (!sc.golang && !sc.raw && !sc.apply) ||
  (sc.raw && (sc.spec.splitOn "PSK").length > 1)

/-- `Start` refuses before launching the goroutine (Config.MinVersion < TLS 1.3; a custom spec's
ApplyPreset sets MinVersion from the spec). -/
def Scenario.minverFails (sc : Scenario) : Bool :=
  !sc.minver13 && (sc.golang || sc.raw || !sc.apply)

def Scenario.prefs (sc : Scenario) : List String :=
  if sc.sgroups.isEmpty then defaultServerGroups else sc.sgroups

/-- the QUIC server's checks: TLS 1.3 only, quic_transport_parameters, a TLS 1.3 suite, ALPN, a group -/
def Scenario.serverAccepts (sc : Scenario) : Bool :=
  !sc.raw && (sc.golang || sc.tp ≥ 0) && sc.s13 &&
  ((sc.salpn.isEmpty) || (sc.salpn.any fun p => sc.calpn.contains p)) &&
  (sc.prefs.any fun g => sc.cg.contains g)

/-- the client's ALPN check (QUIC: a client that offered ALPN requires a selection) -/
def Scenario.clientAccepts (sc : Scenario) : Bool :=
  sc.calpn.isEmpty || (sc.salpn.any fun p => sc.calpn.contains p)

def Scenario.hrr (sc : Scenario) : Bool :=
  sc.serverAccepts && !(sc.prefs.any fun g => sc.cg.contains g && sc.cs.contains g)

/-- outcome classes the model allows -/
def Scenario.expect (sc : Scenario) : List Class :=
  if sc.minverFails || sc.buildFails then [.startErr]
  else if sc.injected && (sc.inject = "cancel" || sc.inject = "precancel") then [.startErr, .hsErr, .complete]
  else if sc.injected then [.hsErr]
  else if sc.golang && !sc.answerTPR then [.hsErr]
  else if sc.serverAccepts && sc.clientAccepts then [.complete]
  else [.hsErr]

/-! ## trace inclusion -/

/-- closure under internal steps (and the context cancellation when the scenario has one), keeping
only states whose newly emitted events are a prefix of what was observed after this call. -/
def explore (sys : Sys) (labels : List Label) (keep : St → Bool) : Nat → List St → List St → List St
  | 0, _, acc => acc
  | fuel + 1, frontier, acc =>
      let new := ((frontier.flatMap fun s => labels.filterMap (next sys s)).filter keep).eraseDups.filter
        (fun s => !acc.contains s)
      if new.isEmpty then acc else explore sys labels keep fuel new (acc ++ new)

def opOfName (n : String) : Option Op :=
  if n = "start" then some .start
  else if n = "stp" then some .stp
  else if n = "close" then some .close
  else if n.startsWith "hd" then some .hd
  else none

def invLabels (op : Op) (minVerOK : Bool) : List Label :=
  match op with
  | .start => [.invStart minVerOK]
  | .hd => [.invHD true, .invHD false]
  | .stp => [.invSTP]
  | .close => [.invClose]
  | .next => []

/-- model events still to be observed from entry `c` on (own events first) -/
def futureEvs (cs : List Call) : List Ev := cs.flatMap fun c => modelEvs c.evs

/-- one observed history entry.
* an API call (`start`, `hd<l>`, `stp`, `close`): invoke, explore, keep the states where the call has
  returned the observed result. With the draining pump the entry also carries the events drained
  after it (NextEvent until QUICNoEvent): they must be exactly the events emitted and not yet
  consumed. With the other pumps the call is bare and the emitted events must be a prefix of what
  later `ne` entries return.
* `ne` = one NextEvent call: a modelled event must be the next unconsumed event of the model's
  trace; `[]` (QUICNoEvent) requires that none is left; crypto data (not modelled) is skipped. -/
def stepCall (sys : Sys) (cancelAllowed : Bool) (minVerOK : Bool) (drainPump : Bool) (states : List St)
    (c : Call) (future : List Ev) : List St :=
  if c.name = "ne" then
    match c.evs with
    | [] => states.filter fun s => s.seen == s.a.trace.length
    | [.ev e] => (states.filter fun s => s.a.trace[s.seen]? == some e).map fun s => { s with seen := s.seen + 1 }
    | [.write _ _] => states
    | _ => []
  else
  match opOfName c.name with
  | none => []
  | some op =>
    let obs := modelEvs c.evs
    let okv := c.res == "ok"
    let labels := if cancelAllowed then internalLabels ++ [.envCancel] else internalLabels
    -- (events may stay unconsumed when the history ends without a drain: either list may be the longer one)
    let keep : St → Bool := fun s =>
      (s.a.trace.drop s.seen).isPrefixOf future || future.isPrefixOf (s.a.trace.drop s.seen)
    let started := (states.flatMap fun s => (invLabels op minVerOK).filterMap (next sys s)).filter keep
    let all := explore sys labels keep 400 started started.eraseDups
    let fin := all.filter fun s =>
      s.caller == .idle && s.ret == some (op, okv) && (!drainPump || s.a.trace.drop s.seen == obs)
    (fin.map fun s => { s with seen := (if drainPump then s.a.trace.length else s.seen), ret := none }).eraseDups

def simulate (sys : Sys) (cancelAllowed minVerOK drainPump : Bool) : List St → List Call → Nat → Option Nat
  | _, [], _ => none
  | states, c :: r, i =>
    let states' := stepCall sys cancelAllowed minVerOK drainPump states c (futureEvs (c :: r))
    if states'.isEmpty then some i else simulate sys cancelAllowed minVerOK drainPump states' r (i + 1)

/-! ## the family -/

def flag (kv : KV) (k : String) (d : Bool) : Bool :=
  match kv.get k with
  | some "1" => true
  | some "0" => false
  | _ => d

def quicHs (c : Case) : Verdict :=
  let i := c.input
  let o := c.output
  if o.get "out" == some "timeout" then .propFail "case-timeout" "call-hangs:whole-case" else
  if (o.get "out").isSome then .bad s!"quic_hs: harness outcome {o.getD "out" "?"}" else
  match (listOf (o.getD "hist" "-")).mapM parseCall with
  | none => .bad "quic_hs: bad hist"
  | some calls =>
    let spec := i.getD "spec" ""
    let sc : Scenario := {
      spec := spec, golang := spec == "golang", raw := spec.startsWith "raw-",
      tp := (i.getD "tp" "0").toInt?.getD 0,
      calpn := listOf (i.getD "calpn" "-"), salpn := listOf (i.getD "salpn" "-"),
      sgroups := listOf (i.getD "sgroups" "-"),
      sni := flag i "sni" true, insecure := flag i "insecure" false,
      minver13 := i.getD "minver" "13" == "13", s13 := flag i "s13" true, apply := flag i "apply" true,
      inject := i.getD "inject" "none", injected := flag o "inj" false,
      cg := listOf (i.getD "cg" "-"), cs := listOf (i.getD "cs" "-"), answerTPR := flag i "answertpr" true }
    let cdone := flag o "cdone" false
    let sdone := flag o "sdone" false
    let trace := calls.flatMap (fun c => modelEvs c.evs)
    let allEvs := calls.flatMap (·.evs)
    let startErr := match calls with | c :: _ => c.name == "start" && c.res == "err" | [] => false
    let cls : Class := if startErr then .startErr else if cdone && sdone then .complete else .hsErr
    let hrr := flag o "hrr" false
    let chunked := (i.getD "chunk" "0") != "0"
    let pump := i.getD "pump" "drain"
    let nch := (o.getD "nch" "0").toNat?.getD 0
    let tag := s!"{cls.str},{sc.inject}{if sc.injected then "+" else ""},{if hrr then "hrr" else "nohrr"},{if chunked then "chunk" else "whole"},{pump},{if sc.golang then "golang" else if sc.raw then "raw" else if spec.startsWith "q-" then "parrot" else "custom"}"
    -- ---- monitors on the implementation's output (the property)
    match calls.find? (fun c => c.res == "timeout") with
    | some c => .propFail tag s!"call-hangs:{c.name}"
    | none =>
    if calls.any (fun c => c.res == "panic") then .propFail tag "call-panics" else
    if allEvs.any (fun e => match e with | .other s => s == "timeout" | _ => false) then .propFail tag "call-hangs:NextEvent" else
    if hasOther allEvs then .propFail tag "unknown-event" else
    if !OrderOK trace then .propFail tag s!"event-order trace={traceStr trace}" else
    if (listOf (o.getD "sids" "-")).any (· != "0") then .propFail tag "hello-shape:legacy-session-id-not-empty" else
    if ((o.getD "cerr" "").splitOn "non-handshake_message").length > 1 then .propFail tag "hello-shape:ccs-written" else
    let tpn := (o.getD "tpn" "0").toNat?.getD 0
    if tpn > 1 then .propFail tag "transport-parameters-delivered-twice" else
    if cdone && (tpn != 1 || o.getD "tpeq" "-" != "1") then .propFail tag "transport-parameters-not-delivered-exactly-once" else
    if cdone && !(trace.contains .hd && trace.contains (.sr .app)) then .propFail tag "completed-without-HandshakeDone/1-RTT-read-secret" else
    -- every byte NextEvent returned was fed to the peer and accepted (and vice versa) unless a side failed
    if !sc.injected && cls == .complete && o.getD "cerr" "ok" == "ok" && o.getD "serr" "ok" == "ok" &&
        (o.getD "cwb" "" != o.getD "sgb" "" || o.getD "swb" "" != o.getD "cgb" "") then
      .propFail tag s!"bytes-returned-by-NextEvent-differ-from-bytes-the-peer-consumed cwb={o.getD "cwb" "?"} sgb={o.getD "sgb" "?"} swb={o.getD "swb" "?"} cgb={o.getD "cgb" "?"}" else
    -- the Initial-level byte stream is whole handshake messages: one ClientHello, two after a HelloRetryRequest
    if o.getD "rest" "0" != "0" then .propFail tag "bytes-lost:truncated-handshake-message-in-the-Initial-stream" else
    if sc.expect == [.complete] && hrr && nch < 2 then
      .propFail tag s!"bytes-lost:second-ClientHello-written-after-HelloRetryRequest-never-returned-by-NextEvent nch={nch}" else
    if sc.expect == [.complete] && cls != .complete then
      .propFail tag s!"not-completed pump={pump} cerr={o.getD "cerr" "?"} serr={o.getD "serr" "?"}" else
    -- ---- the model's prediction
    if !sc.expect.contains cls then .diff tag s!"class={(sc.expect.map Class.str)}" else
    if cls == .complete && hrr != sc.hrr then .diff tag s!"hrr={sc.hrr}" else
    if !OrderOK (modelEvs ((listOf (o.getD "sev" "-")).map parseEv)) then .diff tag "server-event-order" else
    -- ---- trace inclusion in the transition system over the regenerated skeleton
    let cancelAllowed := sc.inject == "cancel" || sc.inject == "precancel"
    match simulate theSys cancelAllowed (!sc.minverFails) (pump == "drain") [{}] calls 0 with
    | some k => .diff tag s!"history-not-a-behaviour-of-the-model at-call={k}"
    | none => .ok tag

/-! ## naming the return path that breaks the discipline (regenerated skeleton) -/

def condStr : Cond → String
  | .complete => "isHandshakeComplete"
  | .hsErr => "handshakeErr!=nil"
  | .quic => "quic!=nil"
  | .cancellable => "ctx.Done()!=nil"
  | .isClient => "isClient"
  | .buildErr => "BuildHandshakeState-failed"
  | .other n => s!"unknown-condition#{n}:{Gen.QuicShape.unknownConds.getD n "?"}"

def actStr : Act → String
  | .lock .hs => "handshakeMutex.Lock" | .lock _ => "Lock"
  | .unlock .hs => "handshakeMutex.Unlock" | .unlock _ => "Unlock"
  | .dfr (.unlock .hs) => "defer-handshakeMutex.Unlock" | .dfr .cancel => "defer-cancel" | .dfr _ => "defer"
  | .setCancel => "quic.cancel=cancel" | .spawn => "go"
  | .build => "BuildHandshakeState" | .body => "handshakeFn" | .setHsErr => "handshakeErr=err"
  | .close .blocked => "close(blockedc)" | .close .signal => "close(signalc)"
  | .emit e => "emit-" ++ evStr e | .unsupported => "untranslatable-statement"

/-- the end states of a blocking call's script (label, flags), and the first inadmissible emission -/
def scriptEnds (kind : CallKind) : List BItem → A → Nat → List (String × A)
  | [], a, _ => [("fails", finishErr kind a), ("succeeds", finishOK kind a)]
  | .emit e :: r, a, i => (s!"fails-at-step-{i}", finishErr kind a) :: scriptEnds kind r { a with trace := a.trace ++ [e] } (i + 1)
  | .emitOpt e :: r, a, i =>
      (s!"fails-at-step-{i}", finishErr kind a) :: (scriptEnds kind r a (i + 1) ++ scriptEnds kind r { a with trace := a.trace ++ [e] } (i + 1))
  | .recv :: r, a, i => (s!"fails-at-step-{i}", finishErr kind a) :: scriptEnds kind r a (i + 1)

def scriptBadEmit : List BItem → A → Option String
  | [], _ => none
  | .emit e :: r, a =>
      if !(admissible a.trace e && e != .hd) then some s!"emits {evStr e} after [{traceStr a.trace}]"
      else scriptBadEmit r { a with trace := a.trace ++ [e] }
  | .emitOpt e :: r, a =>
      if !(admissible a.trace e && e != .hd) then some s!"emits {evStr e} after [{traceStr a.trace}]"
      else (scriptBadEmit r a).orElse fun _ => scriptBadEmit r { a with trace := a.trace ++ [e] }
  | .recv :: r, a => scriptBadEmit r a

/-- the first path of the skeleton on which the discipline fails, and why -/
def why (sys : Sys) : Prog → A → String → Option String
  | .ret, a, path =>
      if a.closedB && a.closedS && (a.hsErr || a.complete) && unwindOK a.defers a.holds then none
      else some s!"{path} -> return with blockedc-closed={a.closedB} signalc-closed={a.closedS} result-recorded={a.hsErr || a.complete} mutex-released-by-defers={unwindOK a.defers a.holds}"
  | .panic, _, _ => none
  | .ite c t e, a, path =>
      match evalCond c a with
      | some true => why sys t a s!"{path} [{condStr c}]"
      | some false => why sys e a s!"{path} [!{condStr c}]"
      | none => (why sys t a s!"{path} [{condStr c}]").orElse fun _ => why sys e a s!"{path} [!{condStr c}]"
  | .act x k, a, path =>
      let here := s!"{path} {actStr x}"
      match x with
      | .lock .hs => if a.holds then some s!"{here}: mutex already held" else why sys k { a with holds := true } here
      | .build =>
          if !(a.holds && !a.closedB && !a.closedS) then some s!"{here}: blocking call without the mutex or after a close"
          else (scriptBadEmit sys.build a).map (s!"{here}: " ++ ·) |>.orElse fun _ =>
            (scriptEnds .build sys.build a 0).findSome? fun (lbl, a') => why sys k a' s!"{here}({lbl})"
      | .body =>
          if !(a.holds && !a.closedB && !a.closedS && !a.bodyDone) then some s!"{here}: blocking call without the mutex, after a close, or twice"
          else (scriptBadEmit sys.body { a with bodyDone := true }).map (s!"{here}: " ++ ·) |>.orElse fun _ =>
            (scriptEnds .body sys.body { a with bodyDone := true } 0).findSome? fun (lbl, a') => why sys k a' s!"{here}({lbl})"
      | .emit e =>
          if !(!a.closedB && admissible a.trace e && (e != .hd || (a.complete && !a.hsErr))) then
            some s!"{here}: not admissible after [{traceStr a.trace}] (closed={a.closedB} complete={a.complete} err={a.hsErr})"
          else why sys k { a with trace := a.trace ++ [e] } here
      | .close .blocked =>
          if a.closedB then some s!"{here}: already closed"
          else if !(a.hsErr || a.complete) then some s!"{here}: no result recorded before the caller is released"
          else why sys k { a with closedB := true } here
      | .unsupported => some s!"{here}"
      | x => match simpleAct x a with
          | some a' => why sys k a' (if x matches .dfr _ then path else here)
          | none => some s!"{here}: runtime panic (double close / unlock of unlocked mutex)"

/-- family `quic_shape`: no implementation run — the "output" is the skeleton regenerated from the
source; the verdict names the return path that breaks the discipline predicate. -/
def quicShape (_ : Case) : Verdict :=
  let shapesOK :=
    Gen.QuicShape.startOps == expectedStartOps && Gen.QuicShape.handleDataOps == expectedHandleDataOps &&
    Gen.QuicShape.closeOps == expectedCloseOps && Gen.QuicShape.setTPOps == expectedSetTPOps &&
    Gen.QuicShape.nextEventOps == expectedNextEventOps && Gen.QuicShape.waitOps == expectedWaitOps
  if !Disc theSys then
    .propFail "skeleton" s!"discipline path={((why theSys theSys.prog {} "handshakeContext:").getD "?").replace " " "_"}"
  else if !(Gen.QuicShape.sessionIdGuards.all id && !Gen.QuicShape.sessionIdGuards.isEmpty) then
    .propFail "skeleton" "hello-shape:session-id-assignment-not-guarded-by-quic==nil"
  else if !(Gen.QuicShape.ccsQuicReturnsFirst && Gen.QuicShape.ccsDirectWrites == 0) then
    .propFail "skeleton" "hello-shape:dummy-CCS-not-suppressed-for-quic"
  else if !Gen.QuicShape.nextEventClearsSlot then
    .propFail "skeleton" "event-queue:NextEvent-does-not-overwrite-the-returned-slot-with-QUICEvent{}_(later_data_of_the_same_level_is_coalesced_into_a_consumed_slot_and_lost)"
  else if !Gen.QuicShape.writeCoalescesLastSameLevel then .diff "skeleton" "quicWriteCryptoData-coalescing-condition-changed"
  else if !shapesOK then .diff "skeleton" "api-op-sequences-differ-from-the-transcribed-ones"
  else .ok "skeleton"

/-! ## family `quic_queue`: the event queue alone -/

open QuicQueue in
def parseQOp (t : String) : Option QuicQueue.Op :=
  if t = "N" then some .next
  else if t = "D" then some (.emit 7 0 [])
  else if t.startsWith "P:" then (unhex (t.drop 2).toString).map fun d => .emit 4 0 d
  else if t.startsWith "SW" then (t.drop 2).toString.toNat?.map fun l => .emit 2 l [0xaa]
  else if t.startsWith "SR" then (t.drop 2).toString.toNat?.map fun l => .emit 1 l [0xaa]
  else if t.startsWith "W" then
    match (t.drop 1).toString.splitOn ":" with
    | [l, d] => do
      let l ← l.toNat?
      let d ← unhex d
      pure (.write l d)
    | _ => none
  else none

open QuicQueue in
def slotStr : Option Slot → String
  | none => "-"
  | some ⟨.write, l, d⟩ => s!"W{l}:{hex d}"
  | some ⟨.other 2, l, _⟩ => s!"SW{l}"
  | some ⟨.other 1, l, _⟩ => s!"SR{l}"
  | some ⟨.other 4, _, d⟩ => s!"P:{hex d}"
  | some ⟨.other 7, _, _⟩ => "D"
  | some ⟨.other n, _, _⟩ => s!"K{n}"
  | some ⟨.none, _, _⟩ => "Z"

/-- bytes the implementation's NextEvent returned at level `l`, in order -/
def implDelivered (l : Nat) (res : List String) : Option Wire.Bytes :=
  (res.filterMap fun t =>
    if t.startsWith s!"W{l}:" then some (unhex (t.drop 3).toString) else none).foldl
      (fun acc x => do let a ← acc; let b ← x; pure (a ++ b)) (some [])

open QuicQueue in
def quicQueue (c : Case) : Verdict :=
  match (listOf (c.input.getD "ops" "-")).mapM parseQOp with
  | none => .bad "quic_queue: bad ops"
  | some ops =>
    if (c.output.get "out").isSome then .bad s!"quic_queue: harness outcome {c.output.getD "out" "?"}" else
    let impl := listOf (c.output.getD "res" "-")
    let (qEnd, outs) := run true ops {}
    let model := outs.map slotStr
    let nW := (ops.filter fun o => match o with | .write _ _ => true | _ => false).length
    let afterNext := (ops.zip (ops.drop 1)).any fun (a, b) => a == .next && (match b with | .write _ _ => true | _ => false)
    let tag := s!"w={min nW 4},{if afterNext then "write-after-next" else "plain"},{if outs.contains none then "drained" else "pending"}"
    -- monitor (no_bytes_lost on the implementation's output): once the queue was drained, the bytes
    -- returned at each level are the bytes written at that level
    let drainedAtEnd := ops.getLast? == some .next && impl.getLast? == some "-"
    let lost := [0, 1, 2, 3].find? fun l => drainedAtEnd && implDelivered l impl != some (written l ops)
    match lost with
    | some l => .propFail tag s!"bytes-lost level={l} written={hex (written l ops)} returned={(implDelivered l impl).map hex}"
    | none =>
      if impl != model then .diff tag s!"res={",".intercalate model} pending={(pendingBytes 0 qEnd).length}"
      else .ok tag

def families : List (String × (Case → Verdict)) := [("quic_hs", quicHs), ("quic_shape", quicShape), ("quic_queue", quicQueue)]

end Drv.C23
