import UtlsVerif.Line
import UtlsVerif.Varint
/-! Driver side of C24: run the model on the case's input, compare with the implementation's
output (correspondence), evaluate the property's predicate on the implementation's output (monitor). -/
namespace Drv.C24
open Wire Varint Line

def resBytes : Res Bytes → String
  | .ok bs => hex bs
  | .panic => "panic"

def resNat : Res Nat → String
  | .ok n => toString n
  | .panic => "panic"

def readStr (enc : Res Bytes) (tail : Bytes) : String :=
  match enc with
  | .panic => "na"
  | .ok bs =>
    match vRead (bs ++ tail) with
    | none => "eof"
    | some (v, r) => s!"{v}:{r.length}"

/-- the bytes between `len` and `cap` of the destination slice a `varint` case describes. -/
def spareOf (dst : String) : Option Bytes :=
  match dst.splitOn ":" with
  | ["nil"] => some []
  | ["exact"] => some []
  | ["zero", k] => k.toNat?.map fun k => List.replicate k 0
  | ["ff", k] => k.toNat?.map fun k => List.replicate k 255
  | ["rnd", h] => unhex h
  | ["scr", v, w] =>
    match v.toNat?, w.toNat? with
    | some v, some w =>
      match vAppendWithLen v w with
      | .ok e => some (e ++ List.replicate (24 - e.length) 0xa5)
      | .panic => none
    | _, _ => none
  | _ => none

/-- what was appended after the destination's visible bytes, if those are still in front. -/
def stripPre (pre : Bytes) (res : String) : Option Bytes :=
  match unhex res with
  | some bs => if bs.take pre.length = pre ∧ pre.length ≤ bs.length then some (bs.drop pre.length) else none
  | none => none

def varint (c : Case) : Verdict :=
  let pre := (c.input.bytes "pre").getD []
  let dst := c.input.getD "dst" "nil"
  match c.input.nat "x", c.input.nat "w", c.input.bytes "tail", spareOf dst with
  | some x, some w, some tail, some spare =>
    -- the slice-level transcription, run on the very destination of the case
    let s0 : Slice := ⟨pre, spare⟩
    let app := viewOf (sAppend (fun _ => 0) s0 x)
    let wl := viewOf (sAppendWithLen (fun _ => 0) s0 x w)
    let encOf (r : Res Bytes) : Res Bytes := match r with
      | .ok bs => .ok (bs.drop pre.length)
      | .panic => .panic
    let model := s!"append={resBytes app} len={resNat (vLen x)} withlen={resBytes wl} read={readStr (encOf app) tail} readwl={readStr (encOf wl) tail}"
    let impl := s!"append={c.output.getD "append" "?"} len={c.output.getD "len" "?"} withlen={c.output.getD "withlen" "?"} read={c.output.getD "read" "?"} readwl={c.output.getD "readwl" "?"}"
    let dstKind := (dst.splitOn ":").headD "?"
    -- the class the destination dimension is about: a padded width written where stale bytes lie
    let padded : Bool := match vLen x with
      | .ok l => decide (wl ≠ .panic ∧ l + 1 < w)
      | .panic => false
    let stale : Bool := decide (w ≤ spare.length) && (spare.take w).any (· ≠ 0)
    let tag := s!"len={resNat (vLen x)},w={if w = 1 ∨ w = 2 ∨ w = 4 ∨ w = 8 then "legal" else "illegal"},wl={if wl = .panic then "panic" else "ok"},dst={dstKind}{if padded && stale then ",stale-padding" else ""}"
    -- monitor on the implementation's own output: the property's clauses
    let implApp := c.output.getD "append" "?"
    let implRead := c.output.getD "read" "?"
    let implWl := c.output.getD "withlen" "?"
    let implReadWl := c.output.getD "readwl" "?"
    let want := s!"{x}:{tail.length}"
    if x < 4611686018427387904 then
      if implApp = "panic" then .propFail tag "append-panics-below-2^62"
      else if (stripPre pre implApp).isNone then .propFail tag "append-changed-the-destination's-bytes"
      else if implRead ≠ want then .propFail tag "read-append-roundtrip"
      else if (stripPre pre implApp).map (·.length) ≠ (match vLen x with | .ok l => some l | .panic => none) then
        .propFail tag "append-width-is-minimal-Len"
      else if implWl ≠ "panic" ∧ (stripPre pre implWl).isNone then .propFail tag "withlen-changed-the-destination's-bytes"
      else if implWl ≠ "panic" ∧ ((stripPre pre implWl).map (·.length) ≠ some w ∨ implReadWl ≠ want) then
        .propFail tag "withlen-width-and-roundtrip"
      else if model = impl then .ok tag else .diff tag model
    else
      if implApp ≠ "panic" then .propFail tag "too-big-not-refused"
      else if implWl ≠ "panic" then .propFail tag "too-big-withlen-not-refused"
      else if model = impl then .ok tag else .diff tag model
  | _, _, _, _ => .bad "varint: bad input"

def varintRead (c : Case) : Verdict :=
  match c.input.bytes "bytes" with
  | some bs =>
    let model := match vRead bs with
      | none => "eof"
      | some (v, r) => s!"{v}:{r.length}"
    let tag := match bs with
      | [] => "empty"
      | f :: _ => s!"l={f.toNat / 64},{if model = "eof" then "eof" else "ok"}"
    if c.output.getD "read" "?" = model then .ok tag else .diff tag s!"read={model}"
  | none => .bad "varint_read: bad input"

/-- parse one parameter description of the line protocol into the typed model. -/
def parseTP (s : String) : Option (TP ⊕ (Nat × Option Bytes × Nat)) :=
  match s.splitOn ":" with
  | [k, a] =>
    if k.startsWith "v" then do
      let id ← (k.drop 1).toString.toNat?
      let v ← a.toNat?
      pure (.inl (.varint id v))
    else if k = "b15" then (unhex a).map fun v => .inl (.bytes 15 v)
    else if k = "b21" then (unhex a).map fun v => .inl (.bytes 21 v)
    else none
  | [k] =>
    if k = "e12" then some (.inl (.empty 12))
    else if k = "e10930" then some (.inl (.empty 10930))
    else none
  | [k, a, c] =>
    if k = "vi0" ∨ k = "vi1" then do
      let ch ← a.toNat?
      let av ← (if c = "-" then some [] else (c.splitOn ";").mapM String.toNat?)
      pure (.inl (.versionInfo (k = "vi1") ch av))
    else if k = "f" then do
      let id ← a.toNat?
      let v ← unhex c
      pure (.inl (.bytes id v))
    else none
  | [k, a, c, d] =>
    if k = "g" then do
      let id ← a.toNat?
      let v ← unhex c
      let len ← d.toNat?
      -- GREASE: id override (used iff valid), value override (used iff non-empty), random length
      pure (.inr (id, if v.isEmpty then none else some v, len))
    else none
  | _ => none

def parseRaw (s : String) : Option RawTP :=
  match s.splitOn ":" with
  | [a, c] => do
    let id ← a.toNat?
    let v ← unhex c
    pure ⟨id, v⟩
  | _ => none

def isGreaseId (id : Nat) : Bool := id ≥ 27 && (id - 27) % 31 == 0

/-- does every parameter report the id/value the typed model says (GREASE draws are inputs, checked for shape)? -/
def eachOk (ps : List (TP ⊕ (Nat × Option Bytes × Nat))) (raws : List RawTP) : Bool :=
  (ps.zip raws).all fun (p, r) => match p with
    | .inl tp => tp.raw = .ok r
    | .inr (id, v, len) =>
      (if isGreaseId id then r.id = id else isGreaseId r.id && r.id < 4611686018427387904) &&
      (match v with | some v => r.value = v | none => r.value.length = len)

def tps (c : Case) : Verdict :=
  match (listOf (c.input.getD "tps" "-")).mapM parseTP with
  | none => .bad "tps: bad input"
  | some ps =>
    let implMarshal := c.output.getD "marshal" "?"
    -- a fake parameter with id 0 panics in ID(); a typed varint ≥ 2^62 panics in Value()
    let fakeZero := ps.any fun p => match p with
      | .inl (.bytes 0 _) => true
      | _ => false
    let typedPanic := ps.any fun p => match p with
      | .inl tp => (match tp.raw with
          | .panic => true
          | .ok r => vAppend r.id = .panic)   -- an id that does not fit 62 bits panics in Marshal
      | _ => false
    let tag := s!"n={min ps.length 4},{if fakeZero ∨ typedPanic then "panic" else "ok"}"
    if fakeZero ∨ typedPanic then
      if implMarshal = "panic" then .ok tag else .diff tag "marshal=panic"
    else
      match (listOf (c.output.getD "raw" "-")).mapM parseRaw, unhex implMarshal with
      | some raws, some bytes =>
        if raws.length ≠ ps.length then .diff tag "raw-count" else
        -- (1) each parameter reports what the typed model says
        -- a caller-supplied GREASE value that is not the value put on the wire is a lossless-encoding
        -- failure with this case as the failing input (not merely a model/code difference)
        if (ps.zip raws).any (fun (p, r) => match p with
            | .inr (_, some v, _) => r.value != v
            | _ => false) then .propFail tag "grease-value-override-not-emitted" else
        if ¬ eachOk ps raws then .diff tag "typed-parameter-id/value" else
        -- (2) Marshal = model on the reported list; (3) monitor: the bytes parse back to the list
        if parseTPs bytes ≠ some raws then .propFail tag "marshal-parses-back-to-list"
        else if marshalTPs raws ≠ .ok bytes then .diff tag s!"marshal={resBytes (marshalTPs raws)}"
        else
          -- (4) the extension wraps exactly these bytes
          let ext := c.output.getD "ext" "?"
          if ext = s!"ok:{hex (u16 57 ++ vec16 bytes)}" then .ok tag else .diff tag "ext-framing"
      | _, _ => .diff tag "marshal=ok"

/-- one list of a `tps_seq` case: `none` = fine, otherwise the verdict. The monitor looks at what the
caller still holds after all the other results were produced. -/
def seqOne (c : Case) (tag : String) (i : Nat) : Option Verdict :=
  match (listOf (c.input.getD s!"l{i}" "-")).mapM parseTP, (listOf (c.output.getD s!"raw{i}" "-")).mapM parseRaw with
  | some ps, some raws =>
    if raws.length ≠ ps.length then some (.diff tag s!"raw-count-{i}") else
    if ¬ eachOk ps raws then some (.diff tag s!"typed-parameter-id/value-{i}") else
    let now := c.output.getD s!"now{i}" "?"
    let held := c.output.getD s!"held{i}" "?"
    let model := marshalTPs raws
    match held.splitOn ":" with
    | ["m", h] =>
      match unhex h, now.splitOn ":" with
      | some hb, ["m", n] =>
        -- the held slice must still be the body of list i …
        if parseTPs hb ≠ some raws then some (.propFail tag s!"held-marshal-result-no-longer-parses-back-to-its-list") else
        -- … as it was when Marshal returned it
        if (unhex n).bind parseTPs ≠ some raws then some (.propFail tag "marshal-parses-back-to-list") else
        if model ≠ .ok hb ∨ n ≠ h then some (.diff tag s!"held{i}={resBytes model}") else none
      | _, _ => some (.diff tag s!"held{i}=m:{resBytes model}")
    | ["x", e, h] =>
      match unhex h with
      | some xb =>
        -- extension_type(57) length body: the body Read emits after Len() fixed it
        let body := xb.drop 4
        if e ≠ "ok" then some (.diff tag s!"ext-read-error-{i}") else
        if parseTPs body ≠ some raws then some (.propFail tag "extension-body-no-longer-parses-back-to-its-list") else
        if now ≠ s!"len:{4 + body.length}" then some (.propFail tag "extension-Len-differs-from-what-Read-wrote") else
        if model ≠ .ok body ∨ xb ≠ u16 57 ++ vec16 body then some (.diff tag s!"ext-framing-{i}") else none
      | none => some (.diff tag s!"held{i}=x:ok:…")
    | _ => some (.diff tag s!"held{i}-missing")
  | _, _ => some (.bad s!"tps_seq: bad list {i}")

def tpsSeq (c : Case) : Verdict :=
  match c.input.nat "k" with
  | none => .bad "tps_seq: bad input"
  | some k =>
    let tag := s!"{c.input.getD "mode" "?"},k={k}"
    match (List.range k).findSome? (seqOne c tag) with
    | some v => v
    | none =>
      -- all-Marshal sequences are also run through the heap model (one memory, results read at the
      -- end, in the order the calls were made)
      if c.input.getD "mode" "?" ≠ "marshal" then .ok tag else
      let order := (listOf (c.input.getD "make" "-")).filterMap String.toNat?
      match order.mapM (fun i => (listOf (c.output.getD s!"raw{i}" "-")).mapM parseRaw) with
      | none => .bad "tps_seq: bad raw lists"
      | some lists =>
        match hMarshalSeq (fun n => n) [] lists with
        | .panic => .diff tag "heap-model=panic"
        | .ok (hN, rs) =>
          let views := rs.map fun r => "m:" ++ hex (hView hN r)
          let helds := order.map fun i => c.output.getD s!"held{i}" "?"
          if views = helds then .ok tag else .diff tag s!"heap-model={",".intercalate views}"

/-- families served by this module (collected by the generated `DrvAll`). -/
def families : List (String × (Case → Verdict)) := [("varint", varint), ("varint_read", varintRead), ("tps", tps), ("tps_seq", tpsSeq)]

end Drv.C24
