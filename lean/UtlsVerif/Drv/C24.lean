import UtlsVerif.Line
import UtlsVerif.Varint
/-! Driver side of C24: run the model on the case's input, compare with the implementation's
output (correspondence), evaluate the property's predicate on the implementation's output (monitor). -/
namespace Drv.C24
open Wire Varint Line

def resBytes : Res Bytes → String
  | .ok bs => hex bs
  | .panic => "panic"

def resNat : Res Nat → String
  | .ok n => toString n
  | .panic => "panic"

def readStr (enc : Res Bytes) (tail : Bytes) : String :=
  match enc with
  | .panic => "na"
  | .ok bs =>
    match vRead (bs ++ tail) with
    | none => "eof"
    | some (v, r) => s!"{v}:{r.length}"

def varint (c : Case) : Verdict :=
  match c.input.nat "x", c.input.nat "w", c.input.bytes "tail" with
  | some x, some w, some tail =>
    let app := vAppend x
    let wl := vAppendWithLen x w
    let model := s!"append={resBytes app} len={resNat (vLen x)} withlen={resBytes wl} read={readStr app tail} readwl={readStr wl tail}"
    let impl := s!"append={c.output.getD "append" "?"} len={c.output.getD "len" "?"} withlen={c.output.getD "withlen" "?"} read={c.output.getD "read" "?"} readwl={c.output.getD "readwl" "?"}"
    let tag := s!"len={resNat (vLen x)},w={if w = 1 ∨ w = 2 ∨ w = 4 ∨ w = 8 then "legal" else "illegal"},wl={if wl = .panic then "panic" else "ok"}"
    -- monitor on the implementation's own output: the property's clauses
    let implApp := c.output.getD "append" "?"
    let implRead := c.output.getD "read" "?"
    let implWl := c.output.getD "withlen" "?"
    let implReadWl := c.output.getD "readwl" "?"
    let want := s!"{x}:{tail.length}"
    if x < 4611686018427387904 then
      if implApp = "panic" then .propFail tag "append-panics-below-2^62"
      else if implRead ≠ want then .propFail tag "read-append-roundtrip"
      else if (unhex implApp).map (·.length) ≠ (match vLen x with | .ok l => some l | .panic => none) then
        .propFail tag "append-width-is-minimal-Len"
      else if implWl ≠ "panic" ∧ ((unhex implWl).map (·.length) ≠ some w ∨ implReadWl ≠ want) then
        .propFail tag "withlen-width-and-roundtrip"
      else if model = impl then .ok tag else .diff tag model
    else
      if implApp ≠ "panic" then .propFail tag "too-big-not-refused"
      else if implWl ≠ "panic" then .propFail tag "too-big-withlen-not-refused"
      else if model = impl then .ok tag else .diff tag model
  | _, _, _ => .bad "varint: bad input"

def varintRead (c : Case) : Verdict :=
  match c.input.bytes "bytes" with
  | some bs =>
    let model := match vRead bs with
      | none => "eof"
      | some (v, r) => s!"{v}:{r.length}"
    let tag := match bs with
      | [] => "empty"
      | f :: _ => s!"l={f.toNat / 64},{if model = "eof" then "eof" else "ok"}"
    if c.output.getD "read" "?" = model then .ok tag else .diff tag s!"read={model}"
  | none => .bad "varint_read: bad input"

/-- parse one parameter description of the line protocol into the typed model. -/
def parseTP (s : String) : Option (TP ⊕ (Nat × Option Bytes × Nat)) :=
  match s.splitOn ":" with
  | [k, a] =>
    if k.startsWith "v" then do
      let id ← (k.drop 1).toString.toNat?
      let v ← a.toNat?
      pure (.inl (.varint id v))
    else if k = "b15" then (unhex a).map fun v => .inl (.bytes 15 v)
    else if k = "b21" then (unhex a).map fun v => .inl (.bytes 21 v)
    else none
  | [k] =>
    if k = "e12" then some (.inl (.empty 12))
    else if k = "e10930" then some (.inl (.empty 10930))
    else none
  | [k, a, c] =>
    if k = "vi0" ∨ k = "vi1" then do
      let ch ← a.toNat?
      let av ← (if c = "-" then some [] else (c.splitOn ";").mapM String.toNat?)
      pure (.inl (.versionInfo (k = "vi1") ch av))
    else if k = "f" then do
      let id ← a.toNat?
      let v ← unhex c
      pure (.inl (.bytes id v))
    else none
  | [k, a, c, d] =>
    if k = "g" then do
      let id ← a.toNat?
      let v ← unhex c
      let len ← d.toNat?
      -- GREASE: id override (used iff valid), value override (used iff non-empty), random length
      pure (.inr (id, if v.isEmpty then none else some v, len))
    else none
  | _ => none

def parseRaw (s : String) : Option RawTP :=
  match s.splitOn ":" with
  | [a, c] => do
    let id ← a.toNat?
    let v ← unhex c
    pure ⟨id, v⟩
  | _ => none

def isGreaseId (id : Nat) : Bool := id ≥ 27 && (id - 27) % 31 == 0

def tps (c : Case) : Verdict :=
  match (listOf (c.input.getD "tps" "-")).mapM parseTP with
  | none => .bad "tps: bad input"
  | some ps =>
    let implMarshal := c.output.getD "marshal" "?"
    -- a fake parameter with id 0 panics in ID(); a typed varint ≥ 2^62 panics in Value()
    let fakeZero := ps.any fun p => match p with
      | .inl (.bytes 0 _) => true
      | _ => false
    let typedPanic := ps.any fun p => match p with
      | .inl tp => (match tp.raw with
          | .panic => true
          | .ok r => vAppend r.id = .panic)   -- an id that does not fit 62 bits panics in Marshal
      | _ => false
    let tag := s!"n={min ps.length 4},{if fakeZero ∨ typedPanic then "panic" else "ok"}"
    if fakeZero ∨ typedPanic then
      if implMarshal = "panic" then .ok tag else .diff tag "marshal=panic"
    else
      match (listOf (c.output.getD "raw" "-")).mapM parseRaw, unhex implMarshal with
      | some raws, some bytes =>
        if raws.length ≠ ps.length then .diff tag "raw-count" else
        -- (1) each parameter reports what the typed model says (GREASE draws are inputs, checked for shape)
        let okEach := (ps.zip raws).all fun (p, r) => match p with
          | .inl tp => tp.raw = .ok r
          | .inr (id, v, len) =>
            (if isGreaseId id then r.id = id else isGreaseId r.id && r.id < 4611686018427387904) &&
            (match v with | some v => r.value = v | none => r.value.length = len)
        if ¬ okEach then .diff tag "typed-parameter-id/value" else
        -- (2) Marshal = model on the reported list; (3) monitor: the bytes parse back to the list
        if parseTPs bytes ≠ some raws then .propFail tag "marshal-parses-back-to-list"
        else if marshalTPs raws ≠ .ok bytes then .diff tag s!"marshal={resBytes (marshalTPs raws)}"
        else
          -- (4) the extension wraps exactly these bytes
          let ext := c.output.getD "ext" "?"
          if ext = s!"ok:{hex (u16 57 ++ vec16 bytes)}" then .ok tag else .diff tag "ext-framing"
      | _, _ => .diff tag "marshal=ok"

/-- families served by this module (collected by the generated `DrvAll`). -/
def families : List (String × (Case → Verdict)) := [("varint", varint), ("varint_read", varintRead), ("tps", tps)]

end Drv.C24
