import UtlsVerif.Line
import UtlsVerif.Record
import UtlsVerif.RecordToy
/-! Driver side of C25. The model (`Record.write`, `Record.read`, `Record.sendKeyUpdate`) is run with
the size-faithful toy primitives of `RecordToy` on two connected endpoints; it must reproduce every
record length the implementation put on the wire, every read size, every error class and the final
sequence numbers. The monitors evaluate the property on the implementation's own output. -/
namespace Drv.C25
open Line Wire Keystream Record

def parseKind (s : String) : Option Kind :=
  if s = "aead-prefix" then some (.aead .pfx)
  else if s = "aead-xor" then some (.aead .xor)
  else if s = "cbc" then some .cbc
  else if s = "stream" then some .stream
  else none

/-- what cipher_suites.go / u_common.go say about a suite id: kind, MAC size, block size. -/
def suiteTable (vers id : Nat) : Option (Kind × Nat × Nat) :=
  if vers = v13 then
    (if id = 0x1301 ∨ id = 0x1302 ∨ id = 0x1303 then some (.aead .xor, 0, 0) else none)
  else if [0xc02f, 0xc02b, 0xc030, 0xc02c, 0x009c, 0x009d].contains id then some (.aead .pfx, 0, 0)
  else if [0xcca8, 0xcca9, 0xcc13, 0xcc14].contains id then some (.aead .xor, 0, 0)
  else if [0xc013, 0xc009, 0xc014, 0xc00a, 0x002f, 0x0035].contains id then some (.cbc, 20, 16)
  else if [0xc012, 0x000a].contains id then some (.cbc, 20, 8)
  else if [0xc027, 0xc023, 0x003c, 0x003d].contains id then some (.cbc, 32, 16)
  else if [0xc024, 0xc028].contains id then some (.cbc, 48, 16)
  else if [0x0005, 0xc011, 0xc007].contains id then some (.stream, 20, 0)
  else none

structure Setup where
  s : Suite
  cl : Conn
  sv : Conn
  tag : String

def colonNats (s : String) : Option (List Nat) := (s.splitOn ":").mapM String.toNat?

def mkConn (s : Suite) (dyn uconn isClient : Bool) (inSeq outSeq bytes pkts : Nat) : Conn :=
  let iv : Bytes := match s.kind with
    | .aead _ => List.replicate 12 0
    | _ => List.replicate s.blockLen 0
  { p := { s := s, dynamic := dyn, uconn := uconn, isClient := isClient },
    inn := { seq := inSeq, iv := iv }, out := { seq := outSeq, iv := iv },
    bytesSent := bytes, packetsSent := pkts }

/-- parse the parameters of a line; `Except` carries the verdict for unusable lines. -/
def setup (c : Case) : Except Verdict Setup :=
  let o := c.output
  let i := c.input
  match i.nat "vers", i.nat "suite", o.nat "gotvers", o.nat "gotsuite", (o.get "kind").bind parseKind,
        o.nat "mac", o.nat "bs", o.nat "ovh", o.nat "enl", (o.get "start").bind colonNats with
  | some vers, some suite, some gv, some gs, some kind, some mac, some bs, some ovh, some enl,
    some [cin, cout, sin, sout, cb, cp, sb, sp, _] =>
    let client := i.getD "client" "?"
    let cclass := if client = "golang" ∨ client = "custom" then client else "parrot"
    let kindS := o.getD "kind" "?"
    let tag := s!"v{vers},{kindS},{cclass}"
    if gv ≠ vers ∨ gs ≠ suite then .error (.diff tag s!"negotiated vers={vers} suite={suite}")
    else if o.getD "sym" "?" ≠ "1" then .error (.diff tag "the four half-connections disagree on cipher kind or sizes")
    else if o.nat "mur" ≠ some maxUselessRecords then .error (.diff tag s!"maxUselessRecords={maxUselessRecords}")
    else
      match suiteTable vers suite with
      | none => .error (.bad s!"suite {suite} not in the model's table")
      | some (k, m, bl) =>
        let s : Suite := { vers := vers, kind := kind, macLen := mac, blockLen := if bs = 0 then 16 else bs, tagLen := ovh }
        if k ≠ kind ∨ m ≠ mac ∨ bl ≠ bs ∨ ovh ≠ (match kind with | .aead _ => 16 | _ => 0) ∨ enl ≠ explicitNonceLen s then
          .error (.diff tag s!"suite parameters kind/mac/bs/ovh/enl differ from the model's table (enl={explicitNonceLen s})")
        else
          .ok { s := s, tag := tag,
                cl := mkConn s (i.getD "cdyn" "0" = "0") true true cin cout cb cp,
                sv := mkConn s (i.getD "sdyn" "0" = "0") false false sin sout sb sp }
  | _, _, _, _, _, _, _, _, _, _ => .error (.bad "rec: unparsable parameters")

def lensStr (rs : List Bytes) : String :=
  if rs.isEmpty then "-" else "+".intercalate (rs.map fun (r : Bytes) => toString r.length)

def errStr : Err → String
  | .alert n => s!"alert{n}"
  | .version => "version"
  | .oversized => "oversized"
  | .eof => "eof"
  | .remote _ => "remote"
  | .tooMany => "toomany"
  | .renego => "renego"
  | .hsTooLong => "hstoolong"
  | .ticketFromClient => "ticketfromclient"

/-- the two endpoints and the harness' bookkeeping. -/
structure Sim where
  cl : Conn
  sv : Conn
  sentC : Nat := 0
  sentS : Nat := 0
  rcvdC : Nat := 0   -- bytes of the server's stream the client has read
  rcvdS : Nat := 0

def maxPending : Nat := 200000

def Sim.deliver (conn : Conn) (rs : List Bytes) : Conn := { conn with raw := conn.raw ++ rs.flatten }

def simWrite (C : Crypto) (m : Sim) (side : String) (n : Nat) : Sim × String :=
  if side = "c" then
    if m.sentC - m.rcvdS + n > maxPending then (m, "x") else
    let r := write C m.cl (List.replicate n 0)
    ({ m with cl := r.2, sv := Sim.deliver m.sv r.1, sentC := m.sentC + n }, s!"wc/{n}/ok/{lensStr r.1}")
  else
    if m.sentS - m.rcvdC + n > maxPending then (m, "x") else
    let r := write C m.sv (List.replicate n 0)
    ({ m with sv := r.2, cl := Sim.deliver m.cl r.1, sentS := m.sentS + n }, s!"ws/{n}/ok/{lensStr r.1}")

def readTok (side : String) (r : ReadRes) : String :=
  let e := match r.err with | some e => errStr e | none => if r.short then "short" else "ok"
  s!"r{side}/{r.data.length}/1/{e}/{lensStr r.sent}"

def simRead (C : Crypto) (m : Sim) (side : String) (n : Nat) : Sim × String :=
  if side = "c" then
    if m.sentS - m.rcvdC = 0 ∧ n > 0 then (m, "x") else
    let r := read C m.cl n
    ({ m with cl := r.c, sv := Sim.deliver m.sv r.sent, rcvdC := m.rcvdC + r.data.length }, readTok "c" r)
  else
    if m.sentC - m.rcvdS = 0 ∧ n > 0 then (m, "x") else
    let r := read C m.sv n
    ({ m with sv := r.c, cl := Sim.deliver m.cl r.sent, rcvdS := m.rcvdS + r.data.length }, readTok "s" r)

def simKU (C : Crypto) (m : Sim) (side : String) (req : Bool) : Sim × String :=
  if side = "c" then
    let r := sendKeyUpdate C m.cl req
    ({ m with cl := r.2, sv := Sim.deliver m.sv r.1 }, s!"kc/ok/{lensStr r.1}")
  else
    let r := sendKeyUpdate C m.sv req
    ({ m with sv := r.2, cl := Sim.deliver m.cl r.1 }, s!"ks/ok/{lensStr r.1}")

/-- `VerifWriteRawRecord` (harness hook): one record of the given type and payload under the current
write keys; `bytesSent` grows, `packetsSent` does not; then `k` key changes (`VerifRekeyOut`). -/
def rawWrite (C : Crypto) (c : Conn) (typ : Nat) (payload : Bytes) (k : Nat) : List Bytes × Conn :=
  let e := encrypt C c.p.s c.out typ payload
  let out := (List.range k).foldl (fun h _ => rekey C h) e.2
  ([e.1], { c with out := out, bytesSent := c.bytesSent + e.1.length })

def ticketMsg : Bytes := [4, 0, 0, 18, 0, 0, 0, 0, 0, 0, 0, 0, 1, 0, 0, 4, 1, 2, 3, 4, 0, 0]

/-- payload and number of KeyUpdates of a coalesced-message code (decimal digits 1, 2, 3). -/
def coalesced (n : Nat) : Bytes × Nat :=
  (toString n).toList.foldl (fun (acc : Bytes × Nat) ch =>
    if ch = '1' then (acc.1 ++ keyUpdateMsg false, acc.2 + 1)
    else if ch = '2' then (acc.1 ++ keyUpdateMsg true, acc.2 + 1)
    else if ch = '3' then (acc.1 ++ ticketMsg, acc.2)
    else acc) ([], 0)

def simRaw (C : Crypto) (m : Sim) (kind side : String) (n : Nat) : Sim × String :=
  let pend := if side = "c" then m.sentC - m.rcvdS else m.sentS - m.rcvdC
  if pend > maxPending - 4000 then (m, "x") else
  let (typ, payload, k) :=
    if kind = "z" then (tApp, ([] : Bytes), 0)
    else if kind = "a" then (tAlert, [1, 90], 0)
    else let cp := coalesced n; (tHs, cp.1, cp.2)
  if side = "c" then
    let r := rawWrite C m.cl typ payload k
    ({ m with cl := r.2, sv := Sim.deliver m.sv r.1 }, s!"{kind}c/ok/{lensStr r.1}")
  else
    let r := rawWrite C m.sv typ payload k
    ({ m with sv := r.2, cl := Sim.deliver m.cl r.1 }, s!"{kind}s/ok/{lensStr r.1}")

def simOp (C : Crypto) (m : Sim) (op : String) : Option (Sim × String) :=
  match op.splitOn ":" with
  | [hd, n] =>
    match n.toNat? with
    | none => none
    | some n =>
      let side := (hd.drop 1).toString
      if hd.startsWith "w" then some (simWrite C m side n)
      else if hd.startsWith "r" then some (simRead C m side n)
      else if hd.startsWith "k" then some (simKU C m side (n = 1))
      else if hd.startsWith "z" then some (simRaw C m "z" side n)
      else if hd.startsWith "a" then some (simRaw C m "a" side n)
      else if hd.startsWith "m" then some (simRaw C m "m" side n)
      else none
  | _ => none

def simOps (C : Crypto) : Sim → List String → List String → Option (Sim × List String)
  | m, [], acc => some (m, acc.reverse)
  | m, op :: ops, acc =>
    match simOp C m op with
    | none => none
    | some (m', t) => simOps C m' ops (t :: acc)

/-- the harness' drain: read everything pending (client first), then two rounds of 1-byte flushes. -/
def drainSide (C : Crypto) (side : String) : Nat → Sim → List String → Sim × List String
  | 0, m, acc => (m, acc)
  | f + 1, m, acc =>
    let pend := if side = "c" then m.sentS - m.rcvdC else m.sentC - m.rcvdS
    if pend = 0 then (m, acc)
    else
      let (m', t) := simRead C m side 70000
      drainSide C side f m' (t :: acc)

def simDrain (C : Crypto) (m : Sim) : Sim × List String :=
  let (m1, a1) := drainSide C "c" 1000 m []
  let (m2, a2) := drainSide C "s" 1000 m1 a1
  let step := fun (st : Sim × List String) (w : String) =>
    let (ma, ta) := simWrite C st.1 w 1
    let (mb, tb) := simRead C ma (if w = "c" then "s" else "c") 1
    (mb, tb :: ta :: st.2)
  let r := ["c", "s", "c", "s"].foldl step (m2, a2)
  (r.1, r.2.reverse)

def snapshot (m : Sim) : String :=
  let keq := if m.cl.out.secret = m.sv.inn.secret ∧ m.cl.inn.secret = m.sv.out.secret then 1 else 0
  s!"{m.cl.inn.seq}:{m.cl.out.seq}:{m.sv.inn.seq}:{m.sv.out.seq}:{m.cl.bytesSent}:{m.cl.packetsSent}:{m.sv.bytesSent}:{m.sv.packetsSent}:{keq}"

def firstDiff (a b : List String) : String :=
  match (a.zip b).findIdx? (fun p => p.1 ≠ p.2) with
  | some i => s!"op#{i} model={a.getD i "?"} impl={b.getD i "?"}"
  | none => s!"length model={a.length} impl={b.length}"

/-- record-length limit on the wire for one record (`len` includes the 5-byte header). -/
def limitOK (vers len : Nat) : Bool :=
  decide (len ≥ 5) && decide (len - 5 ≤ (if vers = v13 then maxCiphertextTLS13 else maxCiphertext))

/-- all record lengths mentioned in a result token (the last `/` field of w, r, k tokens). -/
def tokLens (t : String) : List String :=
  match (t.splitOn "/").getLast? with
  | some l => if l = "-" ∨ l = "x" then [] else l.splitOn "+"
  | none => []

/-- monitors on the implementation's output of a schedule. -/
def schedMonitor (vers : Nat) (toks : List String) (o : KV) : Option String :=
  let bad := toks.find? fun t =>
    match t.splitOn "/" with
    | ["x"] => false
    | [hd, _, eq, e, _] => hd.startsWith "r" ∧ (eq ≠ "1" ∨ e ≠ "ok")
    | [hd, _, e, _] => hd.startsWith "w" ∧ e ≠ "ok"
    | [_, e, _] => e ≠ "ok"
    | _ => true
  match bad with
  | some t => some s!"stream-integrity:{t}"
  | none =>
    let lens := toks.flatMap tokLens
    match lens.find? (fun l => match l.toNat? with | some n => !limitOK vers n | none => true) with
    | some l => some s!"record-limits:{l}"
    | none =>
      match (o.get "tot").bind colonNats, (o.get "end").bind colonNats with
      | some [sc, rs, ss, rc], some [cin, cout, sin, sout, _, _, _, _, keq] =>
        if sc ≠ rs ∨ ss ≠ rc then some s!"stream-integrity:not-everything-arrived tot={o.getD "tot" "?"}"
        else if cout ≠ sin ∨ sout ≠ cin ∨ keq ≠ 1 then some s!"seq-lockstep:end={o.getD "end" "?"}"
        else none
      | _, _ => some "unparsable-end"

/-! The stream-integrity monitor speaks about peers that stay within the record layer's
non-advancing-record rule (`maxUselessRecords`, conn.go `retryReadRecord` / `handlePostHandshakeMessage`):
a non-empty application-data record resets the reader's counter, a handshake record sets it to the
number of post-handshake messages it carries, an empty application-data record or a warning alert
adds one; above `maxUselessRecords` the reader refuses the stream *by design*. The records each side
actually put on the wire are reconstructed from the implementation's own tokens; when one direction
really carried such a run, refusing it is not a stream-integrity failure (the model, which carries the
same rule, must still agree token by token). -/

def tokSide (hd : String) : String :=
  match hd.toList with
  | _ :: c :: _ => String.singleton c
  | _ => ""

/-- effect of the records mentioned by one token on the counter of the direction they travel in. -/
def tokEffects (op : Option String) (t : String) : List (String × (Nat → Nat)) :=
  if t = "x" then [] else
  let hd := (t.splitOn "/").headD ""
  let side := tokSide hd
  let lens := tokLens t
  if hd.startsWith "w" then lens.map fun _ => (side, fun _ => 0)
  else if hd.startsWith "r" ∨ hd.startsWith "k" then lens.map fun _ => (side, fun _ => 1)
  else if hd.startsWith "z" ∨ hd.startsWith "a" then lens.map fun _ => (side, fun n => n + 1)
  else if hd.startsWith "m" then
    let k := match op with
      | some o => (((o.splitOn ":").getD 1 "").toList.filter fun d => d = '1' ∨ d = '2' ∨ d = '3').length
      | none => 1
    lens.map fun _ => (side, fun _ => k)
  else []

/-- the tokens up to and including the first refusal (`toomany`). -/
def upToRefusal : List String → List String
  | [] => []
  | t :: ts => if (t.splitOn "/").contains "toomany" then [t] else t :: upToRefusal ts

/-- did one direction carry more than `maxUselessRecords` consecutive non-advancing records? -/
def refusableRun (ops res drain : List String) : Bool :=
  let effs := ((ops.map some).zip res ++ drain.map fun t => (none, t)).flatMap fun (o, t) => tokEffects o t
  let step := fun (st : Nat × Nat × Bool) (e : String × (Nat → Nat)) =>
    let (c, s, hit) := st
    if e.1 = "c" then let c' := e.2 c; (c', s, hit || decide (c' > maxUselessRecords))
    else let s' := e.2 s; (c, s', hit || decide (s' > maxUselessRecords))
  (effs.foldl step (0, 0, false)).2.2

/-- the longest run of consecutive KeyUpdate operations issued by one side. -/
def longestKURun (ops : List String) : Nat :=
  let step := fun (st : String × Nat × Nat) (op : String) =>
    let hd := (op.splitOn ":").headD ""
    if hd.startsWith "k" then
      let n := if hd = st.1 then st.2.1 + 1 else 1
      (hd, n, max st.2.2 n)
    else ("", 0, st.2.2)
  (ops.foldl step ("", 0, 0)).2.2

def sched (c : Case) : Verdict :=
  let o := c.output
  if o.getD "out" "?" ≠ "ok" then .diff "harness" s!"out=ok (got {o.getD "out" "?"} {o.getD "msg" ""})" else
  match setup c with
  | .error v => v
  | .ok st =>
    let C := RecordToy.crypto st.s.macLen
    let implRes := listOf (o.getD "res" "-")
    let implDrain := listOf (o.getD "drain" "-")
    let ops := listOf (c.input.getD "ops" "-")
    let hasKU := ops.any (·.startsWith "k")
    let run := longestKURun ops
    let nIgn := (ops.filter fun o => o.startsWith "z" ∨ o.startsWith "a").length
    let hasCoal := ops.any (·.startsWith "m")
    let tag := st.tag ++ (if nIgn > maxUselessRecords then ",ignorable" else if hasCoal then ",coalesced"
      else if run > maxUselessRecords then ",kurun" else if hasKU then ",ku" else "")
    let refused := refusableRun ops implRes implDrain
    let tag := if refused then tag ++ ",refusable-run" else tag
    match (if refused then none else schedMonitor st.s.vers (implRes ++ implDrain) o) with
    | some cl => .propFail tag cl
    | none =>
      match simOps C { cl := st.cl, sv := st.sv } ops [] with
      | none => .bad "rec_sched: bad ops"
      | some (m, res) =>
        if refused then
          -- a refused stream is dead: model and implementation are compared up to and including the refusal
          let (_, dr) := simDrain C m
          let a := upToRefusal (res ++ dr)
          let b := upToRefusal (implRes ++ implDrain)
          if a ≠ b then .diff tag (firstDiff a b) else .ok tag
        else
        if res ≠ implRes then .diff tag (firstDiff res implRes)
        else
          let (m2, dr) := simDrain C m
          if dr ≠ implDrain then .diff tag ("drain " ++ firstDiff dr implDrain)
          else if snapshot m2 ≠ o.getD "end" "?" then .diff tag s!"end={snapshot m2}"
          else .ok tag

/-! ### tampering -/

def applyMut (recs : List Bytes) (mu : List String) : Option (Bytes × String × Nat) :=
  -- returns the mutated stream, the `applied` string, and the index of the touched record (or recs.length)
  let stream := fun (rs : List Bytes) => rs.flatten
  match mu with
  | ["none"] => some (stream recs, "-", recs.length)
  | kind :: idx :: a :: rest =>
    match idx.toNat?, a.toInt? with
    | some idx, some a =>
      match recs[idx]? with
      | none => some (stream recs, "-", recs.length)
      | some r =>
        let before := recs.take idx
        let after := recs.drop (idx + 1)
        if kind = "flip" then
          match rest with
          | [m] =>
            match m.toNat? with
            | some m =>
              let off : Nat := if a < 0 then (r.length - (-a).toNat) else a.toNat % r.length
              let r' := r.mapIdx fun j x => if j = off then x ^^^ UInt8.ofNat m else x
              some (stream (before ++ [r'] ++ after), s!"flip@{off}", idx)
            | none => none
          | _ => none
        else if kind = "cut" then
          let keep := a.toNat % r.length
          some (stream (before ++ [r.take keep]), s!"cut@{keep}", idx)
        else if kind = "shrink" then
          let n := min a.toNat (r.length - 5)
          let r1 := r.take (r.length - n)
          let r' := r1.take 3 ++ u16 (r1.length - 5) ++ r1.drop 5
          some (stream (before ++ [r'] ++ after), s!"shrink@{n}", idx)
        else none
    | _, _ => none
  | _ => none

/-- the reader loop of the harness: `Read(70000)` until an error; returns bytes got and the class. -/
def readAll (C : Crypto) : Nat → Conn → Nat → Nat × String
  | 0, _, got => (got, "ok")
  | f + 1, c, got =>
    let r := read C c 70000
    let got := got + r.data.length
    match r.err with
    | some e => (got, errStr e)
    | none =>
      if r.short then (got, if r.c.raw.isEmpty then "eof" else "short")
      else readAll C f r.c got

def writeAll (C : Crypto) : Conn → List Nat → List Bytes → List Nat → Conn × List Bytes × List Nat
  | c, [], acc, cnt => (c, acc, cnt)
  | c, n :: ns, acc, cnt =>
    let r := write C c (List.replicate n 0)
    writeAll C r.2 ns (acc ++ r.1) (cnt ++ [r.1.length])

def tamper (c : Case) : Verdict :=
  let o := c.output
  if o.getD "out" "?" ≠ "ok" then .diff "harness" s!"out=ok (got {o.getD "out" "?"} {o.getD "msg" ""})" else
  match setup c with
  | .error v => v
  | .ok st =>
    let C := RecordToy.crypto st.s.macLen
    let dir := c.input.getD "dir" "c"
    let (w, rd) := if dir = "c" then (st.cl, st.sv) else (st.sv, st.cl)
    match c.input.nats "ws" with
    | none => .bad "rec_tamper: bad ws"
    | some ws =>
      let mutL := (c.input.getD "mut" "none").splitOn ":"
      let mutKind := mutL.headD "none"
      let (_, recs, _) := writeAll C w ws [] []
      match applyMut recs mutL with
      | none => .bad "rec_tamper: bad mutation"
      | some (stream, applied, idx) =>
        let total := ws.foldl (· + ·) 0
        -- plaintext carried by the records before the touched one: what the reader model gets from them
        let before := if idx ≥ recs.length then total else (readAll C 300 { rd with raw := (recs.take idx).flatten } 0).1
        let tag := s!"{st.tag},{if applied = "-" then "none" else mutKind},{o.getD "rerr" "?"}"
        let got := (o.nat "got").getD 0
        let rerr := o.getD "rerr" "?"
        -- monitors that need nothing but the implementation's output
        if o.getD "prefix" "?" ≠ "1" then .propFail tag "altered-plaintext-returned"
        else if o.getD "werr" "?" ≠ "ok" then .diff tag "werr=ok"
        else if o.getD "applied" "-" ≠ "-" ∧ (rerr = "ok") then .propFail tag "no-error-after-tampering"
        else if o.getD "applied" "-" ≠ "-" ∧ mutKind ≠ "cut" ∧ rerr = "eof" then .propFail tag "tampered-record-skipped-silently"
        else if (o.getD "applied" "-").startsWith "cut@" ∧ o.getD "applied" "-" ≠ "cut@0" ∧ rerr = "eof" then
          .propFail tag "record-cut-in-the-middle-reported-as-clean-eof"
        else if o.getD "applied" "-" = "-" ∧ (got ≠ total ∨ rerr ≠ "eof") then .propFail tag s!"untampered-stream-not-delivered got={got} total={total} rerr={rerr}"
        else
          -- correspondence of the framing first: the next monitor relies on it
          let lens := ",".intercalate (recs.map fun (r : Bytes) => toString r.length)
          let implLens := o.getD "lens" "-"
          let lensOK := if mutKind = "cut" ∧ applied ≠ "-" then
              -- the proxy stops recording after the cut
              implLens = ",".intercalate ((recs.take (idx + 1)).map fun (r : Bytes) => toString r.length)
            else implLens = (if recs.isEmpty then "-" else lens)
          if !lensOK then .diff tag s!"lens={lens}"
          else if o.getD "applied" "?" ≠ applied then .diff tag s!"applied={applied}"
          -- with identical framing: nothing of the touched record (or after it) may have been returned
          else if applied ≠ "-" ∧ got > before then .propFail tag s!"plaintext-of-a-tampered-record-returned got={got} before={before}"
          else
            let (mgot, merr) := readAll C 300 { rd with raw := stream } 0
            if mgot ≠ got ∨ merr ≠ rerr then .diff tag s!"got={mgot} rerr={merr}"
            else .ok tag

def families : List (String × (Case → Verdict)) :=
  [("rec_sched", sched), ("rec_tamper", tamper)]

end Drv.C25
