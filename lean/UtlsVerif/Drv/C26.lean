import UtlsVerif.Line
import UtlsVerif.HsLock
import UtlsVerif.WrClose
/-! Driver side of C26: the discipline predicate on the re-extracted skeleton (`c26_shape`) and
the `caller_outcome` monitor on recorded concurrent histories (`c26_conc`, `c26_race`). -/
namespace Drv.C26
open HsLock Line

/-! ### c26_shape -/

def parseMu (s : String) : Option Mu :=
  if s = "hs" then some .hs else if s = "in" then some .inn else none

def parseStmt (s : String) : Option Stmt :=
  match s.splitOn ":" with
  | ["checkDone"] => some .checkDone
  | ["deferCancel"] => some .deferCancel
  | ["deferJoin"] => some .deferJoin
  | ["deferSignal"] => some .deferSignal
  | ["spawnIntr"] => some .spawnIntr
  | ["checkErr"] => some .checkErr
  | ["build"] => some .build
  | ["body"] => some .body
  | ["touchErr"] => some .touchErr
  | ["setDone"] => some .setDone
  | ["retErr"] => some .retErr
  | ["retUnk"] => some .retUnk
  | ["lock", m] => (parseMu m).map .lock
  | ["unlock", m] => (parseMu m).map .unlock
  | ["deferUnlock", m] => (parseMu m).map .deferUnlock
  | _ => none

/-- `kind@line` -/
def parseTok (s : String) : Option (Stmt × Nat) :=
  match s.splitOn "@" with
  | [k, l] => do
    let st ← parseStmt k
    let n ← l.toNat?
    pure (st, n)
  | _ => none

def firstFailure (p : List Stmt) : Option (Nat × String) :=
  match diagnoseFrom true p {} 0 with
  | some (i, s, why) => some (i, s!"{why}/path=fallthrough[0..{i})+{stmtName s}@{i}/caller=cancellable")
  | none =>
    match diagnoseFrom false p {} 0 with
    | some (i, s, why) => some (i, s!"{why}/path=fallthrough[0..{i})+{stmtName s}@{i}/caller=background")
    | none => none

def parseW (s : String) : Option WrClose.WStmt :=
  match s with
  | "reg" => some .reg | "dec" => some .dec | "deferDec" => some .deferDec | "handshake" => some .handshake
  | "lockOut" => some .lockOut | "unlockOut" => some .unlockOut | "deferUnlockOut" => some .deferUnlockOut
  | "write" => some .write | "condRet" => some .condRet | "ret" => some .ret
  | _ => none

def parseC (s : String) : Option WrClose.CStmt :=
  match s with
  | "cas" => some .cas | "inflightRawClose" => some .inflightRawClose | "closeNotify" => some .closeNotify
  | "rawClose" => some .rawClose | "ret" => some .ret
  | _ => none

def parseAt {α : Type} (f : String → Option α) (s : String) : Option (α × Nat) :=
  match s.splitOn "@" with
  | [k, l] => do
    let st ← f k
    let n ← l.toNat?
    pure (st, n)
  | _ => none

/-- generic verdict for a skeleton: discipline holds, or the first failure with its source line -/
def shapeVerdict {α : Type} (fn : String) (toks : List (α × Nat)) (ok : List α → Bool)
    (diag : List α → Option (Nat × String)) (file : String) : Verdict :=
  let p := toks.map (·.1)
  let tag := s!"{fn},stmts={p.length}"
  if ok p then .ok tag
  else
    match diag p with
    | some (i, why) =>
      let line := ((toks.drop i).head?.map (·.2)).getD 0
      .propFail tag s!"{why}/{file}:{line}"
    | none => .propFail tag "discipline-predicate-false"

def shape (c : Case) : Verdict :=
  let fn := c.input.getD "fn" "handshakeContext"
  match c.output.get "err" with
  | some e => .propFail s!"{fn},unrecognised" s!"shape_unrecognised:{e}"
  | none =>
    let toks := listOf (c.output.getD "prog" "-")
    if fn = "Write" then
      match toks.mapM (parseAt parseW) with
      | none => .bad "c26_shape: unparsable Write skeleton"
      | some ts => shapeVerdict fn ts WrClose.wdisc (fun p => WrClose.diagW p {} 0) "u_conn.go"
    else if fn = "Close" then
      match toks.mapM (parseAt parseC) with
      | none => .bad "c26_shape: unparsable Close skeleton"
      | some ts => shapeVerdict fn ts WrClose.cdisc (fun p => WrClose.diagC p {} 0) "conn.go"
    else
      match toks.mapM parseTok with
      | none => .bad "c26_shape: unparsable skeleton"
      | some ts => shapeVerdict fn ts disc firstFailure "u_conn.go"

/-! ### blocked writer + Close (c26_wclose) -/

def wclose (c : Case) : Verdict :=
  let op := c.input.getD "op" "close"
  let tag0 := s!"op={op},{if c.input.getD "wdl" "-1" = "-1" then "nodeadline" else "deadline"}"
  match c.output.get "out" with
  | some "timeout" => .propFail s!"{tag0},hang" "hang/case-deadline"
  | some o => if o.startsWith "panic" then .propFail s!"{tag0},panic" s!"panic/{c.output.getD "msg" "-"}" else .bad s!"c26: {o}"
  | none =>
    let hs := c.output.getD "hs" "?"
    let cr := c.output.getD "c" "?"
    let wr := c.output.getD "w" "?"
    let tag := s!"{tag0},stalled={c.output.getD "stalled" "?"}"
    if hs ≠ "ok" then .diff tag "hs=ok"
    else if cr = "hang" then .propFail tag s!"close_blocked_behind_in_flight_write/{op}-did-not-return-while-a-Write-was-blocked-in-the-transport"
    else if cr.startsWith "panic" then .propFail tag s!"panic/{cr}"
    else if wr = "hang" then .propFail tag "write_not_released/Write-still-blocked-after-Close-returned"
    else if wr.startsWith "panic" then .propFail tag s!"panic/{wr}"
    else .ok tag

/-! ### histories -/

inductive Res where
  | nil
  | ctx (kind : String)
  | err (ident : Nat) (cls : String)
  | panic (msg : String)
  deriving BEq, Repr

def parseRes (s : String) : Option Res :=
  if s = "nil" then some .nil else
  match s.splitOn ":" with
  | "ctx" :: rest => some (.ctx (":".intercalate rest))
  | "panic" :: rest => some (.panic (":".intercalate rest))
  | e :: rest =>
    match e.toList with
    | 'e' :: ds => (String.ofList ds).toNat?.map fun n => .err n (":".intercalate rest)
    | _ => none
  | [] => none

def Res.isCtx : Res → Bool
  | .ctx _ => true
  | _ => false

def Res.isNil : Res → Bool
  | .nil => true
  | _ => false

def cancellableKind (k : String) : Bool := k = "cancel" ∨ k = "deadline" ∨ k = "pre"

/-- the `caller_outcome` predicate on one recorded history; `none` = holds, `some clause` = violated -/
def violation (srv : String) (kinds : List String) (rs : List Res) (ccl : List String) (cs : List String)
    (complete : Bool) (post : String) : Option String :=
  let idx := List.range rs.length
  let shared := rs.filter (!·.isCtx)
  match idx.findSome? (fun i => match rs.getD i .nil with | .panic m => some s!"panic/caller={i}/{m}" | _ => none) with
  | some cl => some cl
  | none =>
  -- a caller that returned its context's error: the context was cancelled and the connection is closed
  match idx.find? (fun i => (rs.getD i .nil).isCtx && ccl.getD i "0" != "1") with
  | some i => some s!"ctx_error_without_close/caller={i}"
  | none =>
  match idx.find? (fun i => (rs.getD i .nil).isCtx && !cancellableKind (kinds.getD i "")) with
  | some i => some s!"ctx_error_of_uncancelled_context/caller={i}"
  | none =>
  -- nil exactly when complete
  match idx.find? (fun i => (rs.getD i .nil).isNil && !((cs.getD i "").splitOn ":").contains "true") with
  | some i => some s!"nil_without_complete/caller={i}"
  | none =>
  if shared.any (·.isNil) && !complete then some "nil_without_complete/final"
  else if shared.any (·.isNil) && !shared.all (·.isNil) then some "outcome_disagreement/nil-and-error"
  else if complete && !shared.all (·.isNil) then some "error_but_complete"
  else
    -- all callers that returned the shared outcome returned the same one
    let errs := shared.filterMap fun r => match r with | .err i c => some (i, c) | _ => none
    let sameClass := match errs with | [] => true | (_, c0) :: rest => rest.all (·.2 == c0)
    let sameIdent := match errs with | [] => true | (i0, _) :: rest => rest.all (·.1 == i0)
    if !sameClass then some "outcome_disagreement/different-errors"
    else if srv != "buildfail" && !sameIdent then some "outcome_disagreement/different-error-values"
    else
      -- callers that returned nil see the same connection state
      let nilCs := idx.filterMap fun i => if (rs.getD i .nil).isNil then some (cs.getD i "") else none
      let csAgree := match nilCs with | [] => true | c0 :: rest => rest.all (· == c0)
      if !csAgree then some "connection_state_disagreement"
      else if post.startsWith "fail" then some s!"cancel_after_return/{post}"
      else none

def outcomeClass (rs : List Res) : String :=
  let shared := rs.filter (!·.isCtx)
  let anyCtx := rs.any (·.isCtx)
  let base := if shared.isEmpty then "none" else if shared.all (·.isNil) then "nil" else "err"
  if anyCtx then s!"ctx+{base}" else s!"all{base}"

def hist (c : Case) : Verdict :=
  let srv := c.input.getD "srv" "?"
  let kinds := listOf (c.input.getD "ctx" "-")
  let quiet := kinds.all (fun k => k = "bg" ∨ k = "live") ∧ c.input.getD "cl" "-1" = "-1"
  let tag0 := s!"k={kinds.length},srv={srv},{if quiet then "quiet" else "noisy"}"
  match c.output.get "out" with
  | some "timeout" => .propFail s!"{tag0},hang" "hang/case-deadline"
  | some o =>
    if o.startsWith "panic" then .propFail s!"{tag0},panic" s!"panic/{c.output.getD "msg" "-"}"
    else .bad s!"c26: {o}"
  | none =>
  if c.output.getD "hang" "0" = "1" then .propFail s!"{tag0},hang" "hang/call-did-not-return-within-the-io-deadline"
  else
  match (listOf (c.output.getD "r" "-")).mapM parseRes with
  | none => .bad "c26: unparsable results"
  | some rs =>
    let ccl := listOf (c.output.getD "ccl" "-")
    let cs := listOf (c.output.getD "cs" "-")
    let complete := c.output.getD "complete" "false" = "true"
    let post := c.output.getD "post" "skip"
    let tag := s!"{tag0},{outcomeClass rs}"
    if rs.length ≠ kinds.length ∨ ccl.length ≠ kinds.length ∨ cs.length ≠ kinds.length then .bad "c26: list lengths"
    else if c.output.getD "race" "0" = "1" then .propFail tag s!"data_race/{c.output.getD "rep" "-"}"
    else
    match violation srv kinds rs ccl cs complete post with
    | some cl => .propFail tag cl
    | none =>
      if ["wrr", "rdr", "clr"].any (fun k => (c.output.getD k "-").startsWith "panic") then
        .propFail tag s!"panic/{c.output.getD "wrr" "-"}/{c.output.getD "rdr" "-"}/{c.output.getD "clr" "-"}"
      else
      -- model prediction for the scenarios whose outcome is determined
      if quiet then
        let okIO := fun (k : String) => let v := c.output.getD k "-"; v = "-" ∨ v = "ok"
        if srv = "ok" ∨ srv = "slow" then
          if rs.all (·.isNil) ∧ complete ∧ c.output.getD "closes" "0" = "0" ∧ post = "ok" ∧ okIO "wrr" ∧ okIO "rdr" then .ok tag
          else .diff tag "r=all-nil complete=true closes=0 post=ok wrr/rdr=ok"
        else if srv = "fail" then
          if rs.all (fun r => r == .err 0 "ralert:handshake_failure") ∧ !complete then .ok tag
          else .diff tag "r=all-e0:ralert:handshake_failure complete=false"
        else if srv = "buildfail" then
          if rs.all (fun r => match r with | .err _ _ => true | _ => false) ∧ !complete then .ok tag
          else .diff tag "r=all-build-errors complete=false"
        else .ok tag
      else .ok tag

def families : List (String × (Case → Verdict)) :=
  [("c26_shape", shape), ("c26_conc", hist), ("c26_race", hist), ("c26_wclose", wclose)]

end Drv.C26
