import UtlsVerif.Line
import UtlsVerif.Forge
import UtlsVerif.Gen.Suites
/-! Driver side of C27: predicts `MakeConnWithCompleteHandshake`'s answer, the record-layer state
it leaves, and the record lengths of the data exchange from `Forge` over the regenerated tables;
monitors: unknown suite ⇒ nil; supported suite at a valid version ⇒ two connections whose data
arrives intact in both directions. -/
namespace Drv.C27
open Line Forge

def tableFor (weak : Bool) : List Row := if weak then Gen.Suites.weak else Gen.Suites.base

/-- the monitors' notion of "a suite utls supports" (property text: the legacy ChaCha20 code points
and, after `EnableWeakCiphers`, the weak CBC suites — `EnableWeakCiphers` only adds): the table in
force, and after `EnableWeakCiphers` also everything the start-up table holds. With the code as it
is now the second clause adds nothing (`C27.weak_extends_base`); if `EnableWeakCiphers` drops a
suite again (D21) the monitors still demand a working pair for it. -/
def supportedRow (weak : Bool) (id : Nat) : Option Row :=
  match lookup (tableFor weak) id with
  | some r => some r
  | none => if weak then lookup Gen.Suites.base id else none

def outcomeStr : Outcome → String
  | .nil => "nil"
  | .panic _ => "panic"
  | .conn _ => "conn"

def b01 (b : Bool) : String := if b then "1" else "0"

/-- what the harness can see of the constructor flag: the dynamic type of the installed cipher
matches `cipher(key, iv, true)` only (`r`), `cipher(key, iv, false)` only (`w`), both (`rw`: the
constructor ignores the flag), or it is an AEAD. -/
def flagStr (r : Row) (h : HalfSt) : String :=
  match h.cipher with
  | none => "nil"
  | some c =>
    match c.isRead with
    | none => "aead"
    | some b => if r.flagMatters then (if b then "r" else "w") else "rw"

def halfStr (r : Row) (h : HalfSt) : String :=
  s!"{h.seq}/{flagStr r h}/{b01 h.mac.isSome}/{h.version}/{b01 h.nextCipher.isSome}"

def metaStr (c : Conn) : String :=
  s!"{c.vers}/{c.suite}/{b01 c.haveVers}/{b01 c.handshakeComplete}/{b01 c.isClient}"

def connStr (r : Row) (p : String) : Outcome → String
  | .conn c => s!"{p}in={halfStr r c.inH} {p}out={halfStr r c.outH} {p}meta={metaStr c}"
  | _ => s!"{p}in=- {p}out=- {p}meta=-"

structure Msg where
  fromClient : Bool
  size : Nat

def parseMsg (s : String) : Option Msg :=
  match s.splitOn ":" with
  | ["c", n] => n.toNat?.map (⟨true, ·⟩)
  | ["s", n] => n.toNat?.map (⟨false, ·⟩)
  | _ => none

def recStr (fromClient : Bool) (rs : List Nat) : String :=
  (if fromClient then "c:" else "s:") ++ (if rs.isEmpty then "-" else "+".intercalate (rs.map toString))

/-- record length fields of every message, each end keeping its own `bytesSent`/`packetsSent`. -/
def simulate (r : Row) (v : Nat) : List Msg → WriteSt → WriteSt → Option (List String)
  | [], _, _ => some []
  | m :: ms, cs, ss =>
    match connWrite r v (if m.fromClient then cs else ss) m.size with
    | none => none
    | some (rs, st') =>
      (simulate r v ms (if m.fromClient then st' else cs) (if m.fromClient then ss else st')).map
        (recStr m.fromClient rs :: ·)

def verTag (v : Nat) : String :=
  if v == versionTLS10 then "v10" else if v == versionTLS11 then "v11" else if v == versionTLS12 then "v12" else "badver"

def kindTag : Kind → String
  | .aead => "aead" | .cbc => "cbc" | .stream => "stream" | .none => "none" | .other => "other"

def sizeTag (ms : List Msg) : String :=
  let mx := ms.foldl (fun a m => max a m.size) 0
  if mx ≥ 131072 then "boost" else if mx > 16384 then "multi" else if mx > 1100 then "grow" else "small"

def joinRecs (xs : List String) : String := if xs.isEmpty then "-" else ",".intercalate xs

def forge (c : Case) : Verdict :=
  match c.input.nat "id", c.input.nat "ver", (listOf (c.input.getD "msgs" "-")).mapM parseMsg with
  | some id, some ver, some msgs =>
    let weak := c.input.getD "weak" "0" == "1"
    let tbl := tableFor weak
    let mc := make tbl id ver true
    let ms := make tbl id ver false
    let row := lookup tbl id
    let r := row.getD default
    let implC := c.output.getD "c" "?"
    let implS := c.output.getD "s" "?"
    let implRes := c.output.getD "res" "?"
    let mrow := supportedRow weak id
    let mr := mrow.getD default
    let valid := mrow.isSome && validVersion mr ver
    let cls := if mrow.isNone then "unsupported" else if valid then "valid" else if versionKnown ver then "offlabel" else "badver"
    let tag := s!"w{b01 weak},{if mrow.isSome then kindTag mr.kind else "nosuite"},{verTag ver},{cls},{sizeTag msgs}"
    -- the harness could not run the case (timeout, crashed child, no loopback socket): not an
    -- observation of the implementation, so no monitor verdict — reported as a broken tie
    if (c.output.get "out").isSome then .diff tag s!"harness: out={c.output.getD "out" ""} {c.output.getD "msg" ""}" else
    -- monitors (property C27)
    if mrow.isNone && (implC != "nil" || implS != "nil") then
      .propFail tag s!"unknown-suite-not-nil c={implC} s={implS}"
    else if valid && (implC != "conn" || implS != "conn") then
      .propFail tag s!"supported-suite-no-connection c={implC} s={implS}"
    else if valid && implRes != "ok" then
      .propFail tag s!"data-not-intact res={implRes}"
    else
      -- correspondence: the whole observable output
      let both := match mc, ms with | .conn _, .conn _ => true | _, _ => false
      let recs := if both then (simulate r ver msgs {} {}).map joinRecs else some "-"
      match recs with
      | none => .diff tag "model: no progress in writeRecords"
      | some recs =>
        let model := s!"c={outcomeStr mc} s={outcomeStr ms} {connStr r "c" mc} {connStr r "s" ms} recs={recs} res={if both then "ok" else "skip"}"
        let impl := s!"c={implC} s={implS} cin={c.output.getD "cin" "?"} cout={c.output.getD "cout" "?"} cmeta={c.output.getD "cmeta" "?"} sin={c.output.getD "sin" "?"} sout={c.output.getD "sout" "?"} smeta={c.output.getD "smeta" "?"} recs={c.output.getD "recs" "?"} res={implRes}"
        if model == impl then .ok tag else .diff tag model
  | _, _, _ => .bad "forge: bad input"

def idsOf (c : Case) : Option (List Nat) :=
  match c.input.nat "lo", c.input.nat "n" with
  | some lo, some n => some ((List.range n).map (lo + ·))
  | _, _ => c.input.nats "ids"

def forgeNil (c : Case) : Verdict :=
  match idsOf c, c.input.nat "ver", c.output.nats "conn", c.output.nats "panic" with
  | some ids, some ver, some implConn, some implPanic =>
    let weak := c.input.getD "weak" "0" == "1"
    let isClient := c.input.getD "side" "c" == "c"
    let tbl := tableFor weak
    let outs := ids.map fun id => (id, make tbl id ver isClient)
    let mConn := (outs.filter fun p => match p.2 with | .conn _ => true | _ => false).map (·.1)
    let mPanic := (outs.filter fun p => match p.2 with | .panic _ => true | _ => false).map (·.1)
    let inTable := ids.filter fun id => (supportedRow weak id).isSome
    let tag := s!"w{b01 weak},{verTag ver},{if isClient then "client" else "server"},{if ids.length ≥ 256 then "block" else "sample"},{if inTable.isEmpty then "nohit" else "hit"}"
    -- monitors
    match (implConn ++ implPanic).find? fun id => (supportedRow weak id).isNone with
    | some id => .propFail tag s!"unknown-suite-not-nil id={id}"
    | none =>
      match ids.find? fun id => (match supportedRow weak id with | some r => validVersion r ver | none => false) && !implConn.contains id with
      | some id => .propFail tag s!"supported-suite-no-connection id={id}"
      | none =>
        if implConn == mConn && implPanic == mPanic then .ok tag
        else .diff tag s!"conn={natsStr mConn} panic={natsStr mPanic}"
  | _, _, _, _ =>
    if (c.output.get "out").isSome then .diff "harness" s!"harness: out={c.output.getD "out" ""} {c.output.getD "msg" ""}"
    else .bad "forge_nil: bad input"

/-- a real client handshake against a forged server end: ties `Side.client`/`Side.server` to the
key block of a real handshake. No property monitor (the property is about two forged ends). -/
def forgeReal (c : Case) : Verdict :=
  match c.input.nat "id", c.input.nat "ver", (listOf (c.input.getD "msgs" "-")).mapM parseMsg with
  | some id, some ver, some msgs =>
    let hs := c.output.getD "hs" "?"
    let row := lookup Gen.Suites.base id
    let r := row.getD default
    if (c.output.get "out").isSome then .ok s!"harness-{c.output.getD "out" ""}"
    else if hs != "ok" then .ok s!"nohs,{if row.isSome then kindTag r.kind else "nosuite"},{verTag ver}"
    else
      let tag := s!"hs,{if row.isSome then kindTag r.kind else "nosuite"},{verTag ver},{sizeTag msgs}"
      let ms := make Gen.Suites.base id ver false
      let both := match ms with | .conn _ => true | _ => false
      let cbytes := (c.output.nat "cbytes").getD 0
      -- a cipher that carries state across records is out of step with the real peer: the first
      -- record that is read fails its MAC, and the exchange stops there
      let firstData := msgs.findIdx? (·.size > 0)
      let stale := both && carriesState r ver && firstData.isSome
      let sent := if stale then msgs.take (firstData.getD 0 + 1) else msgs
      let recs := if both then (simulate r ver sent { bytesSent := cbytes } {}).map joinRecs else some "-"
      match recs with
      | none => .diff tag "model: no progress in writeRecords"
      | some recs =>
        let res := if !both then "skip" else if stale then s!"fail:{firstData.getD 0}:read:err:local_error:_tls:_bad_record_MAC" else "ok"
        let tag := if stale then tag ++ ",stale" else tag
        let model := s!"s={outcomeStr ms} recs={recs} res={res}"
        let impl := s!"s={c.output.getD "s" "?"} recs={c.output.getD "recs" "?"} res={c.output.getD "res" "?"}"
        if model == impl then .ok tag else .diff tag model
  | _, _, _ => .bad "forge_real: bad input"

/-- records of one message (`c:21+37` → 2). -/
def recCount (s : String) : Nat :=
  match s.splitOn ":" with
  | [_, "-"] => 0
  | [_, rs] => (rs.splitOn "+").length
  | _ => 0

/-- a forged pair whose reader polls with read deadlines while every message's first two records
arrive in two pieces with a deadline expiring in between (`cut`: inside the header, right after it,
inside the body, before the last byte). Model: timeouts and chunking are transparent
(`C27.poll_transparent`), so the outcome and the record lengths are those of `forge`.
Monitors: as for `forge` — data intact in both directions, no error other than the timeouts the
reader asked for. -/
def forgePoll (c : Case) : Verdict :=
  match c.input.nat "id", c.input.nat "ver", (listOf (c.input.getD "msgs" "-")).mapM parseMsg with
  | some id, some ver, some msgs =>
    let weak := c.input.getD "weak" "0" == "1"
    let tbl := tableFor weak
    let mc := make tbl id ver true
    let ms := make tbl id ver false
    let r := (lookup tbl id).getD default
    let mrow := supportedRow weak id
    let mr := mrow.getD default
    let implC := c.output.getD "c" "?"
    let implS := c.output.getD "s" "?"
    let implRes := c.output.getD "res" "?"
    let valid := mrow.isSome && validVersion mr ver
    let tag := s!"w{b01 weak},{if mrow.isSome then kindTag mr.kind else "nosuite"},{verTag ver},{if valid then "valid" else if mrow.isNone then "unsupported" else "offlabel"},cut={c.input.getD "cut" "?"}"
    if (c.output.get "out").isSome then .diff tag s!"harness: out={c.output.getD "out" ""} {c.output.getD "msg" ""}" else
    if mrow.isNone && (implC != "nil" || implS != "nil") then
      .propFail tag s!"unknown-suite-not-nil c={implC} s={implS}"
    else if valid && (implC != "conn" || implS != "conn") then
      .propFail tag s!"supported-suite-no-connection c={implC} s={implS}"
    else if valid && implRes != "ok" then
      .propFail tag s!"data-not-intact-under-deadline-polling res={implRes}"
    else
      let both := match mc, ms with | .conn _, .conn _ => true | _, _ => false
      let recs := if both then simulate r ver msgs {} {} else some []
      match recs with
      | none => .diff tag "model: no progress in writeRecords"
      | some recs =>
        let splits := (recs.map fun s => min 2 (recCount s)).foldl (· + ·) 0
        let model := s!"c={outcomeStr mc} s={outcomeStr ms} recs={if both then joinRecs recs else "-"} splits={splits} res={if both then "ok" else "skip"}"
        let impl := s!"c={implC} s={implS} recs={c.output.getD "recs" "?"} splits={c.output.getD "splits" "?"} res={implRes}"
        if model == impl then .ok tag else .diff tag model
  | _, _, _ => .bad "forge_poll: bad input"

def families : List (String × (Case → Verdict)) :=
  [("forge", forge), ("forge_nil", forgeNil), ("forge_real", forgeReal), ("forge_poll", forgePoll)]

end Drv.C27
