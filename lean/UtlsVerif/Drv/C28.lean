import UtlsVerif.Line
import UtlsVerif.Record
import UtlsVerif.RecordToy
import UtlsVerif.Drv.C25
/-! Driver side of C28. The keystream of the inner AEAD is an oracle: the bytes `GetOutKeystream`
returned on the real connection. With it the model (`Keystream.getOutKeystream`, then `Record.write`
over `Record.withPrim`) predicts the result length, the error for non-AEAD ciphers, every record
length of the following write, and the first record byte for byte up to where the keystream ends
(header, explicit nonce = sequence number, `plaintext ⊕ keystream`). The monitors check the XOR
identity, purity and the peer's acceptance on the implementation's output. -/
namespace Drv.C28
open Line Wire Keystream Record

def zeros (n : Nat) : Bytes := List.replicate n 0

/-- one further (GetOutKeystream(n), write) round on the same connection, as reported by the harness:
`klen/kerr/seqBefore/seqAfter/recLen/nrec/peer/ks80/p80/rec101`. Returns a verdict-like pair
(isPropFail, message) or none when the round is fine. -/
def checkRound (st : Drv.C25.Setup) (isAead : Bool) (n : Nat) (item : String) : Option (Bool × String) :=
  match item.splitOn "/" with
  | [klenS, kerr, sq0S, sq1S, rlS, _, peer, ksH, pH, recH] =>
    match klenS.toNat?, sq0S.toNat?, sq1S.toNat?, rlS.toNat?, unhex ksH, unhex pH, unhex recH with
    | some klen, some sq0, some sq1, some rl, some ksB, some p, some rec =>
      let enl := explicitNonceLen st.s
      let v13b : Bool := decide (st.s.vers = v13)
      if sq0 ≠ sq1 then some (true, s!"keystream_pure:round-state-changed seq {sq0}->{sq1}")
      else if peer ≠ "1" then some (true, "keystream_pure:round-peer-did-not-read")
      else if !isAead then
        if kerr ≠ "err" ∨ klen ≠ 0 then some (false, "round kerr=err") else none
      else if kerr ≠ "ok" then some (true, "keystream_prefix:round-error-on-an-AEAD-suite")
      else
        let inner := rl - 5 - enl - 16
        let frag := if v13b then inner - 1 else inner
        let ct := rec.drop (5 + enl)
        let k := min (min n frag) (min ksB.length (min p.length ct.length))
        if xorBytes (ksB.take k) (p.take k) ≠ ct.take k then
          some (true, s!"keystream_tracks_seq:xor-identity-of-a-later-record n={n} seq={sq0} k={k}")
        else if v13b ∧ n > frag ∧ frag < ksB.length ∧ frag < ct.length ∧
            xorBytes ((ksB.drop frag).take 1) [23] ≠ (ct.drop frag).take 1 then
          some (true, s!"keystream_tracks_seq:inner-type-byte-of-a-later-record seq={sq0}")
        else if klen ≠ n + 16 then some (false, s!"round klen={n + 16}")
        else
          -- the model's record for this sequence number, with the returned bytes as keystream oracle
          let P : Prim := { ks := fun _ _ m => (ksB ++ zeros m).take m, tag := fun _ _ _ _ => zeros 16 }
          let C := withPrim P (RecordToy.crypto st.s.macLen)
          let h : Half := { st.cl.out with seq := sq0 }
          let m := (encrypt C st.s h tApp (p.take k)).1
          if (m.drop 5).take (enl + k) ≠ (rec.drop 5).take (enl + k) then
            some (false, s!"round record body differs (explicit nonce / ciphertext) at seq={sq0}")
          else none
    | _, _, _, _, _, _, _ => some (false, "unparsable round")
  | _ => some (false, "unparsable round")

def checkRounds (st : Drv.C25.Setup) (isAead : Bool) : List Nat → List String → Option (Bool × String)
  | n :: ns, it :: its =>
    match checkRound st isAead n it with
    | some r => some r
    | none => checkRounds st isAead ns its
  | [], [] => none
  | _, _ => some (false, "number of rounds differs")

def ks (c : Case) : Verdict :=
  let o := c.output
  let i := c.input
  if o.getD "out" "?" ≠ "ok" then .diff "harness" s!"out=ok (got {o.getD "out" "?"} {o.getD "msg" ""})" else
  -- reuse the C25 parameter parsing; it needs a `start` field
  let c' : Case := { c with output := ("start", s!"0:{o.getD "seq0" "0"}:0:0:{o.getD "bytes" "0"}:{o.getD "pkts" "0"}:0:0:1") :: o }
  match Drv.C25.setup c' with
  | .error v => v
  | .ok st =>
    match i.nat "len", i.nat "plen", o.nat "seq0", o.nat "seq1", o.nat "seq2", o.nat "klen", o.bytes "ks", o.bytes "p", o.bytes "rec" with
    | some len, some plen, some seq0, some seq1, some seq2, some klen, some ksB, some p, some rec =>
      let isAead : Bool := match st.s.kind with | .aead _ => true | _ => false
      let enl := explicitNonceLen st.s
      let v13b : Bool := decide (st.s.vers = v13)
      let inner := rec.length - 5 - enl - 16          -- bytes encrypted in the first record (AEAD)
      let frag := if v13b then inner - 1 else inner   -- plaintext bytes of the write in the first record
      let lenClass := if len = 0 then "len0" else if len ≤ frag then "le-frag" else "gt-frag"
      let pos := if seq0 ≤ 2 then "pos0-2" else if seq0 ≤ 10 then "pos3-10" else "pos11+"
      let roundNs := (listOf (i.getD "rounds" "-")).filterMap fun r => ((r.splitOn ":").headD "").toNat?
      let roundTag := if roundNs.isEmpty then "" else if roundNs.contains len then ",same" else ",other"
      let tag := s!"v{st.s.vers},{o.getD "kind" "?"},{if isAead then lenClass else "na"},{pos}{if i.getD "ku" "0" ≠ "0" then ",ku" else ""}{roundTag}"
      let roundRes := checkRounds st isAead roundNs (listOf (o.getD "rres" "-"))
      let implLens := tokLensStr (o.getD "lens" "-")
      -- ---- monitors on the implementation's output
      if o.getD "same" "?" ≠ "1" ∨ seq1 ≠ seq0 then .propFail tag s!"keystream_pure:state-changed seq0={seq0} seq1={seq1}"
      else if o.getD "peer" "?" ≠ "1" then .propFail tag "keystream_pure:peer-did-not-read-the-next-write"
      else if o.getD "echo" "?" ≠ "1" ∨ o.getD "again" "?" ≠ "1" then .propFail tag "keystream_pure:connection-unusable-afterwards"
      else if seq2 ≠ seq0 + implLens.length + (o.nat "againn").getD 0 then .propFail tag s!"keystream_pure:sequence-does-not-continue seq2={seq2}"
      else if isAead ∧ o.getD "kerr" "?" ≠ "ok" then .propFail tag "keystream_prefix:error-on-an-AEAD-suite"
      else
        let ct := rec.drop (5 + enl)
        let k := min len frag
        if isAead ∧ xorBytes (ksB.take k) (p.take k) ≠ ct.take k then
          .propFail tag s!"keystream_prefix:xor-identity k={k}"
        else if isAead ∧ v13b ∧ len > frag ∧ (xorBytes ((ksB.drop frag).take 1) [23]) ≠ (ct.drop frag).take 1 then
          .propFail tag "keystream_prefix:inner-type-byte"
        else if (match roundRes with | some (true, _) => true | _ => false) then
          .propFail tag (match roundRes with | some (_, m) => m | none => "")
        else if roundRes.isSome then .diff tag (match roundRes with | some (_, m) => m | none => "")
        else
          -- ---- correspondence with the model
          let P : Prim := { ks := fun _ _ m => (ksB.take len ++ zeros m).take m, tag := fun _ _ _ _ => (ksB.drop len).take 16 }
          let out0 := outView st.s st.cl.out
          let (res, out1) := getOutKeystream P out0 len
          match res with
          | none =>
            if o.getD "kerr" "?" ≠ "err" ∨ klen ≠ 0 then .diff tag "kerr=err klen=0"
            else if isAead then .diff tag "model refuses an AEAD cipher"
            else
              -- record lengths of the write through the size model
              let C := RecordToy.crypto st.s.macLen
              let w := write C st.cl (zeros plen)
              if w.1.map (·.length) ≠ implLens then .diff tag s!"lens={Drv.C25.lensStr w.1}" else .ok tag
          | some kb =>
            if o.getD "kerr" "?" ≠ "ok" then .diff tag "kerr=ok"
            else if kb.length ≠ klen then .diff tag s!"klen={kb.length}"
            else if kb ≠ ksB then .diff tag "ks differs from seal(zeros)"
            else if out1.seq ≠ seq1 then .diff tag s!"seq1={out1.seq}"
            else
              let C := withPrim P (RecordToy.crypto st.s.macLen)
              let w := write C st.cl p
              if w.1.map (·.length) ≠ implLens then .diff tag s!"lens={Drv.C25.lensStr w.1}"
              else
                let first := w.1.headD []
                let n := 5 + enl + min len inner
                if first.take n ≠ rec.take n then .diff tag s!"first record differs within its first {n} bytes: model={hex (first.take (min n 40))}"
                else .ok tag
    | _, _, _, _, _, _, _, _, _ => .bad "ks: unparsable output"
where
  tokLensStr (s : String) : List Nat :=
    if s = "-" then [] else (s.splitOn "+").filterMap String.toNat?

def families : List (String × (Case → Verdict)) := [("ks", ks)]

end Drv.C28
