import UtlsVerif.Line
import UtlsVerif.Roller
/-! Driver side of C29: the real `Roller.Dial` against a fingerprint-filtering server.

`roller`: the model (`Roller.dial` over id tokens) predicts, Dial by Dial, the order of ClientHellos the
server saw, the result and `WorkingHelloID` from (ids, tapped prng stream, working id so far, injected dial
failure, the per-attempt handshake outcomes the *server* observed). The monitor evaluates the property's
clauses on the implementation's own output. `roller_conc`: concurrent callers; per-call clauses against the
set of ids that were ever recorded (the shuffle of concurrent calls is not predicted). -/
namespace Drv.C29
open Line Roller

def randKinds : List String := ["Randomized-0", "Randomized-ALPN-0", "Randomized-NoALPN-0"]

structure Tok where
  base : String
  seed : Option String
  weights : Option String

def parseTok (s : String) : Tok :=
  match s.splitOn "~" with
  | b :: rest =>
    ⟨b, (rest.find? (·.startsWith "s")).map (fun p => (p.drop 1).toString),
        (rest.find? (·.startsWith "w")).map (fun p => (p.drop 1).toString)⟩
  | [] => ⟨s, none, none⟩

/-- fingerprint class of an id token (what the server can recognise). -/
def classOf (nh : List String) (tok : String) : String :=
  if nh.contains tok then "nohello" else
  let t := parseTok tok
  match t.seed with
  | some s => t.base ++ "~s" ++ s
  | none => if randKinds.contains t.base then "rand" else t.base

/-- `generateRandomizedSpec` fills a nil `Seed` (fresh pointer: next number) and nil `Weights` (`&DefaultWeights`)
of the connection's own id; all other ids are left alone. -/
def mutate (fresh : Nat) (tok : String) : String × Nat :=
  let t := parseTok tok
  if randKinds.contains t.base then
    let (s, f) := match t.seed with
      | some s => (s, fresh)
      | none => (toString (fresh + 1), fresh + 1)
    (t.base ++ "~s" ++ s ++ "~w" ++ t.weights.getD "D", f)
  else (tok, fresh)

structure Att where
  cls : String
  outcome : String
  sni : String

def parseAtts (s : String) : Option (List Att) :=
  if s = "." then some [] else
  (s.splitOn "+").mapM fun a =>
    match a.splitOn ":" with
    | [c, o, n] => some ⟨c, o, n⟩
    | _ => none

structure Rec where
  atts : List Att
  res : String
  work : String
  sni : String
  skip : Bool

def parseRec (s : String) : Option Rec :=
  match s.splitOn "/" with
  | [a, r, w, n] =>
    if a = "skip" then some ⟨[], r, w, n, true⟩ else
    (parseAtts a).map fun atts => ⟨atts, r, w, n, false⟩
  | _ => none

structure Policy where
  all : Bool
  acc : List String

def parsePolicy (s : String) : Policy :=
  let s := if s.startsWith "a:" then (s.drop 2).toString else s
  if s = "*" then ⟨true, []⟩ else if s = "0" ∨ s = "" then ⟨false, []⟩ else ⟨false, s.splitOn "+"⟩

def Policy.accepts (p : Policy) (c : String) : Bool := p.all || p.acc.contains c

/-- injected dial failure: `(kind, k)`. -/
def parseInj (s : String) : Option (String × Nat) :=
  match s.splitOn ":" with
  | [k, n] => if k = "x" ∨ k = "b" then n.toNat?.map fun n => (k, n) else none
  | _ => none

def optTok (s : String) : Option String := if s = "nil" ∨ s = "" then none else some s
def tokStr : Option String → String
  | none => "nil"
  | some s => s

def resKind (r : String) : String := (r.splitOn ":").headD r

/-- property clauses on the implementation's output of one Dial. `wBefore` is the working id the previous
Dial left (as reported by the implementation). -/
def monitor (ids nh : List String) (wBefore : Option String) (name : String)
    (r : Rec) : Option String :=
  let cls := classOf nh
  -- SNI is the given server name on every attempt and on the returned connection
  if r.atts.any (fun a => a.sni ≠ "=") then some "sni-is-not-the-given-server-name" else
  if r.res.startsWith "ok:" ∧ r.sni ≠ name then some "sni-is-not-the-given-server-name" else
  -- the recorded working id is tried first
  if (match wBefore, r.atts with
      | some w, a :: _ => a.cls != cls w
      | _, _ => false) then some "working-id-not-tried-first" else
  -- every id at most once; only configured ids and the working id
  let extra (c : String) : Nat := match wBefore with
    | some w => if cls w = c ∧ ¬ ids.contains w then 1 else 0
    | none => 0
  if r.atts.any (fun a => (r.atts.filter (·.cls = a.cls)).length > (ids.filter (cls · = a.cls)).length + extra a.cls)
  then some "id-tried-more-often-than-configured" else
  -- first success returned and recorded
  let oks := r.atts.map (fun a => a.outcome == "ok")
  if r.res.startsWith "ok+err:" then some "connection-returned-together-with-an-error" else
  if r.res.startsWith "ok:" then
    let tok := (r.res.drop 3).toString
    match r.atts.getLast? with
    | none => some "connection-without-an-attempt"
    | some last =>
      if last.outcome ≠ "ok" ∨ (oks.dropLast.any id) then some "returned-connection-is-not-the-first-successful-handshake"
      else if r.work ≠ tok then some "successful-id-not-recorded-as-working"
      else if (if last.cls = "rand" then ¬ randKinds.contains (parseTok tok).base else cls tok ≠ last.cls)
        then some "returned-id-is-not-the-one-that-succeeded"
      else none
  else
    if oks.any id then some "successful-handshake-not-returned"
    else if r.work ≠ tokStr wBefore then some "working-id-changed-without-a-success"
    else none

/-- a TCP dial error ends the call: the dial of attempt `k` was made to fail, so no ClientHello of attempt `k`
or later may ever be seen, whatever the result is. -/
def monitorDial (inj : Option (String × Nat)) (r : Rec) : Option String :=
  match inj with
  | some (_, k) => if r.atts.length > k then some "attempt-after-failed-tcp-dial" else none
  | none => none

structure St where
  stream : List Nat
  working : Option String
  fresh : Nat

structure Acc where
  st : St
  diffs : List String
  fails : List String
  kinds : List String
  flags : List String
  exhausted : Bool

def renderOut (nh : List String) (o : Out String) (name : String) : String × String × String × String :=
  let atts := o.attempts.map (classOf nh)
  let (res, sni) := match o.result with
    | .conn _ _ r => ("ok:" ++ r, name)
    | .dialErr _ => ("dialerr", ".")
    | .exhausted 0 => ("nil", ".")
    | .exhausted _ => ("hserr", ".")
  (if atts.isEmpty then "." else "+".intercalate atts, res, tokStr o.working, sni)

def stepDial (ids nh : List String) (i : Nat) (spec : String) (r : Rec) (acc : Acc) : Acc :=
  if acc.exhausted then acc else
  let name := s!"d{i}.verif.test"
  let parts := spec.splitOn "/"
  let pol := parsePolicy (parts.headD "a:0")
  let inj := (parts.getD 1 "n") |> parseInj
  if r.skip then
    let w := optTok r.work
    { acc with flags := "skip" :: acc.flags,
               diffs := if w = acc.st.working then acc.diffs else s!"d{i}:work-changed-on-skip" :: acc.diffs }
  else
  let wBefore := acc.st.working
  -- monitors on the implementation's output
  let fails := match monitorDial inj r with
    | some c => s!"d{i}:{c}" :: acc.fails
    | none => match monitor ids nh wBefore name r with
      | some c => s!"d{i}:{c}" :: acc.fails
      | none => acc.fails
  -- harness self-consistency: the server's decisions follow the policy
  let polBad := r.atts.any fun a =>
    (a.outcome = "ok" ∧ ¬ pol.accepts a.cls) ∨ (a.outcome = "rej" ∧ pol.accepts a.cls) ∨ a.outcome = "timeout"
  -- the model
  let dialO : Nat → Bool := match inj with
    | some (_, k) => fun j => decide (j < k)
    | none => fun _ => true
  let hs : Nat → String → Option String := fun j a =>
    match r.atts[j]? with
    | some att => if att.outcome = "ok" then some (mutate acc.st.fresh a).1 else none
    | none => none
  match dial ids acc.st.stream wBefore dialO hs with
  | none => { acc with exhausted := true }
  | some (o, rest) =>
    let fresh' := match o.result with
      | .conn _ a _ => (mutate acc.st.fresh a).2
      | _ => acc.st.fresh
    let (pa, pr, pw, ps) := renderOut nh o name
    let oa := if r.atts.isEmpty then "." else "+".intercalate (r.atts.map (·.cls))
    let d1 := if polBad then [s!"d{i}:server-decision-differs-from-policy"] else []
    let d2 := if (pa, pr, pw, ps) ≠ (oa, r.res, r.work, r.sni) then [s!"d{i}={pa}/{pr}/{pw}/{ps}"] else []
    let flags :=
      (match wBefore with
        | none => ["w0"]
        | some w => if ids.contains w then ["win"] else ["wout"]) ++
      (match inj with | some (k, _) => [k] | none => []) ++
      (match o.result with | .conn _ a r => if a ≠ r then ["mut"] else [] | _ => []) ++
      (if r.atts.any (·.outcome = "fail") then ["hsfail"] else []) ++
      (if r.atts.any (·.cls = "nohello") then ["nh"] else [])
    -- the next Dial starts from what the implementation reports (so one difference is reported once)
    { st := ⟨rest, optTok r.work, fresh'⟩, diffs := d2 ++ d1 ++ acc.diffs, fails := fails,
      kinds := resKind r.res :: acc.kinds, flags := flags ++ acc.flags, exhausted := false }

def zipIdx {α β : Type} : Nat → List α → List β → List (Nat × α × β)
  | _, [], _ => []
  | _, _, [] => []
  | i, a :: as, b :: bs => (i, a, b) :: zipIdx (i + 1) as bs

def sortDedup (xs : List String) : List String :=
  (xs.eraseDups.toArray.qsort (· < ·)).toList

def roller (c : Case) : Verdict :=
  let ids := listOf (c.input.getD "ids" "-")
  let nh := listOf (c.output.getD "nh" "-")
  let specs := listOf (c.input.getD "dials" "-")
  match c.output.nats "draws", (listOf (c.output.getD "d" "-")).mapM parseRec with
  | some draws, some recs =>
    if recs.length ≠ specs.length then .bad "roller: record count" else
    let init : Acc := ⟨⟨draws, optTok (c.input.getD "w0" "nil"), 0⟩, [], [], [], [], false⟩
    let acc := (zipIdx 0 specs recs).foldl (fun acc (i, s, r) => stepDial ids nh i s r acc) init
    let dup := ids.eraseDups.length ≠ ids.length
    let flags := sortDedup (acc.flags ++ (if dup then ["dup"] else []) ++
      (if ids.any (classOf nh · = "rand") then ["rand"] else []) ++ (if specs.length > 1 then ["multi"] else []))
    let tag := s!"n={min ids.length 6},{"+".intercalate (sortDedup acc.kinds)},{"+".intercalate flags}"
    if ¬ acc.fails.isEmpty then .propFail tag (";".intercalate acc.fails.reverse)
    else if acc.exhausted then .ok (tag ++ ",log-exhausted")
    else if ¬ acc.diffs.isEmpty then .diff tag (",".intercalate acc.diffs.reverse)
    else .ok tag
  | _, _ => .bad "roller: bad line"

/-! ### concurrent callers -/

structure CRec where
  atts : List Att
  res : String
  s : Nat
  e : Nat
  thread : Nat

def parseCRec (t : Nat) (s : String) : Option CRec :=
  match s.splitOn "/" with
  | [a, r, se] =>
    match parseAtts a, se.splitOn ":" with
    | some atts, [s, e] => do
      let s ← s.toNat?
      let e ← e.toNat?
      pure ⟨atts, r, s, e, t⟩
    | _, _ => none
  | _ => none

/-- class in the concurrent family: a seed drawn by uTLS during the case (numeric label) may not yet be known
to the server when the next hello arrives, so those classes collapse to "rand". -/
def classC (tok : String) : String :=
  let t := parseTok tok
  if randKinds.contains t.base then
    match t.seed with
    | some s => if s.toNat?.isSome then "rand" else t.base ++ "~s" ++ s
    | none => "rand"
  else t.base

def obsClassC (c : String) : String :=
  match c.splitOn "~s" with
  | [b, s] => if randKinds.contains b ∧ s.toNat?.isSome then "rand" else c
  | _ => c

def monitorC (ids : List String) (w0 : Option String) (recorded : List String) (r : CRec) : Option String :=
  let atts := r.atts.map fun a => ({ a with cls := obsClassC a.cls } : Att)
  let ws : List String := (match w0 with | some w => [w] | none => []) ++ recorded
  if atts.any (fun a => a.sni ≠ "=") ∨ r.res.startsWith "badsni" then some "sni-is-not-the-given-server-name" else
  -- with an initial working id the shared value is never nil: the first attempt is some recorded id
  if (match w0, atts with
      | some _, a :: _ => !(ws.any (fun w => classC w == a.cls))
      | _, _ => false) then some "first-attempt-is-not-a-recorded-working-id" else
  let extra (c : String) : Nat := if ws.any (fun w => classC w = c ∧ ¬ ids.contains w) then 1 else 0
  if atts.any (fun a => (atts.filter (·.cls = a.cls)).length > (ids.filter (classC · = a.cls)).length + extra a.cls)
  then some "id-tried-more-often-than-configured" else
  let oks := atts.map (fun a => a.outcome == "ok")
  if r.res.startsWith "ok:" then
    match atts.getLast? with
    | none => some "connection-without-an-attempt"
    | some last =>
      if last.outcome ≠ "ok" ∨ (oks.dropLast.any id) then some "returned-connection-is-not-the-first-successful-handshake"
      else if classC ((r.res.drop 3).toString) ≠ last.cls then some "returned-id-is-not-the-one-that-succeeded"
      else none
  else if oks.any id then some "successful-handshake-not-returned"
  else none

def rollerConc (c : Case) : Verdict :=
  let ids := listOf (c.input.getD "ids" "-")
  let w0 := optTok (c.input.getD "w0" "nil")
  let rs := c.output.getD "r" "-"
  if rs = "skip" then .ok "skip" else
  let threads := listOf rs
  let parsed := (zipIdx 0 threads threads).mapM fun (t, th, _) => (th.splitOn "|").mapM (parseCRec t)
  match parsed with
  | none => .bad "roller_conc: bad line"
  | some perThread =>
    let calls := perThread.flatten
    let recorded := calls.filterMap fun r => if r.res.startsWith "ok:" then some (r.res.drop 3).toString else none
    let overlap := calls.any fun a => calls.any fun b => a.thread ≠ b.thread ∧ a.s < b.s ∧ b.s < a.e
    let kinds := sortDedup (calls.map (resKind ·.res))
    let tag := s!"threads={threads.length},{if overlap then "overlap" else "sequential"},{"+".intercalate kinds}"
    let work := c.output.getD "work" "nil"
    match calls.findSome? (monitorC ids w0 recorded) with
    | some cl => .propFail tag cl
    | none =>
      if c.output.getD "stray" "0" ≠ "0" then .propFail tag "sni-is-not-the-given-server-name"
      else if (if recorded.isEmpty then work ≠ tokStr w0 else ¬ recorded.contains work) then
        .propFail tag "final-working-id-was-never-recorded"
      else if calls.any (fun r => resKind r.res ≠ "ok" ∧ resKind r.res ≠ "hserr" ∧ resKind r.res ≠ "nil") then
        .diff tag "unexpected-result-kind"
      else if calls.any (fun r => ¬ r.res.startsWith "ok:" ∧
          (r.atts.length < ids.length ∨ r.atts.length > ids.length + 1)) then
        .diff tag "failed-call-did-not-try-every-id"
      else .ok tag

def families : List (String × (Case → Verdict)) := [("roller", roller), ("roller_conc", rollerConc)]

end Drv.C29
