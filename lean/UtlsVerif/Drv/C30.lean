import UtlsVerif.Line
import UtlsVerif.Prng
namespace Drv.C30
open Prng Line

def two63f : Float := Float.ofNat 9223372036854775807   -- float64(math.MaxInt64), rounds to 2^63

/-- `FlipWeightedCoin` with IEEE doubles, for the driver only (theorems use `coinAbs`). -/
def coinFloat (w : Float) (v : Nat) : Bool :=
  let w := if w > 1.0 then 1.0 else w
  let f := Float.ofNat v / two63f
  f > 1.0 - w

def runOp (op : String) (s : Stream) : Option (String × Stream) :=
  match op.splitOn ":" with
  | ["I", n] => do
    let n ← n.toInt?
    -- Go `int` is 64-bit here; Intn(int(n)) with n already in range
    let (v, r) ← intn n s
    pure (toString v, r)
  | ["J", n] => do
    let n ← n.toInt?
    let (v, r) ← pInt63n n s
    pure (toString v, r)
  | ["R", a, b] => do
    let a ← a.toInt?
    let b ← b.toInt?
    let (v, r) ← range a b s
    pure (toString v, r)
  | ["C", bits] => do
    let bits ← bits.toNat?
    let (v, r) ← int63 s
    pure (if coinFloat (Float.ofBits (UInt64.ofNat bits)) v then "t" else "f", r)
  | ["P", n] => do
    let n ← n.toNat?
    let (p, r) ← perm n s
    pure ("[" ++ ";".intercalate (p.map toString) ++ "]", r)
  | ["U"] => do
    let (v, r) ← uint64 s
    pure (toString v, r)
  | _ => none

def runOps : List String → Stream → Option (List String)
  | [], _ => some []
  | op :: ops, s => do
    let (o, r) ← runOp op s
    let rest ← runOps ops r
    pure (o :: rest)

/-- the property's range clauses evaluated on the implementation's own result. -/
def rangeOk (op : String) (res : String) : Bool :=
  match op.splitOn ":" with
  | ["I", n] | ["J", n] =>
    match n.toInt?, res.toInt? with
    | some n, some v => if n ≤ 0 then v == 0 else 0 ≤ v && v < n
    | _, _ => false
  | ["R", a, b] =>
    match a.toInt?, b.toInt?, res.toInt? with
    | some a, some b, some v =>
      let lo := if a < 0 then 0 else a
      if b < lo then v == lo else lo ≤ v && v ≤ b
    | _, _, _ => false
  | ["P", n] =>
    match n.toNat? with
    | some n =>
      let body := (res.drop 1).toString.dropEnd 1 |>.toString
      let xs := (if body = "" then [] else body.splitOn ";").filterMap String.toNat?
      xs.length == n && (List.range n).all (fun i => xs.contains i)
    | none => false
  | _ => true

def saltBytes (tok : String) : List UInt8 :=
  if tok.startsWith "s:" then (unhex (tok.drop 2).toString).getD [] else []

def prng (c : Case) : Verdict :=
  let ops := listOf (c.input.getD "ops" "-")
  let res := listOf (c.output.getD "res" "-")
  match c.output.nats "draws" with
  | none => .bad "prng: no draws"
  | some draws =>
    let kinds := ops.map fun o => (o.take 1).toString
    let salt := c.input.getD "salt" "-"
    let salt2 := c.input.getD "salt2" "-"
    let a := saltBytes salt
    let b2 := saltBytes salt2
    -- salts are byte strings; the class records the length range and how the second salt relates
    let saltClass := if salt = "-" then "plain"
      else if a.length ≤ 32 then "salted" else "salted-long"
    -- the model's prediction: same HMAC key block (salts equal up to trailing NULs) ⇒ same seed
    let sameBlock := a.length ≤ hmacBlock ∧ b2.length ≤ hmacBlock ∧ saltKey id a = saltKey id b2
    let rel := if salt = "-" then "" else if salt2 = salt then ",same-salt"
      else if sameBlock then ",nul-padded-salt"
      else if a.take 32 = b2.take 32 ∧ a.length > 32 then ",shared-prefix32"
      else ",other-salt"
    let tag := s!"{saltClass}{rel},{"".intercalate kinds.eraseDups}"
    let s2eq := c.output.getD "s2eq" "na"
    if c.output.getD "again" "?" ≠ "true" then .propFail tag "same-seed-different-stream"
    else if salt ≠ "-" ∧ salt2 = salt ∧ s2eq ≠ "true" then .propFail tag "same-seed-and-salt-different-stream"
    else if salt ≠ "-" ∧ salt2 ≠ salt ∧ s2eq ≠ "false" then .propFail tag "salted-seed-equals-other-salt"
    else if salt ≠ "-" ∧ salt2 ≠ salt ∧ sameBlock then .diff tag "s2eq=true (same HMAC key block)"
    else if c.output.getD "kdf" "?" ≠ "true" then .diff tag "stream-is-not-SHAKE256(HKDF-SHA3-256(seed,salt))"
    else if res.length ≠ ops.length then .diff tag "result-count"
    else if ¬ (ops.zip res).all (fun (o, r) => rangeOk o r) then .propFail tag "helper-result-out-of-range"
    else match runOps ops draws with
      | none => .ok (tag ++ ",log-exhausted")
      | some model => if model = res then .ok tag else .diff tag s!"res={",".intercalate model}"

def prngConc (c : Case) : Verdict :=
  let heavy := (c.input.nat "threads").getD 0 ≥ 16
  let tag := s!"threads={if heavy then "many" else "few"},kinds={c.input.getD "kinds" "UR"}"
  if c.output.nat "mismatches" = some 0 ∧ c.output.get "got" = c.output.get "want" ∧ (c.output.get "got").isSome then .ok tag
  else .propFail tag "concurrent-draws-are-not-a-partition-of-the-stream"

def prngRace (c : Case) : Verdict :=
  match c.output.getD "race" "?" with
  | "none" => if c.output.nat "mismatches" = some 0 then .ok "race-detector=clean"
              else .propFail "race-detector=clean" "concurrent-draws-are-not-a-partition-of-the-stream"
  | "detected" => .propFail "race-detector=report" "data-race-between-concurrent-calls-on-one-prng"
  | "unavailable" => .ok "race-detector=unavailable"
  | _ => .bad "prng_race: no result"

/-- families served by this module (collected by the generated `DrvAll`). -/
def families : List (String × (Case → Verdict)) := [("prng", prng), ("prng_conc", prngConc), ("prng_race", prngRace)]

end Drv.C30
