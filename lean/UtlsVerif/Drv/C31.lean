import UtlsVerif.Line
import UtlsVerif.Dict
import UtlsVerif.Convert
import UtlsVerif.CH
import UtlsVerif.CHEdit
import UtlsVerif.Gen.FieldMaps
/-! Driver side of C31 (public views of handshake messages convert losslessly).

* `conv_rt` — a reflection-filled value through a real converter and back: the regenerated copy maps
  (`Gen.FieldMaps`) must predict every copied leaf of both conversions (tie); every leaf that has a
  counterpart in either direction must come back unchanged (monitor).
* `ch_rt` — ClientHello bytes through `UnmarshalClientHello`, `Marshal`, clear `Raw`, `Marshal`,
  `UnmarshalClientHello`: the `CH` model must predict accept/reject, every public field of both parses
  and the re-marshalled bytes (tie); `Marshal ∘ Unmarshal = id` and "same field values after the
  re-parse" are checked on the implementation's own outputs (monitor). -/
namespace Drv.C31
open Line Wire

/-! ### records `path~value;path~value` -/

def parseRec (s : String) : Option (List (String × String)) :=
  if s = "nil" then none
  else (s.splitOn ";").mapM fun t =>
    match t.splitOn "~" with
    | [k, v] => some (k, v)
    | _ => none

def recGet (r : List (String × String)) (k : String) : Option String := (r.find? (·.1 == k)).map (·.2)

/-- path of a packed leaf name, looked up among the paths present on the line. -/
def pathOf (paths : List String) (packed : Nat) : String :=
  (paths.find? (fun p => Dict.packStr p == packed)).getD s!"#{packed}"

def convRt (c : Case) : Verdict :=
  let pair := c.input.getD "pair" "?"
  let dir := c.input.getD "dir" "?"
  match Gen.FieldMaps.named.find? (·.1 == pair), (c.output.get "src").bind parseRec,
        (c.output.get "mid").bind parseRec, (c.output.get "back").bind parseRec with
  | some (_, toPriv, toPub), some src, some mid, some back =>
    let (a, b) := if dir = "pub" then (toPriv, toPub) else (toPub, toPriv)
    let sp := src.map (·.1)
    let mp := mid.map (·.1)
    let pct := c.input.getD "pct" "?"
    let tag := s!"{pair},{dir},pct={pct}"
    -- monitor: every source leaf with a counterpart (in either direction) comes back unchanged
    let leaves := (Convert.counterpartLeaves a b).eraseDups
    let lost := leaves.filter fun f =>
      let p := pathOf sp f
      recGet back p ≠ recGet src p
    match lost with
    | f :: _ =>
      let p := pathOf sp f
      .propFail tag s!"field-not-preserved pair={pair} dir={dir}->back field={p} sent={(recGet src p).getD "?"} got={(recGet back p).getD "absent"}"
    | [] =>
      -- tie: the regenerated copy maps predict both conversions leaf by leaf
      let bad1 := a.filter fun (s, d) => recGet mid (pathOf mp d) ≠ recGet src (pathOf sp s)
      let bad2 := b.filter fun (s, d) => recGet back (pathOf sp d) ≠ recGet mid (pathOf mp s)
      match bad1, bad2 with
      | (s, d) :: _, _ => .diff tag s!"forward map says {pathOf sp s} -> {pathOf mp d} is a copy; implementation differs"
      | _, (s, d) :: _ => .diff tag s!"backward map says {pathOf mp s} -> {pathOf sp d} is a copy; implementation differs"
      | [], [] => .ok tag
  | none, _, _, _ => .diff "unknown-pair" s!"pair {pair} is not in Gen.FieldMaps"
  | _, _, _, _ => .bad "conv_rt: bad line"

/-! ### ch_rt -/

def hexs (x : Bytes) : String := String.ofList (x.flatMap fun y => [hexDigit (y.toNat / 16), hexDigit (y.toNat % 16)])
def rB (x : Bytes) : String := if x.isEmpty then "-" else "b:" ++ hexs x
def rS (x : Bytes) : String := "s:" ++ hexs x
def rL (xs : List String) : String := if xs.isEmpty then "-" else "l:" ++ "/".intercalate xs
def rN (xs : List Nat) : String := rL (xs.map toString)
def rBool (x : Bool) : String := if x then "1" else "0"
def rE (xs : List String) : String := "e:" ++ "|".intercalate xs

/-- the public view of a parsed hello, leaf by leaf, in the harness' rendering. -/
def renderMsg (m : CH.Msg) : List (String × String) :=
  [("Vers", toString m.vers), ("Random", rB m.random), ("SessionId", rB m.sessionId),
   ("CipherSuites", rN m.cipherSuites), ("CompressionMethods", rB m.compressionMethods),
   ("NextProtoNeg", "0"), ("ServerName", rS m.serverName), ("OcspStapling", rBool m.ocspStapling),
   ("Scts", rBool m.scts), ("Ems", rBool m.extendedMasterSecret), ("SupportedCurves", rN m.supportedCurves),
   ("SupportedPoints", rB m.supportedPoints), ("TicketSupported", rBool m.ticketSupported),
   ("SessionTicket", rB m.sessionTicket), ("SupportedSignatureAlgorithms", rN m.sigAlgs),
   ("SecureRenegotiation", rB m.secureRenegotiation),
   ("SecureRenegotiationSupported", rBool m.secureRenegotiationSupported),
   ("AlpnProtocols", rL (m.alpnProtocols.map rS)), ("SupportedSignatureAlgorithmsCert", rN m.sigAlgsCert),
   ("SupportedVersions", rN m.supportedVersions), ("Cookie", rB m.cookie),
   ("KeyShares[].Group", rE (m.keyShares.map (toString ·.1))), ("KeyShares[].Data", rE (m.keyShares.map (rB ·.2))),
   ("EarlyData", rBool m.earlyData), ("PskModes", rB m.pskModes),
   ("PskIdentities[].Label", rE (m.pskIdentities.map (rB ·.1))),
   ("PskIdentities[].ObfuscatedTicketAge", rE (m.pskIdentities.map (toString ·.2))),
   ("PskBinders", rL (m.pskBinders.map rB)), ("QuicTransportParameters", rB (m.quicTP.getD [])),
   ("encryptedClientHello", rB m.ech)]

def firstDiff (a b : List (String × String)) : Option String :=
  match a.find? (fun p => recGet b p.1 ≠ some p.2) with
  | some p => some s!"{p.1}: {p.2} vs {(recGet b p.1).getD "absent"}"
  | none => if a.length ≠ b.length then some s!"leaf-count {a.length} vs {b.length}" else none

/-- the edit the harness applies to the view after the first conversion (harness: `applyCHEdit`). -/
def editOf : String → Option CH.Edit
  | "sni" => some (.serverName "edited.example.org".toUTF8.toList)
  | "suites" => some (.cipherSuites [0x1302, 0x1303])
  | "sid" => some (.sessionId (List.replicate 7 0x5a))
  | "alpn" => some (.alpn ["h3".toUTF8.toList, "x".toUTF8.toList])
  | "ks" => some (.keyShares [(23, [1, 2, 3, 4])])
  | "vers" => some (.vers 0x0302)
  | "versions" => some (.supportedVersions [0x0304])
  | "cookie" => some (.cookie [9, 9, 9])
  | _ => none

/-- the public leaves an edit assigns, in the harness' rendering. -/
def editLeaves : CH.Edit → List (String × String)
  | .serverName n => [("ServerName", rS n)]
  | .cipherSuites xs => [("CipherSuites", rN xs)]
  | .sessionId s => [("SessionId", rB s)]
  | .alpn ps => [("AlpnProtocols", rL (ps.map rS))]
  | .keyShares ks => [("KeyShares[].Group", rE (ks.map (toString ·.1))), ("KeyShares[].Data", rE (ks.map (rB ·.2)))]
  | .vers v => [("Vers", toString v)]
  | .supportedVersions vs => [("SupportedVersions", rN vs)]
  | .cookie c => [("Cookie", rB c)]

/-- the leaves of a view after an edit: the assigned leaves replaced, all others as they were. -/
def withEdit (f : List (String × String)) (e : CH.Edit) : List (String × String) :=
  f.map fun p => match (editLeaves e).find? (·.1 == p.1) with
    | some q => q
    | none => p

def knownIds : List Nat :=
  [CH.xSNI, CH.xStatus, CH.xCurves, CH.xPoints, CH.xSigAlgs, CH.xALPN, CH.xSCT, CH.xEMS, CH.xTicket, CH.xPSK,
   CH.xEarly, CH.xVersions, CH.xCookie, CH.xPskModes, CH.xSigAlgsCert, CH.xKeyShare, CH.xQuicTP, CH.xECH, CH.xReneg]

def chRt (c : Case) : Verdict :=
  let kind := if (c.input.get "id").isSome then "parrot" else if (c.input.get "pubseed").isSome then "lib" else "gen"
  match c.output.getD "out" "?" with
  | "nohello" => .ok s!"{kind},nohello"
  | "reject" =>
    match c.output.bytes "raw" with
    | none => .bad "ch_rt: bad raw"
    | some raw =>
      match CH.unmarshal raw with
      | none => .ok s!"{kind},reject"
      | some _ => .diff s!"{kind},reject" "model accepts"
  | "ok" =>
    match c.output.bytes "raw", (c.output.get "f1").bind parseRec with
    | some raw, some f1 =>
      let same := c.output.getD "same" "?"
      let re := c.output.getD "re" "?"
      let f2s := c.output.getD "f2" "?"
      match CH.unmarshal raw with
      | none => .diff s!"{kind},ok" "model rejects"
      | some m =>
        let nx := m.extensions.length
        let unk := m.extensions.any (fun i => !knownIds.contains i)
        let tag := s!"{kind},ok,exts={if nx = 0 then "0" else if nx < 6 then "few" else "many"},{if unk then "unknown-exts" else "known-only"}{if m.pskIdentities.isEmpty then "" else ",psk"}{if m.secureRenegotiationSupported && !m.extensions.contains CH.xReneg then ",scsv" else ""}"
        -- monitors on the implementation's own outputs
        if same ≠ "1" then .propFail tag "marshal-of-unmarshal-is-not-the-input"
        else if re.startsWith "err:" then .propFail tag s!"remarshal-after-clearing-Raw-fails {re}"
        else if f2s = "reject" then .propFail tag "remarshalled-hello-rejected-by-parser"
        else
          match parseRec f2s with
          | none => .bad "ch_rt: bad f2"
          | some f2 =>
            match firstDiff f1 f2 with
            | some d => .propFail tag s!"reparse-differs {d}"
            | none =>
            -- edit-after-unmarshal on the same view: Marshal must write the view's current public fields
            let ekind := c.output.getD "edit" "none"
            let re3 := c.output.getD "re3" "?"
            let f3s := c.output.getD "f3" "?"
            let editFail : Option String :=
              match editOf ekind with
              | none => none
              | some e =>
                if re3.startsWith "err:" then some s!"marshal-of-edited-view-fails edit={ekind} {re3}"
                else if f3s = "reject" then some s!"edited-view-marshals-to-a-rejected-hello edit={ekind}"
                else
                  match parseRec f3s with
                  | none => some "unparsable-f3"
                  | some f3 =>
                    match firstDiff (withEdit f2 e) f3 with
                    | some d => some s!"marshal-ignores-the-views-current-fields edit={ekind} expected-vs-reparsed {d}"
                    | none => none
            match editFail with
            | some msg => .propFail s!"{tag},edit={ekind}" msg
            | none =>
              -- tie: the model predicts both parses and the re-marshalled bytes
              match firstDiff (renderMsg m) f1 with
              | some d => .diff tag s!"first parse {d}"
              | none =>
                match CH.marshalMsg m, unhex re with
                | none, _ => .diff tag "model: marshalMsg fails"
                | some _, none => .bad "ch_rt: bad re"
                | some re', some reI =>
                  if re' ≠ reI then .diff tag s!"re={hex re'}"
                  else
                    match CH.unmarshal re' with
                    | none => .diff tag "model rejects the re-marshalled hello"
                    | some m2 =>
                      match firstDiff (renderMsg m2) f2 with
                      | some d => .diff tag s!"second parse {d}"
                      | none =>
                        if CH.marshal (some raw) m ≠ some raw then .diff tag "model: marshal with original"
                        else
                          -- tie for the edit step: the model predicts the bytes and the re-parse
                          match editOf ekind with
                          | none => .ok tag
                          | some e =>
                            let tagE := s!"{tag},edit={ekind}"
                            match CH.marshal none (e.apply m), unhex re3 with
                            | none, _ => .diff tagE "model: marshal of the edited view fails"
                            | some _, none => .bad "ch_rt: bad re3"
                            | some b3, some i3 =>
                              if b3 ≠ i3 then .diff tagE s!"re3={hex b3}"
                              else
                                match CH.unmarshal b3, parseRec f3s with
                                | some m3, some f3 =>
                                  match firstDiff (renderMsg m3) f3 with
                                  | some d => .diff tagE s!"third parse {d}"
                                  | none => if e.ok m then .ok tagE else .diff tagE "edit not well-formed for this view"
                                | _, _ => .diff tagE "model rejects the marshalled edited view"
    | _, _ => .bad "ch_rt: bad line"
  | o => .bad s!"ch_rt: out={o}"

def families : List (String × (Case → Verdict)) :=
  [("conv_rt", convRt), ("ch_rt", chRt)]

end Drv.C31
