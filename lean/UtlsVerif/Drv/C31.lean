import UtlsVerif.Line
import UtlsVerif.Dict
import UtlsVerif.Convert
import UtlsVerif.CH
import UtlsVerif.Gen.FieldMaps
/-! Driver side of C31 (public views of handshake messages convert losslessly).

* `conv_rt` — a reflection-filled value through a real converter and back: the regenerated copy maps
  (`Gen.FieldMaps`) must predict every copied leaf of both conversions (tie); every leaf that has a
  counterpart in either direction must come back unchanged (monitor).
* `ch_rt` — ClientHello bytes through `UnmarshalClientHello`, `Marshal`, clear `Raw`, `Marshal`,
  `UnmarshalClientHello`: the `CH` model must predict accept/reject, every public field of both parses
  and the re-marshalled bytes (tie); `Marshal ∘ Unmarshal = id` and "same field values after the
  re-parse" are checked on the implementation's own outputs (monitor). -/
namespace Drv.C31
open Line Wire

/-! ### records `path~value;path~value` -/

def parseRec (s : String) : Option (List (String × String)) :=
  if s = "nil" then none
  else (s.splitOn ";").mapM fun t =>
    match t.splitOn "~" with
    | [k, v] => some (k, v)
    | _ => none

def recGet (r : List (String × String)) (k : String) : Option String := (r.find? (·.1 == k)).map (·.2)

/-- path of a packed leaf name, looked up among the paths present on the line. -/
def pathOf (paths : List String) (packed : Nat) : String :=
  (paths.find? (fun p => Dict.packStr p == packed)).getD s!"#{packed}"

def convRt (c : Case) : Verdict :=
  let pair := c.input.getD "pair" "?"
  let dir := c.input.getD "dir" "?"
  match Gen.FieldMaps.named.find? (·.1 == pair), (c.output.get "src").bind parseRec,
        (c.output.get "mid").bind parseRec, (c.output.get "back").bind parseRec with
  | some (_, toPriv, toPub), some src, some mid, some back =>
    let (a, b) := if dir = "pub" then (toPriv, toPub) else (toPub, toPriv)
    let sp := src.map (·.1)
    let mp := mid.map (·.1)
    let pct := c.input.getD "pct" "?"
    let tag := s!"{pair},{dir},pct={pct}"
    -- monitor: every source leaf with a counterpart (in either direction) comes back unchanged
    let leaves := (Convert.counterpartLeaves a b).eraseDups
    let lost := leaves.filter fun f =>
      let p := pathOf sp f
      recGet back p ≠ recGet src p
    match lost with
    | f :: _ =>
      let p := pathOf sp f
      .propFail tag s!"field-not-preserved pair={pair} dir={dir}->back field={p} sent={(recGet src p).getD "?"} got={(recGet back p).getD "absent"}"
    | [] =>
      -- tie: the regenerated copy maps predict both conversions leaf by leaf
      let bad1 := a.filter fun (s, d) => recGet mid (pathOf mp d) ≠ recGet src (pathOf sp s)
      let bad2 := b.filter fun (s, d) => recGet back (pathOf sp d) ≠ recGet mid (pathOf mp s)
      match bad1, bad2 with
      | (s, d) :: _, _ => .diff tag s!"forward map says {pathOf sp s} -> {pathOf mp d} is a copy; implementation differs"
      | _, (s, d) :: _ => .diff tag s!"backward map says {pathOf mp s} -> {pathOf sp d} is a copy; implementation differs"
      | [], [] => .ok tag
  | none, _, _, _ => .diff "unknown-pair" s!"pair {pair} is not in Gen.FieldMaps"
  | _, _, _, _ => .bad "conv_rt: bad line"

/-! ### ch_rt -/

def hexs (x : Bytes) : String := String.ofList (x.flatMap fun y => [hexDigit (y.toNat / 16), hexDigit (y.toNat % 16)])
def rB (x : Bytes) : String := if x.isEmpty then "-" else "b:" ++ hexs x
def rS (x : Bytes) : String := "s:" ++ hexs x
def rL (xs : List String) : String := if xs.isEmpty then "-" else "l:" ++ "/".intercalate xs
def rN (xs : List Nat) : String := rL (xs.map toString)
def rBool (x : Bool) : String := if x then "1" else "0"
def rE (xs : List String) : String := "e:" ++ "|".intercalate xs

/-- the public view of a parsed hello, leaf by leaf, in the harness' rendering. -/
def renderMsg (m : CH.Msg) : List (String × String) :=
  [("Vers", toString m.vers), ("Random", rB m.random), ("SessionId", rB m.sessionId),
   ("CipherSuites", rN m.cipherSuites), ("CompressionMethods", rB m.compressionMethods),
   ("NextProtoNeg", "0"), ("ServerName", rS m.serverName), ("OcspStapling", rBool m.ocspStapling),
   ("Scts", rBool m.scts), ("Ems", rBool m.extendedMasterSecret), ("SupportedCurves", rN m.supportedCurves),
   ("SupportedPoints", rB m.supportedPoints), ("TicketSupported", rBool m.ticketSupported),
   ("SessionTicket", rB m.sessionTicket), ("SupportedSignatureAlgorithms", rN m.sigAlgs),
   ("SecureRenegotiation", rB m.secureRenegotiation),
   ("SecureRenegotiationSupported", rBool m.secureRenegotiationSupported),
   ("AlpnProtocols", rL (m.alpnProtocols.map rS)), ("SupportedSignatureAlgorithmsCert", rN m.sigAlgsCert),
   ("SupportedVersions", rN m.supportedVersions), ("Cookie", rB m.cookie),
   ("KeyShares[].Group", rE (m.keyShares.map (toString ·.1))), ("KeyShares[].Data", rE (m.keyShares.map (rB ·.2))),
   ("EarlyData", rBool m.earlyData), ("PskModes", rB m.pskModes),
   ("PskIdentities[].Label", rE (m.pskIdentities.map (rB ·.1))),
   ("PskIdentities[].ObfuscatedTicketAge", rE (m.pskIdentities.map (toString ·.2))),
   ("PskBinders", rL (m.pskBinders.map rB)), ("QuicTransportParameters", rB (m.quicTP.getD [])),
   ("encryptedClientHello", rB m.ech)]

def firstDiff (a b : List (String × String)) : Option String :=
  match a.find? (fun p => recGet b p.1 ≠ some p.2) with
  | some p => some s!"{p.1}: {p.2} vs {(recGet b p.1).getD "absent"}"
  | none => if a.length ≠ b.length then some s!"leaf-count {a.length} vs {b.length}" else none

def knownIds : List Nat :=
  [CH.xSNI, CH.xStatus, CH.xCurves, CH.xPoints, CH.xSigAlgs, CH.xALPN, CH.xSCT, CH.xEMS, CH.xTicket, CH.xPSK,
   CH.xEarly, CH.xVersions, CH.xCookie, CH.xPskModes, CH.xSigAlgsCert, CH.xKeyShare, CH.xQuicTP, CH.xECH, CH.xReneg]

def chRt (c : Case) : Verdict :=
  let kind := if (c.input.get "id").isSome then "parrot" else if (c.input.get "pubseed").isSome then "lib" else "gen"
  match c.output.getD "out" "?" with
  | "nohello" => .ok s!"{kind},nohello"
  | "reject" =>
    match c.output.bytes "raw" with
    | none => .bad "ch_rt: bad raw"
    | some raw =>
      match CH.unmarshal raw with
      | none => .ok s!"{kind},reject"
      | some _ => .diff s!"{kind},reject" "model accepts"
  | "ok" =>
    match c.output.bytes "raw", (c.output.get "f1").bind parseRec with
    | some raw, some f1 =>
      let same := c.output.getD "same" "?"
      let re := c.output.getD "re" "?"
      let f2s := c.output.getD "f2" "?"
      match CH.unmarshal raw with
      | none => .diff s!"{kind},ok" "model rejects"
      | some m =>
        let nx := m.extensions.length
        let unk := m.extensions.any (fun i => !knownIds.contains i)
        let tag := s!"{kind},ok,exts={if nx = 0 then "0" else if nx < 6 then "few" else "many"},{if unk then "unknown-exts" else "known-only"}{if m.pskIdentities.isEmpty then "" else ",psk"}{if m.secureRenegotiationSupported && !m.extensions.contains CH.xReneg then ",scsv" else ""}"
        -- monitors on the implementation's own outputs
        if same ≠ "1" then .propFail tag "marshal-of-unmarshal-is-not-the-input"
        else if re.startsWith "err:" then .propFail tag s!"remarshal-after-clearing-Raw-fails {re}"
        else if f2s = "reject" then .propFail tag "remarshalled-hello-rejected-by-parser"
        else
          match parseRec f2s with
          | none => .bad "ch_rt: bad f2"
          | some f2 =>
            match firstDiff f1 f2 with
            | some d => .propFail tag s!"reparse-differs {d}"
            | none =>
              -- tie: the model predicts both parses and the re-marshalled bytes
              match firstDiff (renderMsg m) f1 with
              | some d => .diff tag s!"first parse {d}"
              | none =>
                match CH.marshalMsg m, unhex re with
                | none, _ => .diff tag "model: marshalMsg fails"
                | some _, none => .bad "ch_rt: bad re"
                | some re', some reI =>
                  if re' ≠ reI then .diff tag s!"re={hex re'}"
                  else
                    match CH.unmarshal re' with
                    | none => .diff tag "model rejects the re-marshalled hello"
                    | some m2 =>
                      match firstDiff (renderMsg m2) f2 with
                      | some d => .diff tag s!"second parse {d}"
                      | none =>
                        if CH.marshal (some raw) m ≠ some raw then .diff tag "model: marshal with original"
                        else .ok tag
    | _, _ => .bad "ch_rt: bad line"
  | o => .bad s!"ch_rt: out={o}"

def families : List (String × (Case → Verdict)) :=
  [("conv_rt", convRt), ("ch_rt", chRt)]

end Drv.C31
