import UtlsVerif.Line
import UtlsVerif.Dict
import UtlsVerif.Json
import UtlsVerif.Gen.Dict
import UtlsVerif.JsonTables
/-! Driver side of C32 (dicttls tables, JSON ClientHello format).

* `dict_rows` — every row of every real `Dict…ValueIndexed` / `Dict…NameIndexed` map: the regenerated
  table (`Gen.Dict`) must give the same two lookups (tie), and for a value-indexed row the name must
  resolve back to the value through the real name-indexed map (monitor — this is the row-by-row
  evaluation that names the failing row when the table-backed theorem `dict_consistent` breaks).
* `json_hello` — JSON rendering of a hello: `Json.specOfJson` over `Gen.Dict` must predict what the
  real `UnmarshalJSON` produced (tie); the wire hello built from the JSON spec must equal the one
  built from the raw import modulo GREASE and per-connection material (monitor). -/
namespace Drv.C32
open Line Dict Json

def tables : Json.Tables := Json.genTables

def optNat (s : String) : Option (Option Nat) :=
  if s = "none" then some none else (s.toNat?).map some

def optName (s : String) : Option (Option Nat) :=
  if s = "none" then some none else (unhex s).map (fun b => some (packName b))

def showOpt : Option Nat → String
  | none => "none"
  | some v => toString v

def dictRows (c : Case) : Verdict :=
  match Gen.Dict.named.find? (·.1 == c.input.getD "tab" ""), c.input.nat "v", (c.input.get "name").bind unhex,
        (c.output.get "vname").bind optName, (c.output.get "back").bind optNat with
  | some (tab, vtab, ntab), some v, some nameB, some implVName, some implBack =>
    let nm := packName nameB
    let dir := c.input.getD "dir" "v"
    let tag := s!"{tab},{dir}"
    if dir = "v" then
      -- model: the regenerated tables answer the same two lookups
      let mName := lookup vtab v
      let mBack := mName.bind (lookup ntab)
      if implVName ≠ some nm then .diff tag s!"value-indexed row of the generator is not in the real map"
      else if mName ≠ implVName then .diff tag s!"vname={showOpt mName}"
      else if implBack ≠ some v then
        .propFail tag s!"value-does-not-resolve-back table={tab} value={v} name={String.ofList (nameB.map (fun b => Char.ofNat b.toNat))} NameIndexed[name]={showOpt implBack}"
      else if mBack ≠ implBack then .diff tag s!"back={showOpt mBack}"
      else .ok tag
    else
      let mBack := lookup ntab nm
      let nameS := String.ofList (nameB.map (fun b => Char.ofNat b.toNat))
      -- an alias: the real value-indexed map does not give this name back for the value
      let isAlias := implVName ≠ some nm
      let inGen := Gen.Dict.aliasesNamed.any fun a => a.1 == tab && a.2.1 == nm
      if isAlias then
        let tagA := s!"{tab},alias"
        match expectedAlias expectedAliases (packStr tab) nm with
        | some e =>
          -- monitor: an alias name must map to the code point the registry intends for it
          if implBack ≠ some e then
            .propFail tagA s!"alias-maps-to-unexpected-code-point table={tab} name={nameS} NameIndexed[name]={showOpt implBack} expected={e}"
          else if mBack ≠ implBack then .diff tagA s!"back={showOpt mBack}"
          else if !inGen then .diff tagA "alias row missing from Gen.Dict.aliases"
          else .ok tagA
        | none =>
          -- no oracle for this name: not a property failure, but the check cannot vouch for it
          .diff tagA s!"alias {nameS} -> {showOpt implBack} of table {tab} is not in Dict.expectedAliases (check the registry and add it)"
      else if mBack ≠ implBack then .diff tag s!"back={showOpt mBack}"
      else if implBack ≠ some v then .diff tag "name-indexed row of the generator is not in the real map"
      else if inGen then .diff tag "Gen.Dict.aliases lists a canonical name"
      else .ok tag
  | none, _, _, _, _ => .diff "unknown-table" s!"table {c.input.getD "tab" ""} is not in Gen.Dict"
  | _, _, _, _, _ => .bad "dict_rows: bad line"

/-! ### json_hello -/

def namesOf (s : String) (sep : String) : Option (List Nat) :=
  if s = "-" ∨ s = "" then some [] else (s.splitOn sep).mapM fun t => (unhex t).map packName

def parseJExt (s : String) : Option JExt :=
  match s.splitOn ":" with
  | [n, l] => do
    let nb ← unhex n
    let ns ← namesOf l "."
    pure ⟨packName nb, ns⟩
  | _ => none

def parseJExts (s : String) : Option (List JExt) :=
  if s = "-" then some [] else (s.splitOn ";").mapM parseJExt

def natsOf (s : String) (sep : String) : Option (List Nat) :=
  if s = "-" ∨ s = "" then some [] else (s.splitOn sep).mapM String.toNat?

def parseSExt (s : String) : Option SExt :=
  match s.splitOn ":" with
  | [i, l] => do
    let id ← i.toNat?
    let vs ← natsOf l "."
    pure ⟨id, vs⟩
  | _ => none

def parseSExts (s : String) : Option (List SExt) :=
  if s = "-" then some [] else (s.splitOn ";").mapM parseSExt

def parseShape (kv : KV) (p : String) : Option Shape := do
  let su ← natsOf (kv.getD (p ++ "suites") "-") ","
  let co ← natsOf (kv.getD (p ++ "comps") "-") ","
  let ex ← parseSExts (kv.getD (p ++ "exts") "-")
  pure ⟨su, co, ex⟩

def showShape (s : Shape) : String :=
  let e := s.exts.map fun x => s!"{x.id}:{if x.vals.isEmpty then "-" else ".".intercalate (x.vals.map toString)}"
  s!"suites={natsStr s.suites} comps={natsStr s.comps} exts={if e.isEmpty then "-" else ";".intercalate e}"

/-- first component in which two canonical wire hellos differ. -/
def firstWireDiff (a b : String) : String :=
  match a.splitOn "/", b.splitOn "/" with
  | [v1, s1, c1, e1], [v2, s2, c2, e2] =>
    if v1 ≠ v2 then s!"version:{v1}≠{v2}"
    else if s1 ≠ s2 then s!"cipher-suites:{s1}≠{s2}"
    else if c1 ≠ c2 then s!"compression:{c1}≠{c2}"
    else
      let x := e1.splitOn ";"
      let y := e2.splitOn ";"
      match (x.zip y).find? (fun p => p.1 ≠ p.2) with
      | some (p, q) => s!"extension:{p.take 60}≠{q.take 60}"
      | none => s!"extension-count:{x.length}≠{y.length}"
  | _, _ => s!"{a.take 60}≠{b.take 60}"

def sizeClass (n : Nat) : String := if n = 0 then "0" else if n < 8 then "few" else "many"

def jsonHello (c : Case) : Verdict :=
  let src := if (c.input.get "id").isSome then "parrot" else "gen"
  match c.output.getD "out" "?" with
  | "nohello" => .ok s!"{src},nohello"
  | "rawerr" => .ok s!"{src},rawerr"
  | "unrep" =>
    let why := ((c.output.getD "why" "?").splitOn ":").headD "?"
    .ok s!"{src},unrep:{why}"
  | "jsonerr" =>
    -- the raw import of the hello succeeded and the document is the hello's description in the format:
    -- a JSON import that fails here is the property failing on the implementation's own output
    let allowJ := ((c.input.getD "opts" "00").take 1).toString == "1"
    match namesOf (c.output.getD "jsuites" "-") ",", namesOf (c.output.getD "jcomps" "-") ",", parseJExts (c.output.getD "jexts" "-") with
    | some su, some co, some ex =>
      let pred := match specOfJsonOpt tables Gen.Dict.extNilIds allowJ ⟨su, co, ex⟩ with
        | none => "model-also-rejects"
        | some s => s!"model-decodes:{showShape s}"
      .propFail s!"{src},jsonerr,opts={c.input.getD "opts" "00"}" s!"json-import-fails-where-raw-import-succeeds msg={c.output.getD "msg" ""} {pred}"
    | _, _, _ => .bad "json_hello: bad skeleton"
  | "ok" =>
    match namesOf (c.output.getD "jsuites" "-") ",", namesOf (c.output.getD "jcomps" "-") ",", parseJExts (c.output.getD "jexts" "-"),
          parseShape c.output "s", parseShape c.output "r" with
    | some su, some co, some ex, some sImpl, some rImpl =>
      let hasGrease := rImpl.suites.any isGrease || rImpl.exts.any (fun e => isGrease e.id)
      let aliasMode := c.input.getD "alias" "0" == "1"
      let optS := c.input.getD "opts" "00"
      let allowJ := (optS.take 1).toString == "1"
      let hasPsk := rImpl.exts.any (fun e => e.id == 41)
      let hasGeneric := rImpl.exts.any (fun e => Gen.Dict.extNilIds.contains e.id)
      let tag := s!"{src},ok,exts={sizeClass rImpl.exts.length},{if hasGrease then "grease" else "nogrease"}{if aliasMode then ",alias" else ""}{if optS == "00" then "" else s!",opts={optS}"}{if hasPsk then ",psk" else ""}{if hasGeneric then ",generic" else ""}"
      let jw := c.output.getD "jwire" "?"
      let rw := c.output.getD "rwire" "?"
      -- monitor: the property itself, on the two wire hellos the implementation built
      if jw ≠ rw then .propFail tag s!"json-spec-hello-differs-from-raw-import-hello {firstWireDiff rw jw}"
      else
        -- tie: the model predicts what UnmarshalJSON decoded, and the model's rendering of the raw
        -- shape is the skeleton the harness rendered
        match specOfJsonOpt tables Gen.Dict.extNilIds allowJ ⟨su, co, ex⟩ with
        | none => .diff tag "model: specOfJson = none"
        | some sModel =>
          if sModel ≠ sImpl then .diff tag (showShape sModel)
          else
            -- with alias spellings (alias=1) the harness deliberately does not render the canonical names,
            -- and code points that only an alias spells (0x0202) have no canonical rendering at all
            let renderOk : Option String :=
              if aliasMode || allowJ then none
              else
                match renderJson tables rImpl with
                | none => some "model: renderJson = none (harness rendered a document)"
                | some d => if d ≠ ⟨su, co, ex⟩ then some "model: renderJson differs from the harness rendering" else none
            match renderOk with
            | some msg => .diff tag msg
            | none =>
              if sModel ≠ normShape tables rImpl then .diff tag s!"model: decoded shape is not the normalised raw shape {showShape (normShape tables rImpl)}"
              else .ok tag
    | _, _, _, _, _ => .bad "json_hello: bad line"
  | o => .bad s!"json_hello: out={o}"

def families : List (String × (Case → Verdict)) :=
  [("dict_rows", dictRows), ("json_hello", jsonHello)]

end Drv.C32
