import UtlsVerif.HostileDrv
/-! Driver side of C33 (client under hostile server input). -/
namespace Drv.C33
open Line HostileDrv

def families : List (String × (Case → Verdict)) :=
  [("hm_consts", consts), ("c33_codec", codec), ("c33_dispatch", dispatch), ("c33_decomp", decomp),
   ("c33_conn", conn), ("c33_rec", recFam), ("c33_loop", loopFam), ("c33_hrr", hrrFam)]

end Drv.C33
