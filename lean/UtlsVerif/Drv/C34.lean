import UtlsVerif.HostileDrv
/-! Driver side of C34 (server under arbitrary client input). -/
namespace Drv.C34
open Line HostileDrv

def families : List (String × (Case → Verdict)) :=
  [("c34_codec", codec), ("c34_dispatch", dispatch), ("c34_conn", c34conn), ("c34_full", c34full), ("c34_hrr2", c34hrr2)]

end Drv.C34
