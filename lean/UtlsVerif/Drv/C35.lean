import UtlsVerif.Line
import UtlsVerif.Ticket
/-! Driver side of C35. The primitives are an *oracle table* carried on the line (computed by the
harness with Go's standard library, independently of the code under test); everything else — key
derivation slices, ticket layout, key search, length guard — is the model's. -/
namespace Drv.C35
open Line Wire Ticket

/-- finite-map instance of `Crypto` from the line's oracle values. -/
def oracle (hashT : List (Bytes × Bytes)) (macT : List (Bytes × Bytes × Bytes))
    (ctrT : List (Bytes × Bytes × Bytes × Bytes)) : Crypto where
  hash := fun b => match hashT.find? (·.1 == b) with | some (_, h) => h | none => []
  mac := fun k m => match macT.find? (fun e => e.1 == k && e.2.1 == m) with | some (_, _, t) => t | none => []
  ctr := fun k iv x => match ctrT.find? (fun e => e.1 == k && e.2.1 == iv && e.2.2.1 == x) with
    | some (_, _, _, o) => o | none => x

def hexList (s : String) : Option (List Bytes) := (listOf s).mapM unhex

/-- the harness' ticket mutations, re-implemented. -/
def mutate (t : Bytes) (mu : String) : Option Bytes :=
  match mu.splitOn ":" with
  | ["none"] => some t
  | ["flip", i] => do
      let i ← i.toNat?
      if t.isEmpty then some t else
      let i := i % (t.length * 8)
      some (t.mapIdx fun j x => if j = i / 8 then x ^^^ (UInt8.ofNat (1 <<< (i % 8))) else x)
  | ["trunc", n] => do let n ← n.toNat?; some (t.take (t.length - n))
  | ["grow", n] => do let n ← n.toNat?; some (t ++ List.replicate n 0)
  | ["head", n] => do let n ← n.toNat?; some (t.drop n)
  | _ => none

def keyStr (k : TKey) : String := s!"{hex k.aes}:{hex k.hmac}"

def ticket (c : Case) : Verdict :=
  let o := c.output
  if o.getD "out" "?" ≠ "ok" then .diff "harness" s!"out=ok (got {o.getD "out" "?"})" else
  match o.bytes "sb", o.bytes "iv", o.bytes "t", (o.get "ks").bind hexList, (o.get "kd").bind hexList,
        (o.get "h").bind hexList, (o.get "hd").bind hexList, o.bytes "ct", o.bytes "tag",
        (o.get "dm").bind hexList, (o.get "dp").bind hexList with
  | some sb, some iv, some t, some ks, some kd, some h, some hd, some ct, some tag, some dm, some dp =>
    let mutS := c.input.getD "mut" "none"
    let rot := c.input.getD "rot" "same"
    match mutate t mutS with
    | none => .bad "ticket: bad mutation"
    | some t2 =>
      let hashT := ks.zip h ++ kd.zip hd
      -- keys through the model's derivation (hash oracle only)
      let C0 := oracle hashT [] []
      let keysE := (setKeys C0 ks).getD []
      let keysD := (setKeys C0 kd).getD []
      let auth2 := t2.take (t2.length - tagLen)
      let macT := (match keysE with | k :: _ => [(k.hmac, iv ++ ct, tag)] | [] => []) ++
        (keysD.zip dm).map fun (k, m) => (k.hmac, auth2, m)
      let ctrT := (match keysE with | k :: _ => [(k.aes, iv, sb, ct)] | [] => []) ++
        (keysD.zip dp).map fun (k, p) => (k.aes, t2.take ivLen, auth2.drop ivLen, p)
      let C := oracle hashT macT ctrT
      let ik := o.getD "ik" "?"
      let pk := o.getD "pk" "?"
      let dec := o.getD "dec" "?"
      let mutClass := (mutS.splitOn ":").headD "?"
      let leg := c.input.getD "leg" "0"
      let tag := s!"{c.input.getD "kind" "?"},{mutClass},{rot},{if dec = "nil" then "nil" else "state"}{if leg = "0" then "" else ",leg" ++ leg}"
      -- legacy key: derived key predicted by the model (hash oracle `lh` = seed:sha512)
      let legacyKey : Option String := match (o.getD "lh" "-").splitOn ":" with
        | [sd, hh] => match unhex sd, unhex hh with
          | some sd, some hh =>
            let Cl := oracle [(sd, hh)] [] []
            match (KeyCfg.current Cl ⟨some sd, []⟩).2 with
            | some ks => some (",".intercalate (ks.map keyStr))
            | none => none
          | _, _ => none
        | _ => none
      -- monitors on the implementation's output
      if ik ≠ pk then .propFail tag "TicketKeyFromBytes-differs-from-installed-keys"
      else if leg = "1" ∧ o.getD "ldec" "?" ≠ "nil" then .propFail tag "ticket-of-replaced-legacy-key-accepted"
      else if leg = "1" ∧ legacyKey ≠ some (o.getD "lk" "?") then .diff tag s!"lk={legacyKey.getD "none"}"
      else if t2 ≠ t ∧ dec ≠ "nil" then .propFail tag "modified-or-truncated-ticket-accepted"
      else if (rot = "dropfirst" ∨ rot = "disjoint") ∧ dec ≠ "nil" then .propFail tag "ticket-of-unconfigured-key-accepted"
      else if t2 = t ∧ (rot = "same" ∨ rot = "prepend") ∧ (dec ≠ hex sb ∨ o.getD "feq" "?" ≠ "1") then
        .propFail tag "roundtrip-state-differs"
      -- correspondence with the model
      else if ",".intercalate (keysE.map keyStr) ≠ ik then .diff tag s!"ik={",".intercalate (keysE.map keyStr)}"
      else
        match encrypt C keysE iv sb with
        | none => .diff tag "encrypt=no-keys"
        | some tm =>
          if tm ≠ t then .diff tag s!"t={hex tm}" else
          let pred := match decrypt C keysD t2 with | none => "nil" | some p => hex p
          if pred ≠ dec then .diff tag s!"dec={pred}" else .ok tag
  | _, _, _, _, _, _, _, _, _, _, _ => .bad "ticket: unparsable output"

/-! forged client sessions -/

def unhexE (s : String) : Option Bytes := if s = "e" then some [] else unhex s
def hexE (b : Bytes) : String := if b.isEmpty then "e" else hex b

def parseSetter (s : String) : Option Setter :=
  match s.splitOn ":" with
  | ["ticket", b] => (unhexE b).map .ticket
  | ["vers", v] => v.toNat?.map .vers
  | ["suite", v] => v.toNat?.map .suite
  | ["secret", b] => (unhexE b).map .secret
  | ["ems", v] => some (.ems (v = "1"))
  | ["createdAt", v] => v.toNat?.map .createdAt
  | ["useBy", v] => v.toNat?.map .useBy
  | ["ageAdd", v] => v.toNat?.map .ageAdd
  | _ => none

def forgeSet (c : Case) : Verdict :=
  match listOf (c.output.getD "ops" "-") with
  | mk :: rest =>
    match mk.splitOn ":", rest.mapM parseSetter with
    | ["make", t, v, s, m], some ops =>
      match unhexE t, v.toNat?, s.toNat?, unhexE m with
      | some t, some v, some s, some m =>
        let st := ops.foldl applySetter (makeClientSession t v s m)
        let get := s!"{hexE st.ticket}:{st.vers}:{st.suite}:{hexE st.secret}:{if st.ems then "1" else "0"}"
        let priv := s!"{st.createdAt}:{st.useBy}:{st.ageAdd}"
        let tag := s!"ops={min ops.length 3}"
        if c.output.getD "get" "?" ≠ get then .propFail tag s!"forged-state-not-verbatim model={get}"
        else if c.output.getD "priv" "?" ≠ priv then .diff tag s!"priv={priv}"
        else .ok tag
      | _, _, _, _ => .bad "forge_set: bad make"
    | _, _ => .bad "forge_set: bad ops"
  | [] => .bad "forge_set: no ops"

def forgeResume (c : Case) : Verdict :=
  let o := c.output
  let out := o.getD "out" "?"
  if out = "no-session" then .ok "nosession"
  else if out ≠ "ok" then .diff "first" s!"out=ok (got {out})"
  else
    let tamper := c.input.getD "tamper" "none"
    let resumed := o.getD "cres" "?" = "1" ∧ o.getD "sres" "?" = "1"
    let cok := o.getD "c" "?" = "ok"
    let tag := s!"{tamper},{if resumed then "resumed" else "notresumed"},{if cok then "ok" else "err"}"
    if tamper = "none" then
      if resumed ∧ cok ∧ (o.getD "got" "?" ≠ o.getD "supplied" "!" ∨ o.getD "echo" "?" ≠ "1") then
        .propFail tag "resumed-session-differs-from-supplied-version/suite"
      else if ¬ (resumed ∧ cok) then .diff tag "c=ok cres=1 sres=1"
      else .ok tag
    else
      -- a wrong master secret must never yield a working resumed session
      if cok ∧ o.getD "cres" "?" = "1" then .propFail tag "resumed-with-a-different-master-secret"
      else if cok then .diff tag "c=err"
      else .ok tag

/-- families served by this module (collected by the generated `DrvAll`). -/
def families : List (String × (Case → Verdict)) :=
  [("ticket", ticket), ("forge_set", forgeSet), ("forge_resume", forgeResume)]

end Drv.C35
