import UtlsVerif.Line
import UtlsVerif.Ticket
import UtlsVerif.SessionCodec
/-! Driver side of C35. The primitives are an *oracle table* carried on the line (computed by the
harness with Go's standard library, independently of the code under test); everything else — key
derivation slices, ticket layout, key search, length guard — is the model's. The state codec
(`SessionCodec`) is tied on every `ticket` case (`codecTie`: the model's `encode` of the reported
fields is the real `Bytes()`, the model's `decode` returns every field) and on `sess_codec` cases
(`ParseSessionState` on unmodified and mutated encodings); `ticket_cfg` replays histories over
several Configs related by `Clone` on the `KeyCfg`/`sysStep` model. -/
namespace Drv.C35
open Line Wire Ticket SessionCodec

/-- finite-map instance of `Crypto` from the line's oracle values. -/
def oracle (hashT : List (Bytes × Bytes)) (macT : List (Bytes × Bytes × Bytes))
    (ctrT : List (Bytes × Bytes × Bytes × Bytes)) : Crypto where
  hash := fun b => match hashT.find? (·.1 == b) with | some (_, h) => h | none => []
  mac := fun k m => match macT.find? (fun e => e.1 == k && e.2.1 == m) with | some (_, _, t) => t | none => []
  ctr := fun k iv x => match ctrT.find? (fun e => e.1 == k && e.2.1 == iv && e.2.2.1 == x) with
    | some (_, _, _, o) => o | none => x

def hexList (s : String) : Option (List Bytes) := (listOf s).mapM unhex

/-- the harness' ticket mutations, re-implemented. -/
def mutate (t : Bytes) (mu : String) : Option Bytes :=
  match mu.splitOn ":" with
  | ["none"] => some t
  | ["flip", i] => do
      let i ← i.toNat?
      if t.isEmpty then some t else
      let i := i % (t.length * 8)
      some (t.mapIdx fun j x => if j = i / 8 then x ^^^ (UInt8.ofNat (1 <<< (i % 8))) else x)
  | ["trunc", n] => do let n ← n.toNat?; some (t.take (t.length - n))
  | ["grow", n] => do let n ← n.toNat?; some (t ++ List.replicate n 0)
  | ["head", n] => do let n ← n.toNat?; some (t.drop n)
  | _ => none

def unhexE (s : String) : Option Bytes := if s = "e" then some [] else unhex s
def hexE (b : Bytes) : String := if b.isEmpty then "e" else hex b

/-! the SessionState fields the harness reports (`c35FieldTokens`), as a model state -/

def hexEList (s : String) : Option (List Bytes) := (listOf s).mapM unhexE

def certAt (ctab : List Bytes) (s : String) : Option Bytes := s.toNat?.bind fun i => ctab[i]?

def parseChain (ctab : List Bytes) (s : String) : Option (List Bytes) :=
  if s = "e" then some [] else (s.splitOn "+").mapM (certAt ctab)

def parseSess (o : KV) (ctab : List Bytes) : Option Sess := do
  let version ← o.nat "fv"
  let typ ← o.nat "ft"
  let suite ← o.nat "fs"
  let createdAt ← o.nat "fc"
  let secret ← (o.get "fsec").bind unhexE
  let extra ← (o.get "fx").bind hexEList
  let certs ← (listOf (o.getD "fpc" "-")).mapM (certAt ctab)
  let ocsp ← (match o.getD "foc" "?" with
    | "nil" => some none
    | x => (unhexE x).map some : Option (Option Bytes))
  let scts ← (match o.getD "fsct" "?" with
    | "nil" => some none
    | x => (hexEList x).map some : Option (Option (List Bytes)))
  let chains ← (listOf (o.getD "fvc" "-")).mapM (parseChain ctab)
  let alpn ← (o.get "fal").bind unhexE
  let useBy ← o.nat "fub"
  let ageAdd ← o.nat "faa"
  some { version, isClient := typ == 2, suite, createdAt, secret, extra, ems := o.getD "fe" "?" == "1",
         earlyData := o.getD "fd" "?" == "1", certs, ocsp, scts, chains, alpn, useBy, ageAdd }

/-- first field in which two states differ (for messages). -/
def sessDiff (a b : Sess) : String :=
  if a.version ≠ b.version then "version" else if a.isClient ≠ b.isClient then "type"
  else if a.suite ≠ b.suite then "suite" else if a.createdAt ≠ b.createdAt then "createdAt"
  else if a.secret ≠ b.secret then "secret" else if a.extra ≠ b.extra then "extra"
  else if a.ems ≠ b.ems then "ems" else if a.earlyData ≠ b.earlyData then "earlyData"
  else if a.certs ≠ b.certs then "certs" else if a.ocsp ≠ b.ocsp then "ocsp"
  else if a.scts ≠ b.scts then "scts" else if a.chains ≠ b.chains then "chains"
  else if a.alpn ≠ b.alpn then "alpn" else if a.useBy ≠ b.useBy then "useBy"
  else if a.ageAdd ≠ b.ageAdd then "ageAdd" else "none"

/-- the codec tie on one state: the model's `encode` of the reported fields is the real `Bytes()`
output, and the model's `decode` of those bytes gives every reported field back. `none` = agreement. -/
def codecTie (o : KV) (sb : Bytes) : Option String :=
  match (o.get "ctab").bind hexList with
  | none => some "ctab unparsable"
  | some ctab =>
    match parseSess o ctab with
    | none => some "fields unparsable"
    | some s =>
      let parses : Bytes → Bool := fun c => ctab.contains c
      if encode s ≠ sb then some "encode(fields)≠Bytes()"
      else match decode parses sb with
        | none => some "decode(Bytes())=none"
        | some s2 => if s2 ≠ s then some s!"decode(Bytes()) differs in {sessDiff s2 s}" else none

def keyStr (k : TKey) : String := s!"{hex k.aes}:{hex k.hmac}"

def ticket (c : Case) : Verdict :=
  let o := c.output
  if o.getD "out" "?" ≠ "ok" then .diff "harness" s!"out=ok (got {o.getD "out" "?"})" else
  match o.bytes "sb", o.bytes "iv", o.bytes "t", (o.get "ks").bind hexList, (o.get "kd").bind hexList,
        (o.get "h").bind hexList, (o.get "hd").bind hexList, o.bytes "ct", o.bytes "tag",
        (o.get "dm").bind hexList, (o.get "dp").bind hexList with
  | some sb, some iv, some t, some ks, some kd, some h, some hd, some ct, some tag, some dm, some dp =>
    let mutS := c.input.getD "mut" "none"
    let rot := c.input.getD "rot" "same"
    match mutate t mutS with
    | none => .bad "ticket: bad mutation"
    | some t2 =>
      let hashT := ks.zip h ++ kd.zip hd
      -- keys through the model's derivation (hash oracle only)
      let C0 := oracle hashT [] []
      let keysE := (setKeys C0 ks).getD []
      let keysD := (setKeys C0 kd).getD []
      let auth2 := t2.take (t2.length - tagLen)
      let macT := (match keysE with | k :: _ => [(k.hmac, iv ++ ct, tag)] | [] => []) ++
        (keysD.zip dm).map fun (k, m) => (k.hmac, auth2, m)
      let ctrT := (match keysE with | k :: _ => [(k.aes, iv, sb, ct)] | [] => []) ++
        (keysD.zip dp).map fun (k, p) => (k.aes, t2.take ivLen, auth2.drop ivLen, p)
      let C := oracle hashT macT ctrT
      let ik := o.getD "ik" "?"
      let pk := o.getD "pk" "?"
      let dec := o.getD "dec" "?"
      let mutClass := (mutS.splitOn ":").headD "?"
      let leg := c.input.getD "leg" "0"
      let tag := s!"{c.input.getD "kind" "?"},{mutClass},{rot},{if dec = "nil" then "nil" else "state"}{if leg = "0" then "" else ",leg" ++ leg}"
      -- legacy key: derived key predicted by the model (hash oracle `lh` = seed:sha512)
      let legacyKey : Option String := match (o.getD "lh" "-").splitOn ":" with
        | [sd, hh] => match unhex sd, unhex hh with
          | some sd, some hh =>
            let Cl := oracle [(sd, hh)] [] []
            match (KeyCfg.current Cl ⟨some sd, []⟩).2 with
            | some ks => some (",".intercalate (ks.map keyStr))
            | none => none
          | _, _ => none
        | _ => none
      -- monitors on the implementation's output
      if ik ≠ pk then .propFail tag "TicketKeyFromBytes-differs-from-installed-keys"
      else if leg = "1" ∧ o.getD "ldec" "?" ≠ "nil" then .propFail tag "ticket-of-replaced-legacy-key-accepted"
      else if leg = "1" ∧ legacyKey ≠ some (o.getD "lk" "?") then .diff tag s!"lk={legacyKey.getD "none"}"
      else if t2 ≠ t ∧ dec ≠ "nil" then .propFail tag "modified-or-truncated-ticket-accepted"
      else if (rot = "dropfirst" ∨ rot = "disjoint") ∧ dec ≠ "nil" then .propFail tag "ticket-of-unconfigured-key-accepted"
      else if t2 = t ∧ (rot = "same" ∨ rot = "prepend") ∧ (dec ≠ hex sb ∨ o.getD "feq" "?" ≠ "1") then
        .propFail tag "roundtrip-state-differs"
      -- correspondence with the model
      else if ",".intercalate (keysE.map keyStr) ≠ ik then .diff tag s!"ik={",".intercalate (keysE.map keyStr)}"
      else
        match encrypt C keysE iv sb with
        | none => .diff tag "encrypt=no-keys"
        | some tm =>
          if tm ≠ t then .diff tag s!"t={hex tm}" else
          let pred := match decrypt C keysD t2 with | none => "nil" | some p => hex p
          if pred ≠ dec then .diff tag s!"dec={pred}" else
          match codecTie o sb with
          | some m => .diff tag s!"codec: {m}"
          | none => .ok tag
  | _, _, _, _, _, _, _, _, _, _, _ => .bad "ticket: unparsable output"

/-! forged client sessions -/

def parseSetter (s : String) : Option Setter :=
  match s.splitOn ":" with
  | ["ticket", b] => (unhexE b).map .ticket
  | ["vers", v] => v.toNat?.map .vers
  | ["suite", v] => v.toNat?.map .suite
  | ["secret", b] => (unhexE b).map .secret
  | ["ems", v] => some (.ems (v = "1"))
  | ["createdAt", v] => v.toNat?.map .createdAt
  | ["useBy", v] => v.toNat?.map .useBy
  | ["ageAdd", v] => v.toNat?.map .ageAdd
  | _ => none

def forgeSet (c : Case) : Verdict :=
  match listOf (c.output.getD "ops" "-") with
  | mk :: rest =>
    match mk.splitOn ":", rest.mapM parseSetter with
    | ["make", t, v, s, m], some ops =>
      match unhexE t, v.toNat?, s.toNat?, unhexE m with
      | some t, some v, some s, some m =>
        let st := ops.foldl applySetter (makeClientSession t v s m)
        let get := s!"{hexE st.ticket}:{st.vers}:{st.suite}:{hexE st.secret}:{if st.ems then "1" else "0"}"
        let priv := s!"{st.createdAt}:{st.useBy}:{st.ageAdd}"
        let tag := s!"ops={min ops.length 3}"
        if c.output.getD "get" "?" ≠ get then .propFail tag s!"forged-state-not-verbatim model={get}"
        else if c.output.getD "priv" "?" ≠ priv then .diff tag s!"priv={priv}"
        else .ok tag
      | _, _, _, _ => .bad "forge_set: bad make"
    | _, _ => .bad "forge_set: bad ops"
  | [] => .bad "forge_set: no ops"

def forgeResume (c : Case) : Verdict :=
  let o := c.output
  let out := o.getD "out" "?"
  if out = "no-session" then .ok "nosession"
  else if out ≠ "ok" then .diff "first" s!"out=ok (got {out})"
  else
    let tamper := c.input.getD "tamper" "none"
    let resumed := o.getD "cres" "?" = "1" ∧ o.getD "sres" "?" = "1"
    let cok := o.getD "c" "?" = "ok"
    let tag := s!"{tamper},{if resumed then "resumed" else "notresumed"},{if cok then "ok" else "err"}"
    if tamper = "none" then
      if resumed ∧ cok ∧ (o.getD "got" "?" ≠ o.getD "supplied" "!" ∨ o.getD "echo" "?" ≠ "1") then
        .propFail tag "resumed-session-differs-from-supplied-version/suite"
      else if ¬ (resumed ∧ cok) then .diff tag "c=ok cres=1 sres=1"
      else .ok tag
    else
      -- a wrong master secret must never yield a working resumed session
      if cok ∧ o.getD "cres" "?" = "1" then .propFail tag "resumed-with-a-different-master-secret"
      else if cok then .diff tag "c=err"
      else .ok tag

/-! Config histories (`ticket_cfg`): the model is `sysStep` over `KeyCfg`s with the SHA-512 oracle. -/

structure HSt where
  cfgs : List KeyCfg
  /-- per sealed ticket: (key that really sealed it — found by the harness by MAC check —, the key the
  model says sealed it) -/
  tickets : List (String × String)
  clones : Nat := 0
  setAfterClone : Bool := false
  acc : Bool := false
  rej : Bool := false

/-- result of one step: the model's successor state and, if the step disagrees, (class, message):
class 0 = the behaviour of EncryptTicket/DecryptTicket violates the property, 1 = the observed installed
keys violate it, 2 = the model predicts something else (tie), 3 = unusable line. -/
abbrev HRes := HSt × Option (Nat × String)

def splitColon (s : String) : String × String :=
  match s.splitOn ":" with
  | [a] => (a, "")
  | a :: rest => (a, ":".intercalate rest)
  | [] => ("", "")

def histOp (C : Crypto) (nameOf : TKey → String) (seeds : List Bytes) (st : HSt) (n : Nat) (op res : String) : HRes :=
  let kind := (op.take 1).toString
  let (a1, a2) := splitColon (op.drop 1).toString
  let (r, snap) := match res.splitOn "@" with
    | [r, sn] => (r, sn)
    | _ => ("?", "?")
  match a1.toNat? with
  | none => (st, some (3, s!"op {n}: bad config index"))
  | some ci =>
    let names (ks : List TKey) : String := if ks.isEmpty then "-" else "+".intercalate (ks.map nameOf)
    let snapOf (cs : List KeyCfg) : String := "/".intercalate (cs.map fun c => names c.installed)
    -- the installed keys of every Config after the step; an earlier disagreement of the step wins
    let finish (st' : HSt) (e : Option (Nat × String)) : HRes :=
      match e with
      | some _ => (st', e)
      | none =>
        if snapOf st'.cfgs ≠ snap then
          (st', some (1, s!"op {n} ({op}): installed-keys-differ-from-TicketKeyFromBytes-of-the-keys-set-on-each-Config want={snapOf st'.cfgs} got={snap}"))
        else (st', none)
    if kind = "s" then
      match (a2.splitOn "+").mapM (fun x => x.toNat?.bind fun i => seeds[i]?) with
      | none => (st, some (3, s!"op {n}: bad seeds"))
      | some bs =>
        finish { st with cfgs := sysStep C st.cfgs (.set ci bs), setAfterClone := st.setAfterClone || st.clones > 0 } none
    else if kind = "c" then
      finish { st with cfgs := sysStep C st.cfgs (.clone ci), clones := st.clones + 1 } none
    else
      -- use / seal / open all go through c.ticketKeys(nil)
      let cfgs' := sysStep C st.cfgs (.use ci)
      let cur : Option (List TKey) := (st.cfgs[ci]?).bind fun c => (c.current C).2
      match cur with
      | none => (st, some (3, s!"op {n}: Config {ci} has automatic keys (not modelled)"))
      | some ks =>
        let ksn := ks.map nameOf
        if kind = "u" then
          finish { st with cfgs := cfgs' }
            (if r ≠ names ks then some (2, s!"op {n} ({op}): keys in use model={names ks} got={r}") else none)
        else if kind = "e" then
          let want := "t" ++ ksn.headD "?"
          finish { st with cfgs := cfgs', tickets := st.tickets ++ [((r.drop 1).toString, ksn.headD "?")] }
            (if r ≠ want then some (2, s!"op {n} ({op}): sealing key model={want} got={r}") else none)
        else if kind = "d" then
          match a2.toNat?.bind fun t => st.tickets[t]? with
          | none => (st, some (3, s!"op {n}: bad ticket index"))
          | some (actual, modelKey) =>
            let pred := if ksn.contains modelKey then "st" else "nil"
            finish { st with cfgs := cfgs', acc := st.acc || r == "st", rej := st.rej || r == "nil" }
              (if ksn.contains actual ∧ r ≠ "st" then
                some (0, s!"op {n} ({op}): roundtrip-state-differs ticket sealed under key {actual}, which this Config was given ({names ks}): result {r}")
              else if ¬ ksn.contains actual ∧ (r = "st" ∨ r = "ne") then
                some (0, s!"op {n} ({op}): ticket-of-unconfigured-key-accepted sealed with {actual}, this Config was given {names ks}")
              else if r ≠ pred then some (2, s!"op {n} ({op}): open model={pred} got={r}")
              else none)
        else (st, some (3, s!"op {n}: unknown op"))

/-- run the whole history; all disagreements are collected (the model state always follows the model). -/
def histRun (C : Crypto) (nameOf : TKey → String) (seeds : List Bytes) :
    HSt → Nat → List String → List String → List (Nat × String) → HSt × List (Nat × String)
  | st, _, [], _, es => (st, es.reverse)
  | st, n, _ :: _, [], es => (st, ((3, s!"op {n}: no result") :: es).reverse)
  | st, n, op :: ops, r :: rs, es =>
    match histOp C nameOf seeds st n op r with
    | (st', some e) => if e.1 = 3 then (st', (e :: es).reverse) else histRun C nameOf seeds st' (n + 1) ops rs (e :: es)
    | (st', none) => histRun C nameOf seeds st' (n + 1) ops rs es

def ticketCfg (c : Case) : Verdict :=
  let o := c.output
  if o.getD "out" "?" ≠ "ok" then .diff "harness" s!"out=ok (got {o.getD "out" "?"})" else
  let hs := (listOf (o.getD "h" "-")).map splitColon
  match hs.mapM (fun (a, h) => do let a ← unhex a; let h ← unhex h; pure (a, h)) with
  | none => .bad "ticket_cfg: bad hash oracle"
  | some hashT =>
    let C := oracle hashT [] []
    let seeds := hashT.map (·.1)
    let names := ["0", "1", "2", "3", "4", "5", "L"]
    let pd := listOf (o.getD "pd" "-")
    let nameOf (k : TKey) : String :=
      match (pd.zip names).find? (·.1 == keyStr k) with
      | some (_, n) => n
      | none => "?"
    -- one derivation: TicketKeyFromBytes of every seed is the model's slice of its SHA-512
    if seeds.map (fun b => keyStr (publicKeyFromBytes C b)) ≠ pd then
      .diff "derive" s!"pd={",".intercalate (seeds.map fun b => keyStr (publicKeyFromBytes C b))}"
    else
    let legacy : Option Bytes := if c.input.getD "leg" "0" = "1" then seeds[6]? else none
    let ops := listOf (c.input.getD "ops" "-")
    let res := listOf (o.getD "r" "-")
    let (st, errs) := histRun C nameOf seeds { cfgs := [⟨legacy, []⟩], tickets := [] } 0 ops res []
    let shape := if st.setAfterClone then "clone+set" else if st.clones > 0 then "clone" else "single"
    let tag := s!"{shape},{if st.acc then "acc" else ""}{if st.rej then "rej" else ""}{if legacy.isSome then ",leg" else ""}"
    -- report the most telling disagreement: unusable line, then behaviour, then observed keys, then tie
    match errs.find? (·.1 == 3), errs.find? (·.1 == 0), errs.find? (·.1 == 1), errs.find? (·.1 == 2) with
    | some (_, m), _, _, _ => .bad s!"ticket_cfg: {m}"
    | none, some (_, m), _, _ => .propFail tag m
    | none, none, some (_, m), _ => .propFail tag m
    | none, none, none, some (_, m) => .diff tag m
    | none, none, none, none => .ok tag

/-! `ParseSessionState` on encodings and mutated encodings (`sess_codec`) against the model's `decode`. -/

def sessCodec (c : Case) : Verdict :=
  let o := c.output
  if o.getD "out" "?" ≠ "ok" then .diff "harness" s!"out=ok (got {o.getD "out" "?"})" else
  match o.bytes "mb", (o.get "ctab").bind hexList with
  | some mb, some ctab =>
    let parses : Bytes → Bool := fun x => ctab.contains x
    let mutClass := ((c.input.getD "mut" "none").splitOn ":").headD "?"
    let res := o.getD "res" "?"
    let tag := s!"{c.input.getD "kind" "?"},{mutClass},{res}"
    -- the property itself on an unmodified encoding: ParseSessionState(s.Bytes()) = s, field by field
    if mutClass = "none" ∧ (res ≠ "ok" ∨ o.getD "feq" "?" ≠ "1") then .propFail tag "roundtrip-state-differs(ParseSessionState∘Bytes)"
    else
    match decode parses mb, res with
    | none, "err" => .ok tag
    | none, _ => .diff tag "decode=none"
    | some _, "err" => .diff tag "decode=some (implementation rejects)"
    | some s, _ =>
      match parseSess o ctab with
      | none => .bad "sess_codec: fields unparsable"
      | some f =>
        if s ≠ f then .diff tag s!"decode differs from ParseSessionState in {sessDiff s f}"
        -- an unmodified encoding must parse back to a state that re-encodes to the same bytes
        else if mutClass = "none" ∧ encode s ≠ mb then .propFail tag "roundtrip-state-differs(re-encoding)"
        else .ok tag
  | _, _ => .bad "sess_codec: unparsable output"

/-- families served by this module (collected by the generated `DrvAll`). -/
def families : List (String × (Case → Verdict)) :=
  [("ticket", ticket), ("forge_set", forgeSet), ("forge_resume", forgeResume),
   ("ticket_cfg", ticketCfg), ("sess_codec", sessCodec)]

end Drv.C35
