import UtlsVerif.Line
import UtlsVerif.Lru
/-! Driver side of C36. -/
namespace Drv.C36
open Lru Line

def parseOp (s : String) : Option Op :=
  match s.splitOn ":" with
  | ["P", k, v] => do
    let k ← k.toNat?
    let v ← v.toNat?
    pure (.put k (if v = 0 then none else some v))
  | ["G", k] => do
    let k ← k.toNat?
    pure (.get k)
  | _ => none

def outStr : Out → String
  | none => "put"
  | some none => "miss"
  | some (some v) => s!"hit:{v}"

def parseCap (s : String) : Option Int := s.toInt?

def lru (c : Case) : Verdict :=
  match (c.input.get "cap").bind parseCap, (listOf (c.input.getD "ops" "-")).mapM parseOp with
  | some capI, some ops =>
    let cap := newCap capI
    let (esC, outsC) := run (cstep cap) [] ops
    let (_, outsA) := run (astep cap) [] ops
    let impl := listOf (c.output.getD "res" "-")
    let model := outsC.map outStr
    let spec := outsA.map outStr
    let nilPutAbsent := ops.any fun o => match o with | .put _ none => true | _ => false
    let tag := s!"cap={min cap 6},len={if ops.length = 0 then "0" else if ops.length < 8 then "short" else "long"},{if nilPutAbsent then "nilput" else "nonil"},{if esC.length = cap then "full" else "notfull"}"
    -- monitor: the implementation's results are those of the sequential LRU map
    if impl ≠ spec then .propFail tag s!"not-an-lru-map spec={",".intercalate spec}"
    else if impl ≠ model then .diff tag s!"res={",".intercalate model}"
    else .ok tag
  | _, _ => .bad "lru: bad input"

structure HOp where
  thread : Nat
  op : Op
  inv : Nat
  ret : Nat
  res : String

def parseHOp (s : String) : Option HOp :=
  match s.splitOn "/" with
  | [t, op, i, r, res] => do
    let t ← t.toNat?
    let op ← parseOp op
    let i ← i.toNat?
    let r ← r.toNat?
    pure ⟨t, op, i, r, res⟩
  | _ => none

/-- Wing–Gong search: does some total order extending real-time order match the LRU specification? -/
def wgl (cap : Nat) : Nat → Entries → List HOp → Bool
  | 0, _, pending => pending.isEmpty
  | fuel + 1, es, pending =>
    if pending.isEmpty then true else
    -- minimal ops: no other pending op returned before this one was invoked
    pending.any fun h =>
      (pending.all fun g => ¬ (g.ret < h.inv)) &&
      (let (es', o) := astep cap es h.op
       outStr o == h.res && wgl cap fuel es' (pending.filter fun g => g.inv ≠ h.inv))

def lruConc (c : Case) : Verdict :=
  match (c.input.get "cap").bind parseCap, (listOf (c.output.getD "hist" "-")).mapM parseHOp with
  | some capI, some hist =>
    let cap := newCap capI
    let overlaps := hist.any fun h => hist.any fun g => g.inv < h.inv ∧ h.inv < g.ret
    let tag := s!"ops={min hist.length 12},{if overlaps then "overlap" else "sequential"}"
    if wgl cap (hist.length + 1) [] hist then .ok tag
    else .propFail tag "history-not-linearizable-to-lru-map"
  | _, _ => .bad "lru_conc: bad input"

/-- families served by this module (collected by the generated `DrvAll`). -/
def families : List (String × (Case → Verdict)) := [("lru", lru), ("lru_conc", lruConc)]

end Drv.C36
