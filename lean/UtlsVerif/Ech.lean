import UtlsVerif.Wire
import UtlsVerif.VerifyPlan
/-!
# Ech — the Encrypted Client Hello slice of the uTLS client (and of the in-package server)

Transcribed from ech.go (`encodeInnerClientHelloReorderOuterExts`, `decodeInnerClientHello`,
`generateOuterECHExt`), handshake_messages.go (`marshalMsgReorderOuterExts`, the `echInner` mode),
u_conn.go (`MarshalClientHello` / `computeAndUpdateOuterECHExtension`), u_parrots.go (outer SNI :=
public name), handshake_client_tls13.go (accept confirmation in ServerHello / HelloRetryRequest, the
uTLS section of `processHelloRetryRequest` **as repaired by the D10 fix**, retry configs, the final
`ECHRejectionError`) and handshake_server_tls13.go / ech.go on the server side.

HPKE and the transcript hash / HKDF are symbolic (`Crypto`); their laws are hypotheses of theorems.
Core Lean only.
-/
namespace Ech
open Wire

/-! ## extensions and hellos on the wire -/

structure RawExt where
  typ : Nat
  data : Bytes
  deriving DecidableEq, Repr

def extSNI : Nat := 0
def extPSK : Nat := 41
def extSupportedVersions : Nat := 43
def extKeyShare : Nat := 51
def extECH : Nat := 65037          -- 0xfe0d encrypted_client_hello
def extOuterExts : Nat := 64768    -- 0xfd00 ech_outer_extensions

def encExt (e : RawExt) : Bytes := u16 e.typ ++ vec16 e.data

def encExts : List RawExt → Bytes
  | [] => []
  | e :: es => encExt e ++ encExts es

def readExt (bs : Bytes) : Option (RawExt × Bytes) :=
  match readU16 bs with
  | none => none
  | some (t, r) =>
    match readVec16 r with
    | none => none
    | some (d, r') => some (⟨t, d⟩, r')

/-- a ClientHello without its 4-byte handshake header. -/
structure Hello where
  vr : Bytes        -- legacy_version ++ random (34 bytes)
  sid : Bytes       -- legacy_session_id
  suites : Bytes    -- cipher_suites (bytes)
  comp : Bytes      -- legacy_compression_methods
  exts : List RawExt
  deriving DecidableEq, Repr

/-- `if len(extBytes) > 0 { AddUint16LengthPrefixed(extBytes) }` -/
def extBlock (es : List RawExt) : Bytes := if es.isEmpty then [] else vec16 (encExts es)

def Hello.body (h : Hello) : Bytes :=
  h.vr ++ vec8 h.sid ++ vec16 h.suites ++ vec8 h.comp ++ extBlock h.exts

/-- the handshake message: `typeClientHello`, uint24 length, body. -/
def Hello.marshal (h : Hello) : Bytes := [1] ++ vec24 h.body

/-- strict parser of an extension block (fuel = number of bytes is always enough). -/
def parseExtsAux : Nat → Bytes → Option (List RawExt)
  | 0, bs => if bs.isEmpty then some [] else none
  | fuel + 1, bs =>
    if bs.isEmpty then some [] else
    match readExt bs with
    | none => none
    | some (e, r) => (parseExtsAux fuel r).map (e :: ·)

def parseExts (bs : Bytes) : Option (List RawExt) := parseExtsAux bs.length bs

def parseBody (b : Bytes) : Option Hello :=
  match take? 34 b with
  | none => none
  | some (vr, r1) =>
    match readVec8 r1 with
    | none => none
    | some (sid, r2) =>
      match readVec16 r2 with
      | none => none
      | some (suites, r3) =>
        match readVec8 r3 with
        | none => none
        | some (comp, r4) =>
          if r4.isEmpty then some ⟨vr, sid, suites, comp, []⟩ else
          match readVec16 r4 with
          | some (eb, []) => (parseExts eb).map fun es => ⟨vr, sid, suites, comp, es⟩
          | _ => none

/-- parse a ClientHello handshake message (used by the driver on recorded hellos). -/
def parseHello (msg : Bytes) : Option Hello :=
  match msg with
  | 1 :: rest =>
    match readVec24 rest with
    | some (body, []) => parseBody body
    | _ => none
  | _ => none

def findExt (es : List RawExt) (t : Nat) : Option Bytes := (es.find? (·.typ == t)).map (·.data)

/-- host name carried by a server_name extension body (first entry, name_type 0). -/
def sniHost (data : Bytes) : Option Bytes :=
  match readVec16 data with
  | some (lst, _) =>
    match lst with
    | 0 :: r => (readVec16 r).map (·.1)
    | _ => none
  | none => none

def sniBody (name : Bytes) : Bytes := vec16 ([0] ++ vec16 name)

def Hello.serverName (h : Hello) : Option Bytes := (findExt h.exts extSNI).bind sniHost

/-! ## `EncodedClientHelloInner` -/

/-- TLS 1.2-only extensions `marshalMsg(echInner = true)` never writes. -/
def innerOmitted (t : Nat) : Bool := t == 11 || t == 35 || t == 65281 || t == 23

/-- the extensions the `echInner` mode replaces by a reference into the outer hello:
status_request, supported_groups, signature_algorithms, signature_algorithms_cert, ALPN,
supported_versions (only on the crypto/tls path: `echInner && outerExts == nil`), cookie,
key_share, psk_key_exchange_modes. -/
def compressible (reorder : Bool) (t : Nat) : Bool :=
  t == 5 || t == 10 || t == 13 || t == 50 || t == 16 || (t == 43 && !reorder) || t == 44 || t == 51 || t == 45

def outerExtsExt (ts : List Nat) : RawExt := ⟨extOuterExts, vec8 (encU16s ts)⟩

/-- the types listed in `ech_outer_extensions`: in marshal order on the crypto/tls path; on the
uTLS path the outer extension order filtered to the compressed types (`[uTLS SECTION]` reordering). -/
def listedTypes (cmp : List Nat) : Option (List Nat) → List Nat
  | none => cmp
  | some outerTypes => outerTypes.filter (fun t => cmp.contains t)

/-- extension list of the encoded inner hello, given the inner hello's *uncompressed* extension list
(marshal order). pre_shared_key stays last. -/
def encodeInnerExts (exts : List RawExt) (ot : Option (List Nat)) : List RawExt :=
  let reorder := ot.isSome
  let kept := exts.filter (fun e => !innerOmitted e.typ)
  let plain := kept.filter (fun e => !compressible reorder e.typ && e.typ != extPSK)
  let cmp := (kept.filter (fun e => compressible reorder e.typ)).map (·.typ)
  let listed := listedTypes cmp ot
  let psk := kept.filter (fun e => e.typ == extPSK)
  plain ++ (if listed.isEmpty then [] else [outerExtsExt listed]) ++ psk

/-- `paddingLen` of `encodeInnerClientHelloReorderOuterExts` (Go `int` arithmetic; `hlen ≥ 39`
always, so the truncated subtraction never differs). -/
def paddingLen (hlen : Nat) (nameLen : Option Nat) (maxNameLen : Nat) : Nat :=
  let p0 := match nameLen with
    | some n => maxNameLen - n          -- max(0, maxNameLength - len(serverName))
    | none => maxNameLen + 9
  31 - ((hlen + p0 - 1) % 32)

/-- the encoded inner hello before padding: empty session id, compressed extensions. -/
def encodeInnerCore (inner : Hello) (ot : Option (List Nat)) : Bytes :=
  inner.vr ++ vec8 [] ++ vec16 inner.suites ++ vec8 inner.comp ++ extBlock (encodeInnerExts inner.exts ot)

/-- `encodeInnerClientHelloReorderOuterExts(inner, maxNameLength, outerExts)`; `ot = none` is the
crypto/tls path (`outerExts == nil`). -/
def encodeInner (inner : Hello) (maxNameLen : Nat) (ot : Option (List Nat)) : Bytes :=
  let h := encodeInnerCore inner ot
  h ++ List.replicate (paddingLen h.length (inner.serverName.map (·.length)) maxNameLen) 0

/-! ## `decodeInnerClientHello` -/

inductive DecErr where
  | invalidInner        -- "tls: invalid inner client hello"
  | invalidOuterExts    -- "tls: invalid outer extensions"
  | invalidRecon        -- "tls: invalid reconstructed inner client hello"
  | invalidEchExt       -- errInvalidECHExt
  | badVersions         -- "... offered incompatible versions"
  deriving DecidableEq, Repr

/-- result type with decidable equality (`Except` has none). -/
inductive R (α : Type) where
  | ok (a : α)
  | err (e : DecErr)
  deriving DecidableEq, Repr

def R.map {α β : Type} (f : α → β) : R α → R β
  | .ok a => .ok (f a)
  | .err e => .err e

@[simp] theorem R.map_ok {α β : Type} (f : α → β) (a : α) : (R.ok a).map f = .ok (f a) := rfl
@[simp] theorem R.map_err {α β : Type} (f : α → β) (e : DecErr) : (R.err e : R α).map f = .err e := rfl

/-- expansion of one `ech_outer_extensions` list (bytes of uint16 types) against the raw outer
extensions. The scan index only moves forward and is *not* advanced past a match. -/
def expandTypes (rest : List RawExt) : Bytes → R (List RawExt)
  | [] => .ok []
  | [_] => .err .invalidInner
  | a :: c :: bs =>
    let t := a.toNat * 256 + c.toNat
    if t = extECH then .err .invalidOuterExts else
    match rest.dropWhile (fun e => e.typ != t) with
    | [] => .err .invalidOuterExts
    | e :: r => (expandTypes (e :: r) bs).map (e :: ·)

/-- the reconstruction loop over the encoded inner extensions. -/
def reconAux (outer : List RawExt) : Nat → Bytes → R (List RawExt)
  | 0, bs => if bs.isEmpty then .ok [] else .err .invalidInner
  | fuel + 1, bs =>
    if bs.isEmpty then .ok [] else
    match readExt bs with
    | none => .err .invalidInner
    | some (e, r) =>
      if e.typ = extOuterExts then
        match readVec8 e.data with
        | none => .err .invalidInner
        | some (lst, _) =>
          match expandTypes outer lst with
          | .err x => .err x
          | .ok es => (reconAux outer fuel r).map (es ++ ·)
      else (reconAux outer fuel r).map (e :: ·)

/-- checks after reconstruction: `unmarshal` (only its duplicate-extension and pre_shared_key-last
rules are modelled — bodies are assumed well formed), the inner ECH marker, and TLS 1.3 only. -/
def finalChecks (h : Hello) : R Hello :=
  if !(h.exts.map (·.typ)).Nodup then .err .invalidRecon
  else if ((h.exts.dropWhile (·.typ != extPSK)).drop 1).length != 0 then .err .invalidRecon  -- pre_shared_key must be last
  else if findExt h.exts extECH != some [1] then .err .invalidEchExt
  else if findExt h.exts extSupportedVersions != some [2, 3, 4] then .err .badVersions
  else .ok h

/-- `decodeInnerClientHello(outer, encoded)`. -/
def decodeInner (outer : Hello) (enc : Bytes) : R Hello :=
  match take? 34 enc with
  | none => .err .invalidInner
  | some (vr, r1) =>
    match readVec8 r1 with
    | none => .err .invalidInner
    | some (sid, r2) =>
      if !sid.isEmpty then .err .invalidInner else
      match readVec16 r2 with
      | none => .err .invalidInner
      | some (suites, r3) =>
        match readVec8 r3 with
        | none => .err .invalidInner
        | some (comp, r4) =>
          match readVec16 r4 with
          | none => .err .invalidInner
          | some (eb, pad) =>
            if !pad.all (· == 0) then .err .invalidInner else
            match reconAux outer.exts eb.length eb with
            | .err x => .err x
            | .ok es => finalChecks ⟨vr, outer.sid, suites, comp, es⟩

/-! ## the outer hello, with provenance tags

Every byte the client puts on the wire in plaintext carries where it came from. `hseal` (HPKE) is
symbolic: whatever goes in, ciphertext-tagged bytes come out. -/

inductive Src where
  | const     -- protocol constants, lengths, code points
  | pub       -- the ECH public name
  | secret    -- Config.ServerName
  | rand      -- randoms, session id, key shares, HPKE encapsulated key
  | cipher    -- output of HPKE Seal
  | spec      -- values of the ClientHelloSpec / Config that are not the server name
  deriving DecidableEq, Repr

abbrev TB := UInt8 × Src

def tagAs (s : Src) (bs : Bytes) : List TB := bs.map (·, s)
def erase (ts : List TB) : Bytes := ts.map (·.1)

structure TExt where
  typ : Nat
  data : List TB

def TExt.erase (e : TExt) : RawExt := ⟨e.typ, Ech.erase e.data⟩

def encTExt (e : TExt) : List TB :=
  tagAs .const (u16 e.typ) ++ tagAs .const (u16 e.data.length) ++ e.data

def encTExts : List TExt → List TB
  | [] => []
  | e :: es => encTExt e ++ encTExts es

/-- server_name extension carrying `name` with tag `s`. -/
def sniT (s : Src) (name : Bytes) : TExt :=
  ⟨extSNI, tagAs .const (u16 (name.length + 3)) ++ tagAs .const [0] ++ tagAs .const (u16 name.length) ++ tagAs s name⟩

/-- `generateOuterECHExt(id, kdf, aead, enc, payload)` -/
def outerEchT (configId kdf aead : Nat) (enc : Bytes) (payload : List TB) : TExt :=
  ⟨extECH, tagAs .const ([0] ++ u16 kdf ++ u16 aead ++ [b configId]) ++
    tagAs .const (u16 enc.length) ++ tagAs .rand enc ++ tagAs .const (u16 payload.length) ++ payload⟩

structure EchParams where
  configId : Nat
  kdf : Nat
  aead : Nat
  maxNameLen : Nat
  publicName : Bytes
  enc : Bytes              -- HPKE encapsulated key (empty in the second ClientHello)

/-- the inner hello's extensions: server_name(ServerName), the inner ECH marker, and the shared
extensions `shared` (everything else: lists from the spec, key shares …). -/
def innerExtsT (serverName : Bytes) (shared : List TExt) : List TExt :=
  [sniT .secret serverName, ⟨extECH, tagAs .const [1]⟩] ++ shared

/-- the outer hello's extensions: the inner ones with server_name overwritten by the public name
(`hello.serverName = string(ech.config.PublicName)`; u_parrots.go sets `SNIExtension.ServerName` to
the public name) and the ECH marker replaced by the outer ECH extension. -/
def outerExtsT (p : EchParams) (payload : List TB) (shared : List TExt) : List TExt :=
  [sniT .pub p.publicName, outerEchT p.configId p.kdf p.aead p.enc payload] ++ shared

structure HelloT where
  vr : List TB
  sid : List TB
  suites : List TB
  comp : List TB
  exts : List TExt

def HelloT.erase (h : HelloT) : Hello :=
  ⟨Ech.erase h.vr, Ech.erase h.sid, Ech.erase h.suites, Ech.erase h.comp, h.exts.map TExt.erase⟩

def HelloT.bodyT (h : HelloT) : List TB :=
  h.vr ++ tagAs .const (u8 h.sid.length) ++ h.sid ++ tagAs .const (u16 h.suites.length) ++ h.suites ++
  tagAs .const (u8 h.comp.length) ++ h.comp ++
  (if h.exts.isEmpty then [] else tagAs .const (u16 (encTExts h.exts).length) ++ encTExts h.exts)

def HelloT.marshalT (h : HelloT) : List TB := tagAs .const ([1] ++ u24 h.bodyT.length) ++ h.bodyT

/-- the client's first flight with ECH: inner hello ↦ encoded ↦ sealed ↦ outer hello.
`hseal aad pt` is HPKE Seal; the AAD is the outer hello with a zeroed payload of the final length
(`computeAndUpdateOuterECHExtension`). `ot` as in `encodeInner`. -/
def buildOuter (hseal : Bytes → Bytes → Bytes) (p : EchParams) (serverName : Bytes)
    (outerVr innerVr sid suites comp : List TB) (shared : List TExt) (ot : Option (List Nat)) : HelloT :=
  let inner : HelloT := ⟨innerVr, sid, suites, comp, innerExtsT serverName shared⟩
  let encoded := encodeInner inner.erase p.maxNameLen ot
  let zeros := tagAs .const (List.replicate (encoded.length + 16) 0)
  let aadHello : HelloT := ⟨outerVr, sid, suites, comp, outerExtsT p zeros shared⟩
  let payload := tagAs .cipher (hseal (Ech.erase aadHello.bodyT) encoded)
  ⟨outerVr, sid, suites, comp, outerExtsT p payload shared⟩

/-! ## HelloRetryRequest: key shares (`processHelloRetryRequest` incl. its uTLS section) -/

structure KS where
  group : Nat
  data : Bytes
  deriving DecidableEq, Repr

structure HrrIn where
  echAccepted : Bool          -- `isInnerHello`: the HRR carried a valid accept confirmation
  utls : Bool                 -- `hs.uconn != nil && ClientHelloID != HelloGolang` (uTLS section runs; BuildByUtls)
  outerShares : List KS       -- hs.hello.keyShares (first flight)
  innerShares : List KS       -- echContext.innerHello.keyShares (first flight)
  supported : List Nat        -- hello.supportedCurves
  selectedGroup : Nat         -- HRR key_share (0 = absent)
  hasCookie : Bool
  newKey : Bytes              -- public key generated for selectedGroup
  deriving Repr

inductive HrrErr where
  | unnecessary         -- neither key_share nor cookie
  | unsupportedGroup
  | unnecessaryShare    -- already sent a share for that group
  deriving DecidableEq, Repr

structure HrrOut where
  innerShares : List KS       -- inner hello after the update (what the client hashes)
  outerStruct : List KS       -- hs.hello.keyShares after the update
  extShares : List KS         -- KeyShareExtension.KeyShares in uconn.Extensions (uTLS)
  wireShares : List KS        -- key_share of the second outer ClientHello as marshalled
  deriving Repr

/-- `hello` is the inner hello once ECH is accepted, else the outer one. The uTLS section copies
`hello.keyShares` (D10 fix; it used to copy `hs.hello.keyShares`, the stale outer shares). -/
def processHrrShares (i : HrrIn) : Except HrrErr HrrOut :=
  let helloShares := if i.echAccepted then i.innerShares else i.outerShares
  if i.selectedGroup = 0 && !i.hasCookie then .error .unnecessary
  else if i.selectedGroup ≠ 0 && !i.supported.contains i.selectedGroup then .error .unsupportedGroup
  else if i.selectedGroup ≠ 0 && i.outerShares.any (·.group == i.selectedGroup) then .error .unnecessaryShare
  else
    let helloShares' := if i.selectedGroup ≠ 0 then [⟨i.selectedGroup, i.newKey⟩] else helloShares
    let extShares := helloShares'                       -- uTLS section (repaired)
    let innerShares' := if i.echAccepted then helloShares' else i.innerShares
    let outerStruct := helloShares'                     -- `hs.hello.keyShares = hello.keyShares` / `hs.hello = hello`
    .ok ⟨innerShares', outerStruct, extShares, if i.utls then extShares else outerStruct⟩

/-- the server's check in `doHelloRetryRequest` on the (reconstructed) second hello. -/
def serverAcceptsSecond (selectedGroup : Nat) (shares : List KS) : Bool :=
  match shares with
  | [s] => s.group == selectedGroup
  | _ => false

/-! ## ECHConfigList: parsing, selection, HPKE info (ech.go `parseECHConfig`, `parseECHConfigList`,
`pickECHConfig`, `pickECHCipherSuite`; `info := "tls ech\x00" ‖ config.raw`) -/

structure EchConfig where
  raw : Bytes                    -- this entry's own bytes: version ‖ length ‖ contents
  configId : Nat
  kemId : Nat
  publicKey : Bytes
  suites : List (Nat × Nat)      -- (KDF, AEAD)
  maxNameLen : Nat
  publicName : Bytes
  exts : List (Nat × Bytes)
  deriving DecidableEq, Repr

def parseSuiteList : Bytes → Option (List (Nat × Nat))
  | [] => some []
  | [a, c, d, e] => some [(a.toNat * 256 + c.toNat, d.toNat * 256 + e.toNat)]
  | a :: c :: d :: e :: r => (parseSuiteList r).map ((a.toNat * 256 + c.toNat, d.toNat * 256 + e.toNat) :: ·)
  | _ => none

def parseCfgExts : Nat → Bytes → Option (List (Nat × Bytes))
  | 0, bs => if bs.isEmpty then some [] else none
  | f + 1, bs =>
    if bs.isEmpty then some [] else
    match readU16 bs with
    | none => none
    | some (t, r) =>
      match readVec16 r with
      | none => none
      | some (d, r') => (parseCfgExts f r').map ((t, d) :: ·)

/-- the fields of an ECHConfig, read from the bytes after the 4-byte header. As in the Go code the
reader is the *remainder of the list* (not bounded by the entry's length field) and trailing bytes
are not inspected. (`raw` is filled in by `parseConfig`.) -/
def parseConfigFields (s : Bytes) : Option EchConfig :=
  match readU8 s with
  | none => none
  | some (cid, s1) =>
    match readU16 s1 with
    | none => none
    | some (kem, s2) =>
      match readVec16 s2 with
      | none => none
      | some (pk, s3) =>
        match readVec16 s3 with
        | none => none
        | some (cs, s4) =>
          match parseSuiteList cs with
          | none => none
          | some suites =>
            match readU8 s4 with
            | none => none
            | some (mnl, s5) =>
              match readVec8 s5 with
              | none => none
              | some (pn, s6) =>
                match readVec16 s6 with
                | none => none
                | some (eb, _) =>
                  (parseCfgExts eb.length eb).map fun es => ⟨[], cid, kem, pk, suites, mnl, pn, es⟩

inductive CfgRes where
  | malformed
  | skip                 -- unknown version: not part of the parsed list
  | cfg (c : EchConfig)
  deriving DecidableEq, Repr

/-- `parseECHConfig(enc)`; `enc` is the remainder of the list starting at this entry.
`raw` is cut to exactly this entry: `ec.raw = ec.raw[:ec.Length+4]`. -/
def parseConfig (enc : Bytes) : CfgRes :=
  match readU16 enc with
  | none => .malformed
  | some (version, r) =>
    match readU16 r with
    | none => .malformed
    | some (len, r2) =>
      if enc.length < len + 4 then .malformed else
      let raw := enc.take (len + 4)
      if version ≠ extECH then .skip else
      match parseConfigFields r2 with
      | none => .malformed
      | some c => .cfg { c with raw := raw }

/-- `configLen := uint16(s[2])<<8 | uint16(s[3])` -/
def entryLen (s : Bytes) : Nat :=
  match s with
  | _ :: _ :: a :: c :: _ => a.toNat * 256 + c.toNat
  | _ => 0

def parseListAux : Nat → Bytes → Option (List EchConfig)
  | 0, s => if s.isEmpty then some [] else none
  | f + 1, s =>
    if s.isEmpty then some [] else
    if s.length < 4 then none else
    match parseConfig s with
    | .malformed => none
    | .skip => parseListAux f (s.drop (entryLen s + 4))
    | .cfg c => (parseListAux f (s.drop (entryLen s + 4))).map (c :: ·)

/-- `parseECHConfigList(data)`: `none` = malformed. -/
def parseConfigList (data : Bytes) : Option (List EchConfig) :=
  match readU16 data with
  | none => none
  | some (n, s) => if n ≠ (data.length - 2) % 65536 then none else parseListAux s.length s

def splitDots : Bytes → List Bytes
  | [] => [[]]
  | c :: cs =>
    match splitDots cs with
    | [] => [[c]]
    | p :: ps => if c = 46 then [] :: p :: ps else (c :: p) :: ps

def labelCharOk (c : UInt8) : Bool :=
  (48 ≤ c.toNat && c.toNat ≤ 57) || (97 ≤ c.toNat && c.toNat ≤ 122) || (65 ≤ c.toNat && c.toNat ≤ 90) || c == 45

/-- `validDNSName` (bytes ≥ 0x80 are never allowed characters, so bytes and runes agree). -/
def validDNSName (name : Bytes) : Bool :=
  let labels := splitDots name
  name.length ≤ 253 && labels.length > 1 &&
  labels.all fun l => !l.isEmpty && l.all labelCharOk && l.head? != some 45 && l.getLast? != some 45

def suiteSupported (s : Nat × Nat) : Bool := s.1 == 1 && (s.2 == 1 || s.2 == 2 || s.2 == 3)

def configUsable (c : EchConfig) : Bool :=
  c.kemId == 0x0020 && c.suites.any suiteSupported && validDNSName c.publicName &&
  c.exts.all (fun e => e.1 / 32768 % 2 == 0)

/-- `pickECHConfig`: the first usable config. -/
def pickConfig (cs : List EchConfig) : Option EchConfig := cs.find? configUsable

/-- `pickECHCipherSuite`: the first supported suite. -/
def pickSuite (c : EchConfig) : Option (Nat × Nat) := c.suites.find? suiteSupported

def infoPrefix : Bytes := [116, 108, 115, 32, 101, 99, 104, 0]   -- "tls ech\x00"

/-- HPKE `info` of the client: from the picked config's `raw`. -/
def hpkeInfo (c : EchConfig) : Bytes := infoPrefix ++ c.raw

/-- … and of the server: from the bytes of the `EncryptedClientHelloKey.Config` it was given. -/
def hpkeInfoOfBytes (config : Bytes) : Bytes := infoPrefix ++ config

/-! ## accept / reject signalling, retry configs -/

/-- symbolic primitives. -/
structure Crypto where
  /-- accept confirmation: label ("sh"/"hrr" as 0/1), inner random, transcript ↦ 8 bytes -/
  conf : Nat → Bytes → Bytes → Bytes
  /-- `typeMessageHash` replacement of the first hello after a HelloRetryRequest -/
  mhash : Bytes → Bytes
  /-- HPKE key schedule: recipient public key, `info` ↦ context -/
  ctx : Bytes → Bytes → Nat
  /-- the per-message key/nonce of a context: context, sequence number ↦ message context -/
  seqCtx : Nat → Nat → Nat
  /-- HPKE AEAD under message context `k`: seal / open -/
  hseal : Nat → Bytes → Bytes → Bytes
  hopen : Nat → Bytes → Bytes → Option Bytes

structure Crypto.Laws (C : Crypto) : Prop where
  hopen_hseal : ∀ k aad pt, C.hopen k aad (C.hseal k aad pt) = some pt
  hopen_other : ∀ k k' aad pt, k ≠ k' → C.hopen k' aad (C.hseal k aad pt) = none
  /-- a different key or a different `info` gives a different context -/
  ctx_inj : ∀ pk info pk' info', C.ctx pk info = C.ctx pk' info' → pk = pk' ∧ info = info'
  /-- another context or another sequence number gives another nonce/key -/
  seq_inj : ∀ a n a' n', C.seqCtx a n = C.seqCtx a' n' → a = a' ∧ n = n'

/-! ### the client's HPKE sender across marshals; the SNI extension of a shared spec -/

/-- an HPKE sender: its context and the sequence number of the next Seal. -/
structure Sender where
  ctx : Nat
  seq : Nat
  deriving DecidableEq, Repr

def Sender.seal (C : Crypto) (s : Sender) (aad pt : Bytes) : Bytes × Sender :=
  (C.hseal (C.seqCtx s.ctx s.seq) aad pt, { s with seq := s.seq + 1 })

/-- `(*UConn).MarshalClientHello` with an ECH config list (and `clientHandshake` for HelloGolang):
`makeClientHello()` sets up a **fresh** HPKE context on every call — whatever `uconn.echCtx` held
(`prev`: from ApplyPreset or an earlier marshal) is replaced —, seals exactly once, and stores the new
context for a possible second ClientHello. `fresh` is the context of this call's `SetupSender`. -/
def marshalFirst (C : Crypto) (_prev : Option Sender) (fresh : Nat) (aad pt : Bytes) : Bytes × Option Sender :=
  let r := Sender.seal C ⟨fresh, 0⟩ aad pt
  (r.1, some r.2)

/-- any number of marshals before the hello is sent (explicit `BuildHandshakeState`, edits followed by
`MarshalClientHello`, then `Handshake`): payload of the last one and the stored sender. -/
def marshalSeq (C : Crypto) : Option Sender → List (Nat × Bytes × Bytes) → Option Bytes × Option Sender
  | st, [] => (none, st)
  | st, [(f, aad, pt)] => let r := marshalFirst C st f aad pt; (some r.1, r.2)
  | st, (f, aad, pt) :: m :: ms => marshalSeq C (marshalFirst C st f aad pt).2 (m :: ms)

/-- `case *SNIExtension` of `ApplyPreset`: an empty name is filled from `Config.ServerName`; with an
ECH config list the public name replaces whatever the (possibly shared, possibly pre-filled) extension
object holds. Result = new content of the extension = outer server_name. -/
def presetSni (specName cfgName : Bytes) (echPublic : Option Bytes) : Bytes :=
  match echPublic with
  | some p => p
  | none => if specName.isEmpty then cfgName else specName

/-- one spec object applied by a sequence of connections (their ServerName, their ECH public name if
any): what its SNIExtension holds afterwards. -/
def presetSniSeq (specName : Bytes) : List (Bytes × Option Bytes) → Bytes
  | [] => specName
  | (cfgName, ech) :: rest => presetSniSeq (presetSni specName cfgName ech) rest

/-- what the ECH logic reads of a ServerHello / HelloRetryRequest. -/
structure SHello where
  zeroed : Bytes             -- the message with the confirmation bytes zeroed
  signal : Bytes             -- ServerHello: random[24:32]; HRR: the 8-byte ECH extension (if any)
  hasEchExt : Bool           -- encrypted_client_hello extension present
  echExtLen : Nat            -- its length on the wire (the confirmation itself is symbolic)
  raw : Bytes                -- the message as hashed into the transcript
  deriving Repr

/-- a server key (`EncryptedClientHelloKey`): the public key of its private key, the ECHConfig bytes
it was configured with, SendAsRetry. -/
structure SKey where
  pk : Bytes
  config : Bytes
  sendAsRetry : Bool
  deriving Repr

/-- the server's HPKE context for a key: `info = "tls ech\x00" ‖ echKey.Config`. -/
def SKey.ctxOf (C : Crypto) (k : SKey) : Nat := C.ctx k.pk (hpkeInfoOfBytes k.config)

/-- the client's HPKE context: picked config's public key, `info` from its `raw`. -/
def clientCtx (C : Crypto) (c : EchConfig) : Nat := C.ctx c.publicKey (hpkeInfo c)

/-- `buildRetryConfigList`: `none` when no key is marked SendAsRetry. -/
def retryList (keys : List SKey) : Option Bytes :=
  let cs := keys.filter (·.sendAsRetry)
  if cs.isEmpty then none else some (vec16 (cs.flatMap (·.config)))

/-- server side of one ECH ClientHello: trial decryption over its keys with a receiver at sequence
number `seq` (0 for the first ClientHello: `SetupReceipient` is fresh; 1 for the hello after a
HelloRetryRequest), then either the decoded inner hello is used (accept) or the outer one (reject). -/
inductive SrvView where
  | accepted (inner : Hello)
  | rejected (retry : Option Bytes)
  | abort                        -- decode error → illegal_parameter
  deriving Repr

def tryKeys (C : Crypto) (keys : List SKey) (seq : Nat) (outer : Hello) (aad payload : Bytes) : SrvView :=
  match keys.findSome? (fun k => C.hopen (C.seqCtx (k.ctxOf C) seq) aad payload) with
  | none => .rejected (retryList keys)
  | some pt =>
    match decodeInner outer pt with
    | .ok inner => .accepted inner
    | .err _ => .abort

/-- transcript of the inner handshake up to (excluding) the final ServerHello: the inner
ClientHello message, or after a HelloRetryRequest `message_hash(CH1) ‖ HRR ‖ CH2`. -/
def innerTranscript (C : Crypto) (innerMsg1 : Bytes) (hrr : Option (Bytes × Bytes)) : Bytes :=
  match hrr with
  | none => innerMsg1
  | some (hrrRaw, innerMsg2) => C.mhash innerMsg1 ++ hrrRaw ++ innerMsg2

/-- the confirmation an accepting server writes into ServerHello.random[24:32]: computed over its
inner transcript followed by the ServerHello with those 8 bytes zeroed, keyed by the inner random. -/
def serverSignal (C : Crypto) (innerRandom tr shZeroed : Bytes) : Bytes :=
  C.conf 0 innerRandom (tr ++ shZeroed)

/-- … and into the ECH extension of a HelloRetryRequest. -/
def serverHrrSignal (C : Crypto) (innerRandom innerMsg1 hrrZeroed : Bytes) : Bytes :=
  C.conf 1 innerRandom (C.mhash innerMsg1 ++ hrrZeroed)

/-- client, HelloRetryRequest: `none` = abort (decode_error: ECH extension not 8 bytes). -/
def clientHrrConfirms (C : Crypto) (innerRandom innerMsg1 : Bytes) (hrr : SHello) : Option Bool :=
  if !hrr.hasEchExt then some false
  else if hrr.echExtLen ≠ 8 then none
  else some (C.conf 1 innerRandom (C.mhash innerMsg1 ++ hrr.zeroed) == hrr.signal)

/-- client: does the ServerHello confirm acceptance? `tr` is the client's inner transcript
(crypto/tls path: built from `innerHello.marshal()`; uTLS path: from the reconstruction
`decodeInner outer (encodeInner inner …)`, see `echTranscriptMsg`). -/
def clientConfirms (C : Crypto) (innerRandom tr : Bytes) (sh : SHello) : Bool :=
  C.conf 0 innerRandom (tr ++ sh.zeroed) == sh.signal

inductive ClientOutcome where
  | accepted (serverName : Bytes) (echAccepted : Bool)
  | echRejection (retry : Bytes)
  | certError
  | abort                       -- unsupported_extension etc.
  deriving DecidableEq, Repr

/-- the ECH part of `clientHandshakeStateTLS13.handshake` after the (final) ServerHello:
accept ⇒ `c.serverName = c.config.ServerName`, `echAccepted = true`, an ECH extension in the
ServerHello or retry configs in EncryptedExtensions are errors; reject ⇒ retry configs are taken
from EncryptedExtensions, the certificate is verified against the outer name (VerifyPlan), and after
the Finished exchange `ECHRejectionError{retryConfigs}` is returned. -/
def clientFinish {Chain : Type} (C : Crypto) (O : VerifyPlan.Oracle Chain) (cfg : VerifyPlan.Cfg)
    (serverNameB : Bytes) (publicName : String)
    (innerRandom tr : Bytes) (sh : SHello) (eeRetry : Option Bytes) (chain : Chain) : ClientOutcome :=
  if clientConfirms C innerRandom tr sh then
    if sh.hasEchExt then .abort
    else if eeRetry.isSome then .abort
    else if (VerifyPlan.verifyCert O cfg true cfg.serverName chain).isSome then .certError
    else .accepted serverNameB true
  else
    if (VerifyPlan.verifyCert O cfg false publicName chain).isSome then .certError
    else .echRejection (eeRetry.getD [])

/-- what the client hashes as "the inner ClientHello": on the crypto/tls path the inner hello's own
marshalling (with the outer hello's session id, `hello.clone()`); on the uTLS path
(`echTranscriptMsg`) the server-side reconstruction from the outer hello. `none` = error. -/
def clientInnerMsg (utls : Bool) (inner outer : Hello) (maxNameLen : Nat) (ot : Option (List Nat)) : Option Bytes :=
  if utls then
    match decodeInner outer (encodeInner inner maxNameLen ot) with
    | .ok h => some h.marshal
    | .err _ => none
  else some inner.marshal

end Ech
