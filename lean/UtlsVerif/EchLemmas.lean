import UtlsVerif.Ech
/-! # EchLemmas — helper lemmas for the C15 theorems (codec part). Core Lean only. -/
namespace Ech
open Wire

def ExtWF (e : RawExt) : Prop := e.typ < 65536 ∧ e.data.length < 65536

instance (e : RawExt) : Decidable (ExtWF e) := by unfold ExtWF; infer_instance

theorem R.map_map {α β γ : Type} (f : α → β) (g : β → γ) (r : R α) : (r.map f).map g = r.map (g ∘ f) := by
  cases r <;> rfl

/-! ## wire lemmas -/

theorem readExt_enc (e : RawExt) (r : Bytes) (h : ExtWF e) : readExt (encExt e ++ r) = some (e, r) := by
  unfold readExt encExt
  rw [List.append_assoc, readU16_u16, Nat.mod_eq_of_lt h.1]
  simp only
  rw [readVec16_vec16 _ _ h.2]

theorem encExt_append_isEmpty (e : RawExt) (r : Bytes) : (encExt e ++ r).isEmpty = false := by
  simp [encExt, u16]

theorem length_le_encExts (es : List RawExt) : es.length ≤ (encExts es).length := by
  induction es with
  | nil => simp [encExts]
  | cons e es ih => simp [encExts, encExt, List.length_append]; omega

theorem encExts_append (a c : List RawExt) : encExts (a ++ c) = encExts a ++ encExts c := by
  induction a with
  | nil => rfl
  | cons e es ih => simp [encExts, ih, List.append_assoc]

/-! ## the reconstruction loop on well-formed input = a function on extension lists -/

def reconList (outer : List RawExt) : List RawExt → R (List RawExt)
  | [] => .ok []
  | e :: es =>
    if e.typ = extOuterExts then
      match readVec8 e.data with
      | none => .err .invalidInner
      | some (lst, _) =>
        match expandTypes outer lst with
        | .err x => .err x
        | .ok xs => (reconList outer es).map (xs ++ ·)
    else (reconList outer es).map (e :: ·)

theorem reconAux_enc (outer : List RawExt) : ∀ (es : List RawExt) (fuel : Nat),
    (∀ e ∈ es, ExtWF e) → es.length ≤ fuel → reconAux outer fuel (encExts es) = reconList outer es := by
  intro es
  induction es with
  | nil =>
    intro fuel _ _
    cases fuel <;> simp [encExts, reconAux, reconList]
  | cons e es ih =>
    intro fuel hwf hlen
    cases fuel with
    | zero => simp at hlen
    | succ f =>
      have he : ExtWF e := hwf e (by simp)
      have ih' := ih f (fun x hx => hwf x (by simp [hx])) (by simpa using hlen)
      simp only [encExts, reconAux, encExt_append_isEmpty, readExt_enc e _ he, reconList, ih']
      simp only [Bool.false_eq_true, if_false]
      by_cases h1 : e.typ = extOuterExts
      · simp only [if_pos h1]
        cases hrv : readVec8 e.data with
        | none => rfl
        | some p =>
          obtain ⟨lst, snd⟩ := p
          simp only
          cases expandTypes outer lst <;> rfl
      · simp only [if_neg h1]

theorem reconList_plain (outer : List RawExt) (es rest : List RawExt)
    (h : ∀ e ∈ es, e.typ ≠ extOuterExts) :
    reconList outer (es ++ rest) = (reconList outer rest).map (es ++ ·) := by
  induction es with
  | nil => cases h' : reconList outer rest <;> simp [R.map, h']
  | cons e es ih =>
    have he : e.typ ≠ extOuterExts := h e (by simp)
    have ih' := ih (fun x hx => h x (by simp [hx]))
    simp only [List.cons_append, reconList, if_neg he, ih', R.map_map]
    cases reconList outer rest <;> rfl

theorem reconList_plain_nil (outer : List RawExt) (es : List RawExt)
    (h : ∀ e ∈ es, e.typ ≠ extOuterExts) : reconList outer es = .ok es := by
  have := reconList_plain outer es [] h
  simpa [reconList] using this

theorem reconList_mid (outer pre post : List RawExt) (lst : Bytes) (xs : List RawExt)
    (hpre : ∀ e ∈ pre, e.typ ≠ extOuterExts) (hpost : ∀ e ∈ post, e.typ ≠ extOuterExts)
    (hl : lst.length < 256) (hx : expandTypes outer lst = .ok xs) :
    reconList outer (pre ++ [⟨extOuterExts, vec8 lst⟩] ++ post) = .ok (pre ++ xs ++ post) := by
  rw [List.append_assoc, reconList_plain outer pre _ hpre]
  have hv : readVec8 (vec8 lst) = some (lst, []) := by
    have := readVec8_vec8 lst [] hl
    simpa using this
  simp only [List.singleton_append, reconList, if_true, hv, hx, reconList_plain_nil outer post hpost]
  simp [R.map, List.append_assoc]

/-! ## expansion of a type list -/

def expandL (rest : List RawExt) : List Nat → R (List RawExt)
  | [] => .ok []
  | t :: ts =>
    if t = extECH then .err .invalidOuterExts else
    match rest.dropWhile (fun e => e.typ != t) with
    | [] => .err .invalidOuterExts
    | e :: r => (expandL (e :: r) ts).map (e :: ·)

theorem expandTypes_enc : ∀ (ts : List Nat) (rest : List RawExt), (∀ t ∈ ts, t < 65536) →
    expandTypes rest (encU16s ts) = expandL rest ts := by
  intro ts
  induction ts with
  | nil => intro rest _; rfl
  | cons t ts ih =>
    intro rest h
    have ht : t < 65536 := h t (by simp)
    have hval : (b (t / 256)).toNat * 256 + (b t).toNat = t := by
      simp only [b_toNat]; omega
    simp only [encU16s, u16, List.cons_append, List.nil_append, expandTypes, hval, expandL]
    by_cases hE : t = extECH
    · simp [hE]
    · simp only [if_neg hE]
      cases hd : rest.dropWhile (fun e => e.typ != t) with
      | nil => rfl
      | cons e r => simp only; rw [ih (e :: r) (fun x hx => h x (by simp [hx]))]

theorem dropWhile_sublist : ∀ (rest : List RawExt) (e : RawExt) (S : List RawExt),
    (e :: S).Sublist rest → (rest.map (·.typ)).Nodup →
    ∃ r, rest.dropWhile (fun x => x.typ != e.typ) = e :: r ∧ S.Sublist r ∧ ((e :: r).map (·.typ)).Nodup := by
  intro rest
  induction rest with
  | nil => intro e S h; cases h
  | cons x xs ih =>
    intro e S h hnd
    have hnd' : (xs.map (·.typ)).Nodup := (List.nodup_cons.1 (by simpa using hnd)).2
    have hx : x.typ ∉ xs.map (·.typ) := (List.nodup_cons.1 (by simpa using hnd)).1
    cases h with
    | cons _ h' =>
      have hmem : e ∈ xs := h'.subset (by simp)
      have hne : x.typ ≠ e.typ := by
        intro heq
        exact hx (heq ▸ List.mem_map.2 ⟨e, hmem, rfl⟩)
      obtain ⟨r, h1, h2, h3⟩ := ih e S h' hnd'
      refine ⟨r, ?_, h2, h3⟩
      rw [List.dropWhile_cons]
      simp [hne, h1]
    | cons_cons _ h' =>
      refine ⟨xs, ?_, h', by simpa using hnd⟩
      rw [List.dropWhile_cons]
      simp

theorem expandL_sublist : ∀ (S rest : List RawExt), S.Sublist rest → (rest.map (·.typ)).Nodup →
    (∀ e ∈ S, e.typ ≠ extECH) → expandL rest (S.map (·.typ)) = .ok S := by
  intro S
  induction S with
  | nil => intro rest _ _ _; rfl
  | cons e S ih =>
    intro rest hsub hnd hne
    obtain ⟨r, h1, h2, h3⟩ := dropWhile_sublist rest e S hsub hnd
    have he : e.typ ≠ extECH := hne e (by simp)
    simp only [List.map_cons, expandL, if_neg he, h1]
    rw [ih (e :: r) (List.Sublist.cons e h2) h3 (fun x hx => hne x (by simp [hx]))]
    rfl

theorem filter_of_sublist : ∀ (S L : List RawExt), S.Sublist L → (L.map (·.typ)).Nodup →
    L.filter (fun e => (S.map (·.typ)).contains e.typ) = S := by
  intro S L h
  induction h with
  | slnil => intro _; rfl
  | @cons S L a h ih =>
    intro hnd
    have hnd' : (L.map (·.typ)).Nodup := (List.nodup_cons.1 (by simpa using hnd)).2
    have ha : a.typ ∉ L.map (·.typ) := (List.nodup_cons.1 (by simpa using hnd)).1
    have hnot : (S.map (·.typ)).contains a.typ = false := by
      apply Bool.eq_false_iff.2
      intro hc
      have : a.typ ∈ S.map (·.typ) := by simpa using hc
      obtain ⟨x, hx, hxe⟩ := List.mem_map.1 this
      exact ha (List.mem_map.2 ⟨x, h.subset hx, hxe⟩)
    rw [List.filter_cons, hnot]
    simpa using ih hnd'
  | @cons_cons S L a h ih =>
    intro hnd
    have hnd' : (L.map (·.typ)).Nodup := (List.nodup_cons.1 (by simpa using hnd)).2
    have ha : a.typ ∉ L.map (·.typ) := (List.nodup_cons.1 (by simpa using hnd)).1
    rw [List.filter_cons]
    have hyes : ((a :: S).map (·.typ)).contains a.typ = true := by simp
    rw [hyes]
    simp only [if_true]
    have hcongr : L.filter (fun e => ((a :: S).map (·.typ)).contains e.typ)
        = L.filter (fun e => (S.map (·.typ)).contains e.typ) := by
      apply List.filter_congr
      intro x hx
      have hxne : x.typ ≠ a.typ := by
        intro heq; exact ha (heq ▸ List.mem_map.2 ⟨x, hx, rfl⟩)
      simp [hxne]
    rw [hcongr, ih hnd']

/-! ## compressible classes -/

theorem compressible_cases {r : Bool} {t : Nat} (h : compressible r t = true) :
    t = 5 ∨ t = 10 ∨ t = 13 ∨ t = 50 ∨ t = 16 ∨ t = 43 ∨ t = 44 ∨ t = 51 ∨ t = 45 := by
  simp only [compressible, Bool.or_eq_true, Bool.and_eq_true, beq_iff_eq] at h
  omega

theorem compressible_not_special {r : Bool} {t : Nat} (h : compressible r t = true) :
    innerOmitted t = false ∧ t ≠ extPSK ∧ t ≠ extOuterExts ∧ t ≠ extECH ∧ t ≠ extSNI ∧ t < 65536 := by
  rcases compressible_cases h with h | h | h | h | h | h | h | h | h <;> subst h <;>
    simp [innerOmitted, extPSK, extOuterExts, extECH, extSNI]

/-- the shape of an inner hello's extension list: plain extensions, then the compressible block,
then (optionally) pre_shared_key — as `marshalMsg` lays them out. -/
structure Split (reorder : Bool) (exts pre blk post : List RawExt) : Prop where
  split : exts = pre ++ blk ++ post
  pre_plain : ∀ e ∈ pre, compressible reorder e.typ = false ∧ e.typ ≠ extPSK ∧ innerOmitted e.typ = false ∧
    e.typ ≠ extOuterExts
  blk_cmp : ∀ e ∈ blk, compressible reorder e.typ = true
  post_psk : ∀ e ∈ post, e.typ = extPSK

theorem filter_all {α} (p : α → Bool) (l : List α) (h : ∀ x ∈ l, p x = true) : l.filter p = l :=
  List.filter_eq_self.2 h

theorem filter_none {α} (p : α → Bool) (l : List α) (h : ∀ x ∈ l, p x = false) : l.filter p = [] := by
  apply List.filter_eq_nil_iff.2
  intro x hx; simp [h x hx]

theorem encodeInnerExts_split {reorder : Bool} {exts pre blk post : List RawExt}
    (ot : Option (List Nat)) (hr : ot.isSome = reorder) (hs : Split reorder exts pre blk post) :
    encodeInnerExts exts ot =
      pre ++ (if (listedTypes (blk.map (·.typ)) ot).isEmpty then []
              else [outerExtsExt (listedTypes (blk.map (·.typ)) ot)]) ++ post := by
  have hpsk : extPSK = 41 := rfl
  have hblk : ∀ e ∈ blk, innerOmitted e.typ = false ∧ e.typ ≠ extPSK :=
    fun e he => ⟨(compressible_not_special (hs.blk_cmp e he)).1, (compressible_not_special (hs.blk_cmp e he)).2.1⟩
  have hpost : ∀ e ∈ post, innerOmitted e.typ = false ∧ compressible reorder e.typ = false := by
    intro e he
    have := hs.post_psk e he
    rw [this]
    cases reorder <;> simp [innerOmitted, compressible, extPSK]
  unfold encodeInnerExts
  simp only [hr]
  have hkept : exts.filter (fun e => !innerOmitted e.typ) = pre ++ blk ++ post := by
    rw [hs.split]
    apply filter_all
    intro x hx
    simp only [List.mem_append] at hx
    rcases hx with (hx | hx) | hx
    · simp [(hs.pre_plain x hx).2.2.1]
    · simp [(hblk x hx).1]
    · simp [(hpost x hx).1]
  rw [hkept]
  have h1 : (pre ++ blk ++ post).filter (fun e => !compressible reorder e.typ && e.typ != extPSK) = pre := by
    rw [List.filter_append, List.filter_append]
    rw [filter_all _ pre (by intro x hx; simp [(hs.pre_plain x hx).1, (hs.pre_plain x hx).2.1])]
    rw [filter_none _ blk (by intro x hx; simp [hs.blk_cmp x hx])]
    rw [filter_none _ post (by intro x hx; simp [hs.post_psk x hx])]
    simp
  have h2 : (pre ++ blk ++ post).filter (fun e => compressible reorder e.typ) = blk := by
    rw [List.filter_append, List.filter_append]
    rw [filter_none _ pre (by intro x hx; simp [(hs.pre_plain x hx).1])]
    rw [filter_all _ blk (by intro x hx; simp [hs.blk_cmp x hx])]
    rw [filter_none _ post (by intro x hx; simp [(hpost x hx).2])]
    simp
  have h3 : (pre ++ blk ++ post).filter (fun e => e.typ == extPSK) = post := by
    rw [List.filter_append, List.filter_append]
    rw [filter_none _ pre (by intro x hx; simp [(hs.pre_plain x hx).2.1])]
    rw [filter_none _ blk (by intro x hx; simp [(hblk x hx).2])]
    rw [filter_all _ post (by intro x hx; simp [hs.post_psk x hx])]
    simp
  rw [h1, h2, h3]

/-! ## header of the encoded inner hello -/

theorem all_zero_replicate (k : Nat) : (List.replicate k (0 : UInt8)).all (· == 0) = true := by
  simp

theorem decode_header (outer : Hello) (vr suites comp eb pad : Bytes)
    (hvr : vr.length = 34) (hs : suites.length < 65536) (hc : comp.length < 256) (he : eb.length < 65536) :
    decodeInner outer (vr ++ vec8 [] ++ vec16 suites ++ vec8 comp ++ vec16 eb ++ pad) =
      if !pad.all (· == 0) then .err .invalidInner else
      match reconAux outer.exts eb.length eb with
      | .err x => .err x
      | .ok es => finalChecks ⟨vr, outer.sid, suites, comp, es⟩ := by
  unfold decodeInner
  simp only [List.append_assoc]
  have h1 : take? 34 (vr ++ (vec8 [] ++ (vec16 suites ++ (vec8 comp ++ (vec16 eb ++ pad))))) =
      some (vr, vec8 [] ++ (vec16 suites ++ (vec8 comp ++ (vec16 eb ++ pad)))) := by
    have := take?_append vr (vec8 [] ++ (vec16 suites ++ (vec8 comp ++ (vec16 eb ++ pad))))
    rwa [hvr] at this
  rw [h1]
  simp only
  rw [readVec8_vec8 [] _ (by simp)]
  simp only [List.isEmpty_nil, Bool.not_true, Bool.false_eq_true, if_false]
  rw [readVec16_vec16 _ _ hs]
  simp only
  rw [readVec8_vec8 _ _ hc]
  simp only
  rw [readVec16_vec16 _ _ he]
  rfl

end Ech
