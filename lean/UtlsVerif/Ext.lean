import UtlsVerif.Wire
import UtlsVerif.Sni
/-!
# Ext — the built-in `TLSExtension` types of uTLS: `Len()`, `Read()`, `Write()`

One constructor per extension type of /repo/u_tls_extensions.go, u_ech.go, u_pre_shared_key.go,
u_session_ticket.go. `Ext.len` transcribes `Len()`, `Ext.read` the bytes `Read()` writes (with the
code's truncating `byte(x>>8), byte(x)` length fields and its early exits), `write` the decoder
`Write()` selected by `ExtensionFromID` (over `cryptobyte`-style readers). Field values are plain
naturals / byte lists; Go's fixed-width fields are the subsets named in `Ext.WF`.
-/
namespace Ext
open Wire

/-- outcome of `Read(b)`: `(n, err)` classes. -/
inductive ReadRes where
  | ok (bs : Bytes)        -- (Len, io.EOF), the bytes written
  | short                  -- (0, io.ErrShortBuffer)
  | eof0                   -- (0, io.EOF): nothing to write
  | err (cls : String)     -- (0, other error)
  deriving DecidableEq, Repr

inductive Ext where
  | sni (name : Bytes)
  | statusRequest
  | supportedCurves (curves : List Nat)
  | supportedPoints (points : List Nat)
  | sigAlgs (algs : List Nat)
  | statusRequestV2
  | sigAlgsCert (algs : List Nat)
  | alpn (protos : List Bytes)
  | alps (newCodePoint : Bool) (protos : List Bytes)
  | sct
  | generic (id : Nat) (data : Bytes)
  | ems
  | grease (value : Nat) (body : Bytes)
  | padding (paddingLen : Nat) (willPad : Bool)
  | compressCert (algs : List Nat)
  | keyShare (shares : List (Nat × Bytes))
  | quicTP (marshalled : Bytes)
  | pskModes (modes : List Nat)
  | supportedVersions (versions : List Nat)
  | cookie (cookie : Bytes)
  | npn
  | renegInfo (data : Bytes)
  | channelId (old : Bool)
  | recordSizeLimit (limit : Nat)
  | tokenBinding (major minor : Nat) (params : List Nat)
  | delegatedCreds (algs : List Nat)
  | sessionTicket (ticket : Bytes)
  /-- `fake`: FakePreSharedKeyExtension, else UtlsPreSharedKeyExtension (`sessionSet`: e.Session != nil). -/
  | psk (fake omitEmpty sessionSet : Bool) (ids : List (Bytes × Nat)) (binders : List Bytes)
  /-- GREASE ECH after `init()`: the frozen draws. -/
  | greaseECH (kdf aead configId : Nat) (enc payload : Bytes)
  deriving DecidableEq, Repr

/-- `uint8`-length-prefixed strings, concatenated (ALPN / ALPS protocol lists, binders). -/
def encVec8s : List Bytes → Bytes
  | [] => []
  | x :: xs => vec8 x ++ encVec8s xs

def encShares : List (Nat × Bytes) → Bytes
  | [] => []
  | (g, d) :: xs => u16 g ++ vec16 d ++ encShares xs

def encIdentities : List (Bytes × Nat) → Bytes
  | [] => []
  | (label, age) :: xs => vec16 label ++ u32 age ++ encIdentities xs

def vec8sLen (xs : List Bytes) : Nat := (xs.map fun x => 1 + x.length).sum
def sharesLen (xs : List (Nat × Bytes)) : Nat := (xs.map fun x => 4 + x.2.length).sum
def identitiesLen (xs : List (Bytes × Nat)) : Nat := (xs.map fun x => 2 + x.1.length + 4).sum

/-- `pskExtLen`. -/
def pskExtLen (ids : List (Bytes × Nat)) (binders : List Bytes) : Nat :=
  if ids.isEmpty || binders.isEmpty then 0 else 4 + 2 + identitiesLen ids + 2 + vec8sLen binders

open Ext in
/-- extension code point written in the first two bytes. -/
def typeId : Ext → Nat
  | sni _ => 0 | statusRequest => 5 | supportedCurves _ => 10 | supportedPoints _ => 11
  | sigAlgs _ => 13 | statusRequestV2 => 17 | sigAlgsCert _ => 50 | alpn _ => 16
  | alps new _ => if new then 17613 else 17513
  | sct => 18 | generic id _ => id | ems => 23 | grease v _ => v | padding _ _ => 21
  | compressCert _ => 27 | keyShare _ => 51 | quicTP _ => 57 | pskModes _ => 45
  | supportedVersions _ => 43 | cookie _ => 44 | npn => 13172 | renegInfo _ => 65281
  | channelId old => if old then 30031 else 30032
  | recordSizeLimit _ => 28 | tokenBinding _ _ _ => 24 | delegatedCreds _ => 34
  | sessionTicket _ => 35 | psk _ _ _ _ _ => 41 | greaseECH _ _ _ _ _ => 65037

open Ext in
/-- the value the code stores (truncated to 16 bits) in the extension-length field. -/
def lenField : Ext → Nat
  | sni name => (Sni.hostnameInSNI name).length + 5
  | statusRequest => 5
  | supportedCurves c => 2 + 2 * c.length
  | supportedPoints p => 1 + p.length
  | sigAlgs a => 2 + 2 * a.length
  | statusRequestV2 => 9
  | sigAlgsCert a => 2 + 2 * a.length
  | alpn ps => vec8sLen ps + 2
  | alps _ ps => vec8sLen ps + 2
  | sct => 0
  | generic _ d => d.length
  | ems => 0
  | grease _ b => b.length
  | padding n _ => n
  | compressCert a => 2 * a.length + 1
  | keyShare s => sharesLen s + 2
  | quicTP m => m.length
  | pskModes m => m.length + 1
  | supportedVersions v => 2 * v.length + 1
  | cookie c => 2 + c.length
  | npn => 0
  | renegInfo d => 1 + d.length
  | channelId _ => 0
  | recordSizeLimit _ => 2
  | tokenBinding _ _ p => 3 + p.length
  | delegatedCreds a => 2 + 2 * a.length
  | sessionTicket t => t.length
  | psk _ _ _ ids binders => pskExtLen ids binders - 4
  | greaseECH _ _ _ enc payload => 1 + 4 + 1 + 2 + enc.length + 2 + payload.length

open Ext in
/-- the bytes `Read` writes after the 4-byte header (inner prefixes truncated like the code does). -/
def body : Ext → Bytes
  | sni name =>
    let h := Sni.hostnameInSNI name
    u16 (h.length + 3) ++ [0] ++ u16 h.length ++ h
  | statusRequest => [1, 0, 0, 0, 0]
  | supportedCurves c => u16 (2 * c.length) ++ encU16s c
  | supportedPoints p => u8 p.length ++ encU8s p
  | sigAlgs a => u16 (2 * a.length) ++ encU16s a
  | statusRequestV2 => [0, 7, 2, 0, 4, 0, 0, 0, 0]
  | sigAlgsCert a => u16 (2 * a.length) ++ encU16s a
  | alpn ps => u16 (vec8sLen ps) ++ encVec8s ps
  | alps _ ps => u16 (vec8sLen ps) ++ encVec8s ps
  | sct => []
  | generic _ d => d
  | ems => []
  | grease _ b => b
  | padding n _ => List.replicate n 0
  | compressCert a => u8 (2 * a.length) ++ encU16s a
  | keyShare s => u16 (sharesLen s) ++ encShares s
  | quicTP m => m
  | pskModes m => u8 m.length ++ encU8s m
  | supportedVersions v => u8 (2 * v.length) ++ encU16s v
  | cookie c => u16 c.length ++ c
  | npn => []
  | renegInfo d => u8 d.length ++ d
  | channelId _ => []
  | recordSizeLimit l => u16 l
  | tokenBinding ma mi p => [b ma, b mi] ++ u8 p.length ++ encU8s p
  | delegatedCreds a => u16 (2 * a.length) ++ encU16s a
  | sessionTicket t => t
  | psk _ _ _ ids binders =>
    u16 (identitiesLen ids) ++ encIdentities ids ++ u16 (vec8sLen binders) ++ encVec8s binders
  | greaseECH kdf aead cid enc payload =>
    [0] ++ u16 kdf ++ u16 aead ++ [b cid] ++ u16 enc.length ++ enc ++ u16 payload.length ++ payload

open Ext in
/-- `Len()`. -/
def len : Ext → Nat
  | sni name => let h := Sni.hostnameInSNI name; if h.length = 0 then 0 else 4 + 2 + 1 + 2 + h.length
  | statusRequest => 9
  | supportedCurves c => 6 + 2 * c.length
  | supportedPoints p => 5 + p.length
  | sigAlgs a => 6 + 2 * a.length
  | statusRequestV2 => 13
  | sigAlgsCert a => 6 + 2 * a.length
  | alpn ps => 6 + vec8sLen ps
  | alps _ ps => 6 + vec8sLen ps
  | sct => 4
  | generic _ d => 4 + d.length
  | ems => 4
  | grease _ bd => 4 + bd.length
  | padding n willPad => if willPad = true then 4 + n else 0
  | compressCert a => 4 + 1 + 2 * a.length
  | keyShare s => 4 + 2 + sharesLen s
  | quicTP m => 4 + m.length
  | pskModes m => 4 + 1 + m.length
  | supportedVersions v => 4 + 1 + 2 * v.length
  | cookie c => 6 + c.length
  | npn => 4
  | renegInfo d => 5 + d.length
  | channelId _ => 4
  | recordSizeLimit _ => 6
  | tokenBinding _ _ p => 2 + 2 + 2 + 1 + p.length
  | delegatedCreds a => 6 + 2 * a.length
  | sessionTicket t => 4 + t.length
  | psk fake _ sessionSet ids binders => if fake = true ∨ sessionSet = true then pskExtLen ids binders else 0
  | greaseECH _ _ _ enc payload => 2 + 2 + 1 + 4 + 1 + 2 + enc.length + 2 + payload.length

/-- `validHashLen`: hash sizes of the TLS 1.3 suites (SHA-256, SHA-384). -/
def validBinderLen (n : Nat) : Bool := n == 32 || n == 48

/-- `(Utls|Fake)PreSharedKeyExtension.Read` before `readPskIntoBytes` looks at the buffer. -/
def pskEarly (fake omitEmpty sessionSet : Bool) (ids : List (Bytes × Nat)) (binders : List Bytes) : Option ReadRes :=
  if omitEmpty = false ∧ (if fake = true ∨ sessionSet = true then pskExtLen ids binders else 0) = 0 then
    some (.err "empty-psk")
  else if fake = false ∧ sessionSet = false then some .eof0   -- real PSK without a session: `Len() = 0`, nothing written
  else if fake = true ∧ (binders.all fun x => validBinderLen x.length) = false then some (.err "binder-size")
  else if pskExtLen ids binders = 0 then some .eof0
  else none

open Ext in
/-- exits taken *before* the buffer-size check. -/
def early : Ext → Option ReadRes
  | sni name => if (Sni.hostnameInSNI name).length = 0 then some .eof0 else none
  | padding _ willPad => if willPad = true then none else some .eof0
  | psk fake omitEmpty sessionSet ids binders => pskEarly fake omitEmpty sessionSet ids binders
  | _ => none

open Ext in
/-- error exits taken *after* the buffer-size check. -/
def late : Ext → Option ReadRes
  | compressCert a => if 2 * a.length > 255 then some (.err "too-many") else none
  | pskModes m => if m.length > 255 then some (.err "too-many") else none
  | supportedVersions v => if 2 * v.length > 255 then some (.err "too-many") else none
  | _ => none

/-- the size the buffer is compared with (`e.Len()`, except PSK which compares with `pskExtLen`). -/
def need : Ext → Nat
  | .psk _ _ _ ids binders => pskExtLen ids binders
  | e => len e

/-- `Read(b)` with `len(b) = buf`. -/
def read (e : Ext) (buf : Nat) : ReadRes :=
  match early e with
  | some r => r
  | none =>
    if buf < need e then .short
    else match late e with
      | some r => r
      | none => .ok (u16 (typeId e) ++ u16 (lenField e) ++ body e)

/-! ## Decoders (`Write`) -/

def isGreaseU16 (v : Nat) : Bool := (v / 256 == v % 256) && (v % 16 == 10)
def greasePlaceholder : Nat := 0x0a0a
def unGrease (v : Nat) : Nat := if isGreaseU16 v then greasePlaceholder else v

/-- `for !s.Empty() { ReadUint8LengthPrefixed; reject empty }` (ALPN/ALPS). -/
def decVec8sFuel (allowEmpty : Bool) : Nat → Bytes → Option (List Bytes)
  | _, [] => some []
  | 0, _ => none
  | fuel + 1, bs =>
    match readVec8 bs with
    | none => none
    | some (x, r) => if !allowEmpty && x.isEmpty then none else (decVec8sFuel allowEmpty fuel r).map (x :: ·)

def decVec8s (allowEmpty : Bool) (bs : Bytes) : Option (List Bytes) := decVec8sFuel allowEmpty bs.length bs

def decSharesFuel : Nat → Bytes → Option (List (Nat × Bytes))
  | _, [] => some []
  | 0, _ => none
  | fuel + 1, bs =>
    match readU16 bs with
    | none => none
    | some (g, r) =>
      match readVec16 r with
      | none => none
      | some (d, r') => if d.isEmpty then none else (decSharesFuel fuel r').map ((g, d) :: ·)

inductive WriteRes where
  | ok (e : Ext)
  | err
  /-- `ExtensionFromID` has no writer for this id: the fingerprinter falls back to `GenericExtension`
  (blunt mimicry) or fails. -/
  | unknown
  deriving DecidableEq, Repr

open Ext in
/-- `ExtensionFromID(id)` followed by `Write(body)`. `realPSK` selects the PSK flavour as
`ReadTLSExtensions` does. Fields that `Write` regenerates randomly (ECH enc) are left empty here and
compared by length (see `norm`). -/
def write (realPSK : Bool) (id : Nat) (bd : Bytes) : WriteRes :=
  if id = 0 then (
    match readVec16 bd with
    | some (list, _) => if list.isEmpty then .err else sniNames list.length list false
    | none => .err
  ) else
  if id = 5 then (
    match readU8 bd with
    | some (t, r) =>
      match readVec16 r with
      | some (_, r') =>
        match readVec16 r' with
        | some _ => if t = 1 then .ok statusRequest else .err
        | none => .err
      | none => .err
    | none => .err
  ) else
  if id = 10 then (
    match readVec16 bd with
    | some (l, _) => if l.isEmpty then .err else
        match decU16s l with
        | some cs => .ok (supportedCurves (cs.map unGrease))
        | none => .err
    | none => .err
  ) else
  if id = 11 then (
    match readVec8 bd with
    | some (l, _) => if l.isEmpty then .err else .ok (supportedPoints (decU8s l))
    | none => .err
  ) else
  if id = 13 then (u16List bd sigAlgs
  ) else
  if id = 50 then (u16List bd sigAlgsCert
  ) else
  if id = 34 then (u16List bd delegatedCreds
  ) else
  if id = 16 then (protoList bd alpn
  ) else
  if id = 17513 then (protoList bd (alps false)
  ) else
  if id = 17613 then (protoList bd (alps true)
  ) else
  if id = 17 then (
    match readVec16 bd with
    | some (inner, _) =>
      match readU8 inner with
      | some (t, _) => if t = 2 then .ok statusRequestV2 else .err
      | none => .err
    | none => .err
  ) else
  if id = 18 then (.ok sct
  ) else
  if id = 21 then (.ok (padding 0 false)     -- policy := BoringPaddingStyle, recomputed at marshal time
  ) else
  if id = 23 then (.ok ems
  ) else
  if id = 24 then (
    match bd with
    | ma :: mi :: r =>
      match readVec8 r with
      | some (p, _) => .ok (tokenBinding ma.toNat mi.toNat (decU8s p))
      | none => .err
    | _ => .err
  ) else
  if id = 27 then (
    match readVec8 bd with
    | some (l, _) =>
      match decU16s l with
      | some a => .ok (compressCert a)
      | none => .err
    | none => .err
  ) else
  if id = 28 then (
    match readU16 bd with
    | some (l, _) => .ok (recordSizeLimit l)
    | none => .err
  ) else
  if id = 35 then (.ok (sessionTicket [])
  ) else
  if id = 41 then (
    if realPSK then .ok (psk false false false [] [])
    else fakePsk bd
  ) else
  if id = 43 then (
    match readVec8 bd with
    | some (l, _) => if l.isEmpty then .err else
        match decU16s l with
        | some vs => .ok (supportedVersions (vs.map unGrease))
        | none => .err
    | none => .err
  ) else
  if id = 45 then (
    match readVec8 bd with
    | some (l, _) => .ok (pskModes (decU8s l))
    | none => .err
  ) else
  if id = 51 then (
    match readVec16 bd with
    | some (l, _) =>
      match decSharesFuel l.length l with
      | some ss => .ok (keyShare (ss.map fun (g, d) =>
          if unGrease g = greasePlaceholder then (greasePlaceholder, d) else (g, [])))
      | none => .err
    | none => .err
  ) else
  if id = 57 then (.unknown      -- QUICTransportParametersExtension has no Write
  ) else
  if id = 13172 then (.ok npn
  ) else
  if id = 30031 then (.ok (channelId true)
  ) else
  if id = 30032 then (.ok (channelId false)
  ) else
  if id = 65037 then (greaseEch bd
  ) else
  if id = 65281 then (.ok (renegInfo [])
  ) else
  (if isGreaseU16 id then .ok (grease greasePlaceholder bd) else .unknown
  )
where
  u16List (bd : Bytes) (mk : List Nat → Ext) : WriteRes :=
    match readVec16 bd with
    | some (l, _) => if l.isEmpty then .err else
        match decU16s l with
        | some a => .ok (mk a)
        | none => .err
    | none => .err
  protoList (bd : Bytes) (mk : List Bytes → Ext) : WriteRes :=
    match readVec16 bd with
    | some (l, _) => if l.isEmpty then .err else
        match decVec8s false l with
        | some ps => .ok (mk ps)
        | none => .err
    | none => .err
  /-- the name-list loop of `SNIExtension.Write`. -/
  sniNames : Nat → Bytes → Bool → WriteRes
    | _, [], _ => .ok (.sni [])
    | 0, _, _ => .err
    | fuel + 1, bs, seen =>
      match readU8 bs with
      | none => .err
      | some (t, r) =>
        match readVec16 r with
        | none => .err
        | some (nm, r') =>
          if nm.isEmpty then .err
          else if t ≠ 0 then sniNames fuel r' seen
          else if seen then .err
          else if nm.getLast? = some 46 then .err
          else sniNames fuel r' true
  greaseEch (bd : Bytes) : WriteRes :=
    match readU8 bd with
    | some (t, r) => if t ≠ 0 then .err else
      match readU16 r with
      | some (kdf, r) =>
        match readU16 r with
        | some (aead, r) =>
          if ¬ (kdf = 1 ∨ kdf = 2 ∨ kdf = 3) then .err
          else if ¬ (aead = 1 ∨ aead = 2 ∨ aead = 3) then .err
          else match readU8 r with
            | some (cid, r) =>
              match readVec16 r with
              | some (enc, r) =>
                match readVec16 r with
                | some (payload, _) =>
                  -- (after the repair of D01) a payload shorter than the AEAD tag is rejected
                  if payload.length < 16 then .err
                  else
                    -- an empty key is indistinguishable from "unset": `init()` then draws a fresh 32-byte X25519 key
                    let encLen := if enc.length = 0 then 32 else enc.length
                    .ok (.greaseECH kdf aead cid (List.replicate encLen 0) (List.replicate payload.length 0))
                | none => .err
              | none => .err
            | none => .err
        | none => .err
      | none => .err
    | none => .err
  /-- `FakePreSharedKeyExtension.Write` with its `uint16` countdown arithmetic. -/
  fakePsk (bd : Bytes) : WriteRes :=
    match readU16 bd with
    | none => .err
    | some (idsLen, r) =>
      match pskIds bd.length idsLen r [] with
      | none => .err
      | some (ids, r) =>
        match readU16 r with
        | none => .err
        | some (bl, r) =>
          match pskBinders bd.length bl r [] with
          | none => .err
          | some binders => .ok (.psk true false false ids binders)
  pskIds : Nat → Nat → Bytes → List (Bytes × Nat) → Option (List (Bytes × Nat) × Bytes)
    | 0, _, _, _ => none
    | fuel + 1, remaining, s, acc =>
      if remaining = 0 then some (acc, s) else
      match readU16 s with
      | none => none
      | some (il, s) =>
        let remaining := (remaining + 65536 - 2) % 65536
        if il > remaining then none else
        match take? il s with
        | none => none
        | some (label, s) =>
          let remaining := (remaining + 65536 - il) % 65536
          match readU32 s with
          | none => none
          | some (age, s) => pskIds fuel ((remaining + 65536 - 4) % 65536) s (acc ++ [(label, age)])
  pskBinders : Nat → Nat → Bytes → List Bytes → Option (List Bytes)
    | 0, _, _, _ => none
    | fuel + 1, remaining, s, acc =>
      if remaining = 0 then some acc else
      match readU8 s with
      | none => none
      | some (bl, s) =>
        let remaining := (remaining + 65536 - 1) % 65536
        if bl > remaining then none else
        match take? bl s with
        | none => none
        | some (binder, s) => pskBinders fuel ((remaining + 65536 - bl) % 65536) s (acc ++ [binder])

open Ext in
/-- the documented normalisation of `Write ∘ Read`: what survives a decode of the extension's own bytes. -/
def norm : Ext → Ext
  | sni _ => sni []                                   -- the name is never copied
  | supportedCurves c => supportedCurves (c.map unGrease)
  | supportedVersions v => supportedVersions (v.map unGrease)
  | grease _ bd => grease greasePlaceholder bd        -- value becomes the placeholder
  | padding _ _ => padding 0 false                    -- recomputed by policy
  | keyShare s => keyShare (s.map fun (g, d) =>
      if unGrease g = greasePlaceholder then (greasePlaceholder, d) else (g, []))
  | renegInfo _ => renegInfo []                       -- body ignored
  | sessionTicket _ => sessionTicket []               -- contents dropped
  | psk false _ _ _ _ => psk false false false [] []  -- real PSK: body ignored
  | psk true _ _ ids binders => psk true false false ids binders
  | greaseECH kdf aead cid enc payload =>             -- bytes regenerated at the same sizes
      greaseECH kdf aead cid (List.replicate enc.length 0) (List.replicate payload.length 0)
  | e => e

open Ext in
/-- field values within wire limits. -/
def WF : Ext → Prop
  | sni name => (Sni.hostnameInSNI name).length + 5 < 65536
  | supportedCurves c => c ≠ [] ∧ 2 + 2 * c.length < 65536 ∧ ∀ x ∈ c, x < 65536
  | supportedPoints p => p ≠ [] ∧ p.length < 256 ∧ ∀ x ∈ p, x < 256
  | sigAlgs a => a ≠ [] ∧ 2 + 2 * a.length < 65536 ∧ ∀ x ∈ a, x < 65536
  | sigAlgsCert a => a ≠ [] ∧ 2 + 2 * a.length < 65536 ∧ ∀ x ∈ a, x < 65536
  | delegatedCreds a => a ≠ [] ∧ 2 + 2 * a.length < 65536 ∧ ∀ x ∈ a, x < 65536
  | alpn ps => ps ≠ [] ∧ vec8sLen ps + 2 < 65536 ∧ ∀ p ∈ ps, p ≠ [] ∧ p.length < 256
  | alps _ ps => ps ≠ [] ∧ vec8sLen ps + 2 < 65536 ∧ ∀ p ∈ ps, p ≠ [] ∧ p.length < 256
  | generic id d => id < 65536 ∧ d.length < 65536
  | grease v bd => isGreaseU16 v = true ∧ v < 65536 ∧ bd.length < 65536
  | padding n _ => n < 65536
  | compressCert a => 2 * a.length < 256 ∧ ∀ x ∈ a, x < 65536
  | keyShare s => sharesLen s + 2 < 65536 ∧ ∀ x ∈ s, x.1 < 65536 ∧ x.2 ≠ []
  | quicTP m => m.length < 65536
  | pskModes m => m.length < 256 ∧ ∀ x ∈ m, x < 256
  | supportedVersions v => v ≠ [] ∧ 2 * v.length < 256 ∧ ∀ x ∈ v, x < 65536
  | cookie c => 2 + c.length < 65536
  | renegInfo d => d.length < 256
  | recordSizeLimit l => l < 65536
  | tokenBinding ma mi p => ma < 256 ∧ mi < 256 ∧ p.length < 256 ∧ ∀ x ∈ p, x < 256
  | sessionTicket t => t.length < 65536
  | psk _ _ _ ids binders =>
      pskExtLen ids binders < 65536 ∧ (∀ x ∈ ids, x.2 < 4294967296) ∧ ∀ x ∈ binders, x.length < 256
  | greaseECH kdf aead cid enc payload =>
      (kdf = 1 ∨ kdf = 2 ∨ kdf = 3) ∧ (aead = 1 ∨ aead = 2 ∨ aead = 3) ∧ cid < 256 ∧
      16 ≤ payload.length ∧ 10 + enc.length + payload.length < 65536
  | _ => True

end Ext
