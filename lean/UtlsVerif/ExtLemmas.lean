import UtlsVerif.Ext
/-! Codec round-trip lemmas used by the C08 property theorems. -/
namespace Ext
open Wire

@[simp] theorem encVec8s_length (xs : List Bytes) : (encVec8s xs).length = vec8sLen xs := by
  induction xs with
  | nil => rfl
  | cons x xs ih => simp [encVec8s, vec8sLen, ih] at *

@[simp] theorem encShares_length (xs : List (Nat × Bytes)) : (encShares xs).length = sharesLen xs := by
  induction xs with
  | nil => rfl
  | cons x xs ih =>
    obtain ⟨g, d⟩ := x
    simp [encShares, sharesLen, ih] at *; omega

@[simp] theorem encIdentities_length (xs : List (Bytes × Nat)) : (encIdentities xs).length = identitiesLen xs := by
  induction xs with
  | nil => rfl
  | cons x xs ih =>
    obtain ⟨l, a⟩ := x
    simp [encIdentities, identitiesLen, ih] at *; omega

theorem decVec8sFuel_succ (allowEmpty : Bool) (fuel : Nat) (bs : Bytes) (h : bs ≠ []) :
    decVec8sFuel allowEmpty (fuel + 1) bs =
      match readVec8 bs with
      | none => none
      | some (x, r) => if !allowEmpty && x.isEmpty then none else (decVec8sFuel allowEmpty fuel r).map (x :: ·) := by
  cases bs with
  | nil => exact absurd rfl h
  | cons c cs => rfl

theorem decSharesFuel_succ (fuel : Nat) (bs : Bytes) (h : bs ≠ []) :
    decSharesFuel (fuel + 1) bs =
      match readU16 bs with
      | none => none
      | some (g, r) =>
        match readVec16 r with
        | none => none
        | some (d, r') => if d.isEmpty then none else (decSharesFuel fuel r').map ((g, d) :: ·) := by
  cases bs with
  | nil => exact absurd rfl h
  | cons c cs => rfl

theorem decVec8sFuel_enc (ps : List Bytes) (h : ∀ p ∈ ps, p ≠ [] ∧ p.length < 256) :
    ∀ fuel, (encVec8s ps).length ≤ fuel → decVec8sFuel false fuel (encVec8s ps) = some ps := by
  induction ps with
  | nil => intro fuel _; cases fuel <;> rfl
  | cons p ps ih =>
    intro fuel hf
    obtain ⟨hne, hlt⟩ := h p (by simp)
    have ih' := ih (fun q hq => h q (by simp [hq]))
    cases fuel with
    | zero => simp [encVec8s, vec8sLen] at hf
    | succ fuel =>
      have hnn : encVec8s (p :: ps) ≠ [] := by simp [encVec8s, vec8, u8]
      rw [decVec8sFuel_succ _ _ _ hnn]
      simp only [encVec8s] at hf ⊢
      rw [readVec8_vec8 p (encVec8s ps) hlt]
      have : p.isEmpty = false := by cases p <;> simp_all
      simp only [this, Bool.not_false, Bool.and_false, Bool.false_eq_true, if_false]
      rw [ih' fuel (by simp at hf ⊢; omega)]
      rfl

theorem decVec8s_enc (ps : List Bytes) (h : ∀ p ∈ ps, p ≠ [] ∧ p.length < 256) :
    decVec8s false (encVec8s ps) = some ps :=
  decVec8sFuel_enc ps h _ (Nat.le_refl _)

theorem decSharesFuel_enc (ss : List (Nat × Bytes))
    (h : ∀ x ∈ ss, x.1 < 65536 ∧ x.2 ≠ [] ∧ x.2.length < 65536) :
    ∀ fuel, (encShares ss).length ≤ fuel → decSharesFuel fuel (encShares ss) = some ss := by
  induction ss with
  | nil => intro fuel _; cases fuel <;> rfl
  | cons x ss ih =>
    intro fuel hf
    obtain ⟨g, d⟩ := x
    obtain ⟨hg, hne, hlt⟩ := h (g, d) (by simp)
    have ih' := ih (fun q hq => h q (by simp [hq]))
    cases fuel with
    | zero => simp [encShares, sharesLen] at hf
    | succ fuel =>
      have hnn : encShares ((g, d) :: ss) ≠ [] := by simp [encShares, u16]
      rw [decSharesFuel_succ _ _ hnn]
      simp only [encShares, List.append_assoc] at hf ⊢
      rw [readU16_u16]
      simp only
      rw [readVec16_vec16 d _ hlt]
      have : d.isEmpty = false := by cases d <;> simp_all
      simp only [this, Bool.false_eq_true, if_false, Nat.mod_eq_of_lt hg]
      rw [ih' fuel (by simp at hf ⊢; omega)]
      rfl

theorem identitiesLen_cons (l : Bytes) (a : Nat) (xs : List (Bytes × Nat)) :
    identitiesLen ((l, a) :: xs) = 2 + l.length + 4 + identitiesLen xs := by
  simp [identitiesLen]

theorem vec8sLen_cons (x : Bytes) (xs : List Bytes) : vec8sLen (x :: xs) = 1 + x.length + vec8sLen xs := by
  simp [vec8sLen]

theorem pskIds_enc (ids : List (Bytes × Nat)) (rest : Bytes)
    (hlen : identitiesLen ids < 65536) (hage : ∀ x ∈ ids, x.2 < 4294967296) :
    ∀ fuel acc, ids.length < fuel →
      write.pskIds fuel (identitiesLen ids) (encIdentities ids ++ rest) acc = some (acc ++ ids, rest) := by
  induction ids with
  | nil =>
    intro fuel acc hf
    cases fuel with
    | zero => simp at hf
    | succ f => simp [write.pskIds, identitiesLen, encIdentities]
  | cons x ids ih =>
    intro fuel acc hf
    obtain ⟨l, a⟩ := x
    rw [identitiesLen_cons] at hlen
    have ha := hage (l, a) (by simp)
    cases fuel with
    | zero => simp at hf
    | succ f =>
      unfold write.pskIds
      rw [identitiesLen_cons]
      rw [if_neg (by omega)]
      simp only [encIdentities, vec16, List.append_assoc]
      rw [readU16_u16, Nat.mod_eq_of_lt (by omega)]
      simp only
      have e1 : (2 + l.length + 4 + identitiesLen ids + 65536 - 2) % 65536 = l.length + 4 + identitiesLen ids := by omega
      rw [e1, if_neg (by omega), take?_append]
      simp only
      have e2 : (l.length + 4 + identitiesLen ids + 65536 - l.length) % 65536 = 4 + identitiesLen ids := by omega
      rw [e2, readU32_u32, Nat.mod_eq_of_lt ha]
      simp only
      have e3 : (4 + identitiesLen ids + 65536 - 4) % 65536 = identitiesLen ids := by omega
      rw [e3, ih (by omega) (fun y hy => hage y (by simp [hy])) f _ (by simp at hf; omega)]
      simp

theorem pskBinders_enc (bs : List Bytes)
    (hlen : vec8sLen bs < 65536) (hb : ∀ x ∈ bs, x.length < 256) :
    ∀ fuel acc, bs.length < fuel →
      write.pskBinders fuel (vec8sLen bs) (encVec8s bs) acc = some (acc ++ bs) := by
  induction bs with
  | nil =>
    intro fuel acc hf
    cases fuel with
    | zero => simp at hf
    | succ f => simp [write.pskBinders, vec8sLen]
  | cons x bs ih =>
    intro fuel acc hf
    rw [vec8sLen_cons] at hlen
    have hx := hb x (by simp)
    cases fuel with
    | zero => simp at hf
    | succ f =>
      unfold write.pskBinders
      rw [vec8sLen_cons, if_neg (by omega)]
      simp only [encVec8s, vec8, List.append_assoc]
      rw [readU8_u8, Nat.mod_eq_of_lt hx]
      simp only
      have e1 : (1 + x.length + vec8sLen bs + 65536 - 1) % 65536 = x.length + vec8sLen bs := by omega
      rw [e1, if_neg (by omega), take?_append]
      simp only
      have e2 : (x.length + vec8sLen bs + 65536 - x.length) % 65536 = vec8sLen bs := by omega
      rw [e2, ih (by omega) (fun y hy => hb y (by simp [hy])) f _ (by simp at hf; omega)]
      simp

theorem length_le_identitiesLen (ids : List (Bytes × Nat)) : ids.length ≤ identitiesLen ids := by
  induction ids with
  | nil => simp
  | cons x xs ih => obtain ⟨l, a⟩ := x; rw [identitiesLen_cons]; simp; omega

theorem length_le_vec8sLen (bs : List Bytes) : bs.length ≤ vec8sLen bs := by
  induction bs with
  | nil => simp
  | cons x xs ih => rw [vec8sLen_cons]; simp; omega

theorem share_le_sharesLen (ss : List (Nat × Bytes)) : ∀ x ∈ ss, 4 + x.2.length ≤ sharesLen ss := by
  induction ss with
  | nil => intro x hx; cases hx
  | cons y ys ih =>
    intro x hx
    have e : sharesLen (y :: ys) = 4 + y.2.length + sharesLen ys := by simp [sharesLen]
    rw [e]
    rcases List.mem_cons.mp hx with rfl | h
    · omega
    · have := ih x h; omega

theorem unGrease_lt (v : Nat) (h : v < 65536) : unGrease v < 65536 := by
  unfold unGrease greasePlaceholder; split <;> omega

end Ext
