import UtlsVerif.Wire
/-!
# Forge — model of `MakeConnWithCompleteHandshake` (u_conn.go) for property C27

Transcribes the function as it is written *now* (after the D16 repair): table lookup
(`cipherSuiteByID` over `utlsSupportedCipherSuites`), `keysFromMasterSecret` (which panics in
`prfForVersion` for any version other than TLS 1.0/1.1/1.2), the two branches building the
client-write and server-write cipher instances (with the `isRead` flag each constructor call
receives), the `isClient` branch assigning them to the `in`/`out` half connections,
`prepareCipherSpec`, `changeCipherSpec` (whose error the function ignores) and `incSeq`.

Cryptography is symbolic: a cipher instance is *which slice of the key block it was built from and
which flag the constructor received* (`CipherInst`); what the primitives do with that enters the
theorems as an explicit hypothesis (`Crypto.Lawful`), never as an axiom.

The second half models the record sizes `Conn.Write` produces on a forged connection
(`maxPayloadSizeForWrite`, the TLS 1.0 CBC 1/n-1 split, per-kind record expansion) so that the
driver can predict the observed record lengths.
-/
namespace Forge
open Wire

/-! ## Rows of the cipher-suite tables (values regenerated into `Gen.Suites`) -/

/-- dynamic kind of what a row's constructors build (`cipher.Stream`, `cbcMode`, `aead`);
`none` = the row has neither constructor, `other` = a type `halfConn` does not know. -/
inductive Kind where
  | aead | cbc | stream | none | other
  deriving DecidableEq, Repr, Inhabited

structure Row where
  id : Nat
  keyLen : Nat
  macLen : Nat
  ivLen : Nat
  flags : Nat
  /-- `flags & suiteTLS12 != 0` -/
  tls12Only : Bool
  /-- `flags & suiteSHA384 != 0` -/
  sha384 : Bool
  /-- `cs.cipher != nil`, `cs.mac != nil`, `cs.aead != nil` -/
  hasCipher : Bool
  hasMac : Bool
  hasAead : Bool
  kind : Kind
  /-- `BlockSize()` of the CBC mode (0 otherwise) -/
  blockSize : Nat
  /-- `mac(key).Size()` (0 without a mac) -/
  macSize : Nat
  /-- `aead.explicitNonceLen()` and `aead.Overhead()` (0 otherwise) -/
  explicitNonce : Nat
  overhead : Nat
  /-- every constructor the row has ran without panicking on inputs of the declared lengths -/
  ctorOk : Bool
  /-- `cipher(key, iv, false)` and `cipher(key, iv, true)` have different dynamic types -/
  flagMatters : Bool
  deriving DecidableEq, Repr, Inhabited

def versionTLS10 : Nat := 0x0301
def versionTLS11 : Nat := 0x0302
def versionTLS12 : Nat := 0x0303
def versionTLS13 : Nat := 0x0304

/-! ## The forged connection -/

/-- which half of the key block (`clientKey`/`serverKey`, `clientIV`/`serverIV`,
`clientMAC`/`serverMAC`): the RFC 5246 §6.3 `client_write_*` / `server_write_*` material. -/
inductive Side where
  | client | server
  deriving DecidableEq, Repr, Inhabited

/-- one call of a cipher constructor: the key and IV it received and, for `cs.cipher`, the
`isRead` flag (`none` for `cs.aead`, which takes no flag). -/
structure CipherInst where
  key : Side
  iv : Side
  isRead : Option Bool
  deriving DecidableEq, Repr, Inhabited

/-- the fields of `halfConn` the function touches. -/
structure HalfSt where
  version : Nat := 0
  cipher : Option CipherInst := none
  mac : Option Side := none
  nextCipher : Option CipherInst := none
  nextMac : Option Side := none
  seq : Nat := 0
  deriving DecidableEq, Repr, Inhabited

def HalfSt.prepareCipherSpec (h : HalfSt) (version : Nat) (c : CipherInst) (m : Option Side) : HalfSt :=
  { h with version := version, nextCipher := some c, nextMac := m }

/-- `changeCipherSpec`; on `nextCipher == nil || version == VersionTLS13` it returns an error and
changes nothing — `MakeConnWithCompleteHandshake` ignores that error. -/
def HalfSt.changeCipherSpec (h : HalfSt) : HalfSt :=
  if h.nextCipher.isNone || h.version == versionTLS13 then h
  else { h with cipher := h.nextCipher, mac := h.nextMac, nextCipher := none, nextMac := none, seq := 0 }

/-- `incSeq`: `none` = the "sequence number wraparound" panic. -/
def HalfSt.incSeq (h : HalfSt) : Option HalfSt :=
  if h.seq + 1 < 2 ^ 64 then some { h with seq := h.seq + 1 } else none

structure Conn where
  inH : HalfSt
  outH : HalfSt
  isClient : Bool
  vers : Nat
  suite : Nat
  haveVers : Bool
  handshakeComplete : Bool
  deriving DecidableEq, Repr, Inhabited

inductive Outcome where
  | nil
  | panic (why : String)
  | conn (c : Conn)
  deriving DecidableEq, Repr, Inhabited

/-- `prfForVersion` accepts exactly these (anything else: `panic("unknown version")`). -/
def versionKnown (v : Nat) : Bool := v == versionTLS10 || v == versionTLS11 || v == versionTLS12

/-- the `cs != nil` branch of `MakeConnWithCompleteHandshake`. -/
def makeRow (r : Row) (version : Nat) (isClient : Bool) : Outcome :=
  -- keysFromMasterSecret → prfForVersion
  if !versionKnown version then .panic "unknown version" else
  -- `if cs.cipher != nil { … cs.cipher(…, isRead) … cs.mac(…) } else { … cs.aead(…) }`
  let built : Except String ((CipherInst × Option Side) × (CipherInst × Option Side)) :=
    if r.hasCipher then
      if !r.hasMac then .error "nil mac constructor"
      else .ok ((⟨.client, .client, some (!isClient)⟩, some .client),
                (⟨.server, .server, some isClient⟩, some .server))
    else if !r.hasAead then .error "nil aead constructor"
    else .ok ((⟨.client, .client, none⟩, none), (⟨.server, .server, none⟩, none))
  match built with
  | .error e => .panic e
  | .ok (clientC, serverC) =>
    if !r.ctorOk then .panic "cipher constructor" else
    -- `if isClient { in ← server, out ← client } else { in ← client, out ← server }`
    let (i, o) := if isClient then (serverC, clientC) else (clientC, serverC)
    let inH := (({} : HalfSt).prepareCipherSpec version i.1 i.2).changeCipherSpec
    let outH := (({} : HalfSt).prepareCipherSpec version o.1 o.2).changeCipherSpec
    match inH.incSeq, outH.incSeq with
    | some inH, some outH =>
      .conn { inH := inH, outH := outH, isClient := isClient, vers := version, suite := r.id,
              haveVers := true, handshakeComplete := true }
    | _, _ => .panic "sequence number wraparound"

/-- `cipherSuiteByID`: first row of the table with this id. -/
def lookup (tbl : List Row) (id : Nat) : Option Row := tbl.find? (·.id == id)

/-- `MakeConnWithCompleteHandshake` (table = `utlsSupportedCipherSuites` at the time of the call). -/
def make (tbl : List Row) (id version : Nat) (isClient : Bool) : Outcome :=
  match lookup tbl id with
  | none => .nil
  | some r => makeRow r version isClient

/-! ## Wiring predicate -/

/-- the writing half `w` of one connection and the reading half `r` of its peer fit together:
same key, same IV, same MAC key, same version, same sequence number; the writer was built with
`isRead = false` and the reader with `isRead = true` (or neither constructor takes a flag: AEAD);
nothing is left pending. -/
def wired (w r : HalfSt) : Bool :=
  match w.cipher, r.cipher with
  | some wc, some rc =>
    wc.key == rc.key && wc.iv == rc.iv &&
    ((wc.isRead == some false && rc.isRead == some true) || (wc.isRead == none && rc.isRead == none)) &&
    w.mac == r.mac && w.version == r.version && w.seq == r.seq &&
    w.nextCipher.isNone && r.nextCipher.isNone
  | _, _ => false

/-- versions the suite is valid for (property C27: TLS 1.0–1.2, and only 1.2 for `suiteTLS12` rows). -/
def validVersion (r : Row) (v : Nat) : Bool :=
  versionKnown v && (!r.tls12Only || v == versionTLS12)

/-- decidable well-formedness of a table row — only what the theorems use: the constructors the
taken branch calls exist and do not panic on inputs of the declared lengths, and they build a
cipher of a kind `halfConn` knows (for CBC with a real block size). Nothing is demanded of the
declared key/MAC/IV lengths themselves. Discharged over the regenerated tables by `decide` in
`Props/C27.lean`. -/
def Row.WF (r : Row) : Bool :=
  r.ctorOk &&
  (if r.hasCipher then r.hasMac && (r.kind == .cbc || r.kind == .stream) else r.hasAead && r.kind == .aead) &&
  (if r.kind == .cbc then 0 < r.blockSize else true)

/-! ## Symbolic record protection -/

/-- record protection over a forged half connection: `init` is "run the constructors"
(`cs.cipher`/`cs.aead` and `cs.mac`) on the selected key material, `seal`/`open` are
`halfConn.encrypt`/`decrypt` of one record payload at a given sequence number. -/
structure Crypto (σ ρ : Type) where
  init : CipherInst → Option Side → Nat → σ
  enc : σ → Nat → Bytes → σ × ρ
  dec : σ → Nat → ρ → Option (σ × Bytes)

/-- the cryptographic assumption, as an explicit hypothesis: an encrypting instance
(`isRead = false`) and a decrypting instance (`isRead = true`) built from the same key, IV and MAC
key (or two AEAD instances from the same key and nonce prefix) are in step (`M`), and a record
sealed by an instance is opened to the same payload by an instance in step with it, at the same
sequence number, leaving them in step. -/
structure Crypto.Lawful {σ ρ : Type} (C : Crypto σ ρ) (M : σ → σ → Prop) : Prop where
  init_cipher : ∀ k i m v, M (C.init ⟨k, i, some false⟩ m v) (C.init ⟨k, i, some true⟩ m v)
  init_aead : ∀ k i m v, M (C.init ⟨k, i, none⟩ m v) (C.init ⟨k, i, none⟩ m v)
  step : ∀ w r n p, M w r → ∃ r', C.dec r n (C.enc w n p).2 = some (r', p) ∧ M (C.enc w n p).1 r'

variable {σ ρ : Type}

/-- seal a list of record payloads, incrementing the sequence number per record. -/
def sendAll (C : Crypto σ ρ) (w : σ) (seq : Nat) : List Bytes → List ρ
  | [] => []
  | p :: ps => let (w', c) := C.enc w seq p; c :: sendAll C w' (seq + 1) ps

/-- open a list of records; `none` = some record was rejected (bad record MAC). -/
def recvAll (C : Crypto σ ρ) (r : σ) (seq : Nat) : List ρ → Option (List Bytes)
  | [] => some []
  | c :: cs =>
    match C.dec r seq c with
    | none => none
    | some (r', p) => (recvAll C r' (seq + 1) cs).map (p :: ·)

def HalfSt.inst (C : Crypto σ ρ) (h : HalfSt) : Option σ :=
  h.cipher.map fun c => C.init c h.mac h.version

/-- payloads written through half `w` and read through half `r` of the peer. -/
def transfer (C : Crypto σ ρ) (w r : HalfSt) (ps : List Bytes) : Option (List Bytes) :=
  match w.inst C, r.inst C with
  | some ws, some rs => recvAll C rs r.seq (sendAll C ws w.seq ps)
  | _, _ => none

/-- a forged end starts every cipher from the state its constructor produces. Two forged ends
agree on that; a peer that went through the *real* handshake does not when the cipher carries
state across records: the RC4 keystream has advanced past the Finished message, and in TLS 1.0 the
CBC IV is the last ciphertext block of the Finished record. (AEAD and CBC with explicit IVs carry
nothing but the sequence number, which the function sets.) Outside property C27 — used only to
predict the `forge_real` family. -/
def carriesState (r : Row) (v : Nat) : Bool :=
  r.kind == .stream || (r.kind == .cbc && v == versionTLS10)

/-! ## Record sizes of `Conn.Write` on a forged connection -/

def recordHeaderLen : Nat := 5
def maxPlaintext : Nat := 16384
def tcpMSSEstimate : Nat := 1208
def recordSizeBoostThreshold : Nat := 128 * 1024

/-- `halfConn.explicitNonceLen`. -/
def explicitNonceLen (r : Row) (v : Nat) : Nat :=
  match r.kind with
  | .aead => r.explicitNonce
  | .cbc => if v ≥ versionTLS11 then r.blockSize else 0
  | _ => 0

/-- length field of the record `halfConn.encrypt` produces for an `m`-byte payload. -/
def sealedLen (r : Row) (v m : Nat) : Nat :=
  match r.kind with
  | .stream => m + r.macSize
  | .aead => explicitNonceLen r v + m + r.overhead
  | .cbc => explicitNonceLen r v + (m + r.macSize) + (r.blockSize - (m + r.macSize) % r.blockSize)
  | _ => m

/-- `payloadBytes` of `maxPayloadSizeForWrite` (TLS ≤ 1.2). -/
def payloadBytes (r : Row) (v : Nat) : Nat :=
  let pb := tcpMSSEstimate - recordHeaderLen - explicitNonceLen r v
  match r.kind with
  | .stream => pb - r.macSize
  | .aead => pb - r.overhead
  | .cbc => (pb - (pb &&& (r.blockSize - 1))) - 1 - r.macSize
  | _ => pb

/-- the counters `maxPayloadSizeForWrite` reads and updates. -/
structure WriteSt where
  bytesSent : Nat := 0
  packetsSent : Nat := 0
  deriving Repr, DecidableEq

/-- `maxPayloadSizeForWrite(recordTypeApplicationData)` with dynamic record sizing enabled
(`Config{}`), returning the updated packet counter. -/
def maxPayload (r : Row) (v : Nat) (st : WriteSt) : Nat × WriteSt :=
  if st.bytesSent ≥ recordSizeBoostThreshold then (maxPlaintext, st)
  else
    let pkt := st.packetsSent
    let st' := { st with packetsSent := pkt + 1 }
    if pkt > 1000 then (maxPlaintext, st')
    else (min (payloadBytes r v * (pkt + 1)) maxPlaintext, st')

/-- the loop of `writeRecordLocked`: record length fields produced for `len` bytes.
`none` = no progress possible (a zero maximum payload; never with real rows). -/
def writeRecords (r : Row) (v : Nat) : Nat → WriteSt → Nat → Option (List Nat × WriteSt)
  | _, st, 0 => some ([], st)
  | 0, _, _ + 1 => none
  | fuel + 1, st, len + 1 =>
    let (mx, st1) := maxPayload r v st
    let m := min (len + 1) mx
    if m = 0 then none else
    let n := sealedLen r v m
    let st2 := { st1 with bytesSent := st1.bytesSent + recordHeaderLen + n }
    match writeRecords r v fuel st2 (len + 1 - m) with
    | none => none
    | some (rs, st3) => some (n :: rs, st3)

/-- `Conn.Write(b)` with `len(b) = len`: TLS 1.0 with a block cipher splits off a 1-byte record. -/
def connWrite (r : Row) (v : Nat) (st : WriteSt) (len : Nat) : Option (List Nat × WriteSt) :=
  if len > 1 && v == versionTLS10 && r.kind == .cbc then
    match writeRecords r v 1 st 1 with
    | none => none
    | some (r1, st1) =>
      match writeRecords r v (len - 1) st1 (len - 1) with
      | none => none
      | some (r2, st2) => some (r1 ++ r2, st2)
  else writeRecords r v len st len

end Forge
