import UtlsVerif.Wire
/-!
# ForgePoll — record reassembly of a reader that polls with read deadlines (C27 follow-up)

`Conn.readRecordOrCCS` reads the 5-byte header, then the announced body, through
`readFromUntil`, which accumulates whatever the transport delivers in `c.rawInput`. A read
deadline that expires is a *temporary* `net.Error`: it is returned to the caller but not stored
in `c.in.err`, and `rawInput` keeps the partial record; a later `Read` carries on from there.

Model: the reader's state is the unconsumed bytes; `chunk bs` = the transport delivers `bs`
(in whatever pieces TCP chooses), `timeout` = a deadline expires (anywhere: between records,
inside a header, inside a body). `drain` extracts every complete record.
-/
namespace ForgePoll
open Wire

/-- body length announced by a record header (bytes 3 and 4), if five bytes are there. -/
def recLen : Bytes → Option Nat
  | _ :: _ :: _ :: hi :: lo :: _ => some (hi.toNat * 256 + lo.toNat)
  | _ => none

/-- the first complete record of the buffer and what follows it. -/
def split1 (buf : Bytes) : Option (Bytes × Bytes) :=
  match recLen buf with
  | none => none
  | some n => if 5 + n ≤ buf.length then some (buf.take (5 + n), buf.drop (5 + n)) else none

theorem split1_lt {buf r rest : Bytes} (h : split1 buf = some (r, rest)) : rest.length < buf.length := by
  unfold split1 at h
  cases hn : recLen buf with
  | none => simp [hn] at h
  | some n =>
    simp only [hn] at h
    by_cases hle : 5 + n ≤ buf.length
    · rw [if_pos hle] at h
      injection h with h; injection h with _ h2
      subst h2; simp; omega
    · rw [if_neg hle] at h; cases h

/-- every complete record at the front of the buffer, and the partial rest (`rawInput`). -/
def drain (buf : Bytes) : List Bytes × Bytes :=
  match h : split1 buf with
  | none => ([], buf)
  | some (r, rest) =>
    have : rest.length < buf.length := split1_lt h
    let d := drain rest
    (r :: d.1, d.2)
termination_by buf.length

inductive Ev where
  | chunk (bs : Bytes)
  | timeout

structure Rd where
  /-- `c.rawInput`: bytes received and not yet consumed as complete records -/
  raw : Bytes := []
  /-- records delivered to the record layer so far -/
  out : List Bytes := []

/-- one event at the reader. A timeout changes nothing: the error is temporary, so it is not
stored, and the partial record stays buffered. -/
def Rd.step (s : Rd) : Ev → Rd
  | .timeout => s
  | .chunk bs => let d := drain (s.raw ++ bs); { raw := d.2, out := s.out ++ d.1 }

/-- the bytes the transport delivered, in order. -/
def bytesOf : List Ev → Bytes
  | [] => []
  | .chunk bs :: es => bs ++ bytesOf es
  | .timeout :: es => bytesOf es

/-! ## lemmas -/

theorem recLen_append {a : Bytes} {n : Nat} (b : Bytes) (h : recLen a = some n) : recLen (a ++ b) = some n := by
  match a, h with
  | _ :: _ :: _ :: hi :: lo :: _, h => simpa [recLen] using h

theorem recLen_some_len {a : Bytes} {n : Nat} (h : recLen a = some n) : 5 ≤ a.length := by
  match a, h with
  | _ :: _ :: _ :: _ :: _ :: _, _ => simp

theorem split1_append {a r rest : Bytes} (b : Bytes) (h : split1 a = some (r, rest)) :
    split1 (a ++ b) = some (r, rest ++ b) := by
  unfold split1 at h ⊢
  cases hn : recLen a with
  | none => simp [hn] at h
  | some n =>
    simp only [hn] at h
    rw [recLen_append b hn]
    by_cases hle : 5 + n ≤ a.length
    · rw [if_pos hle] at h
      injection h with h; injection h with h1 h2
      have hle' : 5 + n ≤ (a ++ b).length := by simp; omega
      simp only [if_pos hle']
      rw [List.take_append_of_le_length hle, List.drop_append_of_le_length hle, h1, h2]
    · rw [if_neg hle] at h; cases h

theorem drain_none {a : Bytes} (h : split1 a = none) : drain a = ([], a) := by
  rw [drain]; split
  · rfl
  · rename_i h'; rw [h] at h'; cases h'

theorem drain_some {a r rest : Bytes} (h : split1 a = some (r, rest)) :
    drain a = (r :: (drain rest).1, (drain rest).2) := by
  rw [drain]; split
  · rename_i h'; rw [h] at h'; cases h'
  · rename_i r' rest' h'; rw [h] at h'; injection h' with h'; injection h' with h1 h2; subst h1 h2; rfl

/-- draining is independent of where the byte stream is cut. -/
theorem drain_append (a b : Bytes) :
    drain (a ++ b) = ((drain a).1 ++ (drain ((drain a).2 ++ b)).1, (drain ((drain a).2 ++ b)).2) := by
  generalize hk : a.length = k
  induction k using Nat.strongRecOn generalizing a with
  | _ k ih =>
    cases hs : split1 a with
    | none => simp [drain_none hs]
    | some p =>
      obtain ⟨r, rest⟩ := p
      have hlt : rest.length < k := hk ▸ split1_lt hs
      rw [drain_some hs, drain_some (split1_append b hs), ih rest.length hlt rest rfl]
      simp

end ForgePoll
