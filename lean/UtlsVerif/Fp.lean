import UtlsVerif.Preset
import UtlsVerif.Import
/-!
# Fp — fingerprint → apply: `Fingerprinter.FingerprintClientHello` (= `Import.rawClientHello`) of a
recorded ClientHello, the resulting `ClientHelloSpec` handed to `ApplyPreset` on a fresh connection
(`Preset.applyPreset`), `MarshalClientHelloNoECH` (`Hello.marshalNoECH`).

`toSpec` forgets nothing: an `Import.Spec` entry is an extension value plus the padding policy
installed on it; `MarshalClientHelloNoECH` consults the policy of the first padding extension only.
-/
namespace Fp
open Wire Ext Ext.Ext Hello

def polOf : Import.PadPolicy → PadPolicy
  | .unset => .none
  | .boring => .boring
  | .padTo n => .padTo n

/-- `GetPaddingLen` of the first `UtlsPaddingExtension` of the list. -/
def firstPol : List Import.SExt → PadPolicy
  | [] => .none
  | x :: r => if Import.isPadding x.ext then polOf x.pol else firstPol r

def toSpec (s : Import.Spec) : Preset.Spec :=
  { suites := s.suites, comp := s.comp, vmin := s.vmin, vmax := s.vmax, exts := s.exts.map (·.ext), pol := firstPol s.exts }

/-- the TLS record the Fingerprinter is given: `22 ‖ 0x0301 ‖ uint16 length ‖ handshake message`. -/
def record (raw : Bytes) : Bytes := [22, 3, 1] ++ u16 raw.length ++ raw

/-- fingerprint the recorded hello, apply the spec on a fresh connection with material `m`, marshal. -/
def roundtrip (raw : Bytes) (blunt pad realPSK : Bool) (m : Preset.Material) : Option Bytes :=
  match Import.rawClientHello (record raw) blunt pad realPSK with
  | .ok s =>
    match Preset.applyPreset (toSpec s) m with
    | some st =>
      match marshalNoECH st.f st.pol st.exts with
      | .ok bs => some bs
      | .err _ => none
    | none => none
  | _ => none

/-! ## one spec value as the receiver of several `FromRaw` calls -/

/-- `chs.FromRaw(raw, …)` on a receiver that already holds a spec: `*chs = ClientHelloSpec{}` comes
first, so nothing of the previous content — neither its fields nor the storage of its extension list —
takes part. -/
def fromRawInto (_recv : Import.Spec) (raw : Bytes) (blunt realPSK : Bool) : Import.ImportRes :=
  Import.fromRaw raw blunt realPSK

/-- a caller that fingerprints the records `raws` one after the other with the same receiver and keeps
every result by value: the results, in call order (a failed call leaves the receiver as it was reset —
empty — for the next one). -/
def fromRawSeq (recv : Import.Spec) (blunt realPSK : Bool) : List Bytes → List Import.ImportRes
  | [] => []
  | raw :: rest =>
    let r := fromRawInto recv raw blunt realPSK
    let recv' := match r with
      | .ok s => s
      | _ => { suites := [], comp := [], vmin := 0, vmax := 0, exts := [] }
    r :: fromRawSeq recv' blunt realPSK rest

/-! ## which hellos the round trip is claimed for -/

/-- the extensions that are on the wire, as values: what `MarshalClientHelloNoECH` emitted. -/
def emitted (f : HelloFields) (pol : PadPolicy) (xs : List Ext) : List Ext :=
  (xs.map (updatePad pol (unpaddedLen f xs))).filter emits

/-- `ApplyPreset` gives the second GREASE extension the one-byte body `[0]` (and refuses a third): a
hello produced by uTLS (or Chrome) has exactly that. -/
def greaseBodiesOK : Nat → List Ext → Bool
  | _, [] => true
  | seen, grease _ bd :: r => (seen == 0 || (seen == 1 && bd == [0])) && greaseBodiesOK (seen + 1) r
  | seen, _ :: r => greaseBodiesOK seen r

/-- `ExtensionFromID` knows a `Write` for it (everything but GenericExtension, QUIC transport
parameters, cookie). -/
def hasWriterB : Ext → Bool
  | generic _ _ => false
  | quicTP _ => false
  | cookie _ => false
  | _ => true

/-- per-extension conditions under which the imported value can stand for the captured one:
key shares only for groups `ApplyPreset` can generate keys for (the captured key itself is never copied),
an initial-handshake renegotiation_info (empty), a GREASE-ECH with a key (open C08 finding otherwise),
a pre_shared_key only in the flavour that copies identities and binders (`RealPSKResumption` off). -/
def extRepr (realPSK : Bool) : Ext → Bool
  | keyShare ss => ss.all fun x => isGreaseU16 x.1 || Preset.hybridGroup x.1 || Preset.ecdheGroup x.1
  | renegInfo d => d.isEmpty
  | greaseECH _ _ _ enc _ => !enc.isEmpty
  | psk fake _ _ _ _ => fake && !realPSK
  | _ => true

/-- the spec `FromRaw` computes for a hello with fields `f` whose wire extensions are `es` and whose
handshake message has `rawLen` bytes (`fingerprint_formula` proves this). -/
def fpSpec (f : HelloFields) (es : List Ext) (rawLen : Nat) : Preset.Spec :=
  { suites := f.cipherSuites.map unGrease, comp := f.compressionMethods,
    vmin := if es.any (fun e => typeId e == 43) then 0 else 0x0301,
    vmax := if es.any (fun e => typeId e == 43) then 0 else f.vers,
    exts := es.map norm,
    pol := if es.any isPadding then .padTo rawLen else .none }

/-- **representable**: a ClientHello (fields `f`, extension values `xs` as uTLS holds them) that the
round trip is claimed for: fields and emitted extensions within wire limits, at least one compression
method, every emitted extension of a type with a `Write` (or, with `blunt`, any type), the
per-extension conditions above, uTLS/Chrome GREASE bodies, and a legacy_version consistent with what the
hello advertises (`min(max advertised, TLS 1.2)`, what every uTLS-made and every browser hello has). -/
def representable (blunt realPSK : Bool) (f : HelloFields) (pol : PadPolicy) (xs : List Ext) : Bool :=
  let es := emitted f pol xs
  fieldsOK f && !f.compressionMethods.isEmpty && !xs.isEmpty && es.all extOKb &&
  es.all (fun e => hasWriterB e || blunt) && es.all (extRepr realPSK) && greaseBodiesOK 0 es &&
  match Preset.versRange (fpSpec f es 0) with
  | some (_, mx) => (if mx > 0x0303 then 0x0303 else mx) == f.vers
  | none => false

/-- what of an imported spec does not depend on the capture's per-connection material (so that the
spec of the regenerated hello can be compared with the spec of the capture): padding entries dropped
(presence and target follow the length), GREASE-ECH reduced to its cipher suite. -/
def coreExt : Ext → Ext
  | greaseECH k a _ _ _ => greaseECH k a 0 [] []
  | e => e

structure SpecCore where
  suites : List Nat
  comp : Bytes
  vmin : Nat
  vmax : Nat
  exts : List Ext
  deriving DecidableEq, Repr

def specCore (s : Import.Spec) : SpecCore :=
  { suites := s.suites, comp := s.comp, vmin := s.vmin, vmax := s.vmax,
    exts := ((s.exts.map (·.ext)).filter fun e => !Import.isPadding e).map coreExt }

end Fp
