import UtlsVerif.Fp
import UtlsVerif.PresetLemmas
import UtlsVerif.Props.C07
import UtlsVerif.Props.C05
/-!
# FpLemmas — helper lemmas for C06 (fingerprint → apply → marshal).

Part 1: the record of a marshalled hello is the reference encoding `C07.Hello.encode` of its emitted
extensions, hence (`C07.valid_gives_spec`) the fingerprint is the explicit spec `Fp.fpSpec`.
Part 2: `fillExts` on the normalised list, extension by extension, against the `shape` of the capture.
-/
namespace Fp
open Wire Ext Ext.Ext Hello Preset

/-! ## Part 1 — the fingerprint of a marshalled hello -/

theorem flatMap_emit_enc (l : List Ext) : l.flatMap emit = C07.encExts (l.filter emits) := by
  induction l with
  | nil => rfl
  | cons e r ih =>
    rw [List.flatMap_cons, List.filter_cons]
    rcases emit_cases e with h0 | ⟨_, hfr, _, _⟩
    · have : emits e = false := by unfold emits; simp [h0]
      simp [h0, this, ih]
    · by_cases hem : emit e = []
      · have : emits e = false := by unfold emits; simp [hem]
        simp [hem, this, ih]
      · have : emits e = true := (emits_iff e).mpr hem
        simp only [this, ↓reduceIte, C07.encExts]
        rw [hfr, ih, List.append_assoc]

theorem emitted_eq (f : HelloFields) (pol : PadPolicy) (xs : List Ext) :
    emitted f pol xs = (updated f pol xs).filter emits := rfl

/-- the captured record is the reference encoding of (fields, emitted extensions). -/
theorem record_encode {f : HelloFields} {pol : PadPolicy} {xs : List Ext} {bs : Bytes}
    (h : marshalNoECH f pol xs = .ok bs) (hx : xs.isEmpty = false) :
    record bs = C07.Hello.encode { recVer := 0x0301, hsVer := f.vers, random := f.random, sid := f.sessionId,
                                   suites := f.cipherSuites, comp := f.compressionMethods, exts := emitted f pol xs } := by
  obtain ⟨_, _, _, hbs, hX, hlen⟩ := marshal_ok_inv h
  rw [List.append_assoc] at hbs
  have htail : (if xs.isEmpty = true then [] else u16 (extensionsLen f pol xs)) ++ (updated f pol xs).flatMap emit
      = vec16 (C07.encExts (emitted f pol xs)) ++ [] := by
    rw [emitted_eq, ← flatMap_emit_enc]
    simp [hx, vec16, hX]
  rw [htail, header_as_msg] at hbs
  have hml : (msgBytes f (vec16 (C07.encExts (emitted f pol xs)) ++ [])).length = helloLen f pol xs := by
    rw [hbs] at hlen
    simp only [List.length_cons, List.length_append, u24_length] at hlen
    omega
  unfold record C07.Hello.encode C07.Hello.msg
  simp only
  have hm : msgBytes f (vec16 (C07.encExts (emitted f pol xs)) ++ []) =
      u16 f.vers ++ (f.random ++ (vec8 f.sessionId ++ (vec16 (encU16s f.cipherSuites) ++ (vec8 f.compressionMethods ++ (vec16 (C07.encExts (emitted f pol xs)) ++ []))))) := rfl
  rw [← hm, hml, hbs]
  have hl : (b 1 :: (u24 (helloLen f pol xs) ++ msgBytes f (vec16 (C07.encExts (emitted f pol xs)) ++ []))).length = helloLen f pol xs + 4 := by
    simp only [List.length_cons, List.length_append, u24_length, hml]; omega
  rw [hl]
  have b1 : b 1 = (1 : UInt8) := by decide
  have u769 : u16 769 = [3, 1] := by decide
  simp [b1, u769]

theorem hasWriterB_eq (e : Ext) : hasWriterB e = C08.hasWriter e := by cases e <;> rfl

/-- what is on the wire came out of a successful `Read`, and fits. -/
theorem emitted_facts {f : HelloFields} {pol : PadPolicy} {xs : List Ext} {bs : Bytes}
    (h : marshalNoECH f pol xs = .ok bs) :
    ∀ e ∈ emitted f pol xs, early e = none ∧ (body e).length < 65536 ∧ len e ≤ 65535 ∧ emits e = true := by
  obtain ⟨hpc, hel, _, _, _, _⟩ := marshal_ok_inv h
  intro e he
  rw [emitted_eq] at he
  obtain ⟨hmem, hem⟩ := List.mem_filter.mp he
  rcases emit_cases e with h0 | ⟨_, hfr, hl, hearly⟩
  · rw [(emits_iff e)] at hem; exact absurd h0 hem
  · have h1 := len_le_extsLen _ e hmem
    rw [extsLen_updated' f pol xs hpc] at h1
    have : (emit e).length = 4 + (body e).length := by rw [hfr]; simp; omega
    exact ⟨hearly, by omega, by omega, hem⟩

theorem isPadding_norm (e : Ext) : Import.isPadding (norm e) = isPadding e := by
  cases e <;> simp [norm, Import.isPadding, isPadding]
  case psk f o s i b => cases f <;> rfl

theorem firstPol_setPadTo (n : Nat) : ∀ es : List Ext,
    firstPol (Import.setPadTo n (es.map fun e => Import.ofWrite (norm e))) = if es.any isPadding then .padTo n else .none := by
  intro es
  induction es with
  | nil => rfl
  | cons e r ih =>
    simp only [List.map_cons, Import.setPadTo, Import.ofWrite, isPadding_norm, List.any_cons]
    by_cases hp : isPadding e = true
    · simp [hp, firstPol, isPadding_norm, polOf]
    · have hp' : isPadding e = false := by simpa using hp
      simp only [hp', Bool.false_eq_true, ↓reduceIte, firstPol, isPadding_norm, Bool.false_or]
      simp only [Import.ofWrite, isPadding_norm] at ih
      exact ih

theorem setPadTo_ext (n : Nat) (xs : List Import.SExt) : (Import.setPadTo n xs).map (·.ext) = xs.map (·.ext) := by
  induction xs with
  | nil => rfl
  | cons x xs ih =>
    unfold Import.setPadTo
    split
    · simp
    · simp [ih]

theorem padding_bound (e : Ext) (hp : isPadding e = true) (hearly : early e = none) (hlen : len e ≤ 65535) :
    ∃ n w, e = padding n w ∧ n < 65536 := by
  cases e with
  | padding n w =>
    refine ⟨n, w, rfl, ?_⟩
    simp only [len] at hlen
    split at hlen
    · omega
    · rename_i hw'
      simp only [early, hw', Bool.false_eq_true, ↓reduceIte] at hearly
      cases hearly
  | _ => simp [isPadding] at hp

theorem psk_flavour (realPSK : Bool) (e : Ext) (hrp : extRepr realPSK e = true) (hpsk : Import.isPsk e = true) :
    C08.realPskOf e = realPSK := by
  cases e with
  | psk fake om ss ids bd =>
    simp only [extRepr, Bool.and_eq_true, Bool.not_eq_true'] at hrp
    simp [C08.realPskOf, hrp.1, hrp.2]
  | _ => simp [Import.isPsk] at hpsk

/-- **the fingerprint of a marshalled hello is `fpSpec`** (no padding insertion). -/
theorem fingerprint_formula {f : HelloFields} {pol : PadPolicy} {xs : List Ext} {bs : Bytes} (blunt realPSK : Bool)
    (h : marshalNoECH f pol xs = .ok bs) (hf : fieldsOK f = true) (hx : xs.isEmpty = false)
    (hok : ∀ e ∈ emitted f pol xs, extOKb e = true ∧ hasWriterB e = true ∧ extRepr realPSK e = true) :
    ∃ s, Import.fromRaw (record bs) blunt realPSK = .ok s ∧ toSpec s = fpSpec f (emitted f pol xs) bs.length ∧
      s.exts.map (·.ext) = (emitted f pol xs).map norm := by
  have hfacts := emitted_facts h
  have hr := marshal_random_len h
  obtain ⟨_, hel, _, _, hX, _⟩ := marshal_ok_inv h
  simp only [fieldsOK, Bool.and_eq_true, decide_eq_true_eq] at hf
  obtain ⟨⟨⟨⟨hv, hsid⟩, hcs⟩, hcsa⟩, hcm⟩ := hf
  have hOK : C07.Hello.OK { recVer := 0x0301, hsVer := f.vers, random := f.random, sid := f.sessionId, suites := f.cipherSuites, comp := f.compressionMethods, exts := emitted f pol xs } realPSK := by
    refine ⟨by simp, hv, hr, hsid, by simp only; omega, ?_, hcm, ?_, ?_⟩
    · intro x hxm; have := List.all_eq_true.mp hcsa x hxm; simpa using this
    · simp only
      rw [emitted_eq, ← flatMap_emit_enc, hX]; omega
    · intro e he
      obtain ⟨hearly, hbody, hlen, _⟩ := hfacts e he
      obtain ⟨ho, hw, hrp⟩ := hok e he
      refine ⟨?_, by rw [← hasWriterB_eq]; exact hw, hearly, hbody, ?_, ?_⟩
      · apply extOKb_wf e ho
        by_cases hp : isPadding e = true
        · right; exact padding_bound e hp hearly hlen
        · left; simpa using hp
      · intro k a c enc p he' hemp
        subst he'
        simp [extRepr, hemp] at hrp
      · exact psk_flavour realPSK e hrp
  have hspec := C07.valid_gives_spec _ blunt realPSK hOK
  rw [← record_encode h hx] at hspec
  refine ⟨_, hspec, ?_, ?_⟩
  · unfold toSpec fpSpec
    simp only [setPadTo_ext, List.map_map, firstPol_setPadTo]
    have hl : (record bs).length - 5 = bs.length := by simp [record]
    rw [hl]
    simp [Function.comp_def, Import.ofWrite]
  · simp [setPadTo_ext, Function.comp_def, Import.ofWrite]

/-! ## Part 2 — shapes, extension by extension -/

/-- the non-padding sub-list. -/
def NP (l : List Ext) : List Ext := l.filter fun e => !isPadding e

/-- the shape entry of an extension *value* that is on the wire (what `shapeExt` computes from its
type and body, `shapeExt_eq`). -/
def shapeE : Ext → Nat × Bytes
  | sni _ => (0, [])
  | sessionTicket _ => (35, [])
  | psk _ _ _ _ _ => (41, [])
  | supportedCurves c => (10, vec16 (refU16s (c.map unGrease)))
  | supportedVersions v => (43, vec8 (refU16s (v.map unGrease)))
  | keyShare ss => (51, vec16 (refShares (ss.map fun x => if isGreaseU16 x.1 then (greasePlaceholder, x.2) else (x.1, []))))
  | greaseECH k a _ _ _ => (65037, [0] ++ u16 k ++ u16 a)
  | grease _ bd => (greasePlaceholder, bd)
  | e => (typeId e, body e)

/-- enough for the shape decoders to read the body back. -/
def shapeDec : Ext → Bool
  | supportedCurves c => 2 * c.length < 65536 && c.all (· < 65536)
  | supportedVersions v => 2 * v.length < 256 && v.all (· < 65536)
  | keyShare ss => sharesLen ss < 65536 && ss.all fun x => x.1 < 65536 && x.2.length < 65536
  | grease v _ => isGreaseU16 v
  | generic _ _ => false
  | _ => true

theorem decShares_enc (ss : List (Nat × Bytes)) (h : ∀ x ∈ ss, x.1 < 65536 ∧ x.2.length < 65536) :
    ∀ fuel, (encShares ss).length ≤ fuel → decShares fuel (encShares ss) = some ss := by
  induction ss with
  | nil => intro fuel _; cases fuel <;> rfl
  | cons x r ih =>
    intro fuel hf
    obtain ⟨g, d⟩ := x
    have hx := h (g, d) (by simp)
    have hr : ∀ y ∈ r, y.1 < 65536 ∧ y.2.length < 65536 := fun y hy => h y (by simp [hy])
    cases fuel with
    | zero => simp [encShares, u16] at hf
    | succ fuel =>
      have hne : encShares ((g, d) :: r) = u16 g ++ (vec16 d ++ encShares r) := by simp [encShares]
      rw [hne] at hf ⊢
      have hcons : ∃ a l, u16 g ++ (vec16 d ++ encShares r) = a :: l := ⟨_, _, rfl⟩
      obtain ⟨a, l, hal⟩ := hcons
      rw [hal]
      unfold decShares
      rw [← hal, readU16_u16, Nat.mod_eq_of_lt hx.1]
      simp only
      rw [readVec16_vec16 _ _ hx.2]
      simp only
      rw [ih hr fuel (by simp at hf ⊢; omega)]
      rfl

theorem grease_not_special (v : Nat) (h : isGreaseU16 v = true) :
    v ≠ 0 ∧ v ≠ 35 ∧ v ≠ 41 ∧ v ≠ 10 ∧ v ≠ 43 ∧ v ≠ 51 ∧ v ≠ 65037 ∧ v ≠ 21 := by
  refine ⟨?_, ?_, ?_, ?_, ?_, ?_, ?_, ?_⟩ <;> (intro hv; subst hv; exact absurd h (by decide))

theorem shapeExt_eq (e : Ext) (hnp : isPadding e = false) (hd : shapeDec e = true) :
    shapeExt (typeId e) (body e) = shapeE e := by
  cases e <;> try (simp [isPadding] at hnp; done)
  case generic id d => simp [shapeDec] at hd
  case supportedCurves c =>
    simp only [shapeDec, Bool.and_eq_true, decide_eq_true_eq] at hd
    have hb : body (supportedCurves c) = vec16 (encU16s c) ++ [] := by simp [body, vec16]
    have hall : ∀ x ∈ c, x < 65536 := fun x hx => by simpa using List.all_eq_true.mp hd.2 x hx
    simp only [typeId, shapeExt, hb]
    rw [readVec16_vec16 _ _ (by simp; omega)]
    simp [decU16s_encU16s c hall, shapeE]
  case supportedVersions v =>
    simp only [shapeDec, Bool.and_eq_true, decide_eq_true_eq] at hd
    have hb : body (supportedVersions v) = vec8 (encU16s v) ++ [] := by simp [body, vec8]
    have hall : ∀ x ∈ v, x < 65536 := fun x hx => by simpa using List.all_eq_true.mp hd.2 x hx
    simp only [typeId, shapeExt, hb]
    rw [readVec8_vec8 _ _ (by simp; omega)]
    simp [decU16s_encU16s v hall, shapeE]
  case keyShare ss =>
    simp only [shapeDec, Bool.and_eq_true, decide_eq_true_eq] at hd
    have hb : body (keyShare ss) = vec16 (encShares ss) ++ [] := by simp [body, vec16]
    have hall : ∀ x ∈ ss, x.1 < 65536 ∧ x.2.length < 65536 := fun x hx => by
      have := List.all_eq_true.mp hd.2 x hx; simpa using this
    simp only [typeId, shapeExt, hb]
    rw [readVec16_vec16 _ _ (by simp; omega)]
    have hdec := decShares_enc ss hall (encShares ss).length (Nat.le_refl _)
    simp only [Preset.encShares_length] at hdec
    simp [hdec, shapeE]
  case grease v bd =>
    simp only [shapeDec] at hd
    obtain ⟨h0, h35, h41, h10, h43, h51, hech, _⟩ := grease_not_special v hd
    simp [typeId, shapeExt, h0, h35, h41, h10, h43, h51, hech, shapeE, unGrease, hd, body]
  case greaseECH k a cid enc pl => simp [typeId, shapeExt, shapeE, body, u16]
  case alps nw ps => cases nw <;> simp [typeId, shapeExt, shapeE, unGrease, isGreaseU16]
  case channelId o => cases o <;> simp [typeId, shapeExt, shapeE, unGrease, isGreaseU16]
  all_goals simp [typeId, shapeExt, shapeE, unGrease, isGreaseU16]

/-! ### GREASE values and their placeholder -/

private theorem and_f0_mod (s : Nat) : s &&& 0xf0 = (s % 256) &&& 0xf0 := by
  have h : (0xf0 : Nat) = 0xff &&& 0xf0 := by decide
  rw [h, ← Nat.and_assoc]
  congr 1
  exact Nat.and_two_pow_sub_one_eq_mod s 8

/-- every connection GREASE value is GREASE-shaped (div/mod form of C04's `boring_is_grease`). -/
theorem boring_grease16 (s : Nat) : isGreaseU16 (Grease.boring s) = true := by
  have hlow : Grease.boring s = Grease.boring (s % 256) := by
    unfold Grease.boring
    rw [and_f0_mod s, and_f0_mod (s % 256), Nat.mod_mod]
  rw [hlow]
  have hall : (List.range 256).all (fun c => isGreaseU16 (Grease.boring c)) = true := by decide +kernel
  rw [List.all_eq_true] at hall
  exact hall _ (List.mem_range.mpr (Nat.mod_lt _ (by decide)))

theorem placeholder_grease : isGreaseU16 greasePlaceholder = true := by decide

theorem unGrease_of_grease (v : Nat) (h : isGreaseU16 v = true) : unGrease v = greasePlaceholder := by
  simp [unGrease, h]

theorem unGrease_of_not (v : Nat) (h : isGreaseU16 v = false) : unGrease v = v := by
  simp [unGrease, h]

/-- substitute-then-normalise = normalise, on an already normalised list. -/
theorem unGrease_subst (g : Nat) (hg : isGreaseU16 g = true) (l : List Nat) :
    (substG g (l.map unGrease)).map unGrease = l.map unGrease := by
  induction l with
  | nil => rfl
  | cons x r ih =>
    simp only [List.map_cons, substG] at ih ⊢
    rw [ih]
    congr 1
    by_cases hx : isGreaseU16 x = true
    · simp [isGreaseV, unGrease_of_grease x hx, placeholder_grease, unGrease_of_grease g hg]
    · have hx' : isGreaseU16 x = false := by simpa using hx
      simp [isGreaseV, unGrease_of_not x hx', hx']

/-- the key-share loop on a normalised list: same shape, same number of entries. -/
theorem fillShares_shape (grp : Nat) (hg : isGreaseU16 grp = true) : ∀ (ss : List (Nat × Bytes)) (ks : List Bytes) (ss' : List (Nat × Bytes)) (ks' : List Bytes),
    fillShares grp (ss.map fun x => if unGrease x.1 = greasePlaceholder then (greasePlaceholder, x.2) else (x.1, [])) ks = some (ss', ks') →
    ss'.map (fun x => if isGreaseU16 x.1 then (greasePlaceholder, x.2) else (x.1, [])) =
      ss.map (fun x => if isGreaseU16 x.1 then (greasePlaceholder, x.2) else (x.1, [])) := by
  intro ss
  induction ss with
  | nil => intro ks ss' ks' h; simp [fillShares] at h; obtain ⟨rfl, _⟩ := h; rfl
  | cons x r ih =>
    intro ks ss' ks' h
    obtain ⟨g, d⟩ := x
    simp only [List.map_cons] at h ⊢
    by_cases hx : isGreaseU16 g = true
    · simp only [unGrease_of_grease g hx, ↓reduceIte] at h
      unfold fillShares at h
      simp only [isGreaseV, placeholder_grease, ↓reduceIte] at h
      cases hr : fillShares grp (r.map fun x => if unGrease x.1 = greasePlaceholder then (greasePlaceholder, x.2) else (x.1, [])) ks with
      | none => simp [hr] at h
      | some p =>
        obtain ⟨o, k⟩ := p
        simp only [hr, Option.map_some, Option.some.injEq, Prod.mk.injEq] at h
        obtain ⟨rfl, rfl⟩ := h
        simp only [List.map_cons, hg, hx, ↓reduceIte]
        rw [ih ks o k hr]
    · have hx' : isGreaseU16 g = false := by simpa using hx
      have hne : unGrease g ≠ greasePlaceholder := by
        rw [unGrease_of_not g hx']
        intro e; rw [e] at hx'; exact absurd hx' (by decide)
      simp only [hne, ↓reduceIte] at h
      unfold fillShares at h
      simp only [isGreaseV, hx', Bool.false_eq_true, ↓reduceIte, List.length_nil, show ¬ (0 > 1) by omega] at h
      split at h
      · cases ks with
        | nil => simp at h
        | cons key ks0 =>
          simp only at h
          cases hr : fillShares grp (r.map fun x => if unGrease x.1 = greasePlaceholder then (greasePlaceholder, x.2) else (x.1, [])) ks0 with
          | none => simp [hr] at h
          | some p =>
            obtain ⟨o, k⟩ := p
            simp only [hr, Option.map_some, Option.some.injEq, Prod.mk.injEq] at h
            obtain ⟨rfl, rfl⟩ := h
            simp only [List.map_cons, hx', Bool.false_eq_true, ↓reduceIte]
            rw [ih ks0 o k hr]
      · cases h

theorem norm_keyShare (ss : List (Nat × Bytes)) :
    norm (keyShare ss) = keyShare (ss.map fun x => if unGrease x.1 = greasePlaceholder then (greasePlaceholder, x.2) else (x.1, [])) := by
  simp only [norm]

/-- one step of `ApplyPreset`'s loop on the normalised value of an extension that was on the wire:
the result is again on the wire and has the same shape. -/
theorem step_shape (m : Material) (s : Grease.Seeds) (seen : Nat) (ks : List Bytes) (e y : Ext) (seen' : Nat) (ks' : List Bytes)
    (hnp : isPadding e = false) (hok : extOKb e = true) (hr : extRepr false e = true) (hearly : early e = none)
    (hg : ∀ v bd, e = grease v bd → seen = 0 ∨ (seen = 1 ∧ bd = [0]))
    (hpsk : m.psk = none) (hhost : Sni.hostnameInSNI m.serverName ≠ [])
    (h : fillOne m s seen ks (norm e) = some (y, seen', ks')) :
    isPadding y = false ∧ onWire y = true ∧ shapeE y = shapeE e ∧ seen' = seen + (if isGreaseExt e then 1 else 0) := by
  cases e <;> try (simp [isPadding] at hnp; done)
  case sni n =>
    simp only [norm, fillOne, List.isEmpty_nil, ↓reduceIte, Option.some.injEq, Prod.mk.injEq] at h
    obtain ⟨rfl, rfl, rfl⟩ := h
    refine ⟨rfl, ?_, rfl, by simp [isGreaseExt]⟩
    simp only [onWire, Bool.not_eq_true', List.isEmpty_eq_false_iff]
    exact hhost
  case supportedCurves c =>
    simp only [norm, fillOne, Option.some.injEq, Prod.mk.injEq] at h
    obtain ⟨rfl, rfl, rfl⟩ := h
    refine ⟨rfl, rfl, ?_, by simp [isGreaseExt]⟩
    simp only [shapeE]
    rw [unGrease_subst _ (boring_grease16 _)]
  case supportedVersions c =>
    simp only [norm, fillOne, Option.some.injEq, Prod.mk.injEq] at h
    obtain ⟨rfl, rfl, rfl⟩ := h
    refine ⟨rfl, rfl, ?_, by simp [isGreaseExt]⟩
    simp only [shapeE]
    rw [unGrease_subst _ (boring_grease16 _)]
  case keyShare ss =>
    rw [norm_keyShare] at h
    simp only [fillOne] at h
    cases hf : fillShares (Grease.boring s.group) (ss.map fun x => if unGrease x.1 = greasePlaceholder then (greasePlaceholder, x.2) else (x.1, [])) ks with
    | none => simp [hf] at h
    | some p =>
      obtain ⟨ss', k⟩ := p
      simp only [hf, Option.some.injEq, Prod.mk.injEq] at h
      obtain ⟨rfl, rfl, rfl⟩ := h
      refine ⟨rfl, rfl, ?_, by simp [isGreaseExt]⟩
      simp only [shapeE]
      rw [fillShares_shape _ (boring_grease16 _) ss ks ss' k hf]
  case grease v bd =>
    simp only [norm, fillOne] at h
    rcases hg v bd rfl with h0 | ⟨h1, hbd⟩
    · simp only [h0, ↓reduceIte, Option.some.injEq, Prod.mk.injEq] at h
      obtain ⟨rfl, rfl, rfl⟩ := h
      exact ⟨rfl, rfl, rfl, by simp [isGreaseExt, h0]⟩
    · simp only [h1, show (1 : Nat) ≠ 0 by omega, ↓reduceIte, Option.some.injEq, Prod.mk.injEq] at h
      obtain ⟨rfl, rfl, rfl⟩ := h
      exact ⟨rfl, rfl, by simp [shapeE, hbd], by simp [isGreaseExt, h1]⟩
  case sessionTicket t =>
    simp only [norm, fillOne, Option.some.injEq, Prod.mk.injEq] at h
    obtain ⟨rfl, rfl, rfl⟩ := h
    exact ⟨rfl, rfl, rfl, by simp [isGreaseExt]⟩
  case psk fake om ss ids bd =>
    simp only [extRepr, Bool.not_false, Bool.and_true] at hr
    subst hr
    simp only [norm, fillOne, hpsk, Option.some.injEq, Prod.mk.injEq] at h
    obtain ⟨rfl, rfl, rfl⟩ := h
    have hne := (pskEarly_none (by simpa [early] using hearly)).2
    refine ⟨rfl, ?_, rfl, by simp [isGreaseExt]⟩
    simp only [onWire, Bool.true_or, Bool.true_and, Bool.not_eq_true']
    unfold pskExtLen at hne
    by_cases c : (ids.isEmpty || bd.isEmpty) = true
    · simp [c] at hne
    · simpa using c
  case renegInfo d =>
    simp only [extRepr, List.isEmpty_iff] at hr
    subst hr
    simp only [norm, fillOne, Option.some.injEq, Prod.mk.injEq] at h
    obtain ⟨rfl, rfl, rfl⟩ := h
    exact ⟨rfl, rfl, rfl, by simp [isGreaseExt]⟩
  case greaseECH k a cid enc pl =>
    simp only [extOKb, Bool.and_eq_true, Bool.or_eq_true, decide_eq_true_eq] at hok
    have hk : k ≠ 0 := by rcases hok.1.1.1.1 with (h | h) | h <;> omega
    have ha : a ≠ 0 := by rcases hok.1.1.1.2 with (h | h) | h <;> omega
    simp only [norm, fillOne, hk, ha, ↓reduceIte, Option.some.injEq, Prod.mk.injEq] at h
    obtain ⟨rfl, rfl, rfl⟩ := h
    exact ⟨rfl, rfl, rfl, by simp [isGreaseExt]⟩
  all_goals
    simp only [norm, fillOne, Option.some.injEq, Prod.mk.injEq] at h
    obtain ⟨rfl, rfl, rfl⟩ := h
    exact ⟨rfl, rfl, rfl, by simp [isGreaseExt]⟩

theorem greaseBodies_cons (seen : Nat) (e : Ext) (r : List Ext) (h : greaseBodiesOK seen (e :: r) = true) :
    (∀ v bd, e = grease v bd → seen = 0 ∨ (seen = 1 ∧ bd = [0])) ∧
    greaseBodiesOK (seen + (if isGreaseExt e then 1 else 0)) r = true := by
  cases e
  case grease v bd =>
    simp only [greaseBodiesOK, Bool.and_eq_true, Bool.or_eq_true, beq_iff_eq] at h
    refine ⟨?_, by simpa [isGreaseExt] using h.2⟩
    intro v' bd' he
    injection he with _ hb
    subst hb
    rcases h.1 with h0 | ⟨h1, hb⟩
    · exact .inl h0
    · exact .inr ⟨h1, hb⟩
  all_goals
    simp only [greaseBodiesOK] at h
    exact ⟨(by intro v bd he; cases he), (by simpa [isGreaseExt] using h)⟩

/-- the whole loop on the normalised non-padding wire extensions: everything is on the wire again, with
the same shapes in the same order. -/
theorem fill_shape (m : Material) (s : Grease.Seeds) (hpsk : m.psk = none) (hhost : Sni.hostnameInSNI m.serverName ≠ []) :
    ∀ (es : List Ext) (seen : Nat) (ks : List Bytes) (ys : List Ext),
    (∀ e ∈ es, isPadding e = false ∧ extOKb e = true ∧ extRepr false e = true ∧ early e = none) →
    greaseBodiesOK seen es = true →
    fillExts m s (es.map norm) seen ks = some ys →
    (∀ y ∈ ys, isPadding y = false ∧ onWire y = true) ∧ ys.map shapeE = es.map shapeE := by
  intro es
  induction es with
  | nil => intro seen ks ys _ _ h; simp [fillExts] at h; subst h; exact ⟨by simp, rfl⟩
  | cons e r ih =>
    intro seen ks ys hall hgb h
    obtain ⟨hnp, hok, hr, hearly⟩ := hall e (by simp)
    obtain ⟨hg, hgr⟩ := greaseBodies_cons seen e r hgb
    simp only [List.map_cons] at h
    unfold fillExts at h
    cases h1 : fillOne m s seen ks (norm e) with
    | none => simp [h1] at h
    | some p =>
      obtain ⟨y, seen', ks'⟩ := p
      simp only [h1] at h
      cases h2 : fillExts m s (r.map norm) seen' ks' with
      | none => simp [h2] at h
      | some ys' =>
        simp only [h2, Option.map_some, Option.some.injEq] at h
        subst h
        obtain ⟨a1, a2, a3, a4⟩ := step_shape m s seen ks e y seen' ks' hnp hok hr hearly hg hpsk hhost h1
        rw [a4] at h2
        obtain ⟨b1, b2⟩ := ih _ ks' ys' (fun x hx => hall x (by simp [hx])) hgr h2
        refine ⟨?_, by simp [a3, b2]⟩
        intro x hx
        rcases List.mem_cons.mp hx with rfl | hx
        · exact ⟨a1, a2⟩
        · exact b1 x hx

/-! ### decodability of the regenerated bodies -/

/-- `shapeDec` without the total-size part of key_share (that one follows from the marshaller's bound). -/
def shapeDec0 : Ext → Bool
  | keyShare ss => ss.all fun x => x.1 < 65536
  | e => shapeDec e

theorem shapeDec_of0 (y : Ext) (h0 : shapeDec0 y = true) (hb : (body y).length < 65536) : shapeDec y = true := by
  cases y <;> try exact h0
  case keyShare ss =>
    simp only [shapeDec0] at h0
    simp only [body, List.length_append, u16_length, Preset.encShares_length] at hb
    simp only [shapeDec, Bool.and_eq_true, decide_eq_true_eq]
    refine ⟨by omega, ?_⟩
    rw [List.all_eq_true] at h0 ⊢
    intro x hx
    have h1 := h0 x hx
    have h2 := share_le_sharesLen ss x hx
    simp only [decide_eq_true_eq] at h1
    simp only [Bool.and_eq_true, decide_eq_true_eq]
    exact ⟨h1, by omega⟩

theorem shapeDec_of_ok (e : Ext) (hok : extOKb e = true) (hw : hasWriterB e = true) : shapeDec e = true := by
  cases e <;> try rfl
  case generic id d => simp [hasWriterB] at hw
  case supportedCurves c =>
    simp only [extOKb, Bool.and_eq_true, decide_eq_true_eq] at hok
    simp only [shapeDec, Bool.and_eq_true, decide_eq_true_eq]
    exact ⟨by omega, hok.2⟩
  case supportedVersions c =>
    simp only [extOKb, Bool.and_eq_true, decide_eq_true_eq] at hok
    simp only [shapeDec, Bool.and_eq_true, decide_eq_true_eq]
    exact ⟨hok.1.2, hok.2⟩
  case keyShare ss =>
    simp only [extOKb, Bool.and_eq_true, decide_eq_true_eq] at hok
    simp only [shapeDec, Bool.and_eq_true, decide_eq_true_eq]
    refine ⟨by omega, ?_⟩
    rw [List.all_eq_true] at hok ⊢
    intro x hx
    have h1 := hok.2 x hx
    have h2 := share_le_sharesLen ss x hx
    simp only [Bool.and_eq_true, decide_eq_true_eq] at h1 ⊢
    exact ⟨h1.1, by omega⟩
  case grease v bd =>
    simp only [extOKb, Bool.and_eq_true, decide_eq_true_eq] at hok
    exact hok.1.1

theorem substG_lt (g : Nat) (hg : g < 65536) (l : List Nat) (hl : ∀ x ∈ l, x < 65536) : ∀ x ∈ substG g l, x < 65536 := by
  intro x hx
  simp only [substG, List.mem_map] at hx
  obtain ⟨a, ha, rfl⟩ := hx
  split
  · exact hg
  · exact hl a ha

theorem fillShares_groups (grp : Nat) (hg : grp < 65536) : ∀ (ss : List (Nat × Bytes)) (ks : List Bytes) (ss' : List (Nat × Bytes)) (ks' : List Bytes),
    (∀ x ∈ ss, x.1 < 65536) → fillShares grp ss ks = some (ss', ks') → ∀ x ∈ ss', x.1 < 65536 := by
  intro ss
  induction ss with
  | nil => intro ks ss' ks' _ h; simp [fillShares] at h; obtain ⟨rfl, _⟩ := h; simp
  | cons x r ih =>
    intro ks ss' ks' hall h
    obtain ⟨g, d⟩ := x
    have hx := hall (g, d) (by simp)
    have hr : ∀ y ∈ r, y.1 < 65536 := fun y hy => hall y (by simp [hy])
    unfold fillShares at h
    split at h
    · cases hf : fillShares grp r ks with
      | none => simp [hf] at h
      | some p =>
        obtain ⟨o, k⟩ := p
        simp only [hf, Option.map_some, Option.some.injEq, Prod.mk.injEq] at h
        obtain ⟨rfl, rfl⟩ := h
        intro y hy
        rcases List.mem_cons.mp hy with rfl | hy
        · exact hg
        · exact ih ks o k hr hf y hy
    · split at h
      · cases hf : fillShares grp r ks with
        | none => simp [hf] at h
        | some p =>
          obtain ⟨o, k⟩ := p
          simp only [hf, Option.map_some, Option.some.injEq, Prod.mk.injEq] at h
          obtain ⟨rfl, rfl⟩ := h
          intro y hy
          rcases List.mem_cons.mp hy with rfl | hy
          · exact hx
          · exact ih ks o k hr hf y hy
      · split at h
        · cases ks with
          | nil => simp at h
          | cons key ks0 =>
            simp only at h
            cases hf : fillShares grp r ks0 with
            | none => simp [hf] at h
            | some p =>
              obtain ⟨o, k⟩ := p
              simp only [hf, Option.map_some, Option.some.injEq, Prod.mk.injEq] at h
              obtain ⟨rfl, rfl⟩ := h
              intro y hy
              rcases List.mem_cons.mp hy with rfl | hy
              · exact hx
              · exact ih ks0 o k hr hf y hy
        · cases h

theorem step_dec0 (m : Material) (s : Grease.Seeds) (seen : Nat) (ks : List Bytes) (e y : Ext) (seen' : Nat) (ks' : List Bytes)
    (hok : extOKb e = true) (hw : hasWriterB e = true)
    (h : fillOne m s seen ks (norm e) = some (y, seen', ks')) : shapeDec0 y = true := by
  cases e
  case generic id d => simp [hasWriterB] at hw
  case supportedCurves c =>
    simp only [norm, fillOne, Option.some.injEq, Prod.mk.injEq] at h
    obtain ⟨rfl, rfl, rfl⟩ := h
    simp only [extOKb, Bool.and_eq_true, decide_eq_true_eq] at hok
    simp only [shapeDec0, shapeDec, Bool.and_eq_true, decide_eq_true_eq, substG, List.length_map]
    refine ⟨by omega, ?_⟩
    rw [List.all_eq_true]
    intro x hx
    have := substG_lt (Grease.boring s.group) (boring_lt _) (c.map unGrease) (by
      intro a ha
      obtain ⟨a', ha', rfl⟩ := List.mem_map.mp ha
      exact unGrease_lt a' (by simpa using List.all_eq_true.mp hok.2 a' ha')) x hx
    simpa using this
  case supportedVersions c =>
    simp only [norm, fillOne, Option.some.injEq, Prod.mk.injEq] at h
    obtain ⟨rfl, rfl, rfl⟩ := h
    simp only [extOKb, Bool.and_eq_true, decide_eq_true_eq] at hok
    simp only [shapeDec0, shapeDec, Bool.and_eq_true, decide_eq_true_eq, substG, List.length_map]
    refine ⟨hok.1.2, ?_⟩
    rw [List.all_eq_true]
    intro x hx
    have := substG_lt (Grease.boring s.version) (boring_lt _) (c.map unGrease) (by
      intro a ha
      obtain ⟨a', ha', rfl⟩ := List.mem_map.mp ha
      exact unGrease_lt a' (by simpa using List.all_eq_true.mp hok.2 a' ha')) x hx
    simpa using this
  case keyShare ss =>
    rw [norm_keyShare] at h
    simp only [fillOne] at h
    cases hf : fillShares (Grease.boring s.group) (ss.map fun x => if unGrease x.1 = greasePlaceholder then (greasePlaceholder, x.2) else (x.1, [])) ks with
    | none => simp [hf] at h
    | some p =>
      obtain ⟨ss', k⟩ := p
      simp only [hf, Option.some.injEq, Prod.mk.injEq] at h
      obtain ⟨rfl, rfl, rfl⟩ := h
      simp only [extOKb, Bool.and_eq_true, decide_eq_true_eq] at hok
      simp only [shapeDec0]
      rw [List.all_eq_true]
      intro x hx
      have := fillShares_groups _ (boring_lt _) _ ks ss' k (by
        intro a ha
        obtain ⟨a', ha', rfl⟩ := List.mem_map.mp ha
        have h1 := List.all_eq_true.mp hok.2 a' ha'
        simp only [Bool.and_eq_true, decide_eq_true_eq] at h1
        split
        · simp [greasePlaceholder]
        · exact h1.1) hf x hx
      simpa using this
  case grease v bd =>
    simp only [norm, fillOne] at h
    split at h
    · simp only [Option.some.injEq, Prod.mk.injEq] at h
      obtain ⟨rfl, _, _⟩ := h
      exact boring_grease16 _
    · split at h
      · simp only [Option.some.injEq, Prod.mk.injEq] at h
        obtain ⟨rfl, _, _⟩ := h
        exact boring_grease16 _
      · cases h
  case psk fake om ss ids bd =>
    cases fake <;> simp only [norm, fillOne] at h <;> (split at h <;> (simp only [Option.some.injEq, Prod.mk.injEq] at h; obtain ⟨rfl, _, _⟩ := h; rfl))
  all_goals
    simp only [norm, fillOne, Option.some.injEq, Prod.mk.injEq] at h
    obtain ⟨rfl, _, _⟩ := h
    rfl

theorem fill_dec0 (m : Material) (s : Grease.Seeds) : ∀ (es : List Ext) (seen : Nat) (ks : List Bytes) (ys : List Ext),
    (∀ e ∈ es, extOKb e = true ∧ hasWriterB e = true) →
    fillExts m s (es.map norm) seen ks = some ys → ∀ y ∈ ys, shapeDec0 y = true := by
  intro es
  induction es with
  | nil => intro seen ks ys _ h; simp [fillExts] at h; subst h; simp
  | cons e r ih =>
    intro seen ks ys hall h
    simp only [List.map_cons] at h
    unfold fillExts at h
    cases h1 : fillOne m s seen ks (norm e) with
    | none => simp [h1] at h
    | some p =>
      obtain ⟨y, seen', ks'⟩ := p
      simp only [h1] at h
      cases h2 : fillExts m s (r.map norm) seen' ks' with
      | none => simp [h2] at h
      | some ys' =>
        simp only [h2, Option.map_some, Option.some.injEq] at h
        subst h
        intro x hx
        rcases List.mem_cons.mp hx with rfl | hx
        · exact step_dec0 m s seen ks e x seen' ks' (hall e (by simp)).1 (hall e (by simp)).2 h1
        · exact ih seen' ks' ys' (fun a ha => hall a (by simp [ha])) h2 x hx

/-! ### padding entries do not take part -/

theorem fillOne_isPadding (m : Material) (s : Grease.Seeds) (seen : Nat) (ks : List Bytes) (e y : Ext) (seen' : Nat) (ks' : List Bytes)
    (h : fillOne m s seen ks e = some (y, seen', ks')) :
    isPadding y = isPadding e ∧ (isPadding e = true → seen' = seen ∧ ks' = ks) := by
  cases e
  case padding n w =>
    simp only [fillOne, Option.some.injEq, Prod.mk.injEq] at h
    obtain ⟨rfl, rfl, rfl⟩ := h
    exact ⟨rfl, fun _ => ⟨rfl, rfl⟩⟩
  case grease v bd =>
    simp only [fillOne] at h
    split at h
    · simp only [Option.some.injEq, Prod.mk.injEq] at h; obtain ⟨rfl, _, _⟩ := h; exact ⟨rfl, by simp [isPadding]⟩
    · split at h
      · simp only [Option.some.injEq, Prod.mk.injEq] at h; obtain ⟨rfl, _, _⟩ := h; exact ⟨rfl, by simp [isPadding]⟩
      · cases h
  case keyShare ss =>
    simp only [fillOne] at h
    split at h
    · simp only [Option.some.injEq, Prod.mk.injEq] at h; obtain ⟨rfl, _, _⟩ := h; exact ⟨rfl, by simp [isPadding]⟩
    · cases h
  case psk fake om ss ids bd =>
    simp only [fillOne] at h
    split at h <;> (simp only [Option.some.injEq, Prod.mk.injEq] at h; obtain ⟨rfl, _, _⟩ := h; exact ⟨rfl, by simp [isPadding]⟩)
  all_goals
    simp only [fillOne, Option.some.injEq, Prod.mk.injEq] at h
    obtain ⟨rfl, _, _⟩ := h
    exact ⟨rfl, by simp [isPadding]⟩

theorem fillExts_np (m : Material) (s : Grease.Seeds) : ∀ (zs : List Ext) (seen : Nat) (ks : List Bytes) (ys : List Ext),
    fillExts m s zs seen ks = some ys → fillExts m s (NP zs) seen ks = some (NP ys) := by
  intro zs
  induction zs with
  | nil => intro seen ks ys h; simp [fillExts] at h; subst h; rfl
  | cons e r ih =>
    intro seen ks ys h
    unfold fillExts at h
    cases h1 : fillOne m s seen ks e with
    | none => simp [h1] at h
    | some p =>
      obtain ⟨y, seen', ks'⟩ := p
      simp only [h1] at h
      cases h2 : fillExts m s r seen' ks' with
      | none => simp [h2] at h
      | some ys' =>
        simp only [h2, Option.map_some, Option.some.injEq] at h
        subst h
        obtain ⟨hp, hst⟩ := fillOne_isPadding m s seen ks e y seen' ks' h1
        by_cases c : isPadding e = true
        · obtain ⟨rfl, rfl⟩ := hst c
          simp only [NP, List.filter_cons, c, hp, Bool.not_true, Bool.false_eq_true, ↓reduceIte]
          exact ih seen' ks' ys' h2
        · have c' : isPadding e = false := by simpa using c
          simp only [NP, List.filter_cons, c', hp, Bool.not_false, ↓reduceIte]
          unfold fillExts
          rw [h1]
          simp only
          have := ih seen' ks' ys' h2
          simp only [NP] at this
          rw [this]
          rfl

theorem scan_np : ∀ (zs : List Ext) (n : Nat) (r : Nat × Nat), scanVersions zs n r = scanVersions (NP zs) n r := by
  intro zs
  induction zs with
  | nil => intro n r; rfl
  | cons e rest ih =>
    intro n r
    cases e <;> simp only [NP, List.filter_cons, isPadding, Bool.not_true, Bool.not_false, Bool.false_eq_true, ↓reduceIte, scanVersions] <;>
      first | exact ih _ _ | (split <;> first | rfl | exact ih _ _)

theorem versRange_np (sp : Spec) : versRange sp = versRange { sp with exts := NP sp.exts } := by
  unfold versRange
  simp only [← scan_np]

/-! ### `AlwaysAddPadding` only adds a padding entry -/

theorem np_norm (es : List Ext) : NP (es.map norm) = (NP es).map norm := by
  induction es with
  | nil => rfl
  | cons e r ih =>
    have hp : isPadding (norm e) = isPadding e := by
      cases e <;> try rfl
      case psk f o s i b => cases f <;> rfl
    simp only [List.map_cons, NP, List.filter_cons, hp]
    by_cases c : isPadding e = true
    · simp only [c, Bool.not_true, Bool.false_eq_true, ↓reduceIte]; exact ih
    · have c' : isPadding e = false := by simpa using c
      simp only [c', Bool.not_false, ↓reduceIte, List.map_cons]
      simp only [NP] at ih
      rw [ih]

theorem isPadding_import (e : Ext) : Import.isPadding e = isPadding e := by cases e <;> rfl

theorem addPadScan_np : ∀ (xs ys : List Import.SExt), Import.addPadScan xs = some ys →
    NP (ys.map (·.ext)) = NP (xs.map (·.ext)) := by
  intro xs
  induction xs with
  | nil => intro ys h; simp [Import.addPadScan] at h
  | cons x r ih =>
    intro ys h
    unfold Import.addPadScan at h
    split at h
    · injection h with h; subst h; rfl
    · split at h
      · injection h with h; subst h
        simp [NP, Import.boringPad, isPadding]
      · cases hr : Import.addPadScan r with
        | none => simp [hr] at h
        | some ys' =>
          simp only [hr, Option.map_some, Option.some.injEq] at h
          subst h
          simp only [List.map_cons, NP, List.filter_cons]
          have := ih ys' hr
          simp only [NP] at this
          rw [this]

theorem alwaysAddPadding_np (s : Import.Spec) :
    NP ((Import.alwaysAddPadding s).exts.map (·.ext)) = NP (s.exts.map (·.ext)) ∧
    (Import.alwaysAddPadding s).suites = s.suites ∧ (Import.alwaysAddPadding s).comp = s.comp ∧
    (Import.alwaysAddPadding s).vmin = s.vmin ∧ (Import.alwaysAddPadding s).vmax = s.vmax := by
  unfold Import.alwaysAddPadding
  cases h : Import.addPadScan s.exts with
  | some xs => exact ⟨addPadScan_np _ _ h, rfl, rfl, rfl, rfl⟩
  | none =>
    refine ⟨?_, rfl, rfl, rfl, rfl⟩
    simp [NP, Import.boringPad, isPadding, List.filter_append]

/-! ### shapes of what a marshalled list parses to -/

theorem typeId_ne_21 (e : Ext) (hnp : isPadding e = false) (hd : shapeDec e = true) : typeId e ≠ 21 := by
  cases e <;> try (simp [typeId]; done)
  case padding n w => simp [isPadding] at hnp
  case generic id d => simp [shapeDec] at hd
  case grease v bd => exact (grease_not_special v hd).2.2.2.2.2.2.2
  case alps nw ps => cases nw <;> simp [typeId]
  case channelId o => cases o <;> simp [typeId]

theorem isPadding_typeId (e : Ext) (hp : isPadding e = true) : typeId e = 21 := by
  cases e <;> simp [isPadding] at hp
  rfl

theorem shapeExts_map : ∀ (l : List Ext), (∀ e ∈ l, isPadding e = false → shapeDec e = true) →
    shapeExts (l.map fun e => (typeId e, body e)) = (NP l).map shapeE := by
  intro l
  induction l with
  | nil => intro _; rfl
  | cons e r ih =>
    intro h
    have hr := ih (fun x hx => h x (by simp [hx]))
    simp only [shapeExts] at hr ⊢
    simp only [List.map_cons, List.filter_cons, NP]
    by_cases c : isPadding e = true
    · simp only [isPadding_typeId e c, bne_self_eq_false, Bool.false_eq_true, ↓reduceIte, c, Bool.not_true]
      simp only [NP] at hr
      exact hr
    · have c' : isPadding e = false := by simpa using c
      have hd := h e (by simp) c'
      have hne : (typeId e != 21) = true := by simpa using typeId_ne_21 e c' hd
      simp only [hne, ↓reduceIte, c', Bool.not_false, List.map_cons, shapeExt_eq e c' hd]
      simp only [NP] at hr
      rw [hr]

theorem updatePad_isPadding (pol : PadPolicy) (l : Nat) (e : Ext) : isPadding (updatePad pol l e) = isPadding e := by
  cases e <;> rfl

/-- the non-padding part of what the marshaller emits = the non-padding part of its list, when those
are all on the wire. -/
theorem np_emitted (pol : PadPolicy) (l : Nat) : ∀ (ys : List Ext),
    (∀ y ∈ ys.map (updatePad pol l), (emit y).length = len y) → (∀ y ∈ NP ys, onWire y = true) →
    NP ((ys.map (updatePad pol l)).filter emits) = NP ys := by
  intro ys
  induction ys with
  | nil => intro _ _; rfl
  | cons y r ih =>
    intro h1 h2
    have hr := ih (fun x hx => h1 x (by simp only [List.map_cons, List.mem_cons]; exact .inr hx))
    have hy := h1 (updatePad pol l y) (by simp)
    simp only [List.map_cons, List.filter_cons]
    by_cases c : isPadding y = true
    · have h2' : ∀ x ∈ NP r, onWire x = true := by
        intro x hx; apply h2; simp only [NP, List.filter_cons, c, Bool.not_true, Bool.false_eq_true, ↓reduceIte]; exact hx
      have : NP (y :: r) = NP r := by simp [NP, c]
      rw [this]
      split
      · simp only [NP, List.filter_cons, updatePad_isPadding, c, Bool.not_true, Bool.false_eq_true, ↓reduceIte]
        exact hr h2'
      · exact hr h2'
    · have c' : isPadding y = false := by simpa using c
      have hu : updatePad pol l y = y := updatePad_notPadding pol l y c'
      rw [hu] at hy ⊢
      have hon : onWire y = true := h2 y (by simp [NP, c'])
      have hem : emits y = true := by rw [emits_onWire y hy]; exact hon
      have h2' : ∀ x ∈ NP r, onWire x = true := by
        intro x hx; apply h2; simp only [NP, List.filter_cons, c', Bool.not_false, ↓reduceIte, List.mem_cons]; exact .inr hx
      simp only [hem, ↓reduceIte, NP, List.filter_cons, c', Bool.not_false]
      have := hr h2'
      simp only [NP] at this
      rw [this]

/-- `ApplyPreset`'s loop keeps extension code points within 16 bits. -/
theorem fillOne_type (m : Material) (s : Grease.Seeds) (seen : Nat) (ks : List Bytes) (e y : Ext) (seen' : Nat) (ks' : List Bytes)
    (ht : typeId e < 65536 ∨ isGreaseExt e = true) (h : fillOne m s seen ks e = some (y, seen', ks')) : typeId y < 65536 := by
  cases e
  case grease v bd =>
    simp only [fillOne] at h
    split at h
    · simp only [Option.some.injEq, Prod.mk.injEq] at h; obtain ⟨rfl, _, _⟩ := h; exact boring_lt _
    · split at h
      · simp only [Option.some.injEq, Prod.mk.injEq] at h; obtain ⟨rfl, _, _⟩ := h; exact boring_lt _
      · cases h
  case keyShare ss =>
    simp only [fillOne] at h
    split at h
    · simp only [Option.some.injEq, Prod.mk.injEq] at h; obtain ⟨rfl, _, _⟩ := h; simp [typeId]
    · cases h
  case psk fake om ss ids bd =>
    simp only [fillOne] at h
    split at h <;> (simp only [Option.some.injEq, Prod.mk.injEq] at h; obtain ⟨rfl, _, _⟩ := h; simp [typeId])
  all_goals
    simp only [fillOne, Option.some.injEq, Prod.mk.injEq] at h
    obtain ⟨rfl, _, _⟩ := h
    first
      | (simp [typeId]; done)
      | (rcases ht with ht | ht
         · exact ht
         · simp [isGreaseExt] at ht)

theorem fill_types (m : Material) (s : Grease.Seeds) : ∀ (zs : List Ext) (seen : Nat) (ks : List Bytes) (ys : List Ext),
    (∀ e ∈ zs, typeId e < 65536 ∨ isGreaseExt e = true) → fillExts m s zs seen ks = some ys → ∀ y ∈ ys, typeId y < 65536 := by
  intro zs
  induction zs with
  | nil => intro seen ks ys _ h; simp [fillExts] at h; subst h; simp
  | cons e r ih =>
    intro seen ks ys hall h
    unfold fillExts at h
    cases h1 : fillOne m s seen ks e with
    | none => simp [h1] at h
    | some p =>
      obtain ⟨y, seen', ks'⟩ := p
      simp only [h1] at h
      cases h2 : fillExts m s r seen' ks' with
      | none => simp [h2] at h
      | some ys' =>
        simp only [h2, Option.map_some, Option.some.injEq] at h
        subst h
        intro x hx
        rcases List.mem_cons.mp hx with rfl | hx
        · exact fillOne_type m s seen ks e x seen' ks' (hall e (by simp)) h1
        · exact ih seen' ks' ys' (fun a ha => hall a (by simp [ha])) h2 x hx

theorem norm_type (e : Ext) (h : extOKb e = true) : typeId (norm e) < 65536 ∨ isGreaseExt (norm e) = true := by
  cases e
  case grease v bd => right; rfl
  case generic id d => left; simp only [norm]; exact typeId_lt _ h
  case alps nw ps => left; cases nw <;> simp [norm, typeId]
  case channelId o => left; cases o <;> simp [norm, typeId]
  case psk f o s i b => left; cases f <;> simp [norm, typeId]
  all_goals (left; simp [norm, typeId])

theorem fill_len (m : Material) (s : Grease.Seeds) : ∀ (zs : List Ext) (seen : Nat) (ks : List Bytes) (ys : List Ext),
    fillExts m s zs seen ks = some ys → ys.length = zs.length := by
  intro zs
  induction zs with
  | nil => intro seen ks ys h; simp [fillExts] at h; subst h; rfl
  | cons e r ih =>
    intro seen ks ys h
    unfold fillExts at h
    cases h1 : fillOne m s seen ks e with
    | none => simp [h1] at h
    | some p =>
      obtain ⟨y, seen', ks'⟩ := p
      simp only [h1] at h
      cases h2 : fillExts m s r seen' ks' with
      | none => simp [h2] at h
      | some ys' =>
        simp only [h2, Option.map_some, Option.some.injEq] at h
        subst h
        simp [ih seen' ks' ys' h2]

theorem greaseBodies_np : ∀ (seen : Nat) (es : List Ext), greaseBodiesOK seen es = true → greaseBodiesOK seen (NP es) = true := by
  intro seen es
  induction es generalizing seen with
  | nil => intro h; exact h
  | cons e r ih =>
    intro h
    obtain ⟨h1, h2⟩ := greaseBodies_cons seen e r h
    cases e
    case padding n w =>
      simp only [NP, List.filter_cons, isPadding, Bool.not_true, Bool.false_eq_true, ↓reduceIte]
      simp only [isGreaseExt, Bool.false_eq_true, ↓reduceIte, Nat.add_zero] at h2
      exact ih seen h2
    case grease v bd =>
      simp only [NP, List.filter_cons, isPadding, Bool.not_false, ↓reduceIte, greaseBodiesOK, Bool.and_eq_true]
      simp only [isGreaseExt, ↓reduceIte] at h2
      simp only [greaseBodiesOK, Bool.and_eq_true] at h
      exact ⟨h.1, ih _ h2⟩
    all_goals
      simp only [NP, List.filter_cons, isPadding, Bool.not_false, ↓reduceIte, greaseBodiesOK]
      simp only [isGreaseExt, Bool.false_eq_true, ↓reduceIte, Nat.add_zero] at h2
      exact ih seen h2

/-! ### length accounting for `fp_len_eq` -/

theorem noPad_emitted (pol : PadPolicy) (l : Nat) : ∀ (zs : List Ext),
    (∀ z ∈ zs.map (updatePad pol l), (emit z).length = len z) →
    extsLenNoPad ((zs.map (updatePad pol l)).filter emits) = extsLenNoPad zs := by
  intro zs
  induction zs with
  | nil => intro _; rfl
  | cons z r ih =>
    intro h
    have hr := ih (fun x hx => h x (by simp only [List.map_cons, List.mem_cons]; exact .inr hx))
    have hz := h (updatePad pol l z) (by simp)
    simp only [List.map_cons, List.filter_cons]
    by_cases c : isPadding z = true
    · split
      · simp only [extsLenNoPad, updatePad_isPadding, c, ↓reduceIte, hr]
      · simp only [extsLenNoPad, c, ↓reduceIte, hr]; omega
    · have c' : isPadding z = false := by simpa using c
      rw [updatePad_notPadding pol l z c'] at hz ⊢
      by_cases hem : emits z = true
      · simp only [hem, ↓reduceIte, extsLenNoPad, c', Bool.false_eq_true, hr]
      · have hem' : emits z = false := by simpa using hem
        have h0 : emit z = [] := by
          by_cases hx : emit z = []
          · exact hx
          · exact absurd ((emits_iff z).mpr hx) hem
        rw [h0] at hz
        simp only [hem', Bool.false_eq_true, ↓reduceIte, extsLenNoPad, c', hr]
        simp at hz; omega

theorem no_padding_emitted (pol : PadPolicy) (l : Nat) : ∀ (zs : List Ext), paddingCount zs = 0 →
    ((zs.map (updatePad pol l)).filter emits).any isPadding = false := by
  intro zs
  induction zs with
  | nil => intro _; rfl
  | cons z r ih =>
    intro h
    simp only [paddingCount] at h
    by_cases c : isPadding z = true
    · simp [c] at h
    · have c' : isPadding z = false := by simpa using c
      simp only [c', Bool.false_eq_true, ↓reduceIte, Nat.zero_add] at h
      simp only [List.map_cons, List.filter_cons, updatePad_notPadding pol l z c']
      split
      · simp only [List.any_cons, c', Bool.false_or]; exact ih h
      · exact ih h

/-- is a padding extension on the wire, and with which body length. -/
theorem emitted_padding (pol : PadPolicy) (l : Nat) : ∀ (zs : List Ext), paddingCount zs ≤ 1 →
    (((zs.map (updatePad pol l)).filter emits).any isPadding =
      match firstPadding zs with
      | some cur => (pol.apply l cur).2
      | none => false) ∧
    (∀ cur, firstPadding zs = some cur → (pol.apply l cur).2 = true →
      padding (pol.apply l cur).1 true ∈ (zs.map (updatePad pol l)).filter emits) := by
  intro zs
  induction zs with
  | nil => intro _; exact ⟨rfl, by intro cur h; cases h⟩
  | cons z r ih =>
    intro h
    simp only [paddingCount] at h
    cases z
    case padding n w =>
      simp only [isPadding, ↓reduceIte] at h
      have hr0 : paddingCount r = 0 := by omega
      simp only [List.map_cons, List.filter_cons, updatePad, emits_padding, firstPadding]
      constructor
      · by_cases c : (pol.apply l (n, w)).2 = true
        · simp [c, isPadding]
        · simp only [c, Bool.false_eq_true, ↓reduceIte]
          rw [no_padding_emitted pol l r hr0]
      · intro cur hc hw
        injection hc with hc; subst hc
        simp only [hw, ↓reduceIte, List.mem_cons]
        left
        trivial
    all_goals
      simp only [isPadding, Bool.false_eq_true, ↓reduceIte, Nat.zero_add] at h
      obtain ⟨i1, i2⟩ := ih h
      simp only [List.map_cons, List.filter_cons, updatePad, firstPadding]
      constructor
      · split
        · simp only [List.any_cons, isPadding, Bool.false_or]; exact i1
        · exact i1
      · intro cur hc hw
        split
        · exact List.mem_cons_of_mem _ (i2 cur hc hw)
        · exact i2 cur hc hw

theorem firstPadding_norm : ∀ (es : List Ext),
    firstPadding (es.map norm) = (if es.any isPadding then some (0, false) else none) ∧
    paddingCount (es.map norm) = paddingCount es := by
  intro es
  induction es with
  | nil => exact ⟨rfl, rfl⟩
  | cons e r ih =>
    cases e
    case padding n w => simp [norm, firstPadding, isPadding, paddingCount, ih.2]
    case psk f o s i b => cases f <;> simp [norm, firstPadding, isPadding, paddingCount, ih.1, ih.2]
    all_goals simp [norm, firstPadding, isPadding, paddingCount, ih.1, ih.2]

theorem fillOne_padding (m : Material) (s : Grease.Seeds) (seen : Nat) (ks : List Bytes) (e y : Ext) (seen' : Nat) (ks' : List Bytes)
    (h : fillOne m s seen ks e = some (y, seen', ks')) : isPadding e = true → y = e := by
  intro hp
  cases e <;> try (simp [isPadding] at hp; done)
  simp only [fillOne, Option.some.injEq, Prod.mk.injEq] at h
  exact h.1.symm

theorem firstPadding_cons_np (e : Ext) (r : List Ext) (h : isPadding e = false) : firstPadding (e :: r) = firstPadding r := by
  cases e <;> first | rfl | simp [isPadding] at h

theorem fill_padding (m : Material) (s : Grease.Seeds) : ∀ (zs : List Ext) (seen : Nat) (ks : List Bytes) (ys : List Ext),
    fillExts m s zs seen ks = some ys → firstPadding ys = firstPadding zs ∧ paddingCount ys = paddingCount zs := by
  intro zs
  induction zs with
  | nil => intro seen ks ys h; simp [fillExts] at h; subst h; exact ⟨rfl, rfl⟩
  | cons e r ih =>
    intro seen ks ys h
    unfold fillExts at h
    cases h1 : fillOne m s seen ks e with
    | none => simp [h1] at h
    | some p =>
      obtain ⟨y, seen', ks'⟩ := p
      simp only [h1] at h
      cases h2 : fillExts m s r seen' ks' with
      | none => simp [h2] at h
      | some ys' =>
        simp only [h2, Option.map_some, Option.some.injEq] at h
        subst h
        obtain ⟨i1, i2⟩ := ih seen' ks' ys' h2
        obtain ⟨hp, _⟩ := fillOne_isPadding m s seen ks e y seen' ks' h1
        by_cases c : isPadding e = true
        · have := fillOne_padding m s seen ks e y seen' ks' h1 c
          subst this
          cases y <;> try (simp [isPadding] at c; done)
          simp [firstPadding, paddingCount, isPadding, i2]
        · have c' : isPadding e = false := by simpa using c
          have cy : isPadding y = false := by rw [hp]; exact c'
          rw [firstPadding_cons_np y ys' cy, firstPadding_cons_np e r c']
          simp [paddingCount, c', cy, i1, i2]

theorem paddingCount_emitted (pol : PadPolicy) (l : Nat) : ∀ (zs : List Ext),
    paddingCount ((zs.map (updatePad pol l)).filter emits) ≤ paddingCount zs := by
  intro zs
  induction zs with
  | nil => exact Nat.le_refl _
  | cons z r ih =>
    simp only [List.map_cons, List.filter_cons]
    split
    · simp only [paddingCount, updatePad_isPadding]; omega
    · simp only [paddingCount]; omega

theorem paddingCount_pos : ∀ (es : List Ext), es.any isPadding = true → 1 ≤ paddingCount es := by
  intro es
  induction es with
  | nil => intro h; simp at h
  | cons e r ih =>
    intro h
    simp only [List.any_cons, Bool.or_eq_true] at h
    simp only [paddingCount]
    rcases h with h | h
    · simp [h]
    · have := ih h; omega

/-! ### the regenerated hello can be fingerprinted again, and gives an equivalent spec -/

/-- the key-share loop on a normalised list, renormalised. -/
theorem fillShares_norm (grp : Nat) (hg : isGreaseU16 grp = true) : ∀ (ss : List (Nat × Bytes)) (ks : List Bytes) (ss' : List (Nat × Bytes)) (ks' : List Bytes),
    fillShares grp (ss.map fun x => if unGrease x.1 = greasePlaceholder then (greasePlaceholder, x.2) else (x.1, [])) ks = some (ss', ks') →
    ss'.map (fun x => if unGrease x.1 = greasePlaceholder then (greasePlaceholder, x.2) else (x.1, [])) =
      ss.map (fun x => if unGrease x.1 = greasePlaceholder then (greasePlaceholder, x.2) else (x.1, [])) := by
  have key : ∀ g : Nat, (unGrease g = greasePlaceholder) ↔ isGreaseU16 g = true := by
    intro g
    by_cases hx : isGreaseU16 g = true
    · simp [unGrease_of_grease g hx, hx]
    · have hx' : isGreaseU16 g = false := by simpa using hx
      rw [unGrease_of_not g hx']
      constructor
      · intro e; rw [e] at hx'; exact absurd hx' (by decide)
      · intro e; rw [e] at hx'; cases hx'
  intro ss ks ss' ks' h
  have := fillShares_shape grp hg ss ks ss' ks' h
  have e1 : ∀ l : List (Nat × Bytes), l.map (fun x => if unGrease x.1 = greasePlaceholder then (greasePlaceholder, x.2) else (x.1, [])) =
      l.map (fun x => if isGreaseU16 x.1 then (greasePlaceholder, x.2) else (x.1, [])) := by
    intro l
    apply List.map_congr_left
    intro x _
    by_cases hx : isGreaseU16 x.1 = true
    · simp [hx, (key x.1).mpr hx]
    · have : ¬ unGrease x.1 = greasePlaceholder := fun e => hx ((key x.1).mp e)
      simp [hx, this]
  rw [e1 ss', e1 ss]
  exact this

/-- one step: the regenerated value normalises to the same spec entry as the captured one. -/
theorem step_core (m : Material) (s : Grease.Seeds) (seen : Nat) (ks : List Bytes) (e y : Ext) (seen' : Nat) (ks' : List Bytes)
    (hnp : isPadding e = false) (hok : extOKb e = true) (hr : extRepr false e = true)
    (hg : ∀ v bd, e = grease v bd → seen = 0 ∨ (seen = 1 ∧ bd = [0]))
    (hpsk : m.psk = none)
    (h : fillOne m s seen ks (norm e) = some (y, seen', ks')) : coreExt (norm y) = coreExt (norm e) := by
  cases e <;> try (simp [isPadding] at hnp; done)
  case sni n =>
    simp only [norm, fillOne, Option.some.injEq, Prod.mk.injEq] at h
    obtain ⟨rfl, _, _⟩ := h; rfl
  case supportedCurves c =>
    simp only [norm, fillOne, Option.some.injEq, Prod.mk.injEq] at h
    obtain ⟨rfl, _, _⟩ := h
    simp only [norm, coreExt]
    rw [unGrease_subst _ (boring_grease16 _)]
  case supportedVersions c =>
    simp only [norm, fillOne, Option.some.injEq, Prod.mk.injEq] at h
    obtain ⟨rfl, _, _⟩ := h
    simp only [norm, coreExt]
    rw [unGrease_subst _ (boring_grease16 _)]
  case keyShare ss =>
    rw [norm_keyShare] at h
    simp only [fillOne] at h
    cases hf : fillShares (Grease.boring s.group) (ss.map fun x => if unGrease x.1 = greasePlaceholder then (greasePlaceholder, x.2) else (x.1, [])) ks with
    | none => simp [hf] at h
    | some p =>
      obtain ⟨ss', k⟩ := p
      simp only [hf, Option.some.injEq, Prod.mk.injEq] at h
      obtain ⟨rfl, _, _⟩ := h
      rw [norm_keyShare, norm_keyShare]
      rw [fillShares_norm _ (boring_grease16 _) ss ks ss' k hf]
  case grease v bd =>
    simp only [norm, fillOne] at h
    rcases hg v bd rfl with h0 | ⟨h1, hbd⟩
    · simp only [h0, ↓reduceIte, Option.some.injEq, Prod.mk.injEq] at h
      obtain ⟨rfl, _, _⟩ := h; rfl
    · simp only [h1, show (1 : Nat) ≠ 0 by omega, ↓reduceIte, Option.some.injEq, Prod.mk.injEq] at h
      obtain ⟨rfl, _, _⟩ := h; simp [norm, coreExt, hbd]
  case sessionTicket t =>
    simp only [norm, fillOne, Option.some.injEq, Prod.mk.injEq] at h
    obtain ⟨rfl, _, _⟩ := h; rfl
  case psk fake om ss ids bd =>
    simp only [extRepr, Bool.not_false, Bool.and_true] at hr
    subst hr
    simp only [norm, fillOne, hpsk, Option.some.injEq, Prod.mk.injEq] at h
    obtain ⟨rfl, _, _⟩ := h; rfl
  case renegInfo d =>
    simp only [norm, fillOne, Option.some.injEq, Prod.mk.injEq] at h
    obtain ⟨rfl, _, _⟩ := h; rfl
  case greaseECH k a cid enc pl =>
    simp only [extOKb, Bool.and_eq_true, Bool.or_eq_true, decide_eq_true_eq] at hok
    have hk : k ≠ 0 := by rcases hok.1.1.1.1 with (h | h) | h <;> omega
    have ha : a ≠ 0 := by rcases hok.1.1.1.2 with (h | h) | h <;> omega
    simp only [norm, fillOne, hk, ha, ↓reduceIte, Option.some.injEq, Prod.mk.injEq] at h
    obtain ⟨rfl, _, _⟩ := h; rfl
  all_goals
    simp only [norm, fillOne, Option.some.injEq, Prod.mk.injEq] at h
    obtain ⟨rfl, _, _⟩ := h
    rfl

theorem fillShares_ok (grp : Nat) (hg : isGreaseU16 grp = true) : ∀ (zs : List (Nat × Bytes)) (ks : List Bytes) (ss' : List (Nat × Bytes)) (ks' : List Bytes),
    (∀ x ∈ zs, (isGreaseV x.1 = true → x.2 ≠ []) ∧ (isGreaseV x.1 = false → x.2 = [])) → (∀ k ∈ ks, k ≠ []) →
    fillShares grp zs ks = some (ss', ks') →
    ∀ x ∈ ss', x.2 ≠ [] ∧ (isGreaseU16 x.1 || hybridGroup x.1 || ecdheGroup x.1) = true := by
  intro zs
  induction zs with
  | nil => intro ks ss' ks' _ _ h; simp [fillShares] at h; obtain ⟨rfl, _⟩ := h; simp
  | cons z r ih =>
    intro ks ss' ks' hz hk h
    obtain ⟨g, d⟩ := z
    obtain ⟨hz1, hz2⟩ := hz (g, d) (by simp)
    have hr : ∀ x ∈ r, (isGreaseV x.1 = true → x.2 ≠ []) ∧ (isGreaseV x.1 = false → x.2 = []) := fun x hx => hz x (by simp [hx])
    unfold fillShares at h
    by_cases c1 : isGreaseV g = true
    · simp only [c1, ↓reduceIte] at h
      cases hf : fillShares grp r ks with
      | none => simp [hf] at h
      | some p =>
        obtain ⟨o, k⟩ := p
        simp only [hf, Option.map_some, Option.some.injEq, Prod.mk.injEq] at h
        obtain ⟨rfl, rfl⟩ := h
        intro x hx
        rcases List.mem_cons.mp hx with rfl | hx
        · exact ⟨hz1 c1, by simp [hg]⟩
        · exact ih ks o k hr hk hf x hx
    · have c1' : isGreaseV g = false := by simpa using c1
      have hd : d = [] := hz2 c1'
      subst hd
      simp only [c1', Bool.false_eq_true, ↓reduceIte, List.length_nil, show ¬ (0 > 1) by omega] at h
      split at h
      · rename_i hsup
        cases ks with
        | nil => simp at h
        | cons key ks0 =>
          simp only at h
          cases hf : fillShares grp r ks0 with
          | none => simp [hf] at h
          | some p =>
            obtain ⟨o, k⟩ := p
            simp only [hf, Option.map_some, Option.some.injEq, Prod.mk.injEq] at h
            obtain ⟨rfl, rfl⟩ := h
            intro x hx
            rcases List.mem_cons.mp hx with rfl | hx
            · refine ⟨hk key (by simp), ?_⟩
              simp only [Bool.or_eq_true] at hsup ⊢
              rcases hsup with h1 | h1
              · exact .inl (.inr h1)
              · exact .inr h1
            · exact ih ks0 o k hr (fun a ha => hk a (by simp [ha])) hf x hx
      · cases h

/-- material conditions under which the regenerated hello is itself representable. -/
def matRepr (m : Material) : Prop :=
  (∀ k ∈ m.keys, k ≠ []) ∧ m.echCid < 256 ∧ 16 ≤ m.echPayload.length ∧ m.echEnc ≠ []

theorem step_ok (m : Material) (s : Grease.Seeds) (seen : Nat) (ks : List Bytes) (e y : Ext) (seen' : Nat) (ks' : List Bytes)
    (hnp : isPadding e = false) (hok : extOKb e = true) (hw : hasWriterB e = true) (hr : extRepr false e = true)
    (hpsk : m.psk = none) (hmr : matRepr m) (hks : ∀ k ∈ ks, k ≠ [])
    (h : fillOne m s seen ks (norm e) = some (y, seen', ks'))
    (hd0 : shapeDec0 y = true) (hb : (body y).length < 65536) :
    extOKb y = true ∧ hasWriterB y = true ∧ extRepr false y = true := by
  obtain ⟨_, hcid, hpl, henc⟩ := hmr
  cases e <;> try (simp [isPadding] at hnp; done)
  case generic id d => simp [hasWriterB] at hw
  case quicTP mar => simp [hasWriterB] at hw
  case cookie ck => simp [hasWriterB] at hw
  case sni n =>
    simp only [norm, fillOne, Option.some.injEq, Prod.mk.injEq] at h
    obtain ⟨rfl, _, _⟩ := h
    refine ⟨?_, rfl, rfl⟩
    simp only [body, List.length_append, u16_length, List.length_cons, List.length_nil] at hb
    simp only [extOKb, decide_eq_true_eq]; omega
  case supportedCurves c =>
    simp only [norm, fillOne, Option.some.injEq, Prod.mk.injEq] at h
    obtain ⟨rfl, _, _⟩ := h
    simp only [extOKb, Bool.and_eq_true, decide_eq_true_eq, Bool.not_eq_true', List.isEmpty_eq_false_iff] at hok
    simp only [shapeDec0, shapeDec, Bool.and_eq_true, decide_eq_true_eq] at hd0
    refine ⟨?_, rfl, rfl⟩
    simp only [extOKb, Bool.and_eq_true, decide_eq_true_eq, Bool.not_eq_true', List.isEmpty_eq_false_iff, substG, List.length_map]
    refine ⟨⟨?_, hok.1.2⟩, by simpa [substG] using hd0.2⟩
    have := hok.1.1
    cases c <;> simp_all
  case supportedVersions c =>
    simp only [norm, fillOne, Option.some.injEq, Prod.mk.injEq] at h
    obtain ⟨rfl, _, _⟩ := h
    simp only [extOKb, Bool.and_eq_true, decide_eq_true_eq, Bool.not_eq_true', List.isEmpty_eq_false_iff] at hok
    simp only [shapeDec0, shapeDec, Bool.and_eq_true, decide_eq_true_eq] at hd0
    refine ⟨?_, rfl, rfl⟩
    simp only [extOKb, Bool.and_eq_true, decide_eq_true_eq, Bool.not_eq_true', List.isEmpty_eq_false_iff, substG, List.length_map]
    refine ⟨⟨?_, hok.1.2⟩, by simpa [substG] using hd0.2⟩
    have := hok.1.1
    cases c <;> simp_all
  case keyShare ss =>
    rw [norm_keyShare] at h
    simp only [fillOne] at h
    cases hf : fillShares (Grease.boring s.group) (ss.map fun x => if unGrease x.1 = greasePlaceholder then (greasePlaceholder, x.2) else (x.1, [])) ks with
    | none => simp [hf] at h
    | some p =>
      obtain ⟨ss', k⟩ := p
      simp only [hf, Option.some.injEq, Prod.mk.injEq] at h
      obtain ⟨rfl, _, _⟩ := h
      simp only [extOKb, Bool.and_eq_true, decide_eq_true_eq] at hok
      simp only [shapeDec0] at hd0
      simp only [body, List.length_append, u16_length, Preset.encShares_length] at hb
      have hfo := fillShares_ok _ (boring_grease16 _) _ ks ss' k (by
        intro x hx
        obtain ⟨a, ha, rfl⟩ := List.mem_map.mp hx
        have h1 := List.all_eq_true.mp hok.2 a ha
        simp only [Bool.and_eq_true, decide_eq_true_eq, Bool.not_eq_true', List.isEmpty_eq_false_iff] at h1
        by_cases c : unGrease a.1 = greasePlaceholder
        · simp only [c, ↓reduceIte, isGreaseV, placeholder_grease, forall_const]
          exact ⟨h1.2, by intro hc; cases hc⟩
        · simp only [c, ↓reduceIte]
          refine ⟨fun hgr => ?_, fun _ => trivial⟩
          exact absurd (unGrease_of_grease a.1 hgr) c) hks hf
      refine ⟨?_, rfl, ?_⟩
      · simp only [extOKb, Bool.and_eq_true, decide_eq_true_eq]
        refine ⟨by omega, ?_⟩
        rw [List.all_eq_true] at hd0 ⊢
        intro x hx
        have h1 := hd0 x hx
        have h2 := (hfo x hx).1
        simp only [decide_eq_true_eq] at h1
        simp only [Bool.and_eq_true, decide_eq_true_eq, Bool.not_eq_true', List.isEmpty_eq_false_iff]
        exact ⟨h1, h2⟩
      · simp only [extRepr]
        rw [List.all_eq_true]
        intro x hx
        exact (hfo x hx).2
  case grease v bd =>
    simp only [extOKb, Bool.and_eq_true, decide_eq_true_eq] at hok
    simp only [norm, fillOne] at h
    split at h
    · simp only [Option.some.injEq, Prod.mk.injEq] at h
      obtain ⟨rfl, _, _⟩ := h
      refine ⟨?_, rfl, rfl⟩
      simp only [extOKb, Bool.and_eq_true, decide_eq_true_eq]
      exact ⟨⟨boring_grease16 _, boring_lt _⟩, hok.2⟩
    · split at h
      · simp only [Option.some.injEq, Prod.mk.injEq] at h
        obtain ⟨rfl, _, _⟩ := h
        refine ⟨?_, rfl, rfl⟩
        simp only [extOKb, Bool.and_eq_true, decide_eq_true_eq]
        exact ⟨⟨boring_grease16 _, boring_lt _⟩, by simp⟩
      · cases h
  case sessionTicket t =>
    simp only [norm, fillOne, Option.some.injEq, Prod.mk.injEq] at h
    obtain ⟨rfl, _, _⟩ := h
    refine ⟨?_, rfl, rfl⟩
    simp only [body] at hb
    simp only [extOKb, decide_eq_true_eq]; exact hb
  case psk fake om ss ids bd =>
    simp only [extRepr, Bool.not_false, Bool.and_true] at hr
    subst hr
    simp only [norm, fillOne, hpsk, Option.some.injEq, Prod.mk.injEq] at h
    obtain ⟨rfl, _, _⟩ := h
    exact ⟨hok, rfl, rfl⟩
  case renegInfo d =>
    simp only [norm, fillOne, Option.some.injEq, Prod.mk.injEq] at h
    obtain ⟨rfl, _, _⟩ := h
    exact ⟨by simp [extOKb], rfl, rfl⟩
  case greaseECH k a cid enc pl =>
    simp only [extOKb, Bool.and_eq_true, Bool.or_eq_true, decide_eq_true_eq] at hok
    have hk : k ≠ 0 := by rcases hok.1.1.1.1 with (h | h) | h <;> omega
    have ha : a ≠ 0 := by rcases hok.1.1.1.2 with (h | h) | h <;> omega
    simp only [norm, fillOne, hk, ha, ↓reduceIte, Option.some.injEq, Prod.mk.injEq] at h
    obtain ⟨rfl, _, _⟩ := h
    simp only [body, List.length_append, u16_length, List.length_cons, List.length_nil] at hb
    refine ⟨?_, rfl, ?_⟩
    · simp only [extOKb, Bool.and_eq_true, Bool.or_eq_true, decide_eq_true_eq]
      exact ⟨⟨⟨⟨hok.1.1.1.1, hok.1.1.1.2⟩, hcid⟩, hpl⟩, by omega⟩
    · simp only [extRepr, Bool.not_eq_true', List.isEmpty_eq_false_iff]; exact henc
  all_goals
    simp only [norm, fillOne, Option.some.injEq, Prod.mk.injEq] at h
    obtain ⟨rfl, _, _⟩ := h
    exact ⟨hok, rfl, rfl⟩

theorem fillShares_keys_sub (grp : Nat) : ∀ (zs : List (Nat × Bytes)) (ks : List Bytes) (ss' : List (Nat × Bytes)) (ks' : List Bytes),
    fillShares grp zs ks = some (ss', ks') → ∀ k ∈ ks', k ∈ ks := by
  intro zs
  induction zs with
  | nil => intro ks ss' ks' h; simp [fillShares] at h; obtain ⟨_, rfl⟩ := h; intro k hk; exact hk
  | cons z r ih =>
    intro ks ss' ks' h
    obtain ⟨g, d⟩ := z
    unfold fillShares at h
    split at h
    · cases hf : fillShares grp r ks with
      | none => simp [hf] at h
      | some p =>
        obtain ⟨o, k⟩ := p
        simp only [hf, Option.map_some, Option.some.injEq, Prod.mk.injEq] at h
        obtain ⟨_, rfl⟩ := h
        exact ih ks o k hf
    · split at h
      · cases hf : fillShares grp r ks with
        | none => simp [hf] at h
        | some p =>
          obtain ⟨o, k⟩ := p
          simp only [hf, Option.map_some, Option.some.injEq, Prod.mk.injEq] at h
          obtain ⟨_, rfl⟩ := h
          exact ih ks o k hf
      · split at h
        · cases ks with
          | nil => simp at h
          | cons key ks0 =>
            simp only at h
            cases hf : fillShares grp r ks0 with
            | none => simp [hf] at h
            | some p =>
              obtain ⟨o, k⟩ := p
              simp only [hf, Option.map_some, Option.some.injEq, Prod.mk.injEq] at h
              obtain ⟨_, rfl⟩ := h
              intro a ha
              exact List.mem_cons_of_mem _ (ih ks0 o k hf a ha)
        · cases h

theorem fillOne_keys_sub (m : Material) (s : Grease.Seeds) (seen : Nat) (ks : List Bytes) (e y : Ext) (seen' : Nat) (ks' : List Bytes)
    (h : fillOne m s seen ks e = some (y, seen', ks')) : ∀ k ∈ ks', k ∈ ks := by
  cases e
  case keyShare ss =>
    simp only [fillOne] at h
    cases hf : fillShares (Grease.boring s.group) ss ks with
    | none => simp [hf] at h
    | some p =>
      obtain ⟨ss', k⟩ := p
      simp only [hf, Option.some.injEq, Prod.mk.injEq] at h
      obtain ⟨_, _, rfl⟩ := h
      exact fillShares_keys_sub _ ss ks ss' k hf
  case grease v bd =>
    simp only [fillOne] at h
    split at h
    · simp only [Option.some.injEq, Prod.mk.injEq] at h; obtain ⟨_, _, rfl⟩ := h; exact fun k hk => hk
    · split at h
      · simp only [Option.some.injEq, Prod.mk.injEq] at h; obtain ⟨_, _, rfl⟩ := h; exact fun k hk => hk
      · cases h
  case psk fake om ss ids bd =>
    simp only [fillOne] at h
    split at h <;> (simp only [Option.some.injEq, Prod.mk.injEq] at h; obtain ⟨_, _, rfl⟩ := h; exact fun k hk => hk)
  all_goals
    simp only [fillOne, Option.some.injEq, Prod.mk.injEq] at h
    obtain ⟨_, _, rfl⟩ := h
    exact fun k hk => hk

/-- the whole loop: the regenerated non-padding values normalise to the capture's spec entries, and
are themselves within the representable class. -/
theorem fill_second (m : Material) (s : Grease.Seeds) (hpsk : m.psk = none) (hmr : matRepr m) :
    ∀ (es : List Ext) (seen : Nat) (ks : List Bytes) (ys : List Ext),
    (∀ e ∈ es, isPadding e = false ∧ extOKb e = true ∧ hasWriterB e = true ∧ extRepr false e = true) →
    greaseBodiesOK seen es = true → (∀ k ∈ ks, k ≠ []) →
    fillExts m s (es.map norm) seen ks = some ys →
    ys.map (fun y => coreExt (norm y)) = es.map (fun e => coreExt (norm e)) ∧
    ∀ y ∈ ys, shapeDec0 y = true → (body y).length < 65536 → extOKb y = true ∧ hasWriterB y = true ∧ extRepr false y = true := by
  intro es
  induction es with
  | nil => intro seen ks ys _ _ _ h; simp [fillExts] at h; subst h; exact ⟨rfl, by simp⟩
  | cons e r ih =>
    intro seen ks ys hall hgb hks h
    obtain ⟨hnp, hok, hw, hr⟩ := hall e (by simp)
    obtain ⟨hg, hgr⟩ := greaseBodies_cons seen e r hgb
    simp only [List.map_cons] at h
    unfold fillExts at h
    cases h1 : fillOne m s seen ks (norm e) with
    | none => simp [h1] at h
    | some p =>
      obtain ⟨y, seen', ks'⟩ := p
      simp only [h1] at h
      cases h2 : fillExts m s (r.map norm) seen' ks' with
      | none => simp [h2] at h
      | some ys' =>
        simp only [h2, Option.map_some, Option.some.injEq] at h
        subst h
        have hc := step_core m s seen ks e y seen' ks' hnp hok hr hg hpsk h1
        have hseen : seen' = seen + (if isGreaseExt e then 1 else 0) := by
          cases e <;> simp only [norm, fillOne] at h1
          case grease v bd =>
            rcases hg v bd rfl with h0 | ⟨h1', _⟩
            · simp only [h0, ↓reduceIte, Option.some.injEq, Prod.mk.injEq] at h1; simp [isGreaseExt, h0, ← h1.2.1]
            · simp only [h1', show (1 : Nat) ≠ 0 by omega, ↓reduceIte, Option.some.injEq, Prod.mk.injEq] at h1; simp [isGreaseExt, h1', ← h1.2.1]
          case keyShare ss =>
            split at h1
            · simp only [Option.some.injEq, Prod.mk.injEq] at h1; simp [isGreaseExt, ← h1.2.1]
            · cases h1
          case psk fake om ss ids bd =>
            cases fake <;> simp only [] at h1 <;> (split at h1 <;> (simp only [Option.some.injEq, Prod.mk.injEq] at h1; simp [isGreaseExt, ← h1.2.1]))
          all_goals (simp only [Option.some.injEq, Prod.mk.injEq] at h1; simp [isGreaseExt, ← h1.2.1])
        rw [hseen] at h2
        have hks' : ∀ k ∈ ks', k ≠ [] := fun k hk => hks k (fillOne_keys_sub m s seen ks (norm e) y seen' ks' h1 k hk)
        obtain ⟨b1, b2⟩ := ih _ ks' ys' (fun x hx => hall x (by simp [hx])) hgr hks' h2
        refine ⟨by simp [hc, b1], ?_⟩
        intro x hx hd0 hb
        rcases List.mem_cons.mp hx with rfl | hx
        · exact step_ok m s seen ks e x seen' ks' hnp hok hw hr hpsk hmr hks h1 hd0 hb
        · exact b2 x hx hd0 hb

theorem type43_core (e : Ext) (hok : extOKb e = true) (hw : hasWriterB e = true) :
    (typeId (coreExt (norm e)) == 43) = (typeId e == 43) := by
  cases e <;> try rfl
  case grease v bd =>
    simp only [extOKb, Bool.and_eq_true, decide_eq_true_eq] at hok
    have := (grease_not_special v hok.1.1).2.2.2.2.1
    simp [norm, coreExt, typeId, this, greasePlaceholder]
  case psk f o s i b => cases f <;> rfl

theorem any43_np (l : List Ext) : l.any (fun e => typeId e == 43) = (NP l).any (fun e => typeId e == 43) := by
  induction l with
  | nil => rfl
  | cons e r ih =>
    simp only [List.any_cons, NP, List.filter_cons]
    by_cases c : isPadding e = true
    · simp only [c, Bool.not_true, Bool.false_eq_true, ↓reduceIte, isPadding_typeId e c]
      simp only [NP] at ih
      simpa using ih
    · have c' : isPadding e = false := by simpa using c
      simp only [c', Bool.not_false, ↓reduceIte, List.any_cons]
      simp only [NP] at ih
      rw [ih]

theorem any43_core (l : List Ext) (h : ∀ e ∈ l, extOKb e = true ∧ hasWriterB e = true) :
    (l.map fun e => coreExt (norm e)).any (fun e => typeId e == 43) = l.any (fun e => typeId e == 43) := by
  induction l with
  | nil => rfl
  | cons e r ih =>
    simp only [List.map_cons, List.any_cons]
    rw [type43_core e (h e (by simp)).1 (h e (by simp)).2, ih (fun x hx => h x (by simp [hx]))]

end Fp
