import UtlsVerif.Wire
/-!
# Grease — transcription of the GREASE generators

* `GetBoringGREASEValue` (/repo/u_tls_extensions.go): `ret = (seed & 0xf0) | 0x0a; ret |= ret << 8`
* the `ext1 == ext2 ⇒ seed[ext2] ^= 0x1010` de-duplication and the substitutions of `ApplyPreset` (/repo/u_parrots.go)
* `GREASETransportParameter.GetGREASEID`, `VersionInformation.GetGREASEVersion` (/repo/u_quic_transport_parameters.go)
  with the `crypto/rand.Int` draw as an input.
Seeds are Go `uint16` values, i.e. naturals `< 65536`.
-/
namespace Grease
open Wire

/-- `GetBoringGREASEValue(seed, index)` as a function of `seed[index]` (a uint16). -/
def boring (s : Nat) : Nat :=
  let ret := (s &&& 0xf0) ||| 0x0a
  (ret ||| (ret <<< 8)) % 65536

/-- `isGREASEUint16`. -/
def isGrease (v : Nat) : Bool := (v >>> 8 == (v &&& 0xff)) && (v &&& 0xf == 0xa)

/-- the connection's `greaseSeed [5]uint16`, by index name. -/
structure Seeds where
  cipher : Nat
  group : Nat
  ext1 : Nat
  ext2 : Nat
  version : Nat
  deriving DecidableEq, Repr

/-- `binary.LittleEndian.Uint16` over the 10 random bytes read from `Config.Rand`. -/
def seedsOfBytes (bs : Bytes) : Seeds :=
  let w (i : Nat) : Nat := (bs.getD (2 * i) 0).toNat + (bs.getD (2 * i + 1) 0).toNat * 256
  ⟨w 0, w 1, w 2, w 3, w 4⟩

/-- `if GetBoringGREASEValue(ext1) == GetBoringGREASEValue(ext2) { seed[ext2] ^= 0x1010 }`. -/
def dedup (s : Seeds) : Seeds :=
  if boring s.ext1 == boring s.ext2 then { s with ext2 := s.ext2 ^^^ 0x1010 } else s

/-- substitution applied to cipher suites / groups / key-share groups / versions:
a GREASE-shaped element is replaced by the connection's value for that index. -/
def subst (seed : Nat) (xs : List Nat) : List Nat :=
  xs.map fun x => if isGrease x then boring seed else x

/-- values given to the first and second `UtlsGREASEExtension`. -/
def extValue (s : Seeds) (nth : Nat) : Nat :=
  if nth = 0 then boring s.ext1 else boring s.ext2

/-! ## QUIC -/

def greaseMaxMult : Nat := (0x3FFFFFFFFFFFFFFF - 27) / 31
/-- `IsGREASEID`. -/
def isGreaseId (id : Nat) : Bool := id ≥ 27 && (id - 27) % 31 == 0
/-- `GetGREASEID` for the multiplier drawn by `rand.Int(rand.Reader, GREASE_MAX_MULTIPLIER)`. -/
def greaseId (k : Nat) : Nat := 27 + k * 31

/-- one byte of `(uint32(r) & 0xf0f0f0f0) | 0x0a0a0a0a`. -/
def greaseVersionByte (x : Nat) : Nat := (x &&& 0xf0) ||| 0x0a
/-- `GetGREASEVersion` for the drawn value `r` (and/or are bytewise, so the model works per byte). -/
def greaseVersion (r : Nat) : Nat :=
  let r := r % 4294967296
  greaseVersionByte (r / 16777216) * 16777216 + greaseVersionByte (r / 65536 % 256) * 65536 +
  greaseVersionByte (r / 256 % 256) * 256 + greaseVersionByte (r % 256)

/-- the `0x?a?a?a?a` shape. -/
def isGreaseVersion (v : Nat) : Bool :=
  v < 4294967296 && (v % 16 == 10) && (v / 256 % 16 == 10) && (v / 65536 % 16 == 10) && (v / 16777216 % 16 == 10)

/-- `crypto/rand.Int(reader, max)`: k = ⌈bitlen/8⌉ bytes per attempt, top bits masked, retry while ≥ max.
`none` = the supplied byte log ran out. Returns the value and the unread rest. -/
def randIntFuel (max : Nat) (k : Nat) (mask : Nat) : Nat → Bytes → Option (Nat × Bytes)
  | 0, _ => none
  | fuel + 1, bs =>
    if bs.length < k then none else
    let chunk := bs.take k
    let first := match chunk with
      | [] => 0
      | f :: _ => f.toNat &&& mask
    let v := (chunk.drop 1).foldl (fun acc x => acc * 256 + x.toNat) first
    if v < max then some (v, bs.drop k) else randIntFuel max k mask fuel (bs.drop k)

def bitLen (n : Nat) : Nat := if n = 0 then 0 else n.log2 + 1

def randInt (max : Nat) (bs : Bytes) : Option (Nat × Bytes) :=
  let n := max - 1
  let bl := bitLen n
  if bl = 0 then some (0, bs) else
  let k := (bl + 7) / 8
  let b := if bl % 8 = 0 then 8 else bl % 8
  randIntFuel max k ((1 <<< b) - 1) (bs.length + 1) bs

end Grease
