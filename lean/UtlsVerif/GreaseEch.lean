import UtlsVerif.Wire
import UtlsVerif.Ext
import UtlsVerif.Grease
/-!
# GreaseEch — `GREASEEncryptedClientHelloExtension` (/repo/u_ech.go): `init` under `sync.Once`, `Len`, `Read`

The object has exported candidate lists (`Cfg`) and, once `init` has run, a frozen draw (`Frozen` —
the same five values as `Ext.greaseECH`). `init` draws, in this order: the config id (one random byte,
or `rand.Int` over `CandidateConfigIds`), the cipher suite (`rand.Int` over `CandidateCipherSuites`, the
default pair when empty), the encapsulated key (`hpke.SetupSender` — **modelled**: only its first
result is used and it is an input, `kemEnc`), the payload length (`rand.Int` over
`CandidatePayloadLens`, `[128]` when empty) and `cipherLen(aead, len)` random payload bytes.
`Draws` are *this object's* draws; `drawsOfLog` replays them from the bytes a logging
`crypto/rand.Reader` served (`Grease.randInt` is the replica of `crypto/rand.Int`).
-/
namespace GreaseEch
open Wire

structure Cfg where
  suites : List (Nat × Nat)      -- CandidateCipherSuites (kdf, aead)
  configIds : List Nat           -- CandidateConfigIds
  enc : Bytes                    -- EncapsulatedKey (empty = unset)
  payloadLens : List Nat         -- CandidatePayloadLens
  deriving DecidableEq, Repr

structure Frozen where
  kdf : Nat
  aead : Nat
  configId : Nat
  enc : Bytes
  payload : Bytes
  deriving DecidableEq, Repr

/-- the draws of one `init`, in the order the code makes them. -/
structure Draws where
  cidByte : Nat            -- `rand.Read(b[:1])`
  cidIdx : Nat             -- `rand.Int(rand.Reader, len(CandidateConfigIds))`
  suiteIdx : Nat           -- `rand.Int(rand.Reader, len(CandidateCipherSuites))`
  kemEnc : Bytes           -- encapsulated key returned by `hpke.SetupSender`
  lenIdx : Nat             -- `rand.Int(rand.Reader, len(CandidatePayloadLens))`
  payload : Bytes          -- the bytes `rand.Read(g.payload)` is served from (it takes the first `cipherLen` of them)

def defaultKdf : Nat := 1     -- hpke.KDF_HKDF_SHA256
def defaultAead : Nat := 1    -- hpke.AEAD_AES_128_GCM
def tagLen : Nat := 16

/-- `cipherLen`: panics on an AEAD id it does not know. -/
def cipherLen (aead n : Nat) : Res Nat :=
  if aead = 1 ∨ aead = 2 ∨ aead = 3 then .ok (n + tagLen) else .panic

/-- `xs[idx]` with Go's bounds check. -/
def index {α : Type} (xs : List α) (idx : Nat) : Res α :=
  match xs[idx]? with
  | some x => .ok x
  | none => .panic

/-- the effective payload-length candidates (`[128]` when the list is empty). -/
def lensOf (cfg : Cfg) : List Nat := if cfg.payloadLens.isEmpty then [128] else cfg.payloadLens

/-- the body of `initOnce.Do` for a fresh object (its `payload` is empty). -/
def draw (cfg : Cfg) (d : Draws) : Res Frozen :=
  match (if cfg.configIds.isEmpty then Res.ok d.cidByte else index cfg.configIds d.cidIdx) with
  | .panic => .panic
  | .ok cid =>
    match (if cfg.suites.isEmpty then Res.ok (defaultKdf, defaultAead) else index cfg.suites d.suiteIdx) with
    | .panic => .panic
    | .ok (kdf, aead) =>
      let enc := if cfg.enc.isEmpty then d.kemEnc else cfg.enc
      match index (lensOf cfg) d.lenIdx with
      | .panic => .panic
      | .ok l =>
        match cipherLen aead l with
        | .panic => .panic
        | .ok n => .ok ⟨kdf, aead, cid, enc, d.payload.take n⟩

/-- the object: candidate lists and, after `initOnce`, the frozen draw. -/
structure Obj where
  cfg : Cfg
  frozen : Option Frozen
  deriving DecidableEq, Repr

def fresh (cfg : Cfg) : Obj := ⟨cfg, none⟩

/-- `g.init()`: a no-op once `initOnce` has run. (The exported fields `EncapsulatedKey` and
`CandidatePayloadLens` are filled in as the code does.) -/
def Obj.init (o : Obj) (d : Draws) : Res Obj :=
  match o.frozen with
  | some _ => .ok o
  | none =>
    match draw o.cfg d with
    | .panic => .panic
    | .ok fr => .ok ⟨{ o.cfg with enc := fr.enc, payloadLens := lensOf o.cfg }, some fr⟩

def toExt (fr : Frozen) : Ext.Ext := .greaseECH fr.kdf fr.aead fr.configId fr.enc fr.payload

/-- `Len()`: `init()` first, then a function of the frozen state. -/
def Obj.len (o : Obj) (d : Draws) : Res (Obj × Nat) :=
  match o.init d with
  | .panic => .panic
  | .ok o' =>
    match o'.frozen with
    | some fr => .ok (o', Ext.len (toExt fr))
    | none => .panic

/-- `Read(b)` with `len(b) = buf` (it calls `Len()`, hence `init()`). -/
def Obj.read (o : Obj) (d : Draws) (buf : Nat) : Res (Obj × Ext.ReadRes) :=
  match o.init d with
  | .panic => .panic
  | .ok o' =>
    match o'.frozen with
    | some fr => .ok (o', Ext.read (toExt fr) buf)
    | none => .panic

/-- candidate lists within wire limits, AEAD ids `cipherLen` knows (`kemLen`: output length of the KEM). -/
def cfgWF (cfg : Cfg) (kemLen : Nat) : Bool :=
  cfg.suites.all (fun s => s.1 < 65536 && (s.2 == 1 || s.2 == 2 || s.2 == 3)) &&
  cfg.configIds.all (· < 256) &&
  (lensOf cfg).all (fun l => 10 + (if cfg.enc.isEmpty then kemLen else cfg.enc.length) + l + tagLen < 65536)

/-- what `crypto/rand` guarantees about one object's draws: a byte, indices below the list lengths
(`rand.Int(_, n) < n`), a key of the KEM's length, enough payload bytes. -/
def drawsWF (cfg : Cfg) (kemLen : Nat) (d : Draws) : Bool :=
  d.cidByte < 256 && (cfg.configIds.isEmpty || d.cidIdx < cfg.configIds.length) &&
  (cfg.suites.isEmpty || d.suiteIdx < cfg.suites.length) &&
  (match (lensOf cfg)[d.lenIdx]? with
   | some l => decide (l + tagLen ≤ d.payload.length)
   | none => false) &&
  (!cfg.enc.isEmpty || d.kemEnc.length == kemLen)

/-! ## an independent strict parser of the outer ECH extension body -/

structure Outer where
  kdf : Nat
  aead : Nat
  configId : Nat
  enc : Bytes
  payload : Bytes
  deriving DecidableEq, Repr

/-- `ECHClientHello` of type outer: `0x00 || kdf || aead || config_id || enc<0..2^16-1> ||
payload<1..2^16-1>`, nothing after it. -/
def parseOuter (bd : Bytes) : Option Outer :=
  match readU8 bd with
  | some (t, r) =>
    if t ≠ 0 then none else
    match readU16 r with
    | some (kdf, r) =>
      match readU16 r with
      | some (aead, r) =>
        match readU8 r with
        | some (cid, r) =>
          match readVec16 r with
          | some (enc, r) =>
            match readVec16 r with
            | some (payload, []) => some ⟨kdf, aead, cid, enc, payload⟩
            | _ => none
          | none => none
        | none => none
      | none => none
    | none => none
  | none => none

/-- the frame the property demands, against the candidate lists: a listed (or the default) suite, a
key of the KEM's output length (or the preset key's), a candidate payload length plus the tag. -/
def frameOk (cfg : Cfg) (kemLen : Nat) (o : Outer) : Bool :=
  (if cfg.suites.isEmpty then o.kdf == defaultKdf && o.aead == defaultAead else cfg.suites.contains (o.kdf, o.aead)) &&
  (if cfg.configIds.isEmpty then o.configId < 256 else cfg.configIds.contains o.configId) &&
  (if cfg.enc.isEmpty then o.enc.length == kemLen else o.enc == cfg.enc) &&
  (lensOf cfg).any fun l => o.payload.length == l + tagLen

/-! ## the draws replayed from a crypto/rand log -/

/-- `chunks` are the reads the logging reader served during `init`, in order. With a preset key all of
them belong to `init` itself and are parsed front to back (`rand.Int` may reject and retry). Without
one, `hpke.SetupSender` reads an unknown number of chunks in the middle: the front part is parsed
from the front, the payload is the last chunk and the payload-length draw the chunk before it
(taken to be a single attempt: the harness only uses power-of-two list lengths there). -/
def drawsOfLog (cfg : Cfg) (chunks : List Bytes) (kemEnc : Bytes) : Option Draws :=
  let flat := chunks.flatten
  -- config id
  match (if cfg.configIds.isEmpty then
           (match flat with | b :: r => some (b.toNat, 0, r) | [] => none)
         else (Grease.randInt cfg.configIds.length flat).map fun (i, r) => (0, i, r)) with
  | none => none
  | some (cidByte, cidIdx, r1) =>
    match (if cfg.suites.isEmpty then some (0, r1) else Grease.randInt cfg.suites.length r1) with
    | none => none
    | some (suiteIdx, r2) =>
      let m := (lensOf cfg).length
      if cfg.enc.isEmpty then
        -- back to front
        match chunks.reverse with
        | payload :: rest =>
          let lenIdx : Option Nat :=
            if m ≤ 1 then some 0 else
            match rest with
            | c :: _ => (Grease.randInt m c).map (·.1)
            | [] => none
          lenIdx.map fun li => ⟨cidByte, cidIdx, suiteIdx, kemEnc, li, payload⟩
        | [] => none
      else
        match Grease.randInt m r2 with
        | none => none
        | some (li, r3) => some ⟨cidByte, cidIdx, suiteIdx, kemEnc, li, r3⟩

end GreaseEch
