import UtlsVerif.Grease
/-!
# GreaseReapply — re-application of one spec object (C04)

`ApplyPreset(p)` (/repo/u_parrots.go) copies `p.CipherSuites` into the hello but rewrites the `Curves`,
`KeyShares[i].Group` and `Versions` of the spec's *extension objects* in place (`uconn.Extensions` is a
shallow copy of `p.Extensions`). The same spec object is applied again by
`BuildHandshakeStateWithoutSession` followed by `BuildHandshakeState` (the cached
`uconn.clientHelloSpec`), and whenever one `ClientHelloSpec` is given to several `HelloCustom`
connections: the second application then sees the first one's concrete values instead of
`GREASE_PLACEHOLDER`. A user-written spec may also carry any literal GREASE value ("just in case the user
set a GREASE value instead of unGREASEd").
-/
namespace Grease

/-- the GREASE-bearing lists of a `ClientHelloSpec` object. -/
structure SpecLists where
  ciphers : List Nat
  groups : List Nat
  shares : List Nat
  versions : List Nat
  deriving DecidableEq, Repr

/-- the GREASE-bearing part of the hello one application produces. -/
structure HelloGrease where
  ciphers : List Nat
  groups : List Nat
  shares : List Nat
  versions : List Nat
  exts : List Nat
  deriving DecidableEq, Repr

/-- one `ApplyPreset` with the seed words just read from `Config.Rand` (before de-duplication) on a spec
holding `nExt` GREASE extensions: the spec object after the call, and the hello's values. -/
def applySpec (raw : Seeds) (nExt : Nat) (p : SpecLists) : SpecLists × HelloGrease :=
  let s := dedup raw
  let p' : SpecLists := { p with groups := subst s.group p.groups, shares := subst s.group p.shares,
                                 versions := subst s.version p.versions }
  (p', ⟨subst s.cipher p.ciphers, p'.groups, p'.shares, p'.versions, (List.range nExt).map (extValue s)⟩)

/-- a sequence of applications of one spec object (one per connection / per build step). -/
def applySpecAll (nExt : Nat) : List Seeds → SpecLists → List HelloGrease
  | [], _ => []
  | s :: ss, p => (applySpec s nExt p).2 :: applySpecAll nExt ss (applySpec s nExt p).1

/-- a literal GREASE value in a spec stands for the placeholder. -/
def toPlaceholder (x : Nat) : Nat := if isGrease x then 0x0a0a else x

end Grease
