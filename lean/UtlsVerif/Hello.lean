import UtlsVerif.Wire
import UtlsVerif.Sni
import UtlsVerif.Ext
import UtlsVerif.Varint
/-!
# Hello — `(*UConn).MarshalClientHelloNoECH` (/repo/u_conn.go), the padding policies
(`BoringPaddingStyle`, `AlwaysPadToLen`, /repo/u_tls_extensions.go) and an **independent strict
ClientHello parser** with the validity predicate of property C02.

The marshaller is general over an arbitrary `List Ext` (the state of `uconn.Extensions` when
`MarshalClientHelloNoECH` runs, i.e. after `ApplyPreset`/`ApplyConfig`/session loading) and the five
hello fields it serialises. It transcribes the code that exists:

* the length accounting (`headerLength`, `extensionsLen` without padding, `paddingExt.Update` from the
  unpadded length, `helloLen`), with the code's truncating `byte(x>>8)` length fields;
* the (repaired, D02) refusal of an extensions block > 65535 bytes / a hello > 2^24-1 bytes;
* the `bufio.Writer` of size `helloLen+4`: header writes (`bufWrite`), then `ReadFrom(ext)` per
  extension, which hands `ext.Read` exactly the *remaining* part of the buffer — or, once the buffer is
  empty after a flush, the spare capacity (≥ 512 bytes) of the `bytes.Buffer` behind it;
* the final check `helloBuffer.Len() == 4+helloLen`.

Core Lean only (linked into `utlsmodel`).
-/
namespace Hello
open Wire Ext Ext.Ext

/-- the fields of `PubClientHelloMsg` that `MarshalClientHelloNoECH` serialises itself. -/
structure HelloFields where
  vers : Nat
  random : Bytes
  sessionId : Bytes
  cipherSuites : List Nat
  compressionMethods : Bytes
  deriving DecidableEq, Repr

/-! ## Padding policies -/

/-- `UtlsPaddingExtension.GetPaddingLen`: `nil`, `BoringPaddingStyle` or `AlwaysPadToLen(n)`. -/
inductive PadPolicy where
  | none
  | boring
  | padTo (n : Nat)
  deriving DecidableEq, Repr

/-- `BoringPaddingStyle(unpaddedLen)`. -/
def boringPadding (unpaddedLen : Nat) : Nat × Bool :=
  if 0xff < unpaddedLen ∧ unpaddedLen < 0x200 then
    let paddingLen := 0x200 - unpaddedLen
    (if paddingLen ≥ 4 + 1 then paddingLen - 4 else 1, true)
  else (0, false)

/-- `AlwaysPadToLen(padToLen)(unpaddedLen)` (a non-positive `padToLen` behaves like `0`). -/
def alwaysPadTo (padToLen unpaddedLen : Nat) : Nat × Bool :=
  if unpaddedLen < padToLen then
    let paddingLen := padToLen - unpaddedLen
    (if paddingLen ≥ 4 + 1 then paddingLen - 4 else 1, true)
  else (0, false)

/-- `(*UtlsPaddingExtension).Update`: the policy overwrites `(PaddingLen, WillPad)`; without a policy
they stay as the caller set them. -/
def PadPolicy.apply : PadPolicy → Nat → Nat × Bool → Nat × Bool
  | .none, _, cur => cur
  | .boring, l, _ => boringPadding l
  | .padTo n, l, _ => alwaysPadTo n l

def isPadding : Ext → Bool
  | padding _ _ => true
  | _ => false

/-- the padding extension after `Update(unpaddedLen)`; every other extension is untouched. -/
def updatePad (pol : PadPolicy) (unpaddedLen : Nat) : Ext → Ext
  | padding n w => padding (pol.apply unpaddedLen (n, w)).1 (pol.apply unpaddedLen (n, w)).2
  | e => e

/-- the padding extension object with some stored `(PaddingLen, WillPad)` — e.g. what an earlier
marshal over the same object left behind. -/
def setPad (c : Nat × Bool) : Ext → Ext
  | padding _ _ => padding c.1 c.2
  | e => e

/-! ## Length accounting -/

/-- `headerLength`. The random is *assumed* to be 32 bytes here; the bytes written are `f.random`. -/
def headerLength (f : HelloFields) : Nat :=
  2 + 32 + 1 + f.sessionId.length + 2 + f.cipherSuites.length * 2 + 1 + f.compressionMethods.length

/-- first loop: `extensionsLen += ext.Len()` for everything that is not a `*UtlsPaddingExtension`. -/
def extsLenNoPad : List Ext → Nat
  | [] => 0
  | e :: r => (if isPadding e then 0 else len e) + extsLenNoPad r

def paddingCount : List Ext → Nat
  | [] => 0
  | e :: r => (if isPadding e then 1 else 0) + paddingCount r

/-- `paddingExt`: the first padding extension's `(PaddingLen, WillPad)`. -/
def firstPadding : List Ext → Option (Nat × Bool)
  | [] => none
  | padding n w :: _ => some (n, w)
  | _ :: r => firstPadding r

/-- what `paddingExt.Update` is called with: `headerLength + 4 + extensionsLen + 2`. -/
def unpaddedLen (f : HelloFields) (xs : List Ext) : Nat := headerLength f + 4 + extsLenNoPad xs + 2

/-- `extensionsLen` after `extensionsLen += paddingExt.Len()`. -/
def extensionsLen (f : HelloFields) (pol : PadPolicy) (xs : List Ext) : Nat :=
  extsLenNoPad xs +
    match firstPadding xs with
    | some cur => len (padding (pol.apply (unpaddedLen f xs) cur).1 (pol.apply (unpaddedLen f xs) cur).2)
    | none => 0

/-- `helloLen`. -/
def helloLen (f : HelloFields) (pol : PadPolicy) (xs : List Ext) : Nat :=
  if xs.isEmpty then headerLength f else headerLength f + 2 + extensionsLen f pol xs

/-- sum of `Len()` over a list. -/
def extsLen : List Ext → Nat
  | [] => 0
  | e :: r => len e + extsLen r

/-! ## The buffered writer -/

/-- error classes of `MarshalClientHelloNoECH`. -/
inductive MErr where
  | multiplePadding          -- "multiple padding extensions"
  | extsTooLong              -- (repair of D02) extensions block does not fit its uint16 length
  | helloTooLong             -- (repair of D02) handshake message does not fit its uint24 length
  | short                    -- io.ErrShortBuffer from an extension's Read
  | ext (cls : String)       -- any other error of an extension's Read
  | length                   -- "utls: unexpected ClientHello length"
  /-- an extension longer than the guaranteed 512 spare bytes read straight into the `bytes.Buffer`
  (only reachable when earlier parts wrote more than was accounted for): `io.ErrShortBuffer` or the
  final length error, depending on the allocator — some error in either case. -/
  | directLarge
  deriving DecidableEq, Repr

inductive MRes where
  | ok (raw : Bytes)
  | err (e : MErr)
  deriving DecidableEq, Repr

/-- `bufio.Writer` (size `S`) over a `bytes.Buffer`: `n` bytes are held in the buffer, `out` is
everything written so far (flushed part followed by the buffered part). -/
structure BufSt where
  n : Nat
  out : Bytes
  deriving DecidableEq, Repr

/-- `(*bufio.Writer).Write(p)`: copy what fits, flush, write an over-long rest directly. -/
def bufWrite (S : Nat) (st : BufSt) (p : Bytes) : BufSt :=
  let k := p.length
  let n' :=
    if k ≤ S - st.n then st.n + k
    else if st.n = 0 then 0
    else (if k - (S - st.n) ≤ S then k - (S - st.n) else 0)
  { n := n', out := st.out ++ p }

/-- `bytes.Buffer.ReadFrom` grows by at least `MinRead` before each `Read`. -/
def directCap : Nat := 512

/-- `(*bufio.Writer).ReadFrom(ext)`. -/
def readStep (S : Nat) (st : BufSt) (e : Ext) : Except MErr BufSt :=
  let n := if S ≤ st.n then 0 else st.n          -- Available() == 0 → Flush()
  if n = 0 then
    -- Buffered() == 0 and the underlying writer is an io.ReaderFrom: bytes.Buffer.ReadFrom(ext)
    match Ext.read e directCap with
    | .ok bs => .ok { n := 0, out := st.out ++ bs }
    | .eof0 => .ok { n := 0, out := st.out }
    | .short => .error .directLarge
    | .err c => .error (.ext c)
  else
    match Ext.read e (S - n) with
    | .ok bs => .ok { n := n + bs.length, out := st.out ++ bs }
    | .eof0 => .ok { n := n, out := st.out }
    | .short => .error .short
    | .err c => .error (.ext c)

def readAll (S : Nat) : BufSt → List Ext → Except MErr BufSt
  | st, [] => .ok st
  | st, e :: r =>
    match readStep S st e with
    | .ok st' => readAll S st' r
    | .error err => .error err

/-- the `binary.Write` calls before the extensions, one chunk per call. -/
def headerChunks (f : HelloFields) (hlen : Nat) : List Bytes :=
  [[b 1], u24 hlen, u16 f.vers, f.random, u8 f.sessionId.length, f.sessionId,
   u16 (f.cipherSuites.length * 2)] ++ f.cipherSuites.map u16 ++
  [u8 f.compressionMethods.length, f.compressionMethods]

/-- `MarshalClientHelloNoECH` (with the repair of D02). -/
def marshalNoECH (f : HelloFields) (pol : PadPolicy) (xs : List Ext) : MRes :=
  if 2 ≤ paddingCount xs then .err .multiplePadding else
  let el := extensionsLen f pol xs
  let hl := helloLen f pol xs
  if 65535 < el then .err .extsTooLong else
  if 16777215 < hl then .err .helloTooLong else
  let S := hl + 4
  let chunks := headerChunks f hl ++ (if xs.isEmpty then [] else [u16 el])
  let st0 := chunks.foldl (bufWrite S) { n := 0, out := [] }
  match readAll S st0 (xs.map (updatePad pol (unpaddedLen f xs))) with
  | .error e => .err e
  | .ok st => if st.out.length = 4 + hl then .ok st.out else .err .length

/-- a sequence of marshals over one extension-list object whose padding extension carries stored state
from step to step (`next` = however that state evolves: `Update`, user code, another connection sharing
the spec object). -/
def marshalSeq (pol : PadPolicy) (next : Nat × Bool → HelloFields → List Ext → Nat × Bool) :
    Nat × Bool → List (HelloFields × List Ext) → List MRes
  | _, [] => []
  | c, (f, xs) :: r => marshalNoECH f pol (xs.map (setPad c)) :: marshalSeq pol next (next c f xs) r

/-- `append(exts[:i], append([]TLSExtension{e}, exts[i:]...)...)`: what `processHelloRetryRequest` does
with the server's cookie (`i` drawn below `len-2`). -/
def insertAt (i : Nat) (e : Ext) (xs : List Ext) : List Ext := xs.take i ++ e :: xs.drop i

/-- the bytes an extension contributes to a ClientHello (nothing when `Read` bails out). -/
def emit (e : Ext) : Bytes :=
  match Ext.read e (need e) with
  | .ok bs => bs
  | _ => []

def emits (e : Ext) : Bool := !(emit e).isEmpty

/-! ## Independent strict parser -/

structure ParsedCH where
  vers : Nat
  random : Bytes
  sessionId : Bytes
  suites : List Nat
  comps : Bytes
  /-- `none`: no extensions block at all. -/
  exts : Option (List (Nat × Bytes))
  deriving DecidableEq, Repr

/-- `Extension extensions<0..2^16-1>`: (type, opaque extension_data<0..2^16-1>)*, consumed exactly. -/
def parseExtsFuel : Nat → Bytes → Option (List (Nat × Bytes))
  | _, [] => some []
  | 0, _ => none
  | fuel + 1, bs =>
    match readU16 bs with
    | none => none
    | some (t, r) =>
      match readVec16 r with
      | none => none
      | some (bd, r') => (parseExtsFuel fuel r').map ((t, bd) :: ·)

def parseExts (bs : Bytes) : Option (List (Nat × Bytes)) := parseExtsFuel bs.length bs

/-- handshake header + RFC 8446 §4.1.2 `ClientHello`, every length prefix exact, nothing trailing. -/
def parseCH (bs : Bytes) : Option ParsedCH :=
  match readU8 bs with
  | none => none
  | some (t, r0) =>
    if t ≠ 1 then none else
    match readVec24 r0 with
    | none => none
    | some (msg, trailing) =>
      if trailing ≠ [] then none else
      match readU16 msg with
      | none => none
      | some (vers, r1) =>
        match take? 32 r1 with
        | none => none
        | some (random, r2) =>
          match readVec8 r2 with
          | none => none
          | some (sid, r3) =>
            match readVec16 r3 with
            | none => none
            | some (cs, r4) =>
              match decU16s cs with
              | none => none
              | some suites =>
                match readVec8 r4 with
                | none => none
                | some (comps, r5) =>
                  if r5 = [] then
                    some { vers := vers, random := random, sessionId := sid, suites := suites, comps := comps, exts := none }
                  else
                    match readVec16 r5 with
                    | none => none
                    | some (eb, r6) =>
                      if r6 ≠ [] then none else
                      match parseExts eb with
                      | none => none
                      | some es =>
                        some { vers := vers, random := random, sessionId := sid, suites := suites, comps := comps, exts := some es }

def ParsedCH.extList (p : ParsedCH) : List (Nat × Bytes) := p.exts.getD []
def ParsedCH.extTypes (p : ParsedCH) : List Nat := p.extList.map (·.1)

/-! ### extension bodies -/

def exact8 (bd : Bytes) : Option Bytes :=
  match readVec8 bd with
  | some (x, []) => some x
  | _ => none

def exact16 (bd : Bytes) : Option Bytes :=
  match readVec16 bd with
  | some (x, []) => some x
  | _ => none

/-- `opaque item<0..255>` repeated, consumed exactly. -/
def parseVec8sFuel : Nat → Bytes → Option (List Bytes)
  | _, [] => some []
  | 0, _ => none
  | fuel + 1, bs =>
    match readVec8 bs with
    | none => none
    | some (x, r) => (parseVec8sFuel fuel r).map (x :: ·)

def parseVec8s (bs : Bytes) : Option (List Bytes) := parseVec8sFuel bs.length bs

/-- `(uint8 type, opaque data<0..2^16-1>)` repeated (ServerName, CertificateStatusRequestItemV2). -/
def parseTypedFuel : Nat → Bytes → Option (List (Nat × Bytes))
  | _, [] => some []
  | 0, _ => none
  | fuel + 1, bs =>
    match readU8 bs with
    | none => none
    | some (t, r) =>
      match readVec16 r with
      | none => none
      | some (d, r') => (parseTypedFuel fuel r').map ((t, d) :: ·)

def parseTyped (bs : Bytes) : Option (List (Nat × Bytes)) := parseTypedFuel bs.length bs

/-- `KeyShareEntry`: (uint16 group, opaque key_exchange<1..2^16-1>) repeated. -/
def parseSharesFuel : Nat → Bytes → Option (List (Nat × Bytes))
  | _, [] => some []
  | 0, _ => none
  | fuel + 1, bs =>
    match readU16 bs with
    | none => none
    | some (g, r) =>
      match readVec16 r with
      | none => none
      | some (d, r') => (parseSharesFuel fuel r').map ((g, d) :: ·)

def parseShares (bs : Bytes) : Option (List (Nat × Bytes)) := parseSharesFuel bs.length bs

/-- `PskIdentity`: (opaque identity<1..2^16-1>, uint32 obfuscated_ticket_age) repeated. -/
def parseIdsFuel : Nat → Bytes → Option (List (Bytes × Nat))
  | _, [] => some []
  | 0, _ => none
  | fuel + 1, bs =>
    match readVec16 bs with
    | none => none
    | some (l, r) =>
      match readU32 r with
      | none => none
      | some (a, r') => (parseIdsFuel fuel r').map ((l, a) :: ·)

def parseIds (bs : Bytes) : Option (List (Bytes × Nat)) := parseIdsFuel bs.length bs

/-- a non-empty vector of `uint16` code points behind a 2-byte length. -/
def u16VecOk (bd : Bytes) : Bool :=
  match exact16 bd with
  | some l => !l.isEmpty && l.length % 2 == 0
  | none => false

/-- a non-empty vector of `uint16` code points behind a 1-byte length. -/
def u16Vec8Ok (bd : Bytes) : Bool :=
  match exact8 bd with
  | some l => !l.isEmpty && l.length % 2 == 0
  | none => false

def nonEmptyVec8Ok (bd : Bytes) : Bool :=
  match exact8 bd with
  | some l => !l.isEmpty
  | none => false

/-- `ProtocolName protocol_name_list<2..2^16-1>`, each `opaque ProtocolName<1..2^8-1>`. -/
def protoListOk (bd : Bytes) : Bool :=
  match exact16 bd with
  | some l =>
    !l.isEmpty &&
    match parseVec8s l with
    | some ps => ps.all fun p => !p.isEmpty
    | none => false
  | none => false

/-- RFC 6066 §3 `ServerNameList`: non-empty, names non-empty, at most one `host_name`, which carries no
trailing dot. -/
def sniOk (bd : Bytes) : Bool :=
  match exact16 bd with
  | some l =>
    !l.isEmpty &&
    match parseTyped l with
    | some es =>
      es.all (fun x => !x.2.isEmpty) && (es.filter fun x => x.1 == 0).length ≤ 1 &&
      es.all (fun x => x.1 != 0 || x.2.getLast? != some 46)
    | none => false
  | none => false

/-- `OCSPStatusRequest`: responder_id_list<0..2^16-1>, request_extensions<0..2^16-1>, exact. -/
def ocspReqOk (bd : Bytes) : Bool :=
  match readVec16 bd with
  | some (_, r) =>
    match readVec16 r with
    | some (_, []) => true
    | _ => false
  | none => false

def statusReqOk (bd : Bytes) : Bool :=
  match readU8 bd with
  | some (t, r) => if t = 1 then ocspReqOk r else true
  | none => false

/-- RFC 6961 `CertificateStatusRequestListV2`. -/
def statusReqV2Ok (bd : Bytes) : Bool :=
  match exact16 bd with
  | some l =>
    !l.isEmpty &&
    match parseTyped l with
    | some items => items.all fun x => if x.1 = 1 ∨ x.1 = 2 then ocspReqOk x.2 else true
    | none => false
  | none => false

def tokenBindingOk : Bytes → Bool
  | _ :: _ :: r => nonEmptyVec8Ok r
  | _ => false

/-- RFC 8446 §4.2.11 `OfferedPsks`. -/
def pskOk (bd : Bytes) : Bool :=
  match readVec16 bd with
  | some (ids, r) =>
    (match exact16 r with
     | some bs =>
       (match parseIds ids with
        | some is => !is.isEmpty && is.all fun x => !x.1.isEmpty
        | none => false) &&
       (match parseVec8s bs with
        | some bl => !bl.isEmpty && bl.all fun x => 32 ≤ x.length
        | none => false)
     | none => false)
  | none => false

def keyShareOk (bd : Bytes) : Bool :=
  match exact16 bd with
  | some l =>
    match parseShares l with
    | some ss => ss.all fun x => !x.2.isEmpty
    | none => false
  | none => false

/-- draft-ietf-tls-esni `ECHClientHello`: outer = suite, config_id, enc<0..2^16-1>, payload<1..2^16-1>;
inner = empty. -/
def echOk (bd : Bytes) : Bool :=
  match readU8 bd with
  | some (t, r) =>
    if t = 1 then r.isEmpty
    else if t ≠ 0 then false
    else
      match readU16 r with
      | some (_, r) =>
        match readU16 r with
        | some (_, r) =>
          match readU8 r with
          | some (_, r) =>
            match readVec16 r with
            | some (_, r) =>
              match exact16 r with
              | some payload => !payload.isEmpty
              | none => false
            | none => false
          | none => false
        | none => false
      | none => false
  | none => false

/-- the ClientHello grammar of every extension type uTLS can build; unknown (and GREASE) types are opaque. -/
def bodyOk (t : Nat) (bd : Bytes) : Bool :=
  if t = 0 then sniOk bd
  else if t = 5 then statusReqOk bd
  else if t = 10 then u16VecOk bd
  else if t = 11 then nonEmptyVec8Ok bd
  else if t = 13 then u16VecOk bd
  else if t = 16 then protoListOk bd
  else if t = 17 then statusReqV2Ok bd
  else if t = 18 then bd.isEmpty
  else if t = 21 then bd.all (· == 0)
  else if t = 23 then bd.isEmpty
  else if t = 24 then tokenBindingOk bd
  else if t = 27 then u16Vec8Ok bd
  else if t = 28 then bd.length == 2
  else if t = 34 then u16VecOk bd
  else if t = 41 then pskOk bd
  else if t = 43 then u16Vec8Ok bd
  else if t = 44 then (match exact16 bd with | some c => !c.isEmpty | none => false)
  else if t = 45 then nonEmptyVec8Ok bd
  else if t = 50 then u16VecOk bd
  else if t = 51 then keyShareOk bd
  else if t = 57 then (Varint.parseTPs bd).isSome
  else if t = 13172 then bd.isEmpty
  else if t = 17513 then protoListOk bd
  else if t = 17613 then protoListOk bd
  else if t = 30031 then bd.isEmpty
  else if t = 30032 then bd.isEmpty
  else if t = 65037 then echOk bd
  else if t = 65281 then (exact8 bd).isSome
  else true

def distinctB : List Nat → Bool
  | [] => true
  | t :: r => !r.contains t && distinctB r

/-- pre_shared_key (41) occurs at most as the last element. -/
def pskLastB : List Nat → Bool
  | [] => true
  | t :: r => (r.isEmpty || t != 41) && pskLastB r

/-- the validity predicate of C02 on a parsed ClientHello (`parseCH` already demands that every
length prefix matches and nothing trails): no repeated extension type, pre_shared_key last, every known
extension body under its grammar. -/
def validCH (p : ParsedCH) : Bool :=
  distinctB p.extTypes && pskLastB p.extTypes && p.extList.all fun x => bodyOk x.1 x.2

/-- first failing clause, for the monitor. -/
def invalidClause (p : ParsedCH) : Option String :=
  if !distinctB p.extTypes then some "repeated-extension-type"
  else if !pskLastB p.extTypes then some "pre_shared_key-not-last"
  else match p.extList.find? fun x => !bodyOk x.1 x.2 with
    | some x => some s!"extension-body-grammar-type-{x.1}"
    | none => none

/-! ## Well-formedness of what is marshalled (the decidable hypotheses of the theorems) -/

/-- field values within their wire/RFC limits; implies `Ext.WF` and is what the body grammar needs. -/
def extOKb : Ext → Bool
  | sni name => (Sni.hostnameInSNI name).length + 5 < 65536
  | supportedCurves c => !c.isEmpty && 2 + 2 * c.length < 65536 && c.all (· < 65536)
  | supportedPoints p => !p.isEmpty && p.length < 256 && p.all (· < 256)
  | sigAlgs a => !a.isEmpty && 2 + 2 * a.length < 65536 && a.all (· < 65536)
  | sigAlgsCert a => !a.isEmpty && 2 + 2 * a.length < 65536 && a.all (· < 65536)
  | delegatedCreds a => !a.isEmpty && 2 + 2 * a.length < 65536 && a.all (· < 65536)
  | alpn ps => !ps.isEmpty && vec8sLen ps + 2 < 65536 && ps.all fun p => !p.isEmpty && p.length < 256
  | alps _ ps => !ps.isEmpty && vec8sLen ps + 2 < 65536 && ps.all fun p => !p.isEmpty && p.length < 256
  | generic id d => id < 65536 && d.length < 65536 && bodyOk id d
  | grease v bd => isGreaseU16 v && v < 65536 && bd.length < 65536
  | padding _ _ => true
  | compressCert a => !a.isEmpty && 2 * a.length < 256 && a.all (· < 65536)
  | keyShare s => sharesLen s + 2 < 65536 && s.all fun x => x.1 < 65536 && !x.2.isEmpty
  | quicTP m => m.length < 65536 && (Varint.parseTPs m).isSome
  | pskModes m => !m.isEmpty && m.length < 256 && m.all (· < 256)
  | supportedVersions v => !v.isEmpty && 2 * v.length < 256 && v.all (· < 65536)
  | cookie c => !c.isEmpty && 2 + c.length < 65536
  | renegInfo d => d.length < 256
  | recordSizeLimit l => l < 65536
  | tokenBinding ma mi p => ma < 256 && mi < 256 && !p.isEmpty && p.length < 256 && p.all (· < 256)
  | sessionTicket t => t.length < 65536
  | psk _ _ _ ids binders =>
      pskExtLen ids binders < 65536 && ids.all (fun x => !x.1.isEmpty && x.2 < 4294967296) &&
      binders.all fun x => 32 ≤ x.length && x.length < 256
  | greaseECH kdf aead cid enc payload =>
      (kdf = 1 || kdf = 2 || kdf = 3) && (aead = 1 || aead = 2 || aead = 3) && cid < 256 &&
      16 ≤ payload.length && 10 + enc.length + payload.length < 65536
  | _ => true

def fieldsOK (f : HelloFields) : Bool :=
  f.vers < 65536 && f.sessionId.length < 256 && f.cipherSuites.length * 2 < 65536 &&
  f.cipherSuites.all (· < 65536) && f.compressionMethods.length < 256

/-- "custom spec built from the library's extension types (each extension type at most once) with
field values within their RFC limits", pre_shared_key last (what `syncSessionExts` asserts). -/
def specOK (f : HelloFields) (xs : List Ext) : Bool :=
  fieldsOK f && xs.all extOKb && distinctB (xs.map typeId) && pskLastB (xs.map typeId)

/-- what a valid output must parse to. -/
def expectedExts (f : HelloFields) (pol : PadPolicy) (xs : List Ext) : Option (List (Nat × Bytes)) :=
  if xs.isEmpty then none
  else some (((xs.map (updatePad pol (unpaddedLen f xs))).filter emits).map fun e => (typeId e, body e))

/-- the padding extension bodies of a parsed hello. -/
def ParsedCH.paddings (p : ParsedCH) : List Bytes := (p.extList.filter fun x => x.1 == 21).map (·.2)

end Hello
