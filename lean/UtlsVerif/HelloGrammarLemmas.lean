import UtlsVerif.HelloLemmas
/-!
# HelloGrammarLemmas — every built-in extension's body satisfies the strict ClientHello grammar
(`Hello.bodyOk`) when its field values are within limits (`Hello.extOKb`).
-/
namespace Hello
open Wire Ext Ext.Ext

private theorem all_lt {l : List Nat} {n : Nat} (h : (l.all (· < n)) = true) : ∀ x ∈ l, x < n := by
  intro x hx
  have := List.all_eq_true.mp h x hx
  simpa using this

private theorem ne_nil_of_isEmpty {α} {l : List α} (h : (!l.isEmpty) = true) : l ≠ [] := by
  cases l <;> simp_all

/-- `extOKb` is at least `Ext.WF`. -/
theorem extOKb_wf (e : Ext) (h : extOKb e = true) (hp : isPadding e = false ∨ ∃ n w, e = padding n w ∧ n < 65536) : WF e := by
  cases e <;> simp only [extOKb, Bool.and_eq_true, decide_eq_true_eq, Bool.or_eq_true] at h <;> simp only [WF]
  case sni n => exact h
  case supportedCurves c => exact ⟨ne_nil_of_isEmpty h.1.1, h.1.2, all_lt h.2⟩
  case supportedPoints c => exact ⟨ne_nil_of_isEmpty h.1.1, h.1.2, all_lt h.2⟩
  case sigAlgs c => exact ⟨ne_nil_of_isEmpty h.1.1, h.1.2, all_lt h.2⟩
  case sigAlgsCert c => exact ⟨ne_nil_of_isEmpty h.1.1, h.1.2, all_lt h.2⟩
  case delegatedCreds c => exact ⟨ne_nil_of_isEmpty h.1.1, h.1.2, all_lt h.2⟩
  case alpn ps =>
    refine ⟨ne_nil_of_isEmpty h.1.1, h.1.2, ?_⟩
    intro p hp'
    have := List.all_eq_true.mp h.2 p hp'
    simp only [Bool.and_eq_true, decide_eq_true_eq] at this
    exact ⟨ne_nil_of_isEmpty this.1, this.2⟩
  case alps nw ps =>
    refine ⟨ne_nil_of_isEmpty h.1.1, h.1.2, ?_⟩
    intro p hp'
    have := List.all_eq_true.mp h.2 p hp'
    simp only [Bool.and_eq_true, decide_eq_true_eq] at this
    exact ⟨ne_nil_of_isEmpty this.1, this.2⟩
  case generic id d => exact ⟨h.1.1, h.1.2⟩
  case grease v bd => exact ⟨h.1.1, h.1.2, h.2⟩
  case padding n w =>
    rcases hp with hp | ⟨n', w', he, hn⟩
    · simp [isPadding] at hp
    · cases he; exact hn
  case compressCert a => exact ⟨h.1.2, all_lt h.2⟩
  case keyShare s =>
    refine ⟨h.1, ?_⟩
    intro x hx
    have := List.all_eq_true.mp h.2 x hx
    simp only [Bool.and_eq_true, decide_eq_true_eq] at this
    exact ⟨this.1, ne_nil_of_isEmpty this.2⟩
  case quicTP m => exact h.1
  case pskModes m => exact ⟨h.1.2, all_lt h.2⟩
  case supportedVersions v => exact ⟨ne_nil_of_isEmpty h.1.1, h.1.2, all_lt h.2⟩
  case cookie c => exact h.2
  case renegInfo d => exact h
  case recordSizeLimit l => exact h
  case tokenBinding ma mi p => exact ⟨h.1.1.1.1, h.1.1.1.2, h.1.2, all_lt h.2⟩
  case sessionTicket t => exact h
  case psk f o s ids binders =>
    refine ⟨h.1.1, ?_, ?_⟩
    · intro x hx
      have := List.all_eq_true.mp h.1.2 x hx
      simp only [Bool.and_eq_true, decide_eq_true_eq] at this
      exact this.2
    · intro x hx
      have := List.all_eq_true.mp h.2 x hx
      simp only [Bool.and_eq_true, decide_eq_true_eq] at this
      exact this.2
  case greaseECH kdf aead cid enc payload =>
    obtain ⟨⟨⟨⟨h1, h2⟩, h3⟩, h4⟩, h5⟩ := h
    refine ⟨?_, ?_, h3, h4, h5⟩
    · rcases h1 with (h | h) | h <;> simp_all
    · rcases h2 with (h | h) | h <;> simp_all

/-- type ids fit the 2-byte field. -/
theorem typeId_lt (e : Ext) (h : extOKb e = true) : typeId e < 65536 := by
  cases e <;> simp only [typeId] <;> try omega
  case alps nw ps => cases nw <;> simp
  case generic id d => simp only [extOKb, Bool.and_eq_true, decide_eq_true_eq] at h; exact h.1.1
  case grease v bd => simp only [extOKb, Bool.and_eq_true, decide_eq_true_eq] at h; exact h.1.2
  case channelId o => cases o <;> simp

private theorem parseTyped_single (h : Bytes) (hl : h.length < 65536) :
    parseTyped ([0] ++ (u16 h.length ++ h)) = some [(0, h)] := by
  unfold parseTyped
  have hlen : ([0] ++ (u16 h.length ++ h) : Bytes).length = (h.length + 2) + 1 := by simp; omega
  rw [hlen]
  unfold parseTypedFuel
  simp only [List.singleton_append, readU8]
  have : u16 h.length ++ h = vec16 h ++ [] := by simp [vec16]
  rw [this, readVec16_vec16 _ _ hl]
  simp only
  cases hh : h.length + 2 <;> simp [parseTypedFuel]

private theorem sni_ok (name : Bytes) (hok : (Sni.hostnameInSNI name).length + 5 < 65536)
    (hne : Sni.hostnameInSNI name ≠ []) : sniOk (body (sni name)) = true := by
  have hlast := host_last name
  simp only [body]
  generalize Sni.hostnameInSNI name = h at *
  unfold sniOk
  have e1 : u16 (h.length + 3) ++ [0] ++ u16 h.length ++ h = u16 (h.length + 3) ++ ([0] ++ (u16 h.length ++ h)) := by simp
  rw [e1, exact16_of _ _ (by simp; omega) (by omega)]
  dsimp only
  rw [parseTyped_single h (by omega)]
  have hne3 : h.isEmpty = false := by cases h <;> simp_all
  simp [hne3, hlast]

private theorem keyShare_ok (ss : List (Nat × Bytes)) (h1 : sharesLen ss + 2 < 65536)
    (h2 : ∀ x ∈ ss, x.1 < 65536 ∧ x.2 ≠ []) : keyShareOk (u16 (sharesLen ss) ++ encShares ss) = true := by
  unfold keyShareOk
  rw [exact16_of _ _ (by simp) (by omega)]
  dsimp only
  have hdl : ∀ x ∈ ss, x.1 < 65536 ∧ x.2.length < 65536 := by
    intro x hx
    have := share_le_sharesLen ss x hx
    exact ⟨(h2 x hx).1, by omega⟩
  unfold parseShares
  rw [parseSharesFuel_enc ss hdl _ (Nat.le_refl _)]
  simp only [List.all_eq_true]
  intro x hx
  have := (h2 x hx).2
  cases hx2 : x.2 <;> simp_all

private theorem id_le_identitiesLen (ids : List (Bytes × Nat)) :
    ∀ x ∈ ids, 2 + x.1.length + 4 ≤ identitiesLen ids := by
  induction ids with
  | nil => intro x hx; cases hx
  | cons y ys ih =>
    intro x hx
    obtain ⟨l, a⟩ := y
    rw [identitiesLen_cons]
    rcases List.mem_cons.mp hx with rfl | h
    · simp
    · have := ih x h; omega

private theorem psk_ok (ids : List (Bytes × Nat)) (binders : List Bytes)
    (hlen : 4 + 2 + identitiesLen ids + 2 + vec8sLen binders < 65536)
    (hi : ids ≠ []) (hb : binders ≠ [])
    (h2 : ∀ x ∈ ids, x.1 ≠ [] ∧ x.2 < 4294967296) (h3 : ∀ x ∈ binders, 32 ≤ x.length ∧ x.length < 256) :
    pskOk (u16 (identitiesLen ids) ++ encIdentities ids ++ u16 (vec8sLen binders) ++ encVec8s binders) = true := by
  unfold pskOk
  have e1 : u16 (identitiesLen ids) ++ encIdentities ids ++ u16 (vec8sLen binders) ++ encVec8s binders
      = vec16 (encIdentities ids) ++ (u16 (vec8sLen binders) ++ encVec8s binders) := by simp [vec16]
  rw [e1, readVec16_vec16 _ _ (by simp; omega)]
  dsimp only
  rw [exact16_of _ _ (by simp) (by omega)]
  dsimp only
  have hil : ∀ x ∈ ids, x.1.length < 65536 ∧ x.2 < 4294967296 := by
    intro x hx
    refine ⟨?_, (h2 x hx).2⟩
    have := id_le_identitiesLen ids x hx
    omega
  unfold parseIds parseVec8s
  rw [parseIdsFuel_enc ids hil _ (Nat.le_refl _), parseVec8sFuel_enc binders (fun p hp => (h3 p hp).2) _ (Nat.le_refl _)]
  have hi' : ids.isEmpty = false := by cases ids <;> simp_all
  have hb' : binders.isEmpty = false := by cases binders <;> simp_all
  simp only [hi', hb', Bool.not_false, Bool.true_and, Bool.and_eq_true, List.all_eq_true, decide_eq_true_eq]
  refine ⟨?_, fun x hx => (h3 x hx).1⟩
  intro x hx
  have := (h2 x hx).1
  cases hx1 : x.1 <;> simp_all

private theorem ech_ok (kdf aead cid : Nat) (enc payload : Bytes)
    (h4 : 16 ≤ payload.length) (h5 : 10 + enc.length + payload.length < 65536) :
    echOk ([0] ++ u16 kdf ++ u16 aead ++ [b cid] ++ u16 enc.length ++ enc ++ u16 payload.length ++ payload) = true := by
  unfold echOk
  have e0 : ([0] ++ u16 kdf ++ u16 aead ++ [b cid] ++ u16 enc.length ++ enc ++ u16 payload.length ++ payload : Bytes)
      = (0 : UInt8) :: (u16 kdf ++ (u16 aead ++ (b cid :: (vec16 enc ++ (u16 payload.length ++ payload))))) := by
    simp [vec16]
  rw [e0]
  simp only [readU8]
  rw [if_neg (by decide), if_neg (by decide), readU16_u16]
  simp only
  rw [readU16_u16]
  simp only
  rw [readVec16_vec16 _ _ (by omega)]
  simp only
  rw [exact16_of _ _ rfl (by omega)]
  cases payload <;> simp_all

/-- **body grammar**: every built-in extension with field values within limits writes a body that the
strict ClientHello grammar of its type accepts. -/
theorem body_ok (e : Ext) (hok : extOKb e = true) (he : early e = none) : bodyOk (typeId e) (body e) = true := by
  cases e <;> simp only [extOKb, Bool.and_eq_true, decide_eq_true_eq, Bool.or_eq_true] at hok
  case sni name =>
    simp only [early] at he
    have hne : Sni.hostnameInSNI name ≠ [] := by
      intro h0; rw [h0] at he; simp at he
    simp only [typeId, bodyOk, ↓reduceIte]
    exact sni_ok name hok hne
  case statusRequest => decide
  case statusRequestV2 => decide
  case supportedCurves c =>
    simp only [typeId, bodyOk, body, Nat.reduceEqDiff, ↓reduceIte]
    exact u16VecOk_enc c (ne_nil_of_isEmpty hok.1.1) hok.1.2
  case sigAlgs c =>
    simp only [typeId, bodyOk, body, Nat.reduceEqDiff, ↓reduceIte]
    exact u16VecOk_enc c (ne_nil_of_isEmpty hok.1.1) hok.1.2
  case sigAlgsCert c =>
    simp only [typeId, bodyOk, body, Nat.reduceEqDiff, ↓reduceIte]
    exact u16VecOk_enc c (ne_nil_of_isEmpty hok.1.1) hok.1.2
  case delegatedCreds c =>
    simp only [typeId, bodyOk, body, Nat.reduceEqDiff, ↓reduceIte]
    exact u16VecOk_enc c (ne_nil_of_isEmpty hok.1.1) hok.1.2
  case supportedPoints p =>
    simp only [typeId, bodyOk, body, Nat.reduceEqDiff, ↓reduceIte]
    exact nonEmptyVec8Ok_enc p (ne_nil_of_isEmpty hok.1.1) hok.1.2
  case alpn ps =>
    simp only [typeId, bodyOk, body, Nat.reduceEqDiff, ↓reduceIte]
    refine protoListOk_enc ps (ne_nil_of_isEmpty hok.1.1) hok.1.2 ?_
    intro p hp
    have := List.all_eq_true.mp hok.2 p hp
    simp only [Bool.and_eq_true, decide_eq_true_eq] at this
    exact ⟨ne_nil_of_isEmpty this.1, this.2⟩
  case alps nw ps =>
    have h3 : ∀ p ∈ ps, p ≠ [] ∧ p.length < 256 := by
      intro p hp
      have := List.all_eq_true.mp hok.2 p hp
      simp only [Bool.and_eq_true, decide_eq_true_eq] at this
      exact ⟨ne_nil_of_isEmpty this.1, this.2⟩
    cases nw <;> simp only [typeId, bodyOk, body, Nat.reduceEqDiff, ↓reduceIte, Bool.false_eq_true] <;>
      exact protoListOk_enc ps (ne_nil_of_isEmpty hok.1.1) hok.1.2 h3
  case sct => decide
  case ems => decide
  case npn => decide
  case channelId o => cases o <;> decide
  case generic id d => exact hok.2
  case grease v bd => exact isGrease_not_known v hok.1.1 _
  case padding n w =>
    simp only [typeId, bodyOk, body, Nat.reduceEqDiff, ↓reduceIte]
    simp
  case compressCert a =>
    simp only [typeId, bodyOk, body, Nat.reduceEqDiff, ↓reduceIte]
    exact u16Vec8Ok_enc a (ne_nil_of_isEmpty hok.1.1) hok.1.2
  case supportedVersions a =>
    simp only [typeId, bodyOk, body, Nat.reduceEqDiff, ↓reduceIte]
    exact u16Vec8Ok_enc a (ne_nil_of_isEmpty hok.1.1) hok.1.2
  case pskModes m =>
    simp only [typeId, bodyOk, body, Nat.reduceEqDiff, ↓reduceIte]
    exact nonEmptyVec8Ok_enc m (ne_nil_of_isEmpty hok.1.1) hok.1.2
  case keyShare ss =>
    simp only [typeId, bodyOk, body, Nat.reduceEqDiff, ↓reduceIte]
    refine keyShare_ok ss hok.1 ?_
    intro x hx
    have := List.all_eq_true.mp hok.2 x hx
    simp only [Bool.and_eq_true, decide_eq_true_eq] at this
    exact ⟨this.1, ne_nil_of_isEmpty this.2⟩
  case quicTP m => exact hok.2
  case cookie c =>
    simp only [typeId, bodyOk, body, Nat.reduceEqDiff, ↓reduceIte]
    rw [exact16_of _ _ rfl (by omega)]
    exact hok.1
  case renegInfo d =>
    simp only [typeId, bodyOk, body, Nat.reduceEqDiff, ↓reduceIte]
    rw [exact8_of _ _ rfl hok]
    rfl
  case recordSizeLimit l => simp [typeId, bodyOk, body]
  case tokenBinding ma mi p =>
    simp only [typeId, bodyOk, body, Nat.reduceEqDiff, ↓reduceIte]
    have : ([b ma, b mi] ++ u8 p.length ++ encU8s p : Bytes) = b ma :: b mi :: (u8 p.length ++ encU8s p) := by simp
    rw [this]
    simp only [tokenBindingOk]
    exact nonEmptyVec8Ok_enc p (ne_nil_of_isEmpty hok.1.1.2) hok.1.2
  case sessionTicket t => simp [typeId, bodyOk]
  case psk fake om sess ids binders =>
    have hne := (pskEarly_none (by simpa [early] using he)).2
    have hx : pskExtLen ids binders = 4 + 2 + identitiesLen ids + 2 + vec8sLen binders ∧ ids ≠ [] ∧ binders ≠ [] := by
      unfold pskExtLen at hne ⊢
      split at hne
      · exact absurd rfl hne
      · rename_i hc
        rw [if_neg hc]
        refine ⟨rfl, ?_, ?_⟩
        · intro h0; apply hc; simp [h0]
        · intro h0; apply hc; simp [h0]
    simp only [typeId, bodyOk, body, Nat.reduceEqDiff, ↓reduceIte]
    refine psk_ok ids binders (by have := hok.1.1; omega) hx.2.1 hx.2.2 ?_ ?_
    · intro x hx'
      have := List.all_eq_true.mp hok.1.2 x hx'
      simp only [Bool.and_eq_true, decide_eq_true_eq] at this
      exact ⟨ne_nil_of_isEmpty this.1, this.2⟩
    · intro x hx'
      have := List.all_eq_true.mp hok.2 x hx'
      simp only [Bool.and_eq_true, decide_eq_true_eq] at this
      exact this
  case greaseECH kdf aead cid enc payload =>
    simp only [typeId, bodyOk, body, Nat.reduceEqDiff, ↓reduceIte]
    exact ech_ok kdf aead cid enc payload hok.1.2 hok.2

end Hello
