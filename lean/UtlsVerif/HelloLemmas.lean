import UtlsVerif.Hello
import UtlsVerif.ExtLemmas
/-!
# HelloLemmas — helper lemmas for the C02 / C05 theorems

Part A: per-extension facts about `Ext.read` (`Len` = bytes written, framing) — the statements of
`Props/C08` restated here so that model-level modules do not import a `Props` module.
Part B: what a successful `marshalNoECH` run wrote (`out = header ++ flatMap emit`), length accounting.
Part C: the strict parser on those bytes; the body grammar of every extension type.
-/
namespace Hello
open Wire Ext Ext.Ext

/-! ## Part A — per-extension facts -/

theorem pskEarly_cases (fake om sess : Bool) (ids : List (Bytes × Nat)) (binders : List Bytes) :
    (pskEarly fake om sess ids binders = some (.err "empty-psk")) ∨
    (pskEarly fake om sess ids binders = some .eof0 ∧ (fake = true ∨ sess = true → pskExtLen ids binders = 0)) ∨
    (pskEarly fake om sess ids binders = some (.err "binder-size")) ∨
    (pskEarly fake om sess ids binders = none ∧ (fake = true ∨ sess = true) ∧ pskExtLen ids binders ≠ 0) := by
  unfold pskEarly
  by_cases c1 : om = false ∧ (if fake = true ∨ sess = true then pskExtLen ids binders else 0) = 0
  · rw [if_pos c1]; exact .inl rfl
  · rw [if_neg c1]
    by_cases c0 : fake = false ∧ sess = false
    · rw [if_pos c0]; refine .inr (.inl ⟨rfl, ?_⟩); intro h; rcases h with h | h <;> simp_all
    · rw [if_neg c0]
      by_cases c2 : fake = true ∧ (binders.all fun x => validBinderLen x.length) = false
      · rw [if_pos c2]; exact .inr (.inr (.inl rfl))
      · rw [if_neg c2]
        by_cases c3 : pskExtLen ids binders = 0
        · rw [if_pos c3]; exact .inr (.inl ⟨rfl, fun _ => c3⟩)
        · rw [if_neg c3]; refine .inr (.inr (.inr ⟨rfl, ?_, c3⟩))
          cases fake <;> cases sess <;> simp_all

theorem pskEarly_none {fake om sess : Bool} {ids : List (Bytes × Nat)} {binders : List Bytes}
    (h : pskEarly fake om sess ids binders = none) :
    (fake = true ∨ sess = true) ∧ pskExtLen ids binders ≠ 0 := by
  rcases pskEarly_cases fake om sess ids binders with h' | ⟨h', _⟩ | h' | ⟨_, h'⟩
  · rw [h'] at h; cases h
  · rw [h'] at h; cases h
  · rw [h'] at h; cases h
  · exact h'

theorem early_not_ok (e : Ext) (r : ReadRes) (he : early e = some r) : ∀ bs, r ≠ .ok bs := by
  intro bs hr; subst hr
  cases e <;> simp only [early] at he
  case sni name => split at he <;> cases he
  case padding n w => split at he <;> cases he
  case psk fake om sess ids binders =>
    rcases pskEarly_cases fake om sess ids binders with h | ⟨h, _⟩ | h | ⟨h, _⟩ <;> rw [h] at he <;> cases he
  all_goals cases he

theorem late_cases (e : Ext) : late e = none ∨ late e = some (.err "too-many") := by
  cases e
  case compressCert a => simp only [late]; by_cases h : 2 * a.length > 255 <;> simp [h]
  case pskModes a => simp only [late]; by_cases h : a.length > 255 <;> simp [h]
  case supportedVersions a => simp only [late]; by_cases h : 2 * a.length > 255 <;> simp [h]
  all_goals exact .inl rfl

theorem body_length (e : Ext) (h : early e = none) : (body e).length = lenField e := by
  cases e <;> simp [body, lenField, encU8s] <;> try omega
  case psk fake om sess ids binders =>
    have hne := (pskEarly_none (by simpa [early] using h)).2
    unfold pskExtLen at hne ⊢
    split at hne
    · exact absurd rfl hne
    · rename_i hc; simp only [hc]; simp; omega

theorem len_eq (e : Ext) (h : early e = none) : len e = 4 + lenField e := by
  cases e <;> simp [len, lenField] <;> try omega
  case sni name =>
    simp only [early] at h
    split at h
    · cases h
    · rename_i hne
      have : Sni.hostnameInSNI name ≠ [] := by
        intro h0; apply hne; simp [h0]
      simp [this]; omega
  case padding n w =>
    simp only [early] at h
    split at h
    · rename_i hw; simp [hw]
    · cases h
  case psk fake om sess ids binders =>
    have hh : pskEarly fake om sess ids binders = none := by simpa [early] using h
    have hfs := (pskEarly_none hh).1
    have hne := (pskEarly_none hh).2
    simp only [hfs, if_true]
    unfold pskExtLen at hne ⊢
    split at hne
    · exact absurd rfl hne
    · rename_i hc; simp only [hc]; simp; omega

theorem need_eq_len (e : Ext) (h : early e = none) : need e = len e := by
  cases e <;> simp [need, len]
  case psk fake om sess ids binders =>
    rcases (pskEarly_none (by simpa [early] using h)).1 with h | h <;> simp [h]

/-- a successful `Read` happened past the early exits, on a large enough buffer, and wrote the frame. -/
theorem read_ok_inv {e : Ext} {k : Nat} {bs : Bytes} (h : Ext.read e k = .ok bs) :
    early e = none ∧ late e = none ∧ need e ≤ k ∧ bs = u16 (typeId e) ++ u16 (lenField e) ++ body e := by
  unfold Ext.read at h
  cases he : early e with
  | some r => simp only [he] at h; exact absurd h (early_not_ok e r he bs)
  | none =>
    simp only [he] at h
    by_cases hk : k < need e
    · rw [if_pos hk] at h; cases h
    · rw [if_neg hk] at h
      rcases late_cases e with hl | hl
      · simp only [hl] at h; cases h
        exact ⟨rfl, hl, by omega, rfl⟩
      · simp only [hl] at h; cases h

theorem read_eof0_inv {e : Ext} {k : Nat} (h : Ext.read e k = .eof0) : early e = some .eof0 := by
  unfold Ext.read at h
  cases he : early e with
  | some r => simp only [he] at h; rw [h]
  | none =>
    simp only [he] at h
    by_cases hk : k < need e
    · rw [if_pos hk] at h; cases h
    · rw [if_neg hk] at h
      rcases late_cases e with hl | hl <;> simp only [hl] at h <;> cases h

theorem early_eof0_len (e : Ext) (h : early e = some .eof0) : len e = 0 := by
  cases e <;> simp only [early] at h <;> try (cases h; done)
  case sni name =>
    split at h
    · rename_i h0; simp [len, h0]
    · cases h
  case padding n w =>
    split at h
    · cases h
    · rename_i hw; simp [len, hw]
  case psk fake om sess ids binders =>
    simp only [len]
    rcases pskEarly_cases fake om sess ids binders with h' | ⟨_, h0⟩ | h' | ⟨h', _⟩
    · rw [h'] at h; cases h
    · by_cases c : fake = true ∨ sess = true
      · rw [if_pos c]; exact h0 c
      · rw [if_neg c]
    · rw [h'] at h; cases h
    · rw [h'] at h; cases h

/-- `Len()` = bytes written. -/
theorem read_len {e : Ext} {k : Nat} {bs : Bytes} (h : Ext.read e k = .ok bs) : bs.length = len e := by
  obtain ⟨he, _, _, rfl⟩ := read_ok_inv h
  simp [body_length e he, len_eq e he]; omega

/-- framing: type ‖ uint16-length-prefixed body. -/
theorem read_frame {e : Ext} {k : Nat} {bs : Bytes} (h : Ext.read e k = .ok bs) :
    bs = u16 (typeId e) ++ vec16 (body e) := by
  obtain ⟨he, _, _, rfl⟩ := read_ok_inv h
  simp [vec16, body_length e he]

/-! ### `emit` -/

theorem emit_of_read_ok {e : Ext} {k : Nat} {bs : Bytes} (h : Ext.read e k = .ok bs) : emit e = bs := by
  obtain ⟨he, hl, _, rfl⟩ := read_ok_inv h
  unfold emit Ext.read
  simp [he, hl]

theorem emit_of_read_eof0 {e : Ext} {k : Nat} (h : Ext.read e k = .eof0) : emit e = [] ∧ len e = 0 := by
  have he := read_eof0_inv h
  refine ⟨?_, early_eof0_len e he⟩
  unfold emit Ext.read
  simp [he]

/-- whatever an extension emits is its frame, `Len()` bytes long. -/
theorem emit_cases (e : Ext) :
    emit e = [] ∨ (Ext.read e (need e) = .ok (emit e) ∧ emit e = u16 (typeId e) ++ vec16 (body e) ∧
      (emit e).length = len e ∧ early e = none) := by
  unfold emit
  cases h : Ext.read e (need e) with
  | ok bs =>
    refine .inr ⟨rfl, read_frame h, read_len h, (read_ok_inv h).1⟩
  | short => exact .inl rfl
  | eof0 => exact .inl rfl
  | err c => exact .inl rfl

theorem emits_iff (e : Ext) : emits e = true ↔ emit e ≠ [] := by
  unfold emits; cases emit e <;> simp

/-! ## Part B — what a successful run wrote -/

theorem bufWrite_out (S : Nat) (st : BufSt) (p : Bytes) : (bufWrite S st p).out = st.out ++ p := rfl

theorem foldl_bufWrite_out (S : Nat) (chunks : List Bytes) :
    ∀ st : BufSt, (chunks.foldl (bufWrite S) st).out = st.out ++ chunks.flatten := by
  induction chunks with
  | nil => intro st; simp
  | cons c cs ih => intro st; simp [List.foldl_cons, ih, bufWrite_out]

theorem readStep_out {S : Nat} {st st' : BufSt} {e : Ext} (h : readStep S st e = .ok st') :
    st'.out = st.out ++ emit e ∧ (emit e).length = len e := by
  unfold readStep at h
  simp only at h
  by_cases hn : (if S ≤ st.n then 0 else st.n) = 0
  · rw [if_pos hn] at h
    cases hr : Ext.read e directCap with
    | ok bs =>
      rw [hr] at h; injection h with h; subst h
      exact ⟨by rw [emit_of_read_ok hr], by rw [emit_of_read_ok hr]; exact read_len hr⟩
    | eof0 =>
      rw [hr] at h; injection h with h; subst h
      obtain ⟨h1, h2⟩ := emit_of_read_eof0 hr
      exact ⟨by simp [h1], by simp [h1, h2]⟩
    | short => rw [hr] at h; cases h
    | err c => rw [hr] at h; cases h
  · rw [if_neg hn] at h
    cases hr : Ext.read e (S - (if S ≤ st.n then 0 else st.n)) with
    | ok bs =>
      rw [hr] at h; injection h with h; subst h
      exact ⟨by rw [emit_of_read_ok hr], by rw [emit_of_read_ok hr]; exact read_len hr⟩
    | eof0 =>
      rw [hr] at h; injection h with h; subst h
      obtain ⟨h1, h2⟩ := emit_of_read_eof0 hr
      exact ⟨by simp [h1], by simp [h1, h2]⟩
    | short => rw [hr] at h; cases h
    | err c => rw [hr] at h; cases h

theorem readAll_out {S : Nat} : ∀ (xs : List Ext) (st st' : BufSt), readAll S st xs = .ok st' →
    st'.out = st.out ++ xs.flatMap emit ∧ (xs.flatMap emit).length = extsLen xs := by
  intro xs
  induction xs with
  | nil => intro st st' h; simp [readAll] at h; subst h; simp [extsLen]
  | cons e r ih =>
    intro st st' h
    unfold readAll at h
    cases hs : readStep S st e with
    | error err => rw [hs] at h; cases h
    | ok st1 =>
      rw [hs] at h
      obtain ⟨h1, h2⟩ := readStep_out hs
      obtain ⟨h3, h4⟩ := ih st1 st' h
      refine ⟨by rw [h3, h1]; simp, ?_⟩
      simp [List.flatMap_cons, extsLen, h2, h4]

theorem flatten_map_u16 (cs : List Nat) : (cs.map u16).flatten = encU16s cs := by
  induction cs with
  | nil => rfl
  | cons c cs ih => simp [encU16s, ih]

/-- the header bytes, as one string. -/
def headerBytes (f : HelloFields) (hlen : Nat) : Bytes :=
  [b 1] ++ u24 hlen ++ u16 f.vers ++ f.random ++ u8 f.sessionId.length ++ f.sessionId ++
  u16 (f.cipherSuites.length * 2) ++ encU16s f.cipherSuites ++ u8 f.compressionMethods.length ++ f.compressionMethods

theorem headerChunks_flatten (f : HelloFields) (hlen : Nat) :
    (headerChunks f hlen).flatten = headerBytes f hlen := by
  simp [headerChunks, headerBytes, flatten_map_u16]

theorem headerBytes_length (f : HelloFields) (hlen : Nat) :
    (headerBytes f hlen).length = 4 + 2 + f.random.length + 1 + f.sessionId.length + 2 +
      f.cipherSuites.length * 2 + 1 + f.compressionMethods.length := by
  simp [headerBytes]; omega

/-! ### padding accounting -/

theorem updatePad_typeId (pol : PadPolicy) (l : Nat) (e : Ext) : typeId (updatePad pol l e) = typeId e := by
  cases e <;> rfl

theorem updatePad_notPadding (pol : PadPolicy) (l : Nat) (e : Ext) (h : isPadding e = false) :
    updatePad pol l e = e := by
  cases e <;> first | rfl | simp [isPadding] at h

theorem extsLen_map_noPad (pol : PadPolicy) (l : Nat) : ∀ xs : List Ext, paddingCount xs = 0 →
    extsLen (xs.map (updatePad pol l)) = extsLenNoPad xs ∧ firstPadding xs = none := by
  intro xs
  induction xs with
  | nil => intro _; simp [extsLen, extsLenNoPad, firstPadding]
  | cons e r ih =>
    intro h
    simp only [paddingCount] at h
    by_cases hp : isPadding e = true
    · simp [hp] at h
    · have hp' : isPadding e = false := by simpa using hp
      simp [hp'] at h
      obtain ⟨h1, h2⟩ := ih h
      refine ⟨by simp [extsLen, extsLenNoPad, hp', updatePad_notPadding _ _ _ hp', h1], ?_⟩
      cases e <;> first | exact h2 | simp [isPadding] at hp'

/-- `extensionsLen` (non-padding lengths + the updated padding extension) is the sum of `Len()` over
the list as it is when the extensions are read. -/
theorem extsLen_updated (pol : PadPolicy) (l : Nat) : ∀ xs : List Ext, paddingCount xs ≤ 1 →
    extsLen (xs.map (updatePad pol l)) = extsLenNoPad xs +
      match firstPadding xs with
      | some cur => len (padding (pol.apply l cur).1 (pol.apply l cur).2)
      | none => 0 := by
  intro xs
  induction xs with
  | nil => intro _; simp [extsLen, extsLenNoPad, firstPadding]
  | cons e r ih =>
    intro h
    simp only [paddingCount] at h
    by_cases hp : isPadding e = true
    · simp [hp] at h
      obtain ⟨h1, _⟩ := extsLen_map_noPad pol l r (by omega)
      cases e <;> first | simp [isPadding] at hp | skip
      rename_i n w
      simp [extsLen, extsLenNoPad, firstPadding, updatePad, isPadding, h1]
      omega
    · have hp' : isPadding e = false := by simpa using hp
      simp [hp'] at h
      have ih' := ih h
      have hf : firstPadding (e :: r) = firstPadding r := by
        cases e <;> first | rfl | simp [isPadding] at hp'
      rw [hf]
      simp [extsLen, extsLenNoPad, hp', updatePad_notPadding _ _ _ hp', ih']
      omega

theorem len_le_extsLen : ∀ (xs : List Ext) (e : Ext), e ∈ xs → len e ≤ extsLen xs := by
  intro xs
  induction xs with
  | nil => intro e h; cases h
  | cons a r ih =>
    intro e h
    simp only [extsLen]
    rcases List.mem_cons.mp h with rfl | h
    · omega
    · have := ih e h; omega

/-! ## Part C — the strict parser on emitted bytes; body grammar -/

theorem parseExtsFuel_succ (fuel : Nat) (bs : Bytes) (h : bs ≠ []) :
    parseExtsFuel (fuel + 1) bs =
      match readU16 bs with
      | none => none
      | some (t, r) =>
        match readVec16 r with
        | none => none
        | some (bd, r') => (parseExtsFuel fuel r').map ((t, bd) :: ·) := by
  cases bs with
  | nil => exact absurd rfl h
  | cons c cs => rfl

theorem parseExtsFuel_nil (fuel : Nat) : parseExtsFuel fuel [] = some [] := by
  cases fuel <;> rfl

/-- the extension block of a hello parses back to (type, body) of exactly the extensions that emitted. -/
theorem parseExts_emitted : ∀ (xs : List Ext),
    (∀ e ∈ xs, emits e = true → typeId e < 65536 ∧ (body e).length < 65536) →
    ∀ fuel, (xs.flatMap emit).length ≤ fuel →
    parseExtsFuel fuel (xs.flatMap emit) = some ((xs.filter emits).map fun e => (typeId e, body e)) := by
  intro xs
  induction xs with
  | nil => intro _ fuel _; simp [parseExtsFuel_nil]
  | cons e r ih =>
    intro hb fuel hf
    have ih' := ih (fun x hx => hb x (by simp [hx]))
    rcases emit_cases e with h0 | ⟨_, hfr, _, _⟩
    · have hem : emits e = false := by simp [emits, h0]
      simp only [List.flatMap_cons, h0, List.nil_append] at hf ⊢
      rw [List.filter_cons_of_neg (by simp [hem])]
      exact ih' fuel hf
    · have hne : emit e ≠ [] := by rw [hfr]; simp [u16]
      have hem : emits e = true := (emits_iff e).mpr hne
      obtain ⟨ht, hbl⟩ := hb e (by simp) hem
      have hlen : (emit e).length = 4 + (body e).length := by rw [hfr]; simp; omega
      cases fuel with
      | zero => simp only [List.flatMap_cons, List.length_append] at hf; omega
      | succ fuel =>
        have hnn : (e :: r).flatMap emit ≠ [] := by simp [List.flatMap_cons, hne]
        rw [parseExtsFuel_succ _ _ hnn]
        simp only [List.flatMap_cons, List.length_append] at hf ⊢
        rw [hfr, List.append_assoc, readU16_u16, Nat.mod_eq_of_lt ht]
        simp only
        rw [readVec16_vec16 _ _ hbl]
        simp only
        rw [ih' fuel (by omega), List.filter_cons_of_pos (by simp [hem])]
        rfl

theorem exact16_of (n : Nat) (x : Bytes) (hn : x.length = n) (h : n < 65536) :
    exact16 (u16 n ++ x) = some x := by
  subst hn
  have : u16 x.length ++ x = vec16 x ++ [] := by simp [vec16]
  unfold exact16; rw [this, readVec16_vec16 _ _ h]

theorem exact8_of (n : Nat) (x : Bytes) (hn : x.length = n) (h : n < 256) :
    exact8 (u8 n ++ x) = some x := by
  subst hn
  have : u8 x.length ++ x = vec8 x ++ [] := by simp [vec8]
  unfold exact8; rw [this, readVec8_vec8 _ _ h]

theorem parseVec8sFuel_succ (fuel : Nat) (bs : Bytes) (h : bs ≠ []) :
    parseVec8sFuel (fuel + 1) bs =
      match readVec8 bs with
      | none => none
      | some (x, r) => (parseVec8sFuel fuel r).map (x :: ·) := by
  cases bs with
  | nil => exact absurd rfl h
  | cons c cs => rfl

theorem parseVec8sFuel_enc (ps : List Bytes) (h : ∀ p ∈ ps, p.length < 256) :
    ∀ fuel, (encVec8s ps).length ≤ fuel → parseVec8sFuel fuel (encVec8s ps) = some ps := by
  induction ps with
  | nil => intro fuel _; cases fuel <;> rfl
  | cons p ps ih =>
    intro fuel hf
    have hlt := h p (by simp)
    have ih' := ih (fun q hq => h q (by simp [hq]))
    cases fuel with
    | zero => simp [encVec8s, vec8sLen] at hf
    | succ fuel =>
      have hnn : encVec8s (p :: ps) ≠ [] := by simp [encVec8s, vec8, u8]
      rw [parseVec8sFuel_succ _ _ hnn]
      simp only [encVec8s] at hf ⊢
      rw [readVec8_vec8 p (encVec8s ps) hlt]
      simp only
      rw [ih' fuel (by simp at hf ⊢; omega)]
      rfl

theorem parseVec8s_enc (ps : List Bytes) (h : ∀ p ∈ ps, p.length < 256) :
    parseVec8s (encVec8s ps) = some ps :=
  parseVec8sFuel_enc ps h _ (Nat.le_refl _)

theorem parseSharesFuel_succ (fuel : Nat) (bs : Bytes) (h : bs ≠ []) :
    parseSharesFuel (fuel + 1) bs =
      match readU16 bs with
      | none => none
      | some (g, r) =>
        match readVec16 r with
        | none => none
        | some (d, r') => (parseSharesFuel fuel r').map ((g, d) :: ·) := by
  cases bs with
  | nil => exact absurd rfl h
  | cons c cs => rfl

theorem parseSharesFuel_enc (ss : List (Nat × Bytes)) (h : ∀ x ∈ ss, x.1 < 65536 ∧ x.2.length < 65536) :
    ∀ fuel, (encShares ss).length ≤ fuel → parseSharesFuel fuel (encShares ss) = some ss := by
  induction ss with
  | nil => intro fuel _; cases fuel <;> rfl
  | cons x ss ih =>
    intro fuel hf
    obtain ⟨g, d⟩ := x
    obtain ⟨hg, hlt⟩ := h (g, d) (by simp)
    have ih' := ih (fun q hq => h q (by simp [hq]))
    cases fuel with
    | zero => simp [encShares, sharesLen] at hf
    | succ fuel =>
      have hnn : encShares ((g, d) :: ss) ≠ [] := by simp [encShares, u16]
      rw [parseSharesFuel_succ _ _ hnn]
      simp only [encShares, List.append_assoc] at hf ⊢
      rw [readU16_u16, Nat.mod_eq_of_lt hg]
      simp only
      rw [readVec16_vec16 d _ hlt]
      simp only
      rw [ih' fuel (by simp at hf ⊢; omega)]
      rfl

theorem parseIdsFuel_succ (fuel : Nat) (bs : Bytes) (h : bs ≠ []) :
    parseIdsFuel (fuel + 1) bs =
      match readVec16 bs with
      | none => none
      | some (l, r) =>
        match readU32 r with
        | none => none
        | some (a, r') => (parseIdsFuel fuel r').map ((l, a) :: ·) := by
  cases bs with
  | nil => exact absurd rfl h
  | cons c cs => rfl

theorem parseIdsFuel_enc (ids : List (Bytes × Nat)) (h : ∀ x ∈ ids, x.1.length < 65536 ∧ x.2 < 4294967296) :
    ∀ fuel, (encIdentities ids).length ≤ fuel → parseIdsFuel fuel (encIdentities ids) = some ids := by
  induction ids with
  | nil => intro fuel _; cases fuel <;> rfl
  | cons x ids ih =>
    intro fuel hf
    obtain ⟨l, a⟩ := x
    obtain ⟨hl, ha⟩ := h (l, a) (by simp)
    have ih' := ih (fun q hq => h q (by simp [hq]))
    cases fuel with
    | zero => simp [encIdentities, identitiesLen] at hf
    | succ fuel =>
      have hnn : encIdentities ((l, a) :: ids) ≠ [] := by simp [encIdentities, vec16, u16]
      rw [parseIdsFuel_succ _ _ hnn]
      simp only [encIdentities, List.append_assoc] at hf ⊢
      rw [readVec16_vec16 l _ hl]
      simp only
      rw [readU32_u32, Nat.mod_eq_of_lt ha]
      simp only
      rw [ih' fuel (by simp at hf ⊢; omega)]
      rfl

theorem stripDots_last (s : Bytes) : (Sni.stripTrailingDots s).getLast? ≠ some 46 := by
  unfold Sni.stripTrailingDots
  rw [List.getLast?_reverse]
  have := List.head?_dropWhile_not (fun x => decide (x = (46 : UInt8))) s.reverse
  intro h
  rw [h] at this
  simp at this

theorem host_last (name : Bytes) : (Sni.hostnameInSNI name).getLast? ≠ some 46 := by
  unfold Sni.hostnameInSNI
  split
  · simp
  · exact stripDots_last name

theorem u16VecOk_enc (a : List Nat) (h1 : a ≠ []) (h2 : 2 + 2 * a.length < 65536) :
    u16VecOk (u16 (2 * a.length) ++ encU16s a) = true := by
  unfold u16VecOk
  rw [exact16_of _ _ (by simp) (by omega)]
  cases a with
  | nil => exact absurd rfl h1
  | cons x xs => simp [encU16s, u16]; omega

theorem u16Vec8Ok_enc (a : List Nat) (h1 : a ≠ []) (h2 : 2 * a.length < 256) :
    u16Vec8Ok (u8 (2 * a.length) ++ encU16s a) = true := by
  unfold u16Vec8Ok
  rw [exact8_of _ _ (by simp) (by omega)]
  cases a with
  | nil => exact absurd rfl h1
  | cons x xs => simp [encU16s, u16]; omega

theorem nonEmptyVec8Ok_enc (p : List Nat) (h1 : p ≠ []) (h2 : p.length < 256) :
    nonEmptyVec8Ok (u8 p.length ++ encU8s p) = true := by
  unfold nonEmptyVec8Ok
  rw [exact8_of _ _ (by simp) h2]
  cases p with
  | nil => exact absurd rfl h1
  | cons x xs => simp [encU8s]

theorem protoListOk_enc (ps : List Bytes) (h1 : ps ≠ []) (h2 : vec8sLen ps + 2 < 65536)
    (h3 : ∀ p ∈ ps, p ≠ [] ∧ p.length < 256) :
    protoListOk (u16 (vec8sLen ps) ++ encVec8s ps) = true := by
  unfold protoListOk
  rw [exact16_of _ _ (by simp) (by omega)]
  dsimp only
  rw [parseVec8s_enc ps (fun p hp => (h3 p hp).2)]
  have hne : (encVec8s ps).isEmpty = false := by
    cases ps with
    | nil => exact absurd rfl h1
    | cons x xs => simp [encVec8s, vec8, u8]
  simp only [hne, Bool.not_false, Bool.true_and, List.all_eq_true]
  intro p hp
  have := (h3 p hp).1
  cases p <;> simp_all

theorem isGrease_not_known (v : Nat) (h : isGreaseU16 v = true) (bd : Bytes) : bodyOk v bd = true := by
  have hne : ∀ k : Nat, isGreaseU16 k = false → v ≠ k := by
    intro k hk hv; rw [hv] at h; rw [h] at hk; cases hk
  unfold bodyOk
  have n0 : ¬ v = 0 := hne 0 (by decide)
  have n5 : ¬ v = 5 := hne 5 (by decide)
  have n10 : ¬ v = 10 := hne 10 (by decide)
  have n11 : ¬ v = 11 := hne 11 (by decide)
  have n13 : ¬ v = 13 := hne 13 (by decide)
  have n16 : ¬ v = 16 := hne 16 (by decide)
  have n17 : ¬ v = 17 := hne 17 (by decide)
  have n18 : ¬ v = 18 := hne 18 (by decide)
  have n21 : ¬ v = 21 := hne 21 (by decide)
  have n23 : ¬ v = 23 := hne 23 (by decide)
  have n24 : ¬ v = 24 := hne 24 (by decide)
  have n27 : ¬ v = 27 := hne 27 (by decide)
  have n28 : ¬ v = 28 := hne 28 (by decide)
  have n34 : ¬ v = 34 := hne 34 (by decide)
  have n41 : ¬ v = 41 := hne 41 (by decide)
  have n43 : ¬ v = 43 := hne 43 (by decide)
  have n44 : ¬ v = 44 := hne 44 (by decide)
  have n45 : ¬ v = 45 := hne 45 (by decide)
  have n50 : ¬ v = 50 := hne 50 (by decide)
  have n51 : ¬ v = 51 := hne 51 (by decide)
  have n57 : ¬ v = 57 := hne 57 (by decide)
  have n13172 : ¬ v = 13172 := hne 13172 (by decide)
  have n17513 : ¬ v = 17513 := hne 17513 (by decide)
  have n17613 : ¬ v = 17613 := hne 17613 (by decide)
  have n30031 : ¬ v = 30031 := hne 30031 (by decide)
  have n30032 : ¬ v = 30032 := hne 30032 (by decide)
  have n65037 : ¬ v = 65037 := hne 65037 (by decide)
  have n65281 : ¬ v = 65281 := hne 65281 (by decide)
  simp only [n0, n5, n10, n11, n13, n16, n17, n18, n21, n23, n24, n27, n28, n34, n41, n43, n44, n45, n50, n51, n57,
    n13172, n17513, n17613, n30031, n30032, n65037, n65281, ↓reduceIte]

end Hello
