import UtlsVerif.HelloGrammarLemmas
/-!
# HelloMarshalLemmas — what a successful `marshalNoECH` produced, and how the strict parser reads it.
-/
namespace Hello
open Wire Ext Ext.Ext

/-- the extension list as it is when the extensions are read (padding updated). -/
def updated (f : HelloFields) (pol : PadPolicy) (xs : List Ext) : List Ext :=
  xs.map (updatePad pol (unpaddedLen f xs))

theorem extsLen_updated' (f : HelloFields) (pol : PadPolicy) (xs : List Ext) (h : paddingCount xs ≤ 1) :
    extsLen (updated f pol xs) = extensionsLen f pol xs := by
  unfold updated extensionsLen
  exact extsLen_updated pol _ xs h

/-- everything a successful run establishes. -/
theorem marshal_ok_inv {f : HelloFields} {pol : PadPolicy} {xs : List Ext} {bs : Bytes}
    (h : marshalNoECH f pol xs = .ok bs) :
    paddingCount xs ≤ 1 ∧ extensionsLen f pol xs ≤ 65535 ∧ helloLen f pol xs ≤ 16777215 ∧
    bs = headerBytes f (helloLen f pol xs) ++ (if xs.isEmpty then [] else u16 (extensionsLen f pol xs)) ++
          (updated f pol xs).flatMap emit ∧
    ((updated f pol xs).flatMap emit).length = extensionsLen f pol xs ∧
    bs.length = 4 + helloLen f pol xs := by
  unfold marshalNoECH at h
  simp only at h
  by_cases c1 : 2 ≤ paddingCount xs
  · rw [if_pos c1] at h; cases h
  · rw [if_neg c1] at h
    by_cases c2 : 65535 < extensionsLen f pol xs
    · rw [if_pos c2] at h; cases h
    · rw [if_neg c2] at h
      by_cases c3 : 16777215 < helloLen f pol xs
      · rw [if_pos c3] at h; cases h
      · rw [if_neg c3] at h
        cases hr : readAll (helloLen f pol xs + 4)
            (List.foldl (bufWrite (helloLen f pol xs + 4)) { n := 0, out := [] }
              (headerChunks f (helloLen f pol xs) ++ if xs.isEmpty = true then [] else [u16 (extensionsLen f pol xs)]))
            (List.map (updatePad pol (unpaddedLen f xs)) xs) with
        | error err => rw [hr] at h; cases h
        | ok st =>
          rw [hr] at h
          simp only at h
          by_cases c4 : st.out.length = 4 + helloLen f pol xs
          · rw [if_pos c4] at h
            injection h with h
            subst h
            obtain ⟨h1, h2⟩ := readAll_out _ _ _ hr
            rw [foldl_bufWrite_out] at h1
            have hpc : paddingCount xs ≤ 1 := by omega
            refine ⟨hpc, by omega, by omega, ?_, ?_, c4⟩
            · rw [h1]
              simp only [List.nil_append, List.flatten_append, headerChunks_flatten, updated]
              by_cases hx : xs.isEmpty = true <;> simp [hx]
            · have := extsLen_updated' f pol xs hpc
              unfold updated at this ⊢
              rw [h2, this]
          · rw [if_neg c4] at h; cases h

/-- the handshake body after the 4-byte header. -/
def msgBytes (f : HelloFields) (tail : Bytes) : Bytes :=
  u16 f.vers ++ (f.random ++ (vec8 f.sessionId ++ (vec16 (encU16s f.cipherSuites) ++ (vec8 f.compressionMethods ++ tail))))

theorem header_as_msg (f : HelloFields) (hl : Nat) (tail : Bytes) :
    headerBytes f hl ++ tail = b 1 :: (u24 hl ++ msgBytes f tail) := by
  simp [headerBytes, msgBytes, vec8, vec16, Nat.mul_comm]

theorem msgBytes_length (f : HelloFields) (tail : Bytes) :
    (msgBytes f tail).length = 2 + f.random.length + 1 + f.sessionId.length + 2 + f.cipherSuites.length * 2 + 1 +
      f.compressionMethods.length + tail.length := by
  simp [msgBytes]; omega

private theorem b1 : (b 1).toNat = 1 := by decide

/-- the strict parser on header ‖ tail: fields read back exactly; `tail` is what follows the compression methods. -/
theorem parseCH_header (f : HelloFields) (hl : Nat) (tail : Bytes) (hf : fieldsOK f = true)
    (hlen : (headerBytes f hl ++ tail).length = 4 + hl) (hhl : hl < 16777216)
    (hr : f.random.length = 32) :
    parseCH (headerBytes f hl ++ tail) =
      if tail = [] then
        some { vers := f.vers, random := f.random, sessionId := f.sessionId, suites := f.cipherSuites,
               comps := f.compressionMethods, exts := none }
      else
        match readVec16 tail with
        | none => none
        | some (eb, r6) =>
          if r6 ≠ [] then none else
          match parseExts eb with
          | none => none
          | some es =>
            some { vers := f.vers, random := f.random, sessionId := f.sessionId, suites := f.cipherSuites,
                   comps := f.compressionMethods, exts := some es } := by
  simp only [fieldsOK, Bool.and_eq_true, decide_eq_true_eq] at hf
  obtain ⟨⟨⟨⟨hv, hsid⟩, hcs⟩, hcsa⟩, hcm⟩ := hf
  have hcsa' : ∀ x ∈ f.cipherSuites, x < 65536 := by
    intro x hx
    have := List.all_eq_true.mp hcsa x hx
    simpa using this
  rw [header_as_msg] at hlen ⊢
  have hml : (msgBytes f tail).length = hl := by
    simp only [List.length_cons, List.length_append, u24_length] at hlen; omega
  have e24 : u24 hl ++ msgBytes f tail = vec24 (msgBytes f tail) ++ [] := by simp [vec24, hml]
  rw [e24]
  unfold parseCH
  simp only [readU8, b1, ne_eq, not_true_eq_false, ↓reduceIte]
  rw [readVec24_vec24 _ _ (by omega)]
  simp only [not_true_eq_false, ↓reduceIte]
  unfold msgBytes
  rw [readU16_u16, Nat.mod_eq_of_lt hv]
  simp only
  rw [← hr, take?_append]
  simp only
  rw [readVec8_vec8 _ _ hsid]
  simp only
  rw [readVec16_vec16 _ _ (by simp; omega)]
  simp only
  rw [decU16s_encU16s _ hcsa']
  simp only
  rw [readVec8_vec8 _ _ hcm]
  rfl

/-! ### order-insensitive facts about sub-lists of the spec -/

theorem distinctB_filter_map {α : Type} (g : α → Nat) (p : α → Bool) : ∀ l : List α,
    distinctB (l.map g) = true → distinctB ((l.filter p).map g) = true := by
  intro l
  induction l with
  | nil => intro _; rfl
  | cons a r ih =>
    intro h
    simp only [List.map_cons, distinctB, Bool.and_eq_true, Bool.not_eq_true'] at h
    by_cases hp : p a = true
    · rw [List.filter_cons_of_pos hp]
      simp only [List.map_cons, distinctB, Bool.and_eq_true, Bool.not_eq_true']
      refine ⟨?_, ih h.2⟩
      have h1 := h.1
      cases hc : ((r.filter p).map g).contains (g a) with
      | false => rfl
      | true =>
        exfalso
        have hm : g a ∈ (r.filter p).map g := by simpa using hc
        obtain ⟨x, hx, hxe⟩ := List.mem_map.mp hm
        have hxr : x ∈ r := (List.mem_filter.mp hx).1
        have : g a ∈ r.map g := List.mem_map.mpr ⟨x, hxr, hxe⟩
        have : (r.map g).contains (g a) = true := by simpa using this
        rw [this] at h1; cases h1
    · rw [List.filter_cons_of_neg hp]
      exact ih h.2

theorem pskLastB_filter_map {α : Type} (g : α → Nat) (p : α → Bool) : ∀ l : List α,
    pskLastB (l.map g) = true → pskLastB ((l.filter p).map g) = true := by
  intro l
  induction l with
  | nil => intro _; rfl
  | cons a r ih =>
    intro h
    simp only [List.map_cons, pskLastB, Bool.and_eq_true, Bool.or_eq_true] at h
    by_cases hp : p a = true
    · rw [List.filter_cons_of_pos hp]
      simp only [List.map_cons, pskLastB, Bool.and_eq_true, Bool.or_eq_true]
      refine ⟨?_, ih h.2⟩
      rcases h.1 with h1 | h1
      · left
        have : r = [] := by cases r <;> simp_all
        subst this; rfl
      · right; exact h1
    · rw [List.filter_cons_of_neg hp]
      exact ih h.2

/-! ### inserting one extension of a new type in the middle of a list -/

theorem distinctB_insert (t : Nat) : ∀ a b : List Nat, distinctB (a ++ b) = true → t ∉ a ++ b →
    distinctB (a ++ t :: b) = true := by
  intro a
  induction a with
  | nil =>
    intro b h ht
    simp only [List.nil_append] at h ht ⊢
    simp only [distinctB, Bool.and_eq_true, Bool.not_eq_true']
    exact ⟨by simpa using ht, h⟩
  | cons x a ih =>
    intro b h ht
    simp only [List.cons_append, distinctB, Bool.and_eq_true, Bool.not_eq_true'] at h ⊢
    have hxt : x ≠ t := by intro e; apply ht; simp [e]
    have ht' : t ∉ a ++ b := by intro hm; apply ht; simp at hm ⊢; exact .inr hm
    refine ⟨?_, ih b h.2 ht'⟩
    have h1 := h.1
    simp only [List.contains_eq_mem, List.mem_append, decide_eq_false_iff_not, List.mem_cons, not_or] at h1 ⊢
    exact ⟨h1.1, hxt, h1.2⟩

theorem pskLastB_insert (t : Nat) (ht : t ≠ 41) : ∀ a b : List Nat, pskLastB (a ++ b) = true → b ≠ [] →
    pskLastB (a ++ t :: b) = true := by
  intro a
  induction a with
  | nil =>
    intro b h _
    simp only [List.nil_append] at h ⊢
    simp only [pskLastB, Bool.and_eq_true, Bool.or_eq_true]
    exact ⟨.inr (by simpa using ht), h⟩
  | cons x a ih =>
    intro b h hb
    simp only [List.cons_append, pskLastB, Bool.and_eq_true, Bool.or_eq_true] at h ⊢
    refine ⟨?_, ih b h.2 hb⟩
    rcases h.1 with h1 | h1
    · exfalso
      have : a ++ b = [] := by simpa using h1
      exact hb (List.append_eq_nil_iff.mp this).2
    · exact .inr h1

/-- a cookie (or any other extension of a type the list does not have yet, except pre_shared_key)
inserted before at least one element keeps a spec within limits within limits: nothing is repeated,
pre_shared_key stays last, and erasing it gives the old list back (nothing is lost). -/
theorem specOK_insertAt (f : HelloFields) (xs : List Ext) (i : Nat) (e : Ext)
    (hs : specOK f xs = true) (he : extOKb e = true) (hnew : ∀ x ∈ xs, typeId x ≠ typeId e)
    (hpsk : typeId e ≠ 41) (hi : i < xs.length) :
    specOK f (insertAt i e xs) = true ∧ (insertAt i e xs).length = xs.length + 1 ∧
    (insertAt i e xs).eraseIdx i = xs := by
  simp only [specOK, Bool.and_eq_true] at hs ⊢
  obtain ⟨⟨⟨hf, hall⟩, hd⟩, hp⟩ := hs
  have hsplit : xs.take i ++ xs.drop i = xs := List.take_append_drop i xs
  have hmap : (insertAt i e xs).map typeId = (xs.take i).map typeId ++ typeId e :: (xs.drop i).map typeId := by
    simp [insertAt]
  have hmap0 : xs.map typeId = (xs.take i).map typeId ++ (xs.drop i).map typeId := by
    rw [← List.map_append, hsplit]
  refine ⟨⟨⟨⟨hf, ?_⟩, ?_⟩, ?_⟩, ?_, ?_⟩
  · rw [List.all_eq_true] at hall ⊢
    intro x hx
    simp only [insertAt, List.mem_append, List.mem_cons] at hx
    rcases hx with hx | rfl | hx
    · exact hall x (List.mem_of_mem_take hx)
    · exact he
    · exact hall x (List.mem_of_mem_drop hx)
  · rw [hmap]
    apply distinctB_insert
    · rw [← hmap0]; exact hd
    · rw [← hmap0]
      intro hm
      obtain ⟨x, hx, hxe⟩ := List.mem_map.mp hm
      exact hnew x hx hxe
  · rw [hmap]
    apply pskLastB_insert _ hpsk
    · rw [← hmap0]; exact hp
    · intro h0
      have : (xs.drop i).length = 0 := by
        have := congrArg List.length h0
        simpa using this
      rw [List.length_drop] at this
      omega
  · simp [insertAt, List.length_take, List.length_drop]; omega
  · have hl : (xs.take i).length = i := by rw [List.length_take]; omega
    simp only [insertAt]
    rw [List.eraseIdx_append_of_length_le (by omega), hl, Nat.sub_self]
    simp [hsplit]

end Hello
