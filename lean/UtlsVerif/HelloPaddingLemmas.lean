import UtlsVerif.HelloMarshalLemmas
/-!
# HelloPaddingLemmas — the padding extension inside a marshalled hello (helpers for C05).
-/
namespace Hello
open Wire Ext Ext.Ext

theorem boringPadding_eq (l : Nat) :
    boringPadding l = if 256 ≤ l ∧ l ≤ 507 then (508 - l, true) else if 508 ≤ l ∧ l ≤ 511 then (1, true) else (0, false) := by
  unfold boringPadding
  by_cases h1 : 0xff < l ∧ l < 0x200
  · rw [if_pos h1]
    by_cases h2 : 256 ≤ l ∧ l ≤ 507
    · rw [if_pos h2]
      have : 0x200 - l ≥ 4 + 1 := by omega
      simp only [this, ↓reduceIte]
      have e : 0x200 - l - 4 = 508 - l := by omega
      rw [e]
    · rw [if_neg h2]
      have h3 : 508 ≤ l ∧ l ≤ 511 := by omega
      rw [if_pos h3]
      have : ¬ (0x200 - l ≥ 4 + 1) := by omega
      simp only [this, ↓reduceIte]
  · rw [if_neg h1]
    have h2 : ¬ (256 ≤ l ∧ l ≤ 507) := by omega
    have h3 : ¬ (508 ≤ l ∧ l ≤ 511) := by omega
    rw [if_neg h2, if_neg h3]

theorem alwaysPadTo_eq (t l : Nat) :
    alwaysPadTo t l = if l + 5 ≤ t then (t - l - 4, true) else if l < t then (1, true) else (0, false) := by
  unfold alwaysPadTo
  by_cases h1 : l < t
  · rw [if_pos h1]
    by_cases h2 : l + 5 ≤ t
    · rw [if_pos h2]
      have : t - l ≥ 4 + 1 := by omega
      simp only [this, ↓reduceIte]
    · rw [if_neg h2, if_pos h1]
      have : ¬ (t - l ≥ 4 + 1) := by omega
      simp only [this, ↓reduceIte]
  · rw [if_neg h1]
    have h2 : ¬ (l + 5 ≤ t) := by omega
    rw [if_neg h2, if_neg h1]

/-- a list with exactly one padding extension has a first one. -/
theorem firstPadding_of_count : ∀ xs : List Ext, paddingCount xs = 1 → ∃ cur, firstPadding xs = some cur := by
  intro xs
  induction xs with
  | nil => intro h; simp [paddingCount] at h
  | cons e r ih =>
    intro h
    by_cases hp : isPadding e = true
    · cases e <;> first | exact ⟨_, rfl⟩ | simp [isPadding] at hp
    · have hp' : isPadding e = false := by simpa using hp
      simp only [paddingCount, hp', Bool.false_eq_true, ↓reduceIte, Nat.zero_add] at h
      obtain ⟨cur, hc⟩ := ih h
      refine ⟨cur, ?_⟩
      cases e <;> first | exact hc | simp [isPadding] at hp'

/-- total length of a successful run with exactly one padding extension: unpadded length plus the
padding extension the policy decided on. -/
theorem marshal_len_one_padding {f : HelloFields} {pol : PadPolicy} {xs : List Ext} {bs : Bytes} {cur : Nat × Bool}
    (h : marshalNoECH f pol xs = .ok bs) (hc : firstPadding xs = some cur) :
    bs.length = unpaddedLen f xs +
      len (padding (pol.apply (unpaddedLen f xs) cur).1 (pol.apply (unpaddedLen f xs) cur).2) := by
  obtain ⟨_, _, _, _, _, hlen⟩ := marshal_ok_inv h
  have hx : xs.isEmpty = false := by cases xs <;> simp_all [firstPadding]
  rw [hlen]
  unfold helloLen extensionsLen unpaddedLen
  simp only [hx, hc, Bool.false_eq_true, ↓reduceIte]
  omega

/-- without a padding extension nothing is added. -/
theorem marshal_len_no_padding {f : HelloFields} {pol : PadPolicy} {xs : List Ext} {bs : Bytes}
    (h : marshalNoECH f pol xs = .ok bs) (hc : firstPadding xs = none) (hx : xs ≠ []) :
    bs.length = unpaddedLen f xs := by
  obtain ⟨_, _, _, _, _, hlen⟩ := marshal_ok_inv h
  have hx' : xs.isEmpty = false := by cases xs <;> simp_all
  rw [hlen]
  unfold helloLen extensionsLen unpaddedLen
  simp only [hx', hc, Bool.false_eq_true, ↓reduceIte]
  omega

/-- `distinctB` makes the key function injective on the list. -/
theorem distinctB_inj {α : Type} (g : α → Nat) : ∀ l : List α, distinctB (l.map g) = true →
    ∀ a ∈ l, ∀ c ∈ l, g a = g c → a = c := by
  intro l
  induction l with
  | nil => intro _ a ha; cases ha
  | cons x r ih =>
    intro h a ha c hc hg
    simp only [List.map_cons, distinctB, Bool.and_eq_true, Bool.not_eq_true'] at h
    have hnot : ∀ y ∈ r, g y ≠ g x := by
      intro y hy hyx
      have : (r.map g).contains (g x) = true := by
        simp only [List.contains_eq_mem, List.mem_map, decide_eq_true_eq]
        exact ⟨y, hy, hyx⟩
      rw [this] at h; exact absurd h.1 (by simp)
    rcases List.mem_cons.mp ha with rfl | ha' <;> rcases List.mem_cons.mp hc with rfl | hc'
    · rfl
    · exact absurd hg.symm (hnot c hc')
    · exact absurd hg (hnot a ha')
    · exact ih h.2 a ha' c hc' hg

theorem exists_padding_of_first : ∀ (xs : List Ext) (cur : Nat × Bool), firstPadding xs = some cur →
    padding cur.1 cur.2 ∈ xs := by
  intro xs
  induction xs with
  | nil => intro cur h; cases h
  | cons e r ih =>
    intro cur h
    by_cases hp : isPadding e = true
    · cases e <;> first | simp [isPadding] at hp | skip
      simp only [firstPadding, Option.some.injEq] at h
      subst h; simp
    · have hp' : isPadding e = false := by simpa using hp
      have hf : firstPadding (e :: r) = firstPadding r := by
        cases e <;> first | rfl | simp [isPadding] at hp'
      rw [hf] at h
      exact List.mem_cons_of_mem _ (ih cur h)

/-- bodies of type-21 extensions on the wire = bodies of the padding extensions that emitted, provided
only padding extensions carry type 21. -/
theorem paddings_emitted : ∀ l : List Ext, (∀ e ∈ l, typeId e = 21 → isPadding e = true) →
    (((l.filter emits).map fun e => (typeId e, body e)).filter fun x => x.1 == 21).map (·.2)
      = ((l.filter isPadding).filter emits).map body := by
  intro l
  induction l with
  | nil => intro _; rfl
  | cons e r ih =>
    intro h
    have ih' := ih (fun x hx => h x (List.mem_cons_of_mem _ hx))
    have h21 : isPadding e = true → typeId e = 21 := by
      intro hp; cases e <;> first | rfl | simp [isPadding] at hp
    by_cases hem : emits e = true
    · by_cases hp : isPadding e = true
      · have ht := h21 hp
        simp [hem, hp, ht, ih']
      · have hp' : isPadding e = false := by simpa using hp
        have ht : ¬ typeId e = 21 := fun ht => hp (h e (by simp) ht)
        simp [hem, hp', ht, ih']
    · have hem' : emits e = false := by simpa using hem
      by_cases hp : isPadding e = true
      · simp [hem', hp, ih']
      · have hp' : isPadding e = false := by simpa using hp
        simp [hem', hp', ih']

theorem filter_isPadding_updated (pol : PadPolicy) (l : Nat) : ∀ (xs : List Ext) (cur : Nat × Bool),
    paddingCount xs = 1 → firstPadding xs = some cur →
    (xs.map (updatePad pol l)).filter isPadding = [padding (pol.apply l cur).1 (pol.apply l cur).2] := by
  intro xs
  induction xs with
  | nil => intro cur h; simp [paddingCount] at h
  | cons e r ih =>
    intro cur hc hf
    by_cases hp : isPadding e = true
    · cases e <;> first | simp [isPadding] at hp | skip
      rename_i n w
      simp only [firstPadding, Option.some.injEq] at hf
      subst hf
      simp only [paddingCount, isPadding, ↓reduceIte] at hc
      have hr : paddingCount r = 0 := by omega
      have hnone : ∀ (r : List Ext), paddingCount r = 0 → (r.map (updatePad pol l)).filter isPadding = [] := by
        intro r
        induction r with
        | nil => intro _; rfl
        | cons a t iht =>
          intro h0
          by_cases hpa : isPadding a = true
          · simp [paddingCount, hpa] at h0
          · have hpa' : isPadding a = false := by simpa using hpa
            simp only [paddingCount, hpa', Bool.false_eq_true, ↓reduceIte, Nat.zero_add] at h0
            simp [updatePad_notPadding _ _ _ hpa', hpa', iht h0]
      simp only [List.map_cons, updatePad]
      rw [List.filter_cons_of_pos (by rfl), hnone r hr]
    · have hp' : isPadding e = false := by simpa using hp
      have hf' : firstPadding (e :: r) = firstPadding r := by
        cases e <;> first | rfl | simp [isPadding] at hp'
      rw [hf'] at hf
      simp only [paddingCount, hp', Bool.false_eq_true, ↓reduceIte, Nat.zero_add] at hc
      simp [updatePad_notPadding _ _ _ hp', hp', ih cur hc hf]

theorem emits_padding (n : Nat) (w : Bool) : emits (padding n w) = w := by
  cases w <;> simp [emits, emit, Ext.read, early, late, need, len, u16]

theorem count_filter_21 : ∀ ts : List Nat, distinctB ts = true → (ts.filter (· == 21)).length ≤ 1 := by
  intro ts
  induction ts with
  | nil => intro _; simp
  | cons t r ih =>
    intro h
    simp only [distinctB, Bool.and_eq_true, Bool.not_eq_true'] at h
    by_cases ht : t = 21
    · subst ht
      have : r.filter (· == 21) = [] := by
        rw [List.filter_eq_nil_iff]
        intro x hx hx21
        have : x = 21 := by simpa using hx21
        subst this
        have : r.contains 21 = true := by simpa using hx
        rw [this] at h; exact absurd h.1 (by simp)
      simp [this]
    · have := ih h.2
      simp [ht, this]

/-! ### the stored padding state is irrelevant under a policy -/

theorem apply_stateless (pol : PadPolicy) (hp : pol ≠ .none) (l : Nat) (c1 c2 : Nat × Bool) :
    pol.apply l c1 = pol.apply l c2 := by
  cases pol <;> first | exact absurd rfl hp | rfl

theorem setPad_isPadding (c : Nat × Bool) (e : Ext) : isPadding (setPad c e) = isPadding e := by
  cases e <;> rfl

theorem setPad_len_notPadding (c : Nat × Bool) (e : Ext) (h : isPadding e = false) : setPad c e = e := by
  cases e <;> first | rfl | simp [isPadding] at h

theorem paddingCount_setPad (c : Nat × Bool) : ∀ xs : List Ext, paddingCount (xs.map (setPad c)) = paddingCount xs := by
  intro xs
  induction xs with
  | nil => rfl
  | cons e r ih => simp [paddingCount, setPad_isPadding, ih]

theorem extsLenNoPad_setPad (c : Nat × Bool) : ∀ xs : List Ext, extsLenNoPad (xs.map (setPad c)) = extsLenNoPad xs := by
  intro xs
  induction xs with
  | nil => rfl
  | cons e r ih =>
    by_cases hp : isPadding e = true
    · simp [extsLenNoPad, setPad_isPadding, hp, ih]
    · have hp' : isPadding e = false := by simpa using hp
      simp [extsLenNoPad, hp', setPad_len_notPadding c e hp', ih]

theorem firstPadding_setPad (c : Nat × Bool) : ∀ xs : List Ext,
    firstPadding (xs.map (setPad c)) = (firstPadding xs).map fun _ => c := by
  intro xs
  induction xs with
  | nil => rfl
  | cons e r ih =>
    by_cases hp : isPadding e = true
    · cases e <;> first | rfl | simp [isPadding] at hp
    · have hp' : isPadding e = false := by simpa using hp
      have h1 : firstPadding (e :: r) = firstPadding r := by
        cases e <;> first | rfl | simp [isPadding] at hp'
      have h2 : firstPadding ((e :: r).map (setPad c)) = firstPadding (r.map (setPad c)) := by
        cases e <;> first | rfl | simp [isPadding] at hp'
      rw [h1, h2, ih]

theorem updatePad_setPad (pol : PadPolicy) (hp : pol ≠ .none) (l : Nat) (c : Nat × Bool) (e : Ext) :
    updatePad pol l (setPad c e) = updatePad pol l e := by
  cases e <;> first | rfl | skip
  rename_i n w
  simp only [setPad, updatePad]
  rw [apply_stateless pol hp l (c.1, c.2) (n, w)]

/-- **the stored `(PaddingLen, WillPad)` has no influence on a marshal under a policy**: whatever an
earlier marshal (or another connection sharing the spec object) left in the padding extension. -/
theorem marshal_setPad (f : HelloFields) (pol : PadPolicy) (hp : pol ≠ .none) (xs : List Ext) (c1 c2 : Nat × Bool) :
    marshalNoECH f pol (xs.map (setPad c1)) = marshalNoECH f pol (xs.map (setPad c2)) := by
  have hu : ∀ c, unpaddedLen f (xs.map (setPad c)) = unpaddedLen f xs := by
    intro c; simp [unpaddedLen, extsLenNoPad_setPad]
  have hel : ∀ c, extensionsLen f pol (xs.map (setPad c)) = extensionsLen f pol (xs.map (setPad c2)) := by
    intro c
    simp only [extensionsLen, hu, extsLenNoPad_setPad, firstPadding_setPad]
    cases firstPadding xs with
    | none => rfl
    | some cur => simp only [Option.map_some]; rw [apply_stateless pol hp _ c c2]
  have hhl : helloLen f pol (xs.map (setPad c1)) = helloLen f pol (xs.map (setPad c2)) := by
    simp only [helloLen, hel c1, List.isEmpty_map]
  have hmap : ∀ c, (xs.map (setPad c)).map (updatePad pol (unpaddedLen f xs)) = xs.map (updatePad pol (unpaddedLen f xs)) := by
    intro c
    rw [List.map_map]
    apply List.map_congr_left
    intro e _
    exact updatePad_setPad pol hp _ c e
  unfold marshalNoECH
  simp only [paddingCount_setPad, hel c1, hhl, hu, hmap, List.isEmpty_map]

end Hello
