import UtlsVerif.Line
import UtlsVerif.HostileMsg
/-! Driver-side functions shared by `Drv/C33.lean` and `Drv/C34.lean` (codec, dispatch and constant
families run the same model code under both properties). Model modules only. -/
namespace HostileDrv
open Line Wire HostileMsg

/-- the runner's own outcome tokens: a recovered Go panic or a missed deadline is a property violation
whatever the model says. -/
def runtimeFail (c : Case) (tag : String) : Option Verdict :=
  match c.output.get "out" with
  | some "panic" => some (.propFail tag s!"panic msg={c.output.getD "msg" "?"}")
  | some "timeout" => some (.propFail tag "timeout")
  | some "harness-crash" => some (.propFail tag "harness-crash")
  | _ => none

def mutName (c : Case) : String := ((c.input.getD "mut" "none").splitOn ":").headD "none"

def optHex : Option Bytes → String
  | none => "none"
  | some b => hex b

def b01 (b : Bool) : String := if b then "1" else "0"

def sizeClass (n : Nat) : String :=
  if n = 0 then "0" else if n < 256 then "s" else if n < 65536 then "m" else "L"

/-- expected output tokens of the codec executor, as one comparable string. -/
def ccStr (m : CompCert) : String := s!"ok=1 alg={m.alg} ulen={m.ulen} body={hex m.body}"
def seeStr (m : ServerEE) : String :=
  s!"ok=1 alpn={hex m.alpn} qtp={optHex m.quicTP} early={b01 m.earlyData} ech={hex m.ech} alps={hex m.alps} cp={m.alpsCP} hasalps={b01 (m.alpsCP != 0)} custom=-"
def ceeStr (m : ClientEE) : String := s!"ok=1 alps={hex m.alps} cp={m.alpsCP} custom={hex m.custom}"

def outStr (o : KV) (keys : List String) : String :=
  " ".intercalate (keys.map fun k => s!"{k}={o.getD k "?"}")

def cmp (tag impl model : String) : Verdict :=
  if impl = model then .ok tag else .diff tag model

def codec (c : Case) : Verdict :=
  let k := c.input.getD "k" "?"
  let tag0 := s!"{k},{mutName c}"
  match runtimeFail c tag0 with
  | some v => v
  | none =>
  let o := c.output
  match k with
  | "cc" =>
    match c.input.bytes "d" with
    | none => .bad "codec: bad d"
    | some d =>
      match ccUnmarshal d with
      | none => cmp s!"{tag0},rej" (outStr o ["ok"]) "ok=0"
      | some m => cmp s!"{tag0},ok,body={sizeClass m.body.length}" (outStr o ["ok", "alg", "ulen", "body"]) (ccStr m)
  | "see" =>
    match c.input.bytes "d" with
    | none => .bad "codec: bad d"
    | some d =>
      match seeUnmarshal d with
      | none => cmp s!"{tag0},rej" (outStr o ["ok"]) "ok=0"
      | some m =>
        cmp s!"{tag0},ok,{if m.alpsCP = 0 then "noalps" else s!"alps={sizeClass m.alps.length}"}"
          (outStr o ["ok", "alpn", "qtp", "early", "ech", "alps", "cp", "hasalps", "custom"]) (seeStr m)
  | "cee" =>
    match c.input.bytes "d" with
    | none => .bad "codec: bad d"
    | some d =>
      match ceeUnmarshal d with
      | none => cmp s!"{tag0},rej" (outStr o ["ok"]) "ok=0"
      | some m => cmp s!"{tag0},ok,{if m.alpsCP = 0 then "noalps" else s!"alps={sizeClass m.alps.length}"}"
          (outStr o ["ok", "alps", "cp", "custom"]) (ceeStr m)
  | "cc_rt" =>
    match c.input.nat "alg", c.input.nat "ulen", c.input.bytes "body" with
    | some alg, some ulen, some body =>
      let m : CompCert := ⟨alg, ulen, body⟩
      let enc := ccMarshal m
      let dec := match ccUnmarshal enc with | some m' => ccStr m' | none => "ok=0"
      cmp s!"cc_rt,{if m.WF then "wf" else "nwf"},body={sizeClass body.length}"
        (outStr o ["m", "ok", "alg", "ulen", "body"]) s!"m={hex enc} {dec}"
    | _, _, _ => .bad "codec: bad cc_rt"
  | "cee_rt" =>
    match c.input.nat "cp", c.input.bytes "alps", c.input.bytes "custom" with
    | some cp, some alps, some custom =>
      let m : ClientEE := { alps := alps, alpsCP := cp, custom := custom }
      let enc := ceeMarshal m
      let dec := match ceeUnmarshal enc with
        | some m' => ceeStr m'
        | none => "ok=0 alps=- cp=0 custom=-"
      cmp s!"cee_rt,{if custom.isEmpty then "nocustom" else "custom"},{if (ceeUnmarshal enc).isSome then "ok" else "rej"}"
        (outStr o ["m", "ok", "alps", "cp", "custom"]) s!"m={hex enc} {dec}"
    | _, _, _ => .bad "codec: bad cee_rt"
  | "see_rt" =>
    match c.input.bytes "alpn", c.input.bytes "ech" with
    | some alpn, some ech =>
      let qs := c.input.getD "qtp" "none"
      let q : Option Bytes := if qs = "none" then none else unhex qs
      let m : ServerEE := { alpn := alpn, quicTP := q, earlyData := c.input.getD "early" "0" = "1", ech := ech }
      let enc := seeEncode m
      let dec := match seeUnmarshal enc with
        | some m' => s!"ok=1 alpn={hex m'.alpn} qtp={optHex m'.quicTP} early={b01 m'.earlyData} ech={hex m'.ech} cp={m'.alpsCP}"
        | none => "ok=0"
      cmp s!"see_rt,{if alpn.isEmpty then "noalpn" else "alpn"},{if q.isSome then "qtp" else "noqtp"}"
        (outStr o ["m", "ok", "alpn", "qtp", "early", "ech", "cp"]) s!"m={hex enc} {dec}"
    | _, _ => .bad "codec: bad see_rt"
  | "ech" =>
    match c.input.bytes "d" with
    | none => .bad "codec: bad d"
    | some d =>
      match parseECHExt d with
      | .error .malformed => cmp "ech,malformed" (outStr o ["ok", "err"]) "ok=0 err=malformed"
      | .error .invalid => cmp "ech,invalid" (outStr o ["ok", "err"]) "ok=0 err=invalid"
      | .ok .inner => cmp "ech,inner" (outStr o ["ok", "kind"]) "ok=1 kind=inner"
      | .ok (.outer kdf aead cid encap payload) =>
        cmp s!"ech,outer,payload={sizeClass payload.length}" (outStr o ["ok", "kind", "kdf", "aead", "id", "encap", "payload"])
          s!"ok=1 kind=outer kdf={kdf} aead={aead} id={cid} encap={hex encap} payload={hex payload}"
  | _ => .bad s!"codec: unknown kind {k}"

def alertsStr (n : Nat) (code : String) : String :=
  if n = 0 then "-" else ",".intercalate (List.replicate n code)

/-- rendering of the model's `readHandshake` result in the executor's vocabulary. -/
def readHsStr (r : ReadHs) (typ : String) : String :=
  match r.res with
  | .ok _ => s!"res=ok typ={typ} alerts=- rem={r.remaining}"
  | .err .unexpectedMessage => s!"res=unexpected typ=- alerts={alertsStr r.alerts "10"} rem={r.remaining}"
  | .err .tooLong => s!"res=toolong typ=- alerts={alertsStr r.alerts "80"} rem={r.remaining}"
  | .err .needMore => s!"res=needmore typ=- alerts=- rem={r.remaining}"
  | .panic => "res=panic"

def goShort (k : Kind) : String := (k.goName.drop 5).toString

def dispatch (c : Case) : Verdict :=
  let role := c.input.getD "role" "?"
  match runtimeFail c s!"{role},runtime" with
  | some v => v
  | none =>
  match c.input.bytes "hand" with
  | none => .bad "dispatch: bad hand"
  | some hand =>
    let isClient := role = "client"
    let v13 := c.input.getD "v13" "0" = "1"
    let hv := c.input.getD "hv" "0" = "1"
    let yes := readHandshake (fun _ _ => true) isClient v13 hv hand
    let no := readHandshake (fun _ _ => false) isClient v13 hv hand
    let impl := outStr c.output ["res", "typ", "alerts", "rem"]
    let t := hand.headD 0
    let kindTag := match kindOf isClient v13 t.toNat with
      | none => "unknown"
      | some k => if k.isUtls then goShort k else "inherited"
    match yes.res with
    | .ok k =>
      let sYes := readHsStr yes (goShort k)
      let sNo := readHsStr no (goShort k)
      if k.isUtls then cmp s!"{role},{kindTag},ok" impl sYes
      else if impl = sYes then .ok s!"{role},{kindTag},ok"
      else if impl = sNo then .ok s!"{role},{kindTag},rejected-by-inherited-parser"
      else .diff s!"{role},{kindTag}" s!"{sYes} | {sNo}"
    | .panic => .diff s!"{role},{kindTag},model-panic" "res=panic"
    | .err e =>
      let cls := match e with | .unexpectedMessage => "unexpected" | .tooLong => "toolong" | .needMore => "needmore"
      cmp s!"{role},{if hand.length < 4 then "short" else kindTag},{cls}" impl (readHsStr yes "-")

def consts (c : Case) : Verdict :=
  let model := s!"maxhs={maxHandshake} maxcert={maxHandshakeCert} maxuseless={maxUseless} tcc={typeCompressedCert} tee={typeEE} alpsold={alpsOld} alpsnew={alpsNew} custom={fakeCustom}"
  cmp "consts" (outStr c.output ["maxhs", "maxcert", "maxuseless", "tcc", "tee", "alpsold", "alpsnew", "custom"]) model

/-! ## connection-level families (C33) -/

def allocFail (c : Case) (tag : String) : Option Verdict :=
  if c.output.getD "alloc" "?" = "more" then some (.propFail tag "alloc-class-more") else none

def has (s sub : String) : Bool := (s.splitOn sub).length > 1

/-- `c33_decomp`. -/
def decomp (c : Case) : Verdict :=
  let i := c.input
  let o := c.output
  match i.nat "alg", i.nats "adv", o.nat "decl", o.nat "plain" with
  | some alg, some adv, some decl, some plain =>
    let content := ((i.getD "content" "?").splitOn ":").headD "?"
    let declP := i.getD "decl" "?"
    let body := i.getD "body" "?"
    let res := o.getD "res" "?"
    let tag := s!"{if adv.contains alg then "adv" else "unadv"},{content},{declP},{body},{res}"
    match runtimeFail c tag with
    | some v => v
    | none =>
    match allocFail c tag with
    | some v => v
    | none =>
    -- D18 regression monitor: the buffer really was allocated from a declared length far beyond the certificate limit
    if decl ≥ 4194304 ∧ o.getD "allocge" "0" = "1" ∧ res ≠ "unadvertised" ∧ res ≠ "unsupported" then
      .propFail tag s!"alloc-from-declared-length decl={decl} limit={maxHandshakeCert}"
    else
    -- exact per-function measurement: with the declared length within the limit the buffer is ≤ 256 KiB + 4 and at
    -- most declared + 1 bytes are pulled from the decoder (`decompress_reads_bounded`); what remains is the decoder's
    -- own state (measured ≤ 4.5 MiB for brotli, zlib and zstd on 8-64 MiB bombs). 8 MiB or more means the stream,
    -- not the limit, drives the allocation.
    -- (`zwin`: the frame header itself declares the decoder's window, which the decoder allocates whatever uTLS
    -- pulls from it; what is demanded there is `alloc-class-more` above: never 32 MiB or more — open finding D34)
    if decl ≤ maxHandshakeCert ∧ content ≠ "zwin" ∧ o.getD "alloc8" "0" = "1" then
      .propFail tag s!"alloc-driven-by-decompressed-stream (≥ 8 MiB allocated in decompressCert, declared {decl}, stream {plain})"
    else
    let m : CompCert := ⟨alg, decl, []⟩
    -- decoder-independent cases: an intact stream of the 479-byte certificate message (the model only needs
    -- its length; `certOk` = "the whole certificate message is there")
    let exact := (content = "cert" ∨ content = "bomb") ∧ body = "good"
    -- (the model only needs the stream's length; beyond decl + 1 every length gives the same verdict, so the replica
    -- is capped there)
    let (mres, malloc) := decompress adv m (some (List.replicate (min plain (decl + 2)) 0))
      (fun out => content = "cert" && out.length == plain)
    let rstr : DecompRes → String
      | .unadvertised => "unadvertised" | .tooLarge => "toolarge" | .unsupported => "unsupported"
      | .decoderErr => "decoder" | .lenMismatch => "lenmismatch" | .lenExceeds => "lenexceeds"
      | .badCert => "badcert" | .ok => "ok"
    let impl := s!"res={res} alert={o.getD "alert" "?"}"
    let alertOf : DecompRes → String
      | .ok => "-" | .badCert => "10" | _ => "42"
    let model := s!"res={rstr mres} alert={alertOf mres}"
    -- refusals that happen before the decoder is consulted are predicted exactly, whatever the body is
    if malloc.isNone then cmp tag impl model
    else if exact then cmp tag impl model
    else if res = "ok" ∨ res = "decoder" ∨ res = "lenmismatch" ∨ res = "lenexceeds" ∨ res = "badcert" then .ok tag
    else .diff tag "res∈{ok,decoder,lenmismatch,lenexceeds,badcert}"
  | _, _, _, _ => .bad "decomp: bad fields"

/-- `c33_conn`: one outgoing server handshake message was replaced by `m`. -/
def conn (c : Case) : Verdict :=
  let i := c.input
  let o := c.output
  let mutN := mutName c
  let stage := o.getD "stage" "?"
  let hit := o.getD "hit" "0" = "1"
  let changed := o.getD "changed" "0" = "1"
  let ver := i.getD "ver" "?"
  let tag0 := s!"v{ver},t{o.getD "otype" "-"},{mutN}"
  match runtimeFail c tag0 with
  | some v => v
  | none =>
  match allocFail c tag0 with
  | some v => v
  | none =>
  if o.getD "srv" "-" = "panic" then .propFail tag0 "in-package-server-panic" else
  if o.getD "hs2" "-" = "x-panic" then .propFail tag0 "panic-second-connection" else
  -- D18 monitor on the wire path
  if (o.nat "decl").getD 0 ≥ 4194304 ∧ o.getD "allocge" "0" = "1" ∧ stage = "hs:decompress" then
    .propFail s!"{tag0},{stage}" s!"alloc-from-declared-length decl={(o.nat "decl").getD 0} limit={maxHandshakeCert}"
  else
  -- PSK branches: hostile pre_shared_key selections / HelloRetryRequests against injected identities
  let hserr := o.getD "hserr" "-"
  let nids := (o.nat "nids").getD 0
  let st : PskState := ⟨nids, if o.getD "sess" "0" = "1" then some ⟨true, true⟩ else none⟩
  let pskTag := s!"psk={i.getD "psk" (if i.getD "warm" "0" = "1" then "real" else "none")},nids={nids},sess={o.getD "sess" "0"}"
  let alertName : Nat → String := fun a => if a = 80 then "internal_error" else "invalid_psk"
  if hserr = "prepare" then .ok s!"{pskTag},prepare-refused" else
  if mutN = "shpsk" ∧ hit ∧ i.getD "hrr" "0" = "0" ∧ o.getD "neg" "-" = "13" ∧ (o.nat "nids").isSome then
    let idx := ((((i.getD "mut" "").splitOn ":").getD 1 "0").toNat?).getD 0
    match pskServerHello st (some idx) with
    | .abort a => cmp s!"{pskTag},shpsk,abort-{alertName a}" hserr (alertName a)
    | .panic => .diff s!"{pskTag},shpsk" "model-panic"
    | _ => .ok s!"{pskTag},shpsk,session-used,{stage}"
  else if i.getD "hrr" "0" = "1" ∧ nids > 0 ∧ o.getD "sess" "0" = "0" ∧ (!changed ∨ (mutN = "cookie" ∧ i.getD "mut" "" ≠ "cookie:0")) ∧ o.getD "srv" "-" ≠ "-" then
    -- (an empty cookie does not parse: `serverHelloMsg.unmarshal` refuses it before the PSK branch is reached;
    -- that case is judged with the other mutated flights below)
    match pskHelloRetry st with
    | .abort a => cmp s!"{pskTag},hrr,abort-{alertName a}" hserr (alertName a)
    | _ => .diff s!"{pskTag},hrr" "model: abort"
  else
  if !hit ∨ !changed then
    -- nothing was changed: a well-formed flight must be accepted (except the known HRR incompatibilities)
    if o.getD "out" "?" = "ok" then .ok s!"baseline,v{ver},done"
    else if i.getD "hrr" "0" = "1" then .ok s!"baseline,v{ver},hrr-failed"
    else if o.getD "hs" "?" = "x-eof" ∨ o.getD "hs" "?" = "x-deadline" then .ok s!"baseline,v{ver},inconclusive-peer-gone"
    else .diff s!"baseline,v{ver}" "out=ok (unmutated flight)"
  else
  let ms := o.getD "m" "-"
  if ms.startsWith "big:" then .ok s!"{tag0},big,{stage}" else
  match unhex ms with
  | none => .bad "conn: bad m"
  | some m =>
    let v13 := o.getD "v13" "0" = "1"
    let hv := o.getD "hv" "0" = "1"
    let yes := readHandshake (fun _ _ => true) true v13 hv m
    let no := readHandshake (fun _ _ => false) true v13 hv m
    let post := o.getD "post" "0" = "1"
    let observed := if post then ((o.getD "rd" "-").splitOn ",").getLastD "-" else o.getD "hs" "-"
    let mustReject (cls : String) (why : String) : Verdict :=
      -- the in-package server gives up after its own (short) deadline: under machine load it can go away
      -- before the client has read the message; such runs decide nothing
      if observed = "x-eof" ∨ observed = "x-deadline" ∨ observed = "eof" then .ok s!"{tag0},{why},inconclusive-peer-gone"
      else if post ∧ o.getD "hs" "?" ≠ "ok" then .diff s!"{tag0},{why}" "hs=ok (the mutated message is post-handshake)"
      else if observed = cls then .ok s!"{tag0},{why},{stage}"
      else .diff s!"{tag0},{why}" s!"{if post then "rd" else "hs"}={cls}"
    match yes.res, no.res with
    | .err .unexpectedMessage, .err .unexpectedMessage =>
      mustReject "unexpected" (if yes.alerts = 2 then "reject-dispatch" else "reject-codec")
    | .err .tooLong, _ => mustReject "toolong" "reject-size"
    | .panic, _ => .diff tag0 "model-panic"
    | .err .needMore, _ => .ok s!"{tag0},incomplete,{stage}"
    | _, _ => .ok s!"{tag0},free,{stage}"

def recTokens (s : String) : Option (List Rec) × Bool :=
  -- second component: every token is one the record model describes
  let toks := listOf s
  let conv (t : String) : Option (List Rec) :=
    let parts := t.splitOn "*"
    let n := (parts.getD 1 "1").toNat?.getD 1
    match parts.headD "" with
    | "ccs" => some (List.replicate n .ccs)
    | "ccsbad" => some [.ccsBad]
    | "warn" => some (List.replicate n .alertWarn)
    | "fatal" => some [.alertFatal]
    | "close" => some [.closeNotify]
    | "emptyhs" => some [.hsEmpty]
    | "emptyapp" => some (List.replicate n .appEmpty)
    | "emptyalert" => some [.alertBad]
    | "alertlen:1" => some [.alertBad]
    | "alertlen:3" => some [.alertBad]
    | "alertlen:100" => some [.alertBad]
    | _ => none
  match toks.mapM conv with
  | some ls => (some ls.flatten, true)
  | none => (none, false)

/-- monitor shared by `c33_rec` / `c33_loop`: the model says the run of useless records exceeds the budget
and must be refused, yet the implementation carried on past it. -/
def acceptedRun (tag modelCls impl : String) : Option Verdict :=
  if (modelCls = "toomanyignored" ∨ modelCls = "toomanynonadv") ∧ (impl = "ok" ∨ impl.startsWith "d") then
    some (.propFail tag s!"useless-record-run-accepted (more than {maxUseless} non-advancing records consumed without an error)")
  else none

def rerrStr : RErr → String
  | .tooManyIgnored => "toomanyignored" | .tooManyNonAdv => "toomanynonadv" | .unexpected => "unexpected"
  | .decodeError => "decode" | .remoteAlert => "remotealert" | .eof => "eof"
  | .noRenegotiation => "norenegotiation" | .renegotiating => "renegotiating" | .notTLS => "nottls"

/-- `c33_rec`. -/
def recFam (c : Case) : Verdict :=
  let i := c.input
  let o := c.output
  let prefix_ := i.getD "prefix" "?"
  let sv := o.getD "sv" "-"
  let hs := o.getD "hs" "?"
  let tag0 := s!"{prefix_},sv{sv}"
  match runtimeFail c tag0 with
  | some v => v
  | none =>
  match allocFail c tag0 with
  | some v => v
  | none =>
  match recTokens (i.getD "recs" "-") with
  | (some recs, _) =>
    let onlyCCS := recs.all (· == .ccs)
    let cmpE (e : RErr) : Verdict :=
      match acceptedRun s!"{tag0},modelled,{rerrStr e}" (rerrStr e) hs with
      | some v => v
      | none => cmp s!"{tag0},modelled,{rerrStr e}" hs (rerrStr e)
    if prefix_ = "none" then
      let out := readRecord { vers13 := false, hsComplete := false, haveVers := false } recs
      match out.res with
      | some (.err e) => cmpE e
      | none => cmp s!"{tag0},modelled,all-dropped" hs "eof"
      | _ => .ok s!"{tag0},free"
    else if prefix_ = "sh" ∧ sv = "12" then
      let out := readRecord { vers13 := false, hsComplete := false } (recs ++ [.hs [11]])
      match out.res with
      | some (.err e) => cmpE e
      | some (.gotHs _) => cmp s!"{tag0},modelled,all-dropped" hs "ok"
      | _ => .ok s!"{tag0},free"
    else if prefix_ = "sh" ∧ sv = "13" ∧ onlyCCS then
      -- the server's own compatibility CCS follows the injected ones
      let out := readRecord { vers13 := true, hsComplete := false } (recs ++ [.ccs, .hs [8]])
      match out.res with
      | some (.err e) => cmpE e
      | some (.gotHs _) => cmp s!"{tag0},modelled,all-dropped" hs "ok"
      | _ => .ok s!"{tag0},free"
    else .ok s!"{tag0},encrypted-phase,{o.getD "stage" "?"}"
  | (none, _) => .ok s!"{tag0},unmodelled-records,{o.getD "stage" "?"}"

def loopTokens (s : String) : Option (List Rec) :=
  let conv (t : String) : Option (List Rec) :=
    let parts := t.splitOn "*"
    let n := (parts.getD 1 "1").toNat?.getD 1
    match parts.headD "" with
    | "E" => some (List.replicate n .appEmpty)
    | "W" => some (List.replicate n .alertWarn)
    | "D" => some [.app 0]
    | "K" => some [.hs (List.replicate n 24)]
    | "k" => some (List.replicate n (.hs [24]))
    | "C" => some (List.replicate n .ccs)
    | "H" => some [.hs [0]]
    | "X" => some [.closeNotify]
    | "F" => some [.alertFatal]
    | "U" => some [.hs [99]]
    | _ => none
  ((listOf s).mapM conv).map List.flatten

/-- successive `Read` calls over the remaining records until the first error; `k` bounds the number of calls. -/
def loopReads (reneg : Bool) : Nat → RState → List Rec → List String
  | 0, _, _ => []
  | k + 1, st, rs =>
    let o := readCall st rs reneg
    match o.res with
    | .data n => s!"d{n}" :: loopReads reneg k { st with retry := o.retry } (rs.drop o.consumed)
    | .err e => [rerrStr e]
    | .blocked => ["eof"]      -- the peer goes away after its last record

def Rec.alertTyped : Rec → Bool
  | .alertWarn | .alertFatal | .closeNotify | .alertBad => true
  | _ => false

/-- TLS ≤ 1.2 only: `Read` looks ahead when the next record *already buffered* is an alert. If what follows
the alerts is a handshake record, the outcome depends on how the bytes were segmented in transit. -/
def peekAmbiguous : List Rec → Bool
  | .app _ :: rest =>
    -- the look-ahead `readRecord` drops every useless record (warning alerts, empty application data)
    (match rest.dropWhile (fun r => r == .alertWarn || r == .appEmpty) with
     | .hs _ :: _ => rest.head?.any Rec.alertTyped
     | _ => false) || peekAmbiguous rest
  | _ :: rest => peekAmbiguous rest
  | [] => false

/-- `c33_loop`. The model computes the whole outcome sequence (as if `Read` were called until it fails);
the implementation's results — `(n, err)` returns flattened to two entries — must be a prefix of it that
is as long as the number of reads requested (or ends with the model's terminal error). This is invariant
under the look-ahead read, whose occurrence depends on TCP segmentation. -/
def loopFam (c : Case) : Verdict :=
  let i := c.input
  let o := c.output
  let ver := i.getD "ver" "?"
  match runtimeFail c s!"v{ver}" with
  | some v => v
  | none =>
  match allocFail c s!"v{ver}" with
  | some v => v
  | none =>
  match loopTokens (i.getD "seq" "-"), i.nat "reads" with
  | some recs, some reads =>
    if o.getD "hs" "?" ≠ "ok" then .diff s!"v{ver},handshake" "hs=ok" else
    let reneg := o.getD "reneg" "0" = "1"
    let model := loopReads reneg (recs.length + 2) { vers13 := ver = "13", hsComplete := true } recs
    let impl := listOf (o.getD "rd" "-")
    let last := model.getLastD "-"
    let tag := s!"v{ver},{last},len={if recs.length < 33 then "short" else "long"}"
    if ver = "12" ∧ peekAmbiguous recs then .ok s!"v{ver},peek-ambiguous"
    else
    let model' := if last = "renegotiating" then model.dropLast else model
    let impl' := if last = "renegotiating" then impl.take model'.length else impl
    -- a renegotiation handshake's outcome belongs to the inherited state machine
    if impl' = model'.take impl'.length ∧ (impl'.length ≥ min reads model'.length) then .ok tag
    else
      -- where the two first differ: did the implementation read on past a run it had to refuse?
      let k := ((impl'.zip model').takeWhile fun (a, b) => a == b).length
      match acceptedRun tag (model'.getD k "-") (impl'.getD k "-") with
      | some v => v
      | none => .diff tag (",".intercalate model)
  | _, _ => .bad "loop: bad seq"

/-- `c33_hrr`: where did the cookie go? -/
def hrrFam (c : Case) : Verdict :=
  let i := c.input
  let o := c.output
  match runtimeFail c "hrr" with
  | some v => v
  | none =>
  match allocFail c "hrr" with
  | some v => v
  | none =>
  match o.nat "hellos", o.nat "len1", o.nat "len2", o.nats "e1", o.nats "e2" with
  | some hellos, some len1, some len2, some e1, some e2 =>
    let pre := e1.contains 44
    -- a FakePreSharedKeyExtension that is part of the *spec* does not populate Hello.PskIdentities (nIds = 0 for the
    -- PSK block of processHelloRetryRequest): the second hello is built, and the cookie must stay clear of the
    -- last two extensions (psk_key_exchange_modes, pre_shared_key) — `cookie_keeps_last_two`
    let pskT := if e1.contains 41 then ",psk-in-spec" else ""
    if hellos < 2 then .ok s!"len={len1},no-second-hello"
    else
      let pos := (e2.findIdx? (· == 44)).getD 999
      if pre then
        -- the spec already had a cookie extension: it is filled in place
        if e2 = e1 then .ok s!"len={min len1 6},cookie-in-place" else .diff s!"len={len1},pre" "e2=e1"
      else
        let without := e2.filter (· != 44)
        let inRange := if len1 ≤ 2 then pos = 0 else pos + 2 < len1
        -- every PRNG stream gives a value in this range (`cookie_index_in_range`); which one is the
        -- crypto-seeded draw
        if len2 ≠ len1 + 1 ∨ without ≠ e1 then .diff s!"len={len1}" s!"e2 = e1 with one cookie inserted"
        else if ¬ inRange then .propFail s!"len={len1},pos={pos}" "cookie-index-out-of-modelled-range"
        else
          match cookieInsert len1 [] with
          | .inserted p => cmp s!"len={len1},pos-forced" (toString pos) (toString p)
          | _ =>
            if e1.contains 41 ∧ e2.getLast? ≠ some 41 then .propFail s!"len={len1},pos={pos}" "pre_shared_key-no-longer-last"
            else .ok s!"len={min len1 6},pos<len-2{pskT}"
  | _, _, _, _, _ => .bad "hrr: bad fields"

/-! ## connection-level families (C34) -/

def hexList (s : String) : Option (List Bytes) := (listOf s).mapM unhex

/-- what the server-role dispatch makes of the handshake stream `hand` (first message). -/
inductive Pred where
  | reject (cls : String) (why : String)
  | stateMachine (k : Kind)       -- a uTLS message type the handshake state machine is not waiting for
  | inheritedOther                 -- another inherited type: parser verdict unknown, then the state machine
  | clientHello
  | incomplete
  deriving Repr

def predict (hv : Bool) (hand : Bytes) : Pred × Nat :=
  let yes := readHandshake (fun _ _ => true) false false hv hand
  let no := readHandshake (fun _ _ => false) false false hv hand
  let used := hand.length - yes.remaining
  match yes.res, no.res with
  | .err .unexpectedMessage, .err .unexpectedMessage =>
    (.reject "unexpected" (if yes.alerts = 2 then "reject-dispatch" else "reject-codec"), used)
  | .err .tooLong, _ => (.reject "toolong" "reject-size", used)
  | .err .needMore, _ => (.incomplete, used)
  | .ok k, _ => (if k.isUtls then .stateMachine k else if k = .clientHello then .clientHello else .inheritedOther, used)
  | _, _ => (.incomplete, used)

/-- `c34_conn`. -/
def c34conn (c : Case) : Verdict :=
  let i := c.input
  let o := c.output
  let smut := ((i.getD "smut" "?").splitOn ":").headD "?"
  let stage := o.getD "stage" "?"
  let tag0 := s!"{smut},{stage}"
  match runtimeFail c tag0 with
  | some v => v
  | none =>
  match allocFail c tag0 with
  | some v => v
  | none =>
  match i.bytes "ch", hexList (i.getD "follow" "-") with
  | some ch, some follow =>
    let hs := o.getD "hs" "?"
    let framing := i.getD "framing" "one"
    let hand := ch ++ follow.flatten
    -- empty handshake records are a record-layer matter (not modelled)
    if ch.length < 6 ∧ framing ≠ "one" ∨ ch.isEmpty then .ok s!"{tag0},tiny" else
    let expect (cls why : String) : Verdict := if hs = cls then .ok s!"{tag0},{why}" else .diff s!"{tag0},{why}" s!"hs={cls}"
    match predict false hand with
    | (.reject cls why, _) => expect cls why
    | (.stateMachine k, _) => expect "statemachine" s!"first-is-{goShort k}"
    | (.inheritedOther, _) =>
      if hs = "statemachine" ∨ hs = "unexpected" then .ok s!"{tag0},first-is-other-type" else .diff tag0 "hs∈{statemachine,unexpected}"
    | (.incomplete, _) => .ok s!"{tag0},incomplete-hello"
    | (.clientHello, used) =>
      -- the hello went to the inherited parser. If the server answered with a complete TLS 1.2 flight it
      -- now reads the next plaintext handshake message: the dispatch again.
      if o.getD "shd" "0" = "1" ∧ o.getD "shver" "-" ≠ "0303" then
        -- follow-up records are sent with record version 0x0303: below TLS 1.2 the record layer refuses them
        .ok s!"{tag0},followup-record-version"
      else if o.getD "shd" "0" = "1" then
        let rest := hand.drop used
        if rest.isEmpty then expect "eof" "flight12,no-followup"
        else match predict true rest with
          | (.reject cls why, _) => expect cls s!"followup-{why}"
          | (.stateMachine k, _) => expect "statemachine" s!"followup-is-{goShort k}"
          | (.incomplete, _) => .ok s!"{tag0},followup-incomplete"
          | _ => .ok s!"{tag0},followup-inherited"
      else .ok s!"{tag0},hello-to-inherited-parser"
  | _, _ => .bad "c34_conn: bad hex"

/-- `c34_full`. -/
def c34full (c : Case) : Verdict :=
  let i := c.input
  let o := c.output
  let mode := i.getD "mode" "?"
  let tag0 := s!"{mode},v{i.getD "ver" "?"}"
  match runtimeFail c tag0 with
  | some v => v
  | none =>
  match allocFail c tag0 with
  | some v => v
  | none =>
  let hs := o.getD "hs" "?"
  let client := o.getD "client" "?"
  if o.getD "sentee" "0" = "1" then
    match i.nat "n", i.nat "cp" with
    | some n, some cp =>
      if 4 + n > 65535 then .ok s!"{tag0},client-cannot-marshal"
      else
        let msg := ceeMarshal { alps := List.replicate n 0, alpsCP := cp }
        match predict true msg with
        | (.reject cls why, _) => cmp s!"{tag0},clientEE,{why}" hs cls
        | (.stateMachine _, _) => cmp s!"{tag0},clientEE,statemachine,n={sizeClass n}" hs "statemachine"
        | _ => .diff tag0 "clientEE must parse or be rejected"
    | _, _ => .bad "c34_full: bad n"
  else if client = "ok" then cmp s!"{tag0},no-clientEE" hs "ok"
  else .ok s!"{tag0},client-aborted"

/-- `c34_hrr2`: scripted two-hello flows. -/
def c34hrr2 (c : Case) : Verdict :=
  let i := c.input
  let o := c.output
  let ech1 := i.getD "ech1" "?"
  let ech2 := i.getD "ech2" "?"
  let tag0 := s!"{ech1},{ech2}"
  match runtimeFail c tag0 with
  | some v => v
  | none =>
  match allocFail c tag0 with
  | some v => v
  | none =>
  if o.getD "hrr" "0" ≠ "1" then .ok s!"{tag0},no-hrr" else
  let extOf (s : String) : Option Bytes := if s = "-" ∨ s = "empty" then some [] else unhex s
  match extOf (o.getD "h1ech" "-"), extOf (o.getD "h2ech" "-") with
  | some e1, some e2 =>
    let keys := i.getD "keys" "0" = "1"
    let dec := o.getD "dec" "0" = "1"
    let firstAlert := (listOf (o.getD "alert" "-")).headD "-"
    let second (ctx : Option EchCtx) (ctxTag : String) : Verdict :=
      match echSecondHello ctx e2 with
      | .panic => .diff s!"{tag0},{ctxTag}" "model-panic"
      | .abort a => cmp s!"{tag0},{ctxTag},abort{a}" firstAlert (toString a)
      | .decrypt _ => cmp s!"{tag0},{ctxTag},decrypt-fails" firstAlert "51"   -- the script cannot seal a payload
      | .proceed => .ok s!"{tag0},{ctxTag},proceed,{o.getD "hs" "?"}"
    match echFirstHello keys dec true e1 with
    | .abort _ => .diff tag0 "first hello refused (no HelloRetryRequest expected)"
    | .noCtx => second none "noctx"
    | .ctx cx => second (some cx) (if cx.inner then "ctx-inner" else "ctx-hpke")
  | _, _ => .bad "c34_hrr2: bad hex"

end HostileDrv
