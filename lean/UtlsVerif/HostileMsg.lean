import UtlsVerif.Wire
import UtlsVerif.Prng
/-!
# HostileMsg — the uTLS-specific paths that process *peer-controlled* bytes (C33 / C34)

Total transcriptions, with an explicit `panic` outcome wherever the Go code indexes or slices, of

* the three message codecs of `u_handshake_messages.go`
  (`utlsCompressedCertificateMsg`, `encryptedExtensionsMsg.unmarshal` + `utlsUnmarshal`,
  `utlsClientEncryptedExtensionsMsg`) — their `cryptobyte` reads are the `Wire` readers;
* `(*Conn).readHandshake` + `unmarshalHandshakeMessage` + `utlsHandshakeMessageType`
  (header indexing `data[0..3]`, the two size limits, the per-role message-type dispatch);
* the cookie-insertion index of `processHelloRetryRequest`'s uTLS section
  (`p.Intn(len(Extensions)-2)` and the two slice expressions that use it);
* `decompressCert`'s length guard and allocation request (`make([]byte, uncompressedLength+4)`, `rawMsg[0..3]`, `rawMsg[4:]`);
* the record-level retry counter (`retryCount` / `maxUselessRecords`) of `readRecordOrCCS` /
  `retryReadRecord` and the post-handshake loop of `UConn.Read` / `handlePostHandshakeMessage`;
* `parseECHExt` and the `hello[4:]` slice of `decryptECHPayload` (server side).

Everything *inherited* from crypto/tls (the other message parsers, record decryption, the
handshake state machines) is a parameter here, not a model: see DESIGN §10 (C33/C34 are partial).
Core Lean only.
-/
namespace HostileMsg
open Wire

/-! ## constants (compared with the working tree's values by the `hm_consts` family) -/
def maxHandshake : Nat := 65536
def maxHandshakeCert : Nat := 262144
def maxUseless : Nat := 32
def typeCompressedCert : Nat := 25
def typeEE : Nat := 8
def typeCertificate : Nat := 11
def alpsOld : Nat := 17513
def alpsNew : Nat := 17613
def fakeCustom : Nat := 1234
def extALPN : Nat := 16
def extEarlyData : Nat := 42
def extQuicTP : Nat := 57
def extECH : Nat := 65037

/-! ## outcomes and Go indexing -/

inductive Err where
  | unexpectedMessage   -- alert unexpected_message
  | tooLong             -- "handshake message of length %d bytes exceeds maximum"
  | needMore            -- the transport must deliver more bytes (EOF / deadline decide)
  deriving DecidableEq, Repr

/-- result of a piece of Go code: a value, a returned error, or a run-time panic. -/
inductive Out (α : Type) where
  | ok (a : α)
  | err (e : Err)
  | panic
  deriving DecidableEq, Repr

def Out.isPanic {α : Type} : Out α → Bool
  | .panic => true
  | _ => false

/-- `bs[i]` — panics when out of range. -/
def idx (bs : Bytes) (i : Nat) : Out Nat :=
  match bs[i]? with
  | some x => .ok x.toNat
  | none => .panic

/-- `bs[i:]` — panics when `i > len`. -/
def sliceFrom {α : Type} (bs : List α) (i : Nat) : Out (List α) :=
  if i ≤ bs.length then .ok (bs.drop i) else .panic

/-- `bs[:i]` — panics when `i > len` (Go allows up to `cap`; `len` is the stricter bound). -/
def sliceTo {α : Type} (bs : List α) (i : Nat) : Out (List α) :=
  if i ≤ bs.length then .ok (bs.take i) else .panic

/-! ## codec 1: `utlsCompressedCertificateMsg` -/

structure CompCert where
  alg : Nat
  ulen : Nat
  body : Bytes
  deriving DecidableEq, Repr

/-- values the Go struct can hold and `marshal` can emit without a builder error. -/
def CompCert.WF (m : CompCert) : Prop :=
  m.alg < 65536 ∧ m.ulen < 16777216 ∧ m.body.length + 8 < 16777216

instance (m : CompCert) : Decidable m.WF := by unfold CompCert.WF; infer_instance

/-- `marshal` (for values within the builder's limits). -/
def ccMarshal (m : CompCert) : Bytes :=
  u8 typeCompressedCert ++ vec24 (u16 m.alg ++ u24 m.ulen ++ vec24 m.body)

/-- `unmarshal`: `Skip(4)`, `ReadUint16`, `ReadUint24`, `readUint24LengthPrefixed`. Neither the type
byte, nor the outer length, nor trailing bytes are checked (the code does not check them). -/
def ccUnmarshal (data : Bytes) : Option CompCert :=
  match take? 4 data with
  | none => none
  | some (_, s) =>
    match readU16 s with
    | none => none
    | some (alg, s) =>
      match readU24 s with
      | none => none
      | some (ulen, s) =>
        match readVec24 s with
        | none => none
        | some (body, _) => some ⟨alg, ulen, body⟩

/-! ## codec 2: `encryptedExtensionsMsg.unmarshal` with `utlsUnmarshal` (client side) -/

structure ServerEE where
  alpn : Bytes := []
  quicTP : Option Bytes := none
  earlyData : Bool := false
  ech : Bytes := []
  alps : Bytes := []
  alpsCP : Nat := 0
  deriving DecidableEq, Repr

/-- one iteration of the extension loop. -/
def seeStep (m : ServerEE) (t : Nat) (d : Bytes) : Option ServerEE :=
  if t = extALPN then
    match readVec16 d with
    | none => none
    | some (protoList, rest) =>
      if protoList.isEmpty then none else
      match readVec8 protoList with
      | none => none
      | some (proto, pr) =>
        if proto.isEmpty || !pr.isEmpty then none
        else if !rest.isEmpty then none           -- `!extData.Empty()` after the switch
        else some { m with alpn := proto }
  else if t = extQuicTP then some { m with quicTP := some d }
  else if t = extEarlyData then (if d.isEmpty then some { m with earlyData := true } else none)
  else if t = extECH then some { m with ech := d }
  else if t = alpsOld ∨ t = alpsNew then some { m with alpsCP := t, alps := d }   -- utlsUnmarshal
  else some m                                      -- unknown extensions are ignored

/-- the `for !extensions.Empty()` loop shared by both EncryptedExtensions parsers: read `uint16 type`,
`uint16-length-prefixed data`, apply `step`. Every iteration consumes at least 4 bytes, so
`fuel = length` suffices (`extLoop_fuel`). -/
def extLoop {σ : Type} (step : σ → Nat → Bytes → Option σ) : Nat → Bytes → σ → Option σ
  | _, [], m => some m
  | 0, _ :: _, _ => none
  | fuel + 1, bs, m =>
    match readU16 bs with
    | none => none
    | some (t, r) =>
      match readVec16 r with
      | none => none
      | some (d, r') =>
        match step m t d with
        | none => none
        | some m' => extLoop step fuel r' m'

def seeLoop : Nat → Bytes → ServerEE → Option ServerEE := extLoop seeStep

def seeUnmarshal (data : Bytes) : Option ServerEE :=
  match take? 4 data with
  | none => none
  | some (_, s) =>
    match readVec16 s with
    | none => none
    | some (exts, rest) => if !rest.isEmpty then none else seeLoop exts.length exts {}

/-- one extension `type || uint16 length || body`. -/
def ext (t : Nat) (d : Bytes) : Bytes := u16 t ++ vec16 d

/-- concatenation of encoded extensions. -/
def encExts : List (Nat × Bytes) → Bytes
  | [] => []
  | (t, d) :: xs => ext t d ++ encExts xs

/-- the extensions a server (here: the harness' rewrite hook) emits for `m`; `marshal` of the Go struct
emits the first four groups and ignores the uTLS fields. -/
def seeExts (m : ServerEE) : List (Nat × Bytes) :=
  (if m.alpn.isEmpty then [] else [(extALPN, vec16 (vec8 m.alpn))]) ++
  (m.quicTP.elim [] fun q => [(extQuicTP, q)]) ++
  (if m.earlyData then [(extEarlyData, [])] else []) ++
  (if m.ech.isEmpty then [] else [(extECH, m.ech)]) ++
  (if m.alpsCP = 0 then [] else [(m.alpsCP, m.alps)])

def seeEncode (m : ServerEE) : Bytes := u8 typeEE ++ vec24 (vec16 (encExts (seeExts m)))

def ServerEE.WF (m : ServerEE) : Prop :=
  m.alpn.length < 256 ∧
  (∀ q, m.quicTP = some q → q.length < 16384) ∧
  m.ech.length < 16384 ∧ m.alps.length < 16384 ∧
  (m.alpsCP = 0 ∧ m.alps = [] ∨ m.alpsCP = alpsOld ∨ m.alpsCP = alpsNew)

/-! ## codec 3: `utlsClientEncryptedExtensionsMsg` (server side) -/

structure ClientEE where
  alps : Bytes := []
  alpsCP : Nat := 0
  custom : Bytes := []
  deriving DecidableEq, Repr

def ceeExts (m : ClientEE) : List (Nat × Bytes) :=
  (if m.alpsCP = 0 then [] else [(m.alpsCP, m.alps)]) ++
  (if m.custom.isEmpty then [] else [(fakeCustom, m.custom)])

/-- `marshal`. -/
def ceeMarshal (m : ClientEE) : Bytes := u8 typeEE ++ vec24 (vec16 (encExts (ceeExts m)))

/-- one iteration: "Unknown extensions are illegal in EncryptedExtensions." -/
def ceeStep (m : ClientEE) (t : Nat) (d : Bytes) : Option ClientEE :=
  if t = alpsOld ∨ t = alpsNew then some { m with alpsCP := t, alps := d } else none

def ceeLoop : Nat → Bytes → ClientEE → Option ClientEE := extLoop ceeStep

def ceeUnmarshal (data : Bytes) : Option ClientEE :=
  match take? 4 data with
  | none => none
  | some (_, s) =>
    match readVec16 s with
    | none => none
    | some (exts, rest) => if !rest.isEmpty then none else ceeLoop exts.length exts {}

def ClientEE.WF (m : ClientEE) : Prop :=
  m.custom = [] ∧ m.alps.length < 60000 ∧
  (m.alpsCP = 0 ∧ m.alps = [] ∨ m.alpsCP = alpsOld ∨ m.alpsCP = alpsNew)

/-! ## message-type dispatch: `unmarshalHandshakeMessage` + `utlsHandshakeMessageType` -/

inductive Kind where
  | helloRequest | clientHello | serverHello | newSessionTicket13 | newSessionTicket
  | certificate13 | certificate | certReq13 | certReq | certStatus | serverKeyExchange
  | serverHelloDone | clientKeyExchange | certVerify | finished | endOfEarlyData | keyUpdate
  | compressedCert | serverEE | clientEE
  deriving DecidableEq, Repr

/-- the `switch data[0]` of `unmarshalHandshakeMessage`, its `default:` going through
`utlsHandshakeMessageType` (type 25 for either role, type 8 by role). -/
def kindOf (isClient vers13 : Bool) (t : Nat) : Option Kind :=
  if t = 0 then some .helloRequest
  else if t = 1 then some .clientHello
  else if t = 2 then some .serverHello
  else if t = 4 then some (if vers13 then .newSessionTicket13 else .newSessionTicket)
  else if t = 11 then some (if vers13 then .certificate13 else .certificate)
  else if t = 13 then some (if vers13 then .certReq13 else .certReq)
  else if t = 22 then some .certStatus
  else if t = 12 then some .serverKeyExchange
  else if t = 14 then some .serverHelloDone
  else if t = 16 then some .clientKeyExchange
  else if t = 15 then some .certVerify
  else if t = 20 then some .finished
  else if t = 5 then some .endOfEarlyData
  else if t = 24 then some .keyUpdate
  else if t = typeCompressedCert then some .compressedCert
  else if t = typeEE then some (if isClient then .serverEE else .clientEE)
  else none

def Kind.isUtls : Kind → Bool
  | .compressedCert | .serverEE | .clientEE => true
  | _ => false

/-- Go type name of the message struct (what `%T` prints). -/
def Kind.goName : Kind → String
  | .helloRequest => "*tls.helloRequestMsg" | .clientHello => "*tls.clientHelloMsg"
  | .serverHello => "*tls.serverHelloMsg" | .newSessionTicket13 => "*tls.newSessionTicketMsgTLS13"
  | .newSessionTicket => "*tls.newSessionTicketMsg" | .certificate13 => "*tls.certificateMsgTLS13"
  | .certificate => "*tls.certificateMsg" | .certReq13 => "*tls.certificateRequestMsgTLS13"
  | .certReq => "*tls.certificateRequestMsg" | .certStatus => "*tls.certificateStatusMsg"
  | .serverKeyExchange => "*tls.serverKeyExchangeMsg" | .serverHelloDone => "*tls.serverHelloDoneMsg"
  | .clientKeyExchange => "*tls.clientKeyExchangeMsg" | .certVerify => "*tls.certificateVerifyMsg"
  | .finished => "*tls.finishedMsg" | .endOfEarlyData => "*tls.endOfEarlyDataMsg"
  | .keyUpdate => "*tls.keyUpdateMsg" | .compressedCert => "*tls.utlsCompressedCertificateMsg"
  | .serverEE => "*tls.encryptedExtensionsMsg" | .clientEE => "*tls.utlsClientEncryptedExtensionsMsg"

/-- does the chosen struct's `unmarshal` accept `data`? uTLS codecs: the models above;
inherited parsers: the parameter `inh` (not modelled). -/
def accepts (inh : Kind → Bytes → Bool) (k : Kind) (data : Bytes) : Bool :=
  match k with
  | .compressedCert => (ccUnmarshal data).isSome
  | .serverEE => (seeUnmarshal data).isSome
  | .clientEE => (ceeUnmarshal data).isSome
  | k => inh k data

/-- `unmarshalHandshakeMessage(data)`: `data[0]` is indexed unconditionally. The second component of an
error is the number of alert records written (an unknown type alerts twice: once in
`utlsHandshakeMessageType`, once at its call site). -/
def unmarshalMsg (inh : Kind → Bytes → Bool) (isClient vers13 : Bool) (data : Bytes) : Out Kind × Nat :=
  match idx data 0 with
  | .panic => (.panic, 0)
  | .err e => (.err e, 0)
  | .ok t =>
    match kindOf isClient vers13 t with
    | none => (.err .unexpectedMessage, 2)
    | some k => if accepts inh k data then (.ok k, 0) else (.err .unexpectedMessage, 1)

structure ReadHs where
  res : Out Kind
  alerts : Nat
  /-- bytes left in `c.hand` afterwards. -/
  remaining : Nat
  deriving DecidableEq, Repr

/-- `readHandshake` on a handshake buffer `hand` (what earlier records delivered):
`readHandshakeBytes(4)`, `data[0]`, `data[1..3]`, the size limit (the certificate-message limit for types
11 and — since the repair of D26 — 25, once a version has been negotiated), `readHandshakeBytes(4+n)`,
`c.hand.Next(4+n)`, then `unmarshalHandshakeMessage`. -/
def readHandshake (inh : Kind → Bytes → Bool) (isClient vers13 haveVers : Bool) (hand : Bytes) : ReadHs :=
  if hand.length < 4 then ⟨.err .needMore, 0, hand.length⟩ else
  match idx hand 0, idx hand 1, idx hand 2, idx hand 3 with
  | .ok t, .ok a, .ok b, .ok c =>
    let n := a * 65536 + b * 256 + c
    let limit := if haveVers && (t == typeCertificate || t == typeCompressedCert) then maxHandshakeCert else maxHandshake
    if n > limit then ⟨.err .tooLong, 1, hand.length⟩
    else if hand.length < 4 + n then ⟨.err .needMore, 0, hand.length⟩
    else
      let (r, al) := unmarshalMsg inh isClient vers13 (hand.take (4 + n))
      ⟨r, al, hand.length - (4 + n)⟩
  | _, _, _, _ => ⟨.panic, 0, hand.length⟩

/-! ## HelloRetryRequest: where the echoed cookie extension is inserted -/

inductive CookieRes where
  /-- inserted at this index: `append(exts[:i], append([cookie], exts[i:]...)...)`. -/
  | inserted (i : Nat)
  /-- the code's own `cookieIndex >= len(Extensions)` error return. -/
  | errIndex
  | panic
  /-- the finite stream handed to the model ran out (never happens with the real generator). -/
  | noDraw
  deriving DecidableEq, Repr

/-- `cookieIndex := p.Intn(len-2)`; the guard `cookieIndex >= len`; the two slice expressions.
`len - 2` is an `int` subtraction: it goes negative for `len < 2`, and `prng.Intn(n ≤ 0) = 0`. -/
def cookieInsert (len : Nat) (s : Prng.Stream) : CookieRes :=
  match Prng.intn ((len : Int) - 2) s with
  | none => .noDraw
  | some (i, _) =>
    if i ≥ len then .errIndex
    else if i ≤ len then .inserted i   -- exts[:i] and exts[i:] need i ≤ len
    else .panic

/-- the resulting extension list. -/
def insertAt {α : Type} (xs : List α) (i : Nat) (c : α) : List α := xs.take i ++ c :: xs.drop i

/-! ## `decompressCert`: the buffer requested from the peer-declared length -/

/-- the guard added by the repair of D18, then `rawMsg := make([]byte, m.uncompressedLength+4)`,
`rawMsg[0]..rawMsg[3]` and `rawMsg[4:]`. `ok none`: refused before anything is allocated;
`ok (some n)`: a buffer of `n` bytes was requested; `panic` if one of the index expressions were out of range. -/
def decompressAlloc (m : CompCert) : Out (Option Nat) :=
  if m.ulen > maxHandshakeCert then .ok none else
  let size := m.ulen + 4
  let raw : Bytes := List.replicate size 0
  match idx raw 0, idx raw 1, idx raw 2, idx raw 3, sliceFrom raw 4 with
  | .ok _, .ok _, .ok _, .ok _, .ok _ => .ok (some size)
  | _, _, _, _, _ => .panic

inductive DecompRes where
  | unadvertised | tooLarge | unsupported | decoderErr | lenMismatch | lenExceeds | badCert | ok
  deriving DecidableEq, Repr

/-- `decompressCert` around the decoder (repaired code: D18 guard, D14 `io.ReadFull` + one-byte probe).
`decoded` is the whole stream the decoder yields (`none`: it fails, or the reader cannot be opened);
`certOk` is the inherited `certificateMsgTLS13.unmarshal`. Second component: the buffer size requested, if the
code got that far. -/
def decompress (adv : List Nat) (m : CompCert) (decoded : Option Bytes) (certOk : Bytes → Bool) :
    DecompRes × Option Nat :=
  if !adv.contains m.alg then (.unadvertised, none)
  else if m.ulen > maxHandshakeCert then (.tooLarge, none)
  else if !(m.alg = 1 ∨ m.alg = 2 ∨ m.alg = 3) then (.unsupported, none)
  else
    match decoded with
    | none => (.decoderErr, some (m.ulen + 4))
    | some out =>
      if out.length < m.ulen then (.lenMismatch, some (m.ulen + 4))
      else if out.length > m.ulen then (.lenExceeds, some (m.ulen + 4))
      else if certOk out then (.ok, some (m.ulen + 4))
      else (.badCert, some (m.ulen + 4))

/-- how many decompressed bytes `decompressCert` *requests from the decoder* (the "bytes pulled" counter of
the abstract reader): `io.ReadFull` into the `ulen`-byte buffer pulls `min(ulen, |stream|)`, the one-byte
probe pulls one more if the stream goes on; nothing is pulled when the message is refused beforehand or the
decoder fails to open. A decoder is never drained: what a stream inflates to beyond `ulen + 1` bytes is never
asked for (decompression bombs cost the decoder's own window, not the stream's size). -/
def decompressPulled (adv : List Nat) (m : CompCert) (decoded : Option Bytes) : Nat :=
  if !adv.contains m.alg then 0
  else if m.ulen > maxHandshakeCert then 0
  else if !(m.alg = 1 ∨ m.alg = 2 ∨ m.alg = 3) then 0
  else
    match decoded with
    | none => 0
    | some out => if out.length ≤ m.ulen then out.length else m.ulen + 1

/-! ## PSK branches of `processServerHello` / `processHelloRetryRequest` (TLS 1.3 client)

uTLS lets the caller install PSK identities with no `SessionState` behind them (`FakePreSharedKeyExtension`
through `SetPskExtension`): `len(hello.pskIdentities) > 0` no longer implies `hs.session != nil`, which
crypto/tls takes for granted. Every `hs.session.…` is a nil-dereference site. -/

/-- what the PSK branches look at: the number of identities in the hello that was sent and the session
(`none` = `hs.session == nil`; `suiteKnown` = `cipherSuiteTLS13ByID(session.cipherSuite) != nil`,
`hashMatches` = its hash is the negotiated suite's). -/
structure PskSess where
  suiteKnown : Bool
  hashMatches : Bool
  deriving DecidableEq, Repr

structure PskState where
  nIds : Nat
  session : Option PskSess
  deriving DecidableEq, Repr

inductive PskRes where
  | noPsk                 -- no pre_shared_key selected / none offered: full handshake
  | abort (alert : Nat)   -- 47 illegal_parameter, 80 internal_error
  | resume                -- ServerHello: the PSK is used
  | rebind                -- HRR: binders recomputed for the second hello
  | dropPsk               -- HRR: suite incompatible with the PSK, identities removed
  | panic
  deriving DecidableEq, Repr

/-- `hs.session.cipherSuite`: a nil session is a panic. -/
def derefSession : Option PskSess → Out PskSess
  | some s => .ok s
  | none => .panic

/-- the tail of `processServerHello`. `checkFirst = true` is the code (`len != 1 || session == nil` is tested
before the session is used); `false` is the order a seeded change (C33-4) introduced. -/
def pskServerHelloG (checkFirst : Bool) (st : PskState) (selected : Option Nat) : PskRes :=
  match selected with
  | none => .noPsk
  | some i =>
    if i ≥ st.nIds then .abort 47
    else
      let guard := st.nIds ≠ 1 ∨ st.session.isNone
      if checkFirst && guard then .abort 80
      else match derefSession st.session with
        | .panic => .panic
        | .err _ => .panic
        | .ok s =>
          if guard then .abort 80
          else if !s.suiteKnown then .abort 80
          else if !s.hashMatches then .abort 47
          else .resume

def pskServerHello : PskState → Option Nat → PskRes := pskServerHelloG true

/-- the PSK block of `processHelloRetryRequest`. `guard = true` is the repaired code (D27: `hs.session == nil`
⇒ internal_error); `false` is crypto/tls's text, which uTLS inherited. -/
def pskHelloRetryG (guard : Bool) (st : PskState) : PskRes :=
  if st.nIds = 0 then .noPsk
  else if guard && st.session.isNone then .abort 80
  else match derefSession st.session with
    | .panic => .panic
    | .err _ => .panic
    | .ok s =>
      if !s.suiteKnown then .abort 80
      else if s.hashMatches then .rebind else .dropPsk

def pskHelloRetry : PskState → PskRes := pskHelloRetryG true

/-! ## record-level retry counter and the post-handshake read loop -/

/-- what one record looks like to `readRecordOrCCS` after decryption (decryption itself is inherited). -/
inductive Rec where
  | alertWarn          -- level warning, description ≠ close_notify
  | alertFatal         -- level fatal
  | closeNotify
  | alertBad           -- wrong length or unknown level
  | ccs                -- payload 01
  | ccsBad
  | appEmpty
  | app (n : Nat)      -- n+1 bytes of application data
  | hsEmpty
  | hs (msgs : List Nat)   -- complete handshake messages, by type byte (whole messages per record)
  | other              -- unknown content type
  deriving DecidableEq, Repr

inductive RErr where
  | tooManyIgnored     -- "tls: too many ignored records"
  | tooManyNonAdv      -- "tls: too many non-advancing records"
  | unexpected         -- alert unexpected_message (incl. "received unexpected handshake message")
  | decodeError
  | remoteAlert
  | eof                -- close_notify
  | noRenegotiation
  | renegotiating      -- TLS ≤ 1.2 HelloRequest accepted: a new handshake starts (outside this model)
  | notTLS             -- "first record does not look like a TLS handshake" (before any ServerHello)
  deriving DecidableEq, Repr

structure RState where
  retry : Nat := 0
  vers13 : Bool
  hsComplete : Bool
  expectCCS : Bool := false
  /-- `c.haveVers`: false until the first ServerHello has been processed. -/
  haveVers : Bool := true
  deriving DecidableEq, Repr

inductive RecRes where
  | retry                       -- dropped; `retryReadRecord`
  | gotData (n : Nat)           -- `c.input` set
  | gotHs (msgs : List Nat)     -- `c.hand` grew
  | gotCCS
  | err (e : RErr)
  deriving DecidableEq, Repr

/-- the counter reset `if typ != alert && typ != CCS && len(data) > 0 { c.retryCount = 0 }`. -/
def Rec.resets : Rec → Bool
  | .app _ | .hs _ | .other => true    -- `other`: a non-empty record of unknown type resets, then errors
  | _ => false

def Rec.isAlertOrHs : Rec → Bool
  | .alertWarn | .alertFatal | .closeNotify | .alertBad | .hsEmpty | .hs _ => true
  | _ => false

/-- one pass of `readRecordOrCCS`'s `switch typ` (empty handshake buffer). -/
def classifyTyped (st : RState) : Rec → RecRes
  | .alertBad => .err .unexpected
  | .closeNotify => .err .eof
  | .alertWarn => if st.vers13 then .err .remoteAlert else .retry
  | .alertFatal => .err .remoteAlert
  | .ccsBad => .err .decodeError
  | .ccs =>
    if st.vers13 && !st.hsComplete then .retry
    else if !st.expectCCS then .err .unexpected
    else .gotCCS
  | .appEmpty => if !st.hsComplete || st.expectCCS then .err .unexpected else .retry
  | .app n => if !st.hsComplete || st.expectCCS then .err .unexpected else .gotData (n + 1)
  | .hsEmpty => .err .unexpected
  | .hs msgs => if st.expectCCS then .err .unexpected else .gotHs msgs
  | .other => .err .unexpected

/-- …preceded by the `!c.haveVers` header check: before the first ServerHello only alert and handshake
records are looked at. -/
def classify (st : RState) (r : Rec) : RecRes :=
  if !st.haveVers && !r.isAlertOrHs then .err .notTLS else classifyTyped st r

/-- a record that `readRecordOrCCS` drops and retries on (in state `st`). -/
def useless (st : RState) (r : Rec) : Bool := classify st r == .retry

structure RecOut where
  res : Option RecRes      -- `none`: the record list ran out — the call blocks on the transport
  consumed : Nat
  retry : Nat
  deriving DecidableEq, Repr

/-- `readRecordOrCCS` with its recursion through `retryReadRecord`, over the records the peer sends. -/
def readRecord (st : RState) : List Rec → RecOut
  | [] => ⟨none, 0, st.retry⟩
  | r :: rs =>
    let retry0 := if r.resets then 0 else st.retry
    match classify st r with
    | .retry =>
      let retry1 := retry0 + 1
      if retry1 > maxUseless then ⟨some (.err .tooManyIgnored), 1, retry1⟩
      else
        let o := readRecord { st with retry := retry1 } rs
        ⟨o.res, o.consumed + 1, o.retry⟩
    | res => ⟨some res, 1, retry0⟩

/-- post-handshake message handling: TLS 1.3 `handlePostHandshakeMessage` (count, then ticket / key
update / anything else), TLS ≤ 1.2 `handleRenegotiation` (`reneg`: `Config.Renegotiation` permits it — uTLS
sets that from the spec's renegotiation_info extension). Returns the error or
the retry counter after all messages of the record were handled. -/
def handleMsgs (vers13 : Bool) (reneg : Bool := false) : Nat → List Nat → Except RErr Nat
  | retry, [] => .ok retry
  | retry, t :: ms =>
    if vers13 then
      let retry1 := retry + 1
      if retry1 > maxUseless then .error .tooManyNonAdv
      else if t = 4 ∨ t = 24 then handleMsgs vers13 reneg retry1 ms
      else .error .unexpected
    else
      if t = 0 then (if reneg then .error .renegotiating else .error .noRenegotiation) else .error .unexpected

inductive ReadRes where
  | data (n : Nat)
  | err (e : RErr)
  | blocked            -- nothing more arrives: the call returns when the connection deadline fires
  deriving DecidableEq, Repr

structure ReadOut where
  res : ReadRes
  consumed : Nat
  retry : Nat
  deriving DecidableEq, Repr

/-- the loop of `UConn.Read`: `for c.input.Len() == 0 { readRecord(); for c.hand.Len() > 0 { handlePostHandshakeMessage() } }`.
`fuel` bounds the number of `readRecord` calls (each consumes at least one record). -/
def readLoop (reneg : Bool := false) : Nat → RState → List Rec → ReadOut
  | 0, st, _ => ⟨.blocked, 0, st.retry⟩
  | fuel + 1, st, rs =>
    let o := readRecord st rs
    match o.res with
    | none => ⟨.blocked, o.consumed, o.retry⟩
    | some (.err e) => ⟨.err e, o.consumed, o.retry⟩
    | some (.gotData n) => ⟨.data n, o.consumed, o.retry⟩
    | some (.gotHs msgs) =>
      match handleMsgs st.vers13 reneg o.retry msgs with
      | .error e => ⟨.err e, o.consumed, o.retry⟩
      | .ok retry' =>
        let o2 := readLoop reneg fuel { st with retry := retry' } (rs.drop o.consumed)
        ⟨o2.res, o.consumed + o2.consumed, o2.retry⟩
    | some _ => ⟨.err .unexpected, o.consumed, o.retry⟩   -- gotCCS / retry cannot surface here

def readCall (st : RState) (rs : List Rec) (reneg : Bool := false) : ReadOut := readLoop reneg (rs.length + 1) st rs

/-! ## server side: `parseECHExt` and the slice in `decryptECHPayload` -/

inductive EchExt where
  | inner
  | outer (kdf aead configId : Nat) (encap payload : Bytes)
  deriving DecidableEq, Repr

inductive EchErr where
  | malformed | invalid
  deriving DecidableEq, Repr

/-- `parseECHExt`. -/
def parseECHExt (e : Bytes) : Except EchErr EchExt :=
  match readU8 e with
  | none => .error .malformed
  | some (t, s) =>
    if t = 1 then (if s.isEmpty then .ok .inner else .error .malformed)
    else if t ≠ 0 then .error .invalid
    else
      match readU16 s with
      | none => .error .malformed
      | some (kdf, s) =>
        match readU16 s with
        | none => .error .malformed
        | some (aead, s) =>
          match readU8 s with
          | none => .error .malformed
          | some (cid, s) =>
            match readVec16 s with
            | none => .error .malformed
            | some (encap, s) =>
              match readVec16 s with
              | none => .error .malformed
              | some (payload, _) => .ok (.outer kdf aead cid encap payload)

/-! ### ECH across a HelloRetryRequest: what the first hello records, what the second may do -/

/-- `echServerContext` as far as the second hello looks at it. `hpke = false` is a nil `hpkeContext`. -/
structure EchCtx where
  inner : Bool
  hpke : Bool
  configId : Nat := 0
  kdf : Nat := 0
  aead : Nat := 0
  deriving DecidableEq, Repr

/-- the contexts `processECHClientHello` can produce: an inner-type hello leaves every other field unset
(no HPKE context); an accepted outer hello carries the HPKE context it was opened with. -/
def EchCtx.WF (c : EchCtx) : Prop := c.inner = !c.hpke

instance (c : EchCtx) : Decidable c.WF := by unfold EchCtx.WF; infer_instance

inductive Ech1 where
  | abort (alert : Nat)        -- 50 decode_error, 47 illegal_parameter
  | noCtx                      -- handshake goes on with the outer hello, no ECH state
  | ctx (c : EchCtx)
  deriving DecidableEq, Repr

/-- `readClientHello` + `processECHClientHello` on the first hello. `haveKeys`: the server has ECH keys;
`opens`: some key opens the payload (HPKE, not modelled); `innerOk`: `decodeInnerClientHello` accepts. -/
def echFirstHello (haveKeys opens innerOk : Bool) (ext : Bytes) : Ech1 :=
  if ext.isEmpty then .noCtx else
  match parseECHExt ext with
  | .error .invalid => .abort 47
  | .error .malformed => .abort 50
  | .ok .inner => .ctx { inner := true, hpke := false }
  | .ok (.outer kdf aead cid _ _) =>
    if !haveKeys then .noCtx
    else if !opens then .noCtx
    else if !innerOk then .abort 47
    else .ctx { inner := false, hpke := true, configId := cid, kdf := kdf, aead := aead }

inductive Ech2 where
  | proceed                    -- on to the key-share / illegal-change checks (inherited)
  | abort (alert : Nat)        -- 109 missing_extension, 50 decode_error, 47 illegal_parameter
  | decrypt (payload : Bytes)  -- `decryptECHPayload(hs.echContext.hpkeContext, …)` with a non-nil context
  | panic                      -- `hpkeContext.Open` on a nil context
  deriving DecidableEq, Repr

/-- the ECH block of `doHelloRetryRequest` on the second hello. `bothWays = true` is the code: a switch of
extension type in *either* direction is refused; `false` keeps only `inner` after a non-inner first hello
(the weakening a seeded change made). -/
def echSecondHelloG (bothWays : Bool) (ctx : Option EchCtx) (ext : Bytes) : Ech2 :=
  match ctx with
  | none => .proceed
  | some c =>
    if ext.isEmpty then .abort 109 else
    match parseECHExt ext with
    | .error _ => .abort 50
    | .ok .inner => if !c.inner then .abort 50 else .proceed
    | .ok (.outer kdf aead cid encap payload) =>
      if bothWays && c.inner then .abort 50
      else if kdf ≠ c.kdf ∨ aead ≠ c.aead ∨ cid ≠ c.configId ∨ !encap.isEmpty then .abort 47
      else if c.hpke then .decrypt payload
      else .panic

def echSecondHello : Option EchCtx → Bytes → Ech2 := echSecondHelloG true

/-- `outerAAD := bytes.Replace(hello[4:], payload, zeros, 1)`: the slice `hello[4:]` of the raw
ClientHello message (`outer.original`). -/
def echAadSlice (helloOriginal : Bytes) : Out Bytes := sliceFrom helloOriginal 4

end HostileMsg
