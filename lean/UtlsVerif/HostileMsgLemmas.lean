import UtlsVerif.HostileMsg
/-! Helper lemmas for the C33 / C34 theorems (shared by both `Props` files). -/
namespace HostileMsg
open Wire

theorem take4 (a b c d : UInt8) (r : Bytes) : take? 4 (a :: b :: c :: d :: r) = some ([a, b, c, d], r) := by
  simp [take?]

theorem readU16_ext (t : Nat) (d r : Bytes) : readU16 (ext t d ++ r) = some (t % 65536, vec16 d ++ r) := by
  unfold ext; rw [List.append_assoc]; exact readU16_u16 t _

/-- reading one encoded extension off the front. -/
theorem read_ext (t : Nat) (d r : Bytes) (ht : t < 65536) (hd : d.length < 65536) :
    readU16 (ext t d ++ r) = some (t, vec16 d ++ r) ∧ readVec16 (vec16 d ++ r) = some (d, r) := by
  constructor
  · rw [readU16_ext, Nat.mod_eq_of_lt ht]
  · exact readVec16_vec16 d r hd

@[simp] theorem ext_length (t : Nat) (d : Bytes) : (ext t d).length = 4 + d.length := by
  simp [ext]; omega

/-- `idx` never panics below the length. -/
theorem idx_ok (bs : Bytes) (i : Nat) (h : i < bs.length) : ∃ v, idx bs i = .ok v := by
  unfold idx
  rw [List.getElem?_eq_getElem h]
  exact ⟨_, rfl⟩

theorem idx_panic (bs : Bytes) (i : Nat) (h : bs.length ≤ i) : idx bs i = .panic := by
  unfold idx
  rw [List.getElem?_eq_none h]

/-- fuel beyond the byte count does not change the extension loop. -/
theorem extLoop_fuel {σ : Type} (step : σ → Nat → Bytes → Option σ) (bs : Bytes) :
    ∀ (fuel : Nat) (m : σ), bs.length ≤ fuel → extLoop step fuel bs m = extLoop step bs.length bs m := by
  induction h : bs.length using Nat.strongRecOn generalizing bs with
  | _ n ih =>
    intro fuel m hf
    match bs, fuel with
    | [], fuel => cases fuel <;> simp [extLoop]
    | x :: xs, 0 => simp at h; omega
    | x :: xs, fuel + 1 =>
      subst h
      simp only [List.length_cons]
      unfold extLoop
      cases h1 : readU16 (x :: xs) with
      | none => rfl
      | some p =>
        obtain ⟨t, r⟩ := p
        simp only
        cases h2 : readVec16 r with
        | none => rfl
        | some q =>
          obtain ⟨d, r'⟩ := q
          simp only
          cases h3 : step m t d with
          | none => rfl
          | some m' =>
            simp only
            have hr : r.length + 2 = (x :: xs).length := by
              cases xs with
              | nil => simp [readU16] at h1
              | cons y ys => simp [readU16] at h1; obtain ⟨_, rfl⟩ := h1; simp
            have hr' : r'.length ≤ r.length := by
              unfold readVec16 at h2
              cases h4 : readU16 r with
              | none => simp [h4] at h2
              | some p2 =>
                obtain ⟨n, r2⟩ := p2
                simp [h4, take?] at h2
                obtain ⟨_, _, rfl⟩ := h2
                cases r with
                | nil => simp [readU16] at h4
                | cons a as =>
                  cases as with
                  | nil => simp [readU16] at h4
                  | cons b bs => simp [readU16] at h4; obtain ⟨_, rfl⟩ := h4; simp; omega
            simp only [List.length_cons] at hr hf
            have e1 := ih r'.length (by simp only [List.length_cons]; omega) r' rfl fuel m' (by omega)
            have e2 := ih r'.length (by simp only [List.length_cons]; omega) r' rfl xs.length m' (by omega)
            rw [e1, e2]

/-- fold of a step function over decoded extensions. -/
def extFold {σ : Type} (step : σ → Nat → Bytes → Option σ) : List (Nat × Bytes) → σ → Option σ
  | [], m => some m
  | (t, d) :: xs, m => match step m t d with | none => none | some m' => extFold step xs m'

/-- the loop over an encoded extension list is the fold over the list. -/
theorem extLoop_enc {σ : Type} (step : σ → Nat → Bytes → Option σ) (xs : List (Nat × Bytes))
    (h : ∀ p ∈ xs, p.1 < 65536 ∧ p.2.length < 65536) (m : σ) :
    extLoop step (encExts xs).length (encExts xs) m = extFold step xs m := by
  induction xs generalizing m with
  | nil => simp [encExts, extLoop, extFold]
  | cons p xs ih =>
    obtain ⟨t, d⟩ := p
    have hp := h (t, d) (by simp)
    obtain ⟨e1, e2⟩ := read_ext t d (encExts xs) hp.1 hp.2
    have hlen : (encExts ((t, d) :: xs)).length = (3 + d.length + (encExts xs).length) + 1 := by
      simp [encExts]; omega
    rw [hlen]
    have hne : encExts ((t, d) :: xs) = b (t / 256) :: (b t :: (vec16 d ++ encExts xs)) := by
      simp [encExts, ext, u16]
    unfold extLoop
    rw [hne]
    simp only
    have e1' : readU16 (b (t / 256) :: b t :: (vec16 d ++ encExts xs)) = some (t, vec16 d ++ encExts xs) := by
      rw [← e1]; simp [ext, u16]
    rw [e1']
    simp only [e2, extFold]
    cases step m t d with
    | none => rfl
    | some m' =>
      simp only
      rw [extLoop_fuel _ _ _ _ (by omega)]
      exact ih (fun p hp => h p (by simp [hp])) m'

theorem extFold_append {σ : Type} (step : σ → Nat → Bytes → Option σ) (xs ys : List (Nat × Bytes)) (m : σ) :
    extFold step (xs ++ ys) m = (extFold step xs m).bind (extFold step ys) := by
  induction xs generalizing m with
  | nil => simp [extFold]
  | cons p xs ih =>
    obtain ⟨t, d⟩ := p
    simp only [List.cons_append, extFold]
    cases step m t d with
    | none => simp
    | some m' => simp [ih]


/-- `unmarshalHandshakeMessage` on a non-empty message: fully characterised, never a panic. -/
theorem unmarshalMsg_cons (inh : Kind → Bytes → Bool) (isClient vers13 : Bool) (t : UInt8) (body : Bytes) :
    unmarshalMsg inh isClient vers13 (t :: body) =
      match kindOf isClient vers13 t.toNat with
      | none => (.err .unexpectedMessage, 2)
      | some k => if accepts inh k (t :: body) then (.ok k, 0) else (.err .unexpectedMessage, 1) := by
  simp [unmarshalMsg, idx]
  rfl

theorem unmarshalMsg_nil (inh : Kind → Bytes → Bool) (isClient vers13 : Bool) :
    unmarshalMsg inh isClient vers13 [] = (.panic, 0) := by
  simp [unmarshalMsg, idx]

theorem unmarshalMsg_no_panic (inh : Kind → Bytes → Bool) (isClient vers13 : Bool) (data : Bytes)
    (h : 1 ≤ data.length) : (unmarshalMsg inh isClient vers13 data).1 ≠ .panic := by
  cases data with
  | nil => simp at h
  | cons t body =>
    rw [unmarshalMsg_cons]
    cases kindOf isClient vers13 t.toNat with
    | none => simp
    | some k => simp only; split <;> simp

/-- `readHandshake` never panics, for either role, whatever the handshake buffer holds. -/
theorem readHandshake_no_panic (inh : Kind → Bytes → Bool) (isClient vers13 haveVers : Bool) (hand : Bytes) :
    (readHandshake inh isClient vers13 haveVers hand).res ≠ .panic := by
  unfold readHandshake
  by_cases h4 : hand.length < 4
  · simp [h4]
  · simp only [h4, if_false]
    obtain ⟨t, ht⟩ := idx_ok hand 0 (by omega)
    obtain ⟨a, ha⟩ := idx_ok hand 1 (by omega)
    obtain ⟨b', hb⟩ := idx_ok hand 2 (by omega)
    obtain ⟨c, hc⟩ := idx_ok hand 3 (by omega)
    simp only [ht, ha, hb, hc]
    generalize (if (haveVers && (t == typeCertificate || t == typeCompressedCert)) = true then maxHandshakeCert else maxHandshake) = limit
    by_cases h1 : a * 65536 + b' * 256 + c > limit
    · simp [h1]
    · simp only [h1, if_false]
      by_cases h2 : hand.length < 4 + (a * 65536 + b' * 256 + c)
      · simp [h2]
      · simp only [h2, if_false]
        exact unmarshalMsg_no_panic inh isClient vers13 (hand.take (4 + (a * 65536 + b' * 256 + c)))
          (by simp; omega)

theorem decompressAlloc_eq (m : CompCert) :
    decompressAlloc m = if m.ulen > maxHandshakeCert then .ok none else .ok (some (m.ulen + 4)) := by
  unfold decompressAlloc
  by_cases h : m.ulen > maxHandshakeCert
  · simp [h]
  · simp only [h, if_false]
    obtain ⟨v0, h0⟩ := idx_ok (List.replicate (m.ulen + 4) 0) 0 (by simp)
    obtain ⟨v1, h1⟩ := idx_ok (List.replicate (m.ulen + 4) 0) 1 (by simp)
    obtain ⟨v2, h2⟩ := idx_ok (List.replicate (m.ulen + 4) 0) 2 (by simp)
    obtain ⟨v3, h3⟩ := idx_ok (List.replicate (m.ulen + 4) 0) 3 (by simp)
    simp [h0, h1, h2, h3, sliceFrom]

theorem insertAt_length {α : Type} (xs : List α) (i : Nat) (c : α) : (insertAt xs i c).length = xs.length + 1 := by
  simp [insertAt]; omega

theorem insertAt_drop {α : Type} (xs : List α) (i : Nat) (c : α) (h : i ≤ xs.length) :
    (insertAt xs i c).drop (i + 1) = xs.drop i := by
  unfold insertAt
  have hl : (xs.take i).length = i := by simp; omega
  have : (xs.take i ++ c :: xs.drop i) = (xs.take i ++ [c]) ++ xs.drop i := by simp
  rw [this, List.drop_left' (by simp [hl])]

end HostileMsg
