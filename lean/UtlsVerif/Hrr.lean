import UtlsVerif.Wire
import UtlsVerif.Ext
import UtlsVerif.Prng
import UtlsVerif.ChSplit
/-!
# Hrr — the client's reaction to a HelloRetryRequest (`processHelloRetryRequest`, uTLS path)

Transcription of /repo/handshake_client_tls13.go:
* `checkServerHelloOrHRR` (the validity checks shared by ServerHello and HelloRetryRequest),
* `processHelloRetryRequest` from the "unnecessary HelloRetryRequest" check through the
  `[uTLS SECTION]`: key_share replaced **inside every `KeyShareExtension`**, the cookie set on every
  existing `CookieExtension` or one inserted at index `prng.Intn(len(Extensions)-2)`,
* `MarshalClientHelloNoECH` (/repo/u_conn.go): padding `Update`d by its policy, every extension
  `Read` into the exactly-sized rest of the buffer, final length check.

What is *not* transcribed and only named as an outcome: the `crypto/tls` binder re-computation for a
PSK in use (the uTLS section then refuses, D11) and the real-ECH branch (`hs.echContext != nil`, D10);
the standard-library marshaller used for `HelloGolang`.
The fresh key share (`generateECDHEKey`) is an input (`fresh`): elliptic-curve arithmetic is not modelled.
-/
namespace Hrr
open Wire Ext Ext.Ext ChSplit

/-! ## MarshalClientHelloNoECH -/

/-- `GetPaddingLen` of the padding extension: `none` = nil (keep `PaddingLen`/`WillPad`). -/
abbrev Policy := Option (Nat → Nat × Bool)

/-- `BoringPaddingStyle`. -/
def boringPadding (unpadded : Nat) : Nat × Bool :=
  if 0xff < unpadded ∧ unpadded < 0x200 then
    let p := 0x200 - unpadded
    (if p ≥ 5 then p - 4 else 1, true)
  else (0, false)

def isPadding : Ext → Bool
  | padding _ _ => true
  | _ => false

def isKeyShare : Ext → Bool
  | keyShare _ => true
  | _ => false

def isCookie : Ext → Bool
  | cookie _ => true
  | _ => false

def isPsk : Ext → Bool
  | psk .. => true
  | _ => false

/-- `UtlsPaddingExtension.Update`. -/
def updatePadding (pol : Policy) (unpadded : Nat) : Ext → Ext
  | padding n w =>
    match pol with
    | none => padding n w
    | some f => padding (f unpadded).1 (f unpadded).2
  | e => e

def sumLen (exts : List Ext) : Nat := (exts.map Ext.len).sum

/-- `headerLength`. -/
def headerLen (f : Fixed) : Nat := 2 + 32 + 1 + f.sid.length + 2 + f.suites.length * 2 + 1 + f.comp.length

inductive MErr where
  | multiPadding            -- "multiple padding extensions"
  | short                   -- io.ErrShortBuffer out of an extension's Read
  | ext (cls : String)      -- any other error of an extension's Read
  | length                  -- "utls: unexpected ClientHello length"
  | tooLong                 -- "utls: extensions too long to be encoded in ClientHello" / "utls: ClientHello too long to be encoded"
  deriving DecidableEq, Repr

/-- the loop `bufferedWriter.ReadFrom(ext)`: each `Read` gets the unused rest of a buffer of `total`
bytes (a full, flushed buffer when nothing is left). -/
def readAll (total : Nat) : List Ext → Nat → Except MErr Bytes
  | [], _ => .ok []
  | e :: es, written =>
    let avail := if total ≤ written then total else total - written
    match Ext.read e avail with
    | .ok bs => (readAll total es (written + bs.length)).map (bs ++ ·)
    | .eof0 => readAll total es written
    | .short => .error .short
    | .err c => .error (.ext c)

/-- the fixed part of the message body. -/
def fixedBytes (f : Fixed) : Bytes :=
  u16 f.vers ++ f.random ++ u8 f.sid.length ++ f.sid ++ u16 (f.suites.length * 2) ++ encU16s f.suites ++
  u8 f.comp.length ++ f.comp

/-- the unpadded length `paddingExt.Update` is given: `headerLength + 4 + extensionsLen + 2` over the
non-padding extensions. -/
def unpaddedLen (f : Fixed) (exts : List Ext) : Nat := headerLen f + 4 + sumLen (exts.filter (!isPadding ·)) + 2

/-- `helloLen`. -/
def helloLenOf (f : Fixed) (exts : List Ext) : Nat := headerLen f + (if exts.isEmpty then 0 else 2 + sumLen exts)

/-- everything written before the extensions block. -/
def headOf (f : Fixed) (exts : List Ext) : Bytes := [(1 : UInt8)] ++ u24 (helloLenOf f exts) ++ fixedBytes f

/-- the extensions block (absent when `len(uconn.Extensions) == 0`). -/
def marshalBody (total start : Nat) (exts : List Ext) : Except MErr Bytes :=
  if exts.isEmpty then .ok [] else (readAll total exts start).map (u16 (sumLen exts) ++ ·)

/-- the length fields of the extensions block (uint16) and of the handshake message (uint24) can hold
the hello: what `MarshalClientHelloNoECH` checks before writing. -/
def fits (f : Fixed) (exts : List Ext) : Bool := sumLen exts ≤ 0xffff && helloLenOf f exts ≤ 0xffffff

/-- the writing half of `MarshalClientHelloNoECH`, after the padding extension was updated: the two
length-field checks, the header, the `ReadFrom` loop, the final length check. -/
def marshalWrite (f : Fixed) (exts : List Ext) : Except MErr Bytes :=
  match marshalBody (helloLenOf f exts + 4) ((headOf f exts).length + 2) exts with
  | .error e => .error e
  | .ok tail =>
    if (headOf f exts ++ tail).length ≠ 4 + helloLenOf f exts then .error .length else .ok (headOf f exts ++ tail)

def marshalCore (f : Fixed) (exts : List Ext) : Except MErr Bytes :=
  if fits f exts then marshalWrite f exts else .error .tooLong

/-- `MarshalClientHelloNoECH`: the extension list afterwards (padding updated) and `Hello.Raw`. -/
def marshal (pol : Policy) (f : Fixed) (exts : List Ext) : Except MErr (List Ext × Bytes) :=
  if (exts.filter isPadding).length > 1 then .error .multiPadding else
  let exts' := exts.map (updatePadding pol (unpaddedLen f exts))
  (marshalCore f exts').map fun raw => (exts', raw)

/-! ## checkServerHelloOrHRR -/

/-- the fields of a ServerHello / HelloRetryRequest the client's checks read. -/
structure SH where
  vers : Nat            -- legacy_version
  sv : Nat              -- supported_versions (0 = absent)
  suite : Nat
  sid : Bytes
  comp : Nat
  group : Nat           -- key_share in HelloRetryRequest form: selected_group (0 = absent)
  share : Nat           -- key_share in ServerHello form: group of the server share (0 = absent)
  cookie : Option Bytes
  forbidden : Bool      -- status_request / session_ticket / EMS / renegotiation_info / ALPN / SCT present
  ech : Bool            -- encrypted_client_hello present
  deriving DecidableEq, Repr

/-- error returns of the uTLS section that send no alert. -/
inductive Fail where
  | pskHrr            -- "uTLS does not support reprocessing of PSK key triggered by HelloRetryRequest"
  | noKeyShareExt     -- "uTLS: received HelloRetryRequest, but keyshare not found among client's uconn.Extensions"
  | cookieIndex       -- "cookieIndex >= len(hs.uconn.Extensions)"
  | marshal (e : MErr)
  deriving DecidableEq, Repr

inductive Outcome where
  /-- `c.sendAlert(alert)` and an error of the given class. -/
  | abort (alert : Nat) (cls : String)
  /-- an error return without an alert. -/
  | fail (r : Fail)
  /-- a path this model does not transcribe (real ECH). -/
  | notModelled (why : String)
  /-- a Go run-time panic (slice bounds out of range). -/
  | panic
  /-- the second ClientHello is sent: `uconn.Extensions` afterwards and the bytes of the message. -/
  | sent (exts : List Ext) (raw : Bytes)
  deriving DecidableEq, Repr

def alertUnexpectedMessage := 10
def alertIllegalParameter := 47
def alertProtocolVersion := 70
def alertDecodeError := 50
def alertInternalError := 80
def alertMissingExtension := 109
def alertUnsupportedExtension := 110

/-- `mutualCipherSuiteTLS13(have, want)`: `want` offered and one of the three implemented suites. -/
def mutual13 (offered : List Nat) (want : Nat) : Option Nat :=
  if offered.contains want ∧ (want = 0x1301 ∨ want = 0x1302 ∨ want = 0x1303) then some want else none

/-- `checkServerHelloOrHRR`; `prev` = `hs.suite` (set by an earlier HelloRetryRequest). `none` = passed. -/
def checkSH (f : Fixed) (prev : Option Nat) (h : SH) : Option Outcome :=
  if h.sv = 0 then some (.abort alertMissingExtension "legacy-version-field")
  else if h.sv ≠ 0x0304 then some (.abort alertIllegalParameter "invalid-version")
  else if h.vers ≠ 0x0303 then some (.abort alertIllegalParameter "legacy-version")
  else if h.forbidden then some (.abort alertUnsupportedExtension "forbidden-ext")
  else if f.sid ≠ h.sid then some (.abort alertIllegalParameter "session-id")
  else if h.comp ≠ 0 then some (.abort alertIllegalParameter "compression")
  else if prev.isSome ∧ mutual13 f.suites h.suite ≠ prev then some (.abort alertIllegalParameter "suite-changed")
  else if mutual13 f.suites h.suite = none then some (.abort alertIllegalParameter "suite-unconfigured")
  else none

/-! ## processHelloRetryRequest -/

/-- the client as `processHelloRetryRequest` sees it. -/
structure Client where
  fixed : Fixed
  exts : List Ext            -- uconn.Extensions
  /-- `hello.supportedCurves` as `makeClientHello` pre-fills it (`config.curvePreferences`); it stays
  when the spec has no `SupportedCurvesExtension` (such a hello advertises no groups on the wire). -/
  defaultCurves : List Nat
  pol : Policy
  pskInUse : Bool            -- len(hs.hello.pskIdentities) > 0
  realECH : Bool             -- hs.echContext != nil

def curvesOf? : Ext → Option (List Nat)
  | supportedCurves c => some c
  | _ => none

def sharesOf? : Ext → Option (List (Nat × Bytes))
  | keyShare s => some s
  | _ => none

/-- `hello.supportedCurves`: written by the last `SupportedCurvesExtension` (`ApplyConfig` order). -/
def curvesOf (dflt : List Nat) (exts : List Ext) : List Nat := ((exts.filterMap curvesOf?).getLast?).getD dflt

/-- `hs.hello.keyShares`: written by the last `KeyShareExtension`. -/
def sharesOf (exts : List Ext) : List (Nat × Bytes) := ((exts.filterMap sharesOf?).getLast?).getD []

/-- `curveForCurveID`: the groups `generateECDHEKey` can serve. -/
def classical (g : Nat) : Bool := g == 29 || g == 23 || g == 24 || g == 25

def setKeyShares (s : List (Nat × Bytes)) : Ext → Ext
  | keyShare _ => keyShare s
  | e => e

def setCookie (c : Bytes) : Ext → Ext
  | cookie _ => cookie c
  | e => e

/-- `append(exts[:i], append([c], exts[i:]...)...)` for `i ≤ len(exts)`. -/
def insertAt (i : Nat) (c : Ext) (exts : List Ext) : List Ext := exts.take i ++ c :: exts.drop i

/-- the same with Go's bounds check: `exts[:i]` / `exts[i:]` panic when `i > len(exts)`
(the capacity may be larger; the length is the bound the code can rely on). -/
def insertAtGo (i : Nat) (c : Ext) (exts : List Ext) : Res (List Ext) :=
  if i ≤ exts.length then .ok (insertAt i c exts) else .panic

/-- extensions that `processHelloRetryRequest` must leave alone. -/
def other (e : Ext) : Bool := !(isKeyShare e || isCookie e || isPadding e)

/-- the key shares `hello.keyShares` holds after the group checks, or the abort. -/
def newShares (c : Client) (h : SH) (fresh : Bytes) : Except Outcome (List (Nat × Bytes)) :=
  if h.group = 0 then .ok (sharesOf c.exts)
  else if ¬ (curvesOf c.defaultCurves c.exts).contains h.group then .error (.abort alertIllegalParameter "unsupported-group")
  else if (sharesOf c.exts).any (·.1 == h.group) then .error (.abort alertIllegalParameter "unnecessary-keyshare")
  else if ¬ classical h.group then .error (.abort alertInternalError "unsupported-curve")
  else .ok [(h.group, fresh)]

/-- the cookie half of the `[uTLS SECTION]`: overwrite every existing `CookieExtension`, or insert one
at `idx` (`idx` is only read in that case). -/
def cookieStep (exts1 : List Ext) (ck : Option Bytes) (idx : Nat) : Except Outcome (List Ext) :=
  match ck with
  | none => .ok exts1
  | some ck =>
    if ck.isEmpty then .ok exts1
    else if exts1.any isCookie then .ok (exts1.map (setCookie ck))
    else if idx ≥ exts1.length then .error (.fail .cookieIndex)
    else match insertAtGo idx (cookie ck) exts1 with
      | .ok l => .ok l
      | .panic => .error .panic

/-- the `[uTLS SECTION]` given the cookie index the prng produced. -/
def utlsSection (c : Client) (h : SH) (shares : List (Nat × Bytes)) (idx : Nat) : Outcome :=
  if c.pskInUse then .fail .pskHrr else
  if ¬ c.exts.any isKeyShare then .fail .noKeyShareExt else
  match cookieStep (c.exts.map (setKeyShares shares)) h.cookie idx with
  | .error o => o
  | .ok exts2 =>
    match marshal c.pol c.fixed exts2 with
    | .error e => .fail (.marshal e)
    | .ok (exts3, raw) => .sent exts3 raw

def versionsOf? : Ext → Option (List Nat)
  | supportedVersions v => some v
  | _ => none

/-- `versionWasAdvertised(hello, VersionTLS13)` (/repo/u_handshake_client.go, right after
`pickTLSVersion`): TLS 1.3 is listed by the first `SupportedVersionsExtension` of `uconn.Extensions`,
or — without such an extension — `legacy_version` is at least TLS 1.3. -/
def versionAdvertised (c : Client) : Bool :=
  match c.exts.filterMap versionsOf? with
  | vs :: _ => vs.contains 0x0304
  | [] => decide (0x0304 ≤ c.fixed.vers)

/-- what the client does with a TLS 1.3 HelloRetryRequest, for a given cookie index: the
version-advertised check of `clientHandshake`, `checkServerHelloOrHRR`, `processHelloRetryRequest`. -/
def hrrStepAt (c : Client) (h : SH) (fresh : Bytes) (idx : Nat) : Outcome :=
  if ¬ versionAdvertised c then .abort alertProtocolVersion "version-not-advertised" else
  match checkSH c.fixed none h with
  | some o => o
  | none =>
    if c.realECH then .notModelled "real-ech" else
    if h.ech then .abort alertUnsupportedExtension "unexpected-ech" else
    if h.group = 0 ∧ h.cookie = none then .abort alertIllegalParameter "unnecessary-hrr" else
    if h.share ≠ 0 then .abort alertDecodeError "malformed-keyshare" else
    match newShares c h fresh with
    | .error o => o
    | .ok shares => utlsSection c h shares idx

/-- the index `p.Intn(len(hs.uconn.Extensions) - 2)` of a fresh prng with stream `s`. -/
def cookieIndex (n : Nat) (s : Prng.Stream) : Option Nat := (Prng.intn ((n : Int) - 2) s).map (·.1)

/-- `processHelloRetryRequest` with the prng stream as the source of the cookie index. -/
def hrrStep (c : Client) (h : SH) (fresh : Bytes) (s : Prng.Stream) : Option Outcome :=
  (cookieIndex c.exts.length s).map (hrrStepAt c h fresh)

/-- whether a cookie extension is inserted (the only case that draws from the prng). -/
def insertsCookie (c : Client) (h : SH) : Bool :=
  match h.cookie with
  | none => false
  | some ck => !ck.isEmpty && !c.exts.any isCookie

/-- what the client does with the message that answers its second ClientHello, up to the point where
the key schedule starts: `checkServerHelloOrHRR` again (now with `hs.suite` set by the retry request),
then `processServerHello`'s "server sent two HelloRetryRequest messages". `none` = the handshake goes on. -/
def secondServerHello (f : Fixed) (hrrSuite : Nat) (sh2 : SH) (isHRR : Bool) : Option Outcome :=
  match checkSH f (mutual13 f.suites hrrSuite) sh2 with
  | some o => some o
  | none => if isHRR then some (.abort alertUnexpectedMessage "two-hrr") else none

/-! ## which private key the key exchange uses after the retry -/

/-- `keySharePrivateKeys` as far as the classical groups go: `curveID`/`ecdhe` (the single classical
key) and the per-group map `ecdheKeys` that `ApplyPreset` fills and deliberately keeps across calls
(`UConn.HandshakeState.State13.KeyShareKeys` shares it). A private key is identified with the public
share it backs. -/
structure KeySet where
  curveID : Nat
  ecdhe : Option Bytes
  ecdheKeys : List (Nat × Bytes)
  deriving DecidableEq, Repr

/-- `(*keySharePrivateKeys).ecdheKeyFor(group)` for a classical group: the map entry if there is one,
otherwise `ecdhe`; `nil` for a nil set. -/
def ecdheKeyFor (ks : Option KeySet) (g : Nat) : Option Bytes :=
  match ks with
  | none => none
  | some k =>
    match k.ecdheKeys.lookup g with
    | some key => some key
    | none => k.ecdhe

/-- `hs.keyShareKeys = &keySharePrivateKeys{curveID: curveID, ecdhe: key}` — a **new** set replaces
whatever was there (nothing happens when the HelloRetryRequest selects no group). -/
def keysAfterHRR (old : Option KeySet) (h : SH) (fresh : Bytes) : Option KeySet :=
  if h.group = 0 then old else some ⟨h.group, some fresh, []⟩

/-! ## vocabulary of the property statements -/

/-- the cookie the uTLS section echoes (`len(hs.serverHello.cookie) > 0`). -/
def effCookie (h : SH) : Option Bytes :=
  match h.cookie with
  | some ck => if ck.isEmpty then none else some ck
  | none => none

/-- `hello.keyShares` after the group checks passed. -/
def sharesAfter (c : Client) (h : SH) (fresh : Bytes) : List (Nat × Bytes) :=
  if h.group = 0 then sharesOf c.exts else [(h.group, fresh)]

/-- what becomes of the extension in one slot of `uconn.Extensions`: key_share replaced, cookie
overwritten (if the server sent one), padding recomputed for the unpadded length `unp`; anything else
is returned unchanged (`slot_other`). -/
def slot (shares : List (Nat × Bytes)) (ck : Option Bytes) (pol : Policy) (unp : Nat) (e : Ext) : Ext :=
  updatePadding pol unp
    (match ck with
     | some c => setCookie c (setKeyShares shares e)
     | none => setKeyShares shares e)

/-- the HelloRetryRequests the property quantifies over, as a decidable predicate on the model's
inputs: the common checks pass, no ECH extension, key_share (if any) in HelloRetryRequest form and
selecting a group that is listed, not yet shared and one `generateECDHEKey` serves; TLS 1.3 was
advertised on the wire; something changes
(group or cookie); the client offers a key_share extension, has no PSK in use and no real ECH. -/
def validHRR (c : Client) (h : SH) : Bool :=
  versionAdvertised c && (checkSH c.fixed none h).isNone && !h.ech && h.share == 0 &&
  (h.group == 0 ||
    ((curvesOf c.defaultCurves c.exts).contains h.group && !(sharesOf c.exts).any (·.1 == h.group) && classical h.group)) &&
  (h.group != 0 || h.cookie.isSome) &&
  !c.pskInUse && !c.realECH && c.exts.any isKeyShare

/-! ## wire view of an extension list (what the splitter sees) -/

/-- `(type, body)` of the extensions that emit bytes, in order. -/
def wireExts : List Ext → List (Nat × Bytes)
  | [] => []
  | e :: es =>
    match Ext.read e (Ext.need e) with
    | .ok bs => (Ext.typeId e % 65536, bs.drop 4) :: wireExts es
    | _ => wireExts es

/-- the types whose body a HelloRetryRequest may change: key_share, cookie, padding. -/
def changeable : List Nat := [51, 44, 21]

/-- field values within wire limits (no length field truncates): what every recorded hello satisfies
(the driver evaluates it on each case). -/
def wireWF (f : Fixed) (exts : List Ext) : Bool :=
  f.vers < 65536 && f.sid.length < 256 && f.suites.length * 2 < 65536 && f.suites.all (· < 65536) &&
  f.comp.length < 256 && helloLenOf f exts < 16777216 && sumLen exts < 65536 &&
  exts.all fun e => Ext.lenField e < 65536

end Hrr
