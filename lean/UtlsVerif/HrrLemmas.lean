import UtlsVerif.Hrr
import UtlsVerif.Props.C08
/-! Helper lemmas for the C17 / C16 property theorems: `Read` classes, the `ReadFrom` loop,
`MarshalClientHelloNoECH`, list surgery of the uTLS section. -/
namespace Hrr
open Wire Ext Ext.Ext ChSplit

/-- an extension whose `Read` never reports an error once the buffer is large enough. -/
def readable (e : Ext) : Bool :=
  match early e with
  | some .eof0 => true
  | some _ => false
  | none => (late e).isNone

theorem readable_of_ok {e : Ext} {n : Nat} {bs : Bytes} (h : Ext.read e n = .ok bs) : readable e = true := by
  unfold Ext.read at h
  unfold readable
  cases he : early e with
  | some r => rw [he] at h; simp only at h; exact absurd h (C08.early_not_ok e r he bs)
  | none =>
    rw [he] at h; simp only at h
    split at h
    · cases h
    · cases hl : late e with
      | some r => rw [hl] at h; simp only at h; exact absurd h (C08.late_not_ok e r hl bs)
      | none => rfl

theorem readable_of_eof0 {e : Ext} {n : Nat} (h : Ext.read e n = .eof0) : readable e = true := by
  unfold Ext.read at h
  unfold readable
  cases he : early e with
  | some r => rw [he] at h; simp only at h; subst h; rfl
  | none =>
    rw [he] at h; simp only at h
    split at h
    · cases h
    · cases hl : late e with
      | some r =>
        rw [hl] at h; simp only at h; subst h
        cases e <;> simp only [late] at hl
        case compressCert a => split at hl <;> cases hl
        case pskModes a => split at hl <;> cases hl
        case supportedVersions a => split at hl <;> cases hl
        all_goals cases hl
      | none => rw [hl] at h; cases h

/-- an extension that bails out with `(0, io.EOF)` reserves no room: `Len() = 0`. -/
theorem early_eof0_len {e : Ext} (h : early e = some .eof0) : len e = 0 := by
  cases e <;> simp only [early] at h <;> try (cases h; done)
  case sni name =>
    split at h
    · rename_i h0; simp [len, h0]
    · cases h
  case padding n w =>
    split at h
    · cases h
    · rename_i hw; simp [len, hw]
  case psk fake om sess ids binders =>
    simp only [len]
    unfold pskEarly at h
    by_cases c1 : om = false ∧ (if fake = true ∨ sess = true then pskExtLen ids binders else 0) = 0
    · rw [if_pos c1] at h; cases h
    · rw [if_neg c1] at h
      by_cases c0 : fake = false ∧ sess = false
      · simp [c0.1, c0.2]
      · rw [if_neg c0] at h
        by_cases c2 : fake = true ∧ (binders.all fun x => validBinderLen x.length) = false
        · rw [if_pos c2] at h; cases h
        · rw [if_neg c2] at h
          by_cases c3 : pskExtLen ids binders = 0
          · simp [c3]
          · rw [if_neg c3] at h; cases h

/-- what `Read` does on a readable extension. -/
theorem read_readable {e : Ext} (h : readable e = true) (n : Nat) :
    (Ext.read e n = .eof0 ∧ len e = 0) ∨
    (4 ≤ len e ∧ (len e ≤ n → ∃ bs, Ext.read e n = .ok bs ∧ bs.length = len e)) := by
  unfold readable at h
  cases he : early e with
  | some r =>
    rw [he] at h
    cases r <;> simp at h
    left
    exact ⟨by unfold Ext.read; rw [he], early_eof0_len he⟩
  | none =>
    rw [he] at h
    right
    have hl : late e = none := by cases hl : late e <;> simp_all
    refine ⟨by rw [C08.len_eq e he]; omega, ?_⟩
    intro hn
    have : Ext.read e n = .ok (u16 (typeId e) ++ u16 (lenField e) ++ body e) := by
      unfold Ext.read
      rw [he, C08.need_eq_len e he]
      simp only
      rw [if_neg (by omega), hl]
    exact ⟨_, this, C08.read_len e n _ this⟩

/-- an `ok` result does not depend on the buffer it was given. -/
theorem read_ok_indep {e : Ext} {n : Nat} {bs : Bytes} (h : Ext.read e n = .ok bs) :
    Ext.read e (need e) = .ok bs := by
  unfold Ext.read at h ⊢
  cases he : early e with
  | some r => rw [he] at h; simp only at h; exact absurd h (C08.early_not_ok e r he bs)
  | none =>
    rw [he] at h; simp only at h ⊢
    split at h
    · cases h
    · rw [if_neg (by omega)]; exact h

/-- only the early exits answer `(0, io.EOF)`. -/
theorem read_eof0_early {e : Ext} {n : Nat} (h : Ext.read e n = .eof0) : early e = some .eof0 := by
  unfold Ext.read at h
  cases he : early e with
  | some r => rw [he] at h; simp only at h; rw [h]
  | none =>
    rw [he] at h; simp only at h
    by_cases hn : n < need e
    · rw [if_pos hn] at h; cases h
    · rw [if_neg hn] at h
      cases hl : late e with
      | none => rw [hl] at h; cases h
      | some r =>
        rw [hl] at h; simp only at h; subst h
        cases e <;> simp only [late] at hl
        case compressCert a => split at hl <;> cases hl
        case pskModes a => split at hl <;> cases hl
        case supportedVersions a => split at hl <;> cases hl
        all_goals cases hl

theorem sumLen_cons (e : Ext) (es : List Ext) : sumLen (e :: es) = len e + sumLen es := by
  simp [sumLen]

theorem sumLen_append (a b : List Ext) : sumLen (a ++ b) = sumLen a + sumLen b := by
  simp [sumLen]

/-- the `ReadFrom` loop over readable extensions fills exactly `Σ Len()` bytes. -/
theorem readAll_ok (total : Nat) : ∀ (exts : List Ext) (written : Nat),
    (∀ e ∈ exts, readable e = true) → written + sumLen exts ≤ total →
    ∃ bs, readAll total exts written = .ok bs ∧ bs.length = sumLen exts := by
  intro exts
  induction exts with
  | nil => intro w _ _; exact ⟨[], rfl, rfl⟩
  | cons e es ih =>
    intro w hr hw
    rw [sumLen_cons] at hw
    have he := hr e (by simp)
    have hes : ∀ x ∈ es, readable x = true := fun x hx => hr x (by simp [hx])
    unfold readAll
    rcases read_readable he (if total ≤ w then total else total - w) with ⟨h0, hl0⟩ | ⟨h4, hok⟩
    · simp only [h0]
      obtain ⟨bs, hb, hlen⟩ := ih w hes (by omega)
      exact ⟨bs, hb, by rw [sumLen_cons, hl0, hlen]; omega⟩
    · have hav : len e ≤ (if total ≤ w then total else total - w) := by
        split <;> omega
      obtain ⟨b1, hb1, hl1⟩ := hok hav
      simp only [hb1]
      obtain ⟨bs, hb, hlen⟩ := ih (w + b1.length) hes (by omega)
      rw [hb]
      exact ⟨b1 ++ bs, rfl, by simp [sumLen_cons, hl1, hlen]⟩

/-- conversely a successful loop means every extension was readable and `Σ Len()` bytes came out. -/
theorem readAll_inv (total : Nat) : ∀ (exts : List Ext) (written : Nat) (bs : Bytes),
    readAll total exts written = .ok bs → (∀ e ∈ exts, readable e = true) ∧ bs.length = sumLen exts := by
  intro exts
  induction exts with
  | nil => intro w bs h; simp [readAll] at h; subst h; exact ⟨by simp, rfl⟩
  | cons e es ih =>
    intro w bs h
    unfold readAll at h
    simp only at h
    split at h
    · rename_i b1 hb1
      cases hr : readAll total es (w + b1.length) with
      | error x => rw [hr] at h; cases h
      | ok b2 =>
        rw [hr] at h
        have : bs = b1 ++ b2 := by cases h; rfl
        subst this
        obtain ⟨h1, h2⟩ := ih _ _ hr
        refine ⟨?_, by simp [sumLen_cons, C08.read_len e _ b1 hb1, h2]⟩
        intro x hx
        rcases List.mem_cons.mp hx with rfl | hx
        · exact readable_of_ok hb1
        · exact h1 x hx
    · rename_i h0
      obtain ⟨h1, h2⟩ := ih _ _ h
      have hr0 := readable_of_eof0 h0
      refine ⟨?_, ?_⟩
      · intro x hx
        rcases List.mem_cons.mp hx with rfl | hx
        · exact hr0
        · exact h1 x hx
      · rw [sumLen_cons, early_eof0_len (read_eof0_early h0), h2]; omega
    · cases h
    · cases h

theorem fixedBytes_length (f : Fixed) :
    (fixedBytes f).length = 2 + f.random.length + 1 + f.sid.length + 2 + 2 * f.suites.length + 1 + f.comp.length := by
  simp [fixedBytes]; omega

theorem headOf_length (f : Fixed) (exts : List Ext) : (headOf f exts).length = 4 + (fixedBytes f).length := by
  simp [headOf]; omega

/-- what a successful write tells: every extension readable, a 32-byte random (the header-length
formula is exact), and exactly `4 + helloLen` bytes. -/
theorem marshalWrite_inv {f : Fixed} {exts : List Ext} {raw : Bytes} (h : marshalWrite f exts = .ok raw) :
    (∀ e ∈ exts, readable e = true) ∧ (fixedBytes f).length = headerLen f ∧ raw.length = 4 + helloLenOf f exts := by
  unfold marshalWrite at h
  cases hb : marshalBody (helloLenOf f exts + 4) ((headOf f exts).length + 2) exts with
  | error x => rw [hb] at h; cases h
  | ok tail =>
    rw [hb] at h
    simp only at h
    by_cases hl : (headOf f exts ++ tail).length ≠ 4 + helloLenOf f exts
    · rw [if_pos hl] at h; cases h
    · rw [if_neg hl] at h
      have hraw : raw = headOf f exts ++ tail := by cases h; rfl
      have hl' : (headOf f exts ++ tail).length = 4 + helloLenOf f exts := by omega
      subst hraw
      refine ⟨?_, ?_, hl'⟩
      · unfold marshalBody at hb
        by_cases hem : exts.isEmpty = true
        · have : exts = [] := List.isEmpty_iff.mp hem
          subst this; simp
        · rw [if_neg hem] at hb
          cases hr : readAll (helloLenOf f exts + 4) exts ((headOf f exts).length + 2) with
          | error x => rw [hr] at hb; cases hb
          | ok b => exact (readAll_inv _ _ _ _ hr).1
      · unfold marshalBody at hb
        rw [List.length_append, headOf_length] at hl'
        by_cases hem : exts.isEmpty = true
        · rw [if_pos hem] at hb
          have : tail = [] := by cases hb; rfl
          subst this
          unfold helloLenOf at hl'
          rw [if_pos hem] at hl'
          simp at hl'; omega
        · rw [if_neg hem] at hb
          cases hr : readAll (helloLenOf f exts + 4) exts ((headOf f exts).length + 2) with
          | error x => rw [hr] at hb; cases hb
          | ok b =>
            rw [hr] at hb
            have : tail = u16 (sumLen exts) ++ b := by cases hb; rfl
            subst this
            have hbl := (readAll_inv _ _ _ _ hr).2
            unfold helloLenOf at hl'
            rw [if_neg hem] at hl'
            simp at hl'; omega

/-- readable extensions and a 32-byte random always marshal. -/
theorem marshalWrite_ok {f : Fixed} {exts : List Ext} (hr : ∀ e ∈ exts, readable e = true)
    (hf : (fixedBytes f).length = headerLen f) : ∃ raw, marshalWrite f exts = .ok raw := by
  unfold marshalWrite marshalBody
  by_cases hem : exts.isEmpty = true
  · rw [if_pos hem]
    simp only
    have hl : (headOf f exts ++ []).length = 4 + helloLenOf f exts := by
      rw [List.append_nil, headOf_length]; unfold helloLenOf; rw [if_pos hem]; omega
    rw [if_neg (by omega)]
    exact ⟨_, rfl⟩
  · rw [if_neg hem]
    have hh : helloLenOf f exts = headerLen f + 2 + sumLen exts := by
      unfold helloLenOf; rw [if_neg hem]; omega
    obtain ⟨b, hb, hbl⟩ := readAll_ok (helloLenOf f exts + 4) exts ((headOf f exts).length + 2) hr
      (by rw [headOf_length, hh]; omega)
    rw [hb]
    simp only [Except.map]
    have hl : (headOf f exts ++ (u16 (sumLen exts) ++ b)).length = 4 + helloLenOf f exts := by
      simp only [List.length_append, headOf_length, u16_length]; omega
    rw [if_neg (by omega)]
    exact ⟨_, rfl⟩

/-- the two length-field checks decide between "too long" and the write. -/
theorem marshalCore_tooLong {f : Fixed} {exts : List Ext} (h : fits f exts = false) :
    marshalCore f exts = .error .tooLong := by
  unfold marshalCore; rw [h]; rfl

theorem marshalCore_fits {f : Fixed} {exts : List Ext} (h : fits f exts = true) :
    marshalCore f exts = marshalWrite f exts := by
  unfold marshalCore; rw [h]; rfl

theorem marshalCore_inv {f : Fixed} {exts : List Ext} {raw : Bytes} (h : marshalCore f exts = .ok raw) :
    (∀ e ∈ exts, readable e = true) ∧ (fixedBytes f).length = headerLen f ∧ raw.length = 4 + helloLenOf f exts ∧
    fits f exts = true := by
  cases hf : fits f exts with
  | false => rw [marshalCore_tooLong hf] at h; cases h
  | true =>
    rw [marshalCore_fits hf] at h
    obtain ⟨a, b, c⟩ := marshalWrite_inv h
    exact ⟨a, b, c, rfl⟩

theorem marshalCore_ok {f : Fixed} {exts : List Ext} (hr : ∀ e ∈ exts, readable e = true)
    (hf : (fixedBytes f).length = headerLen f) (hfit : fits f exts = true) : ∃ raw, marshalCore f exts = .ok raw := by
  rw [marshalCore_fits hfit]; exact marshalWrite_ok hr hf

theorem marshal_inv {pol : Policy} {f : Fixed} {exts e' : List Ext} {raw : Bytes}
    (h : marshal pol f exts = .ok (e', raw)) :
    e' = exts.map (updatePadding pol (unpaddedLen f exts)) ∧ (exts.filter isPadding).length ≤ 1 ∧
    marshalCore f e' = .ok raw := by
  unfold marshal at h
  by_cases hp : (exts.filter isPadding).length > 1
  · rw [if_pos hp] at h; cases h
  · rw [if_neg hp] at h
    simp only at h
    cases hc : marshalCore f (exts.map (updatePadding pol (unpaddedLen f exts))) with
    | error x => rw [hc] at h; cases h
    | ok r =>
      rw [hc] at h
      simp only [Except.map, Except.ok.injEq, Prod.mk.injEq] at h
      obtain ⟨h1, h2⟩ := h
      subst h1; subst h2
      exact ⟨rfl, by omega, hc⟩

theorem updatePadding_readable (pol : Policy) (u : Nat) (e : Ext) (h : isPadding e = true ∨ readable e = true) :
    readable (updatePadding pol u e) = true := by
  have key : ∀ n' w', readable (padding n' w') = true := by
    intro n' w'
    unfold readable
    cases w' <;> simp [early, late]
  cases e
  case padding n w =>
    cases pol with
    | none => exact key _ _
    | some f => exact key _ _
  all_goals
    simp only [updatePadding]
    rcases h with h | h
    · cases h
    · exact h

/-- at most one padding extension, everything else readable, 32-byte random: the marshal succeeds iff
the updated list fits the length fields, and reports "too long" otherwise. -/
theorem marshal_ok {pol : Policy} {f : Fixed} {exts : List Ext}
    (hp : (exts.filter isPadding).length ≤ 1) (hr : ∀ e ∈ exts, isPadding e = true ∨ readable e = true)
    (hf : (fixedBytes f).length = headerLen f)
    (hfit : fits f (exts.map (updatePadding pol (unpaddedLen f exts))) = true) :
    ∃ raw, marshal pol f exts = .ok (exts.map (updatePadding pol (unpaddedLen f exts)), raw) := by
  unfold marshal
  rw [if_neg (by omega)]
  simp only
  obtain ⟨raw, h⟩ := marshalCore_ok (f := f) (exts := exts.map (updatePadding pol (unpaddedLen f exts)))
    (by
      intro e he
      obtain ⟨a, ha, rfl⟩ := List.mem_map.mp he
      exact updatePadding_readable pol _ a (hr a ha)) hf hfit
  rw [h]
  exact ⟨raw, rfl⟩

theorem marshal_tooLong {pol : Policy} {f : Fixed} {exts : List Ext}
    (hp : (exts.filter isPadding).length ≤ 1)
    (hfit : fits f (exts.map (updatePadding pol (unpaddedLen f exts))) = false) :
    marshal pol f exts = .error .tooLong := by
  unfold marshal
  rw [if_neg (by omega)]
  simp only
  rw [marshalCore_tooLong hfit]
  rfl

/-! ## list surgery of the uTLS section -/

theorem isPadding_setKeyShares (sh : List (Nat × Bytes)) (e : Ext) : isPadding (setKeyShares sh e) = isPadding e := by
  cases e <;> rfl

theorem isPadding_setCookie (ck : Bytes) (e : Ext) : isPadding (setCookie ck e) = isPadding e := by
  cases e <;> rfl

theorem isPadding_updatePadding (pol : Policy) (u : Nat) (e : Ext) : isPadding (updatePadding pol u e) = isPadding e := by
  cases e <;> try rfl
  case padding n w => cases pol <;> rfl

theorem updatePadding_id {pol : Policy} {u : Nat} {e : Ext} (h : isPadding e = false) : updatePadding pol u e = e := by
  cases e <;> first | rfl | cases h

theorem readable_keyShare (s : List (Nat × Bytes)) : readable (keyShare s) = true := by
  simp [readable, early, late]

theorem readable_cookie (c : Bytes) : readable (cookie c) = true := by
  simp [readable, early, late]

theorem readable_setKeyShares {sh : List (Nat × Bytes)} {e : Ext} (h : readable e = true) :
    readable (setKeyShares sh e) = true := by
  cases e <;> first | exact h | exact readable_keyShare _

theorem readable_setCookie {ck : Bytes} {e : Ext} (h : readable e = true) : readable (setCookie ck e) = true := by
  cases e <;> first | exact h | exact readable_cookie _

theorem map_insertAt (f : Ext → Ext) (i : Nat) (c : Ext) (l : List Ext) :
    (insertAt i c l).map f = insertAt i (f c) (l.map f) := by
  simp [insertAt, List.map_take, List.map_drop]

theorem mem_insertAt {x c : Ext} {i : Nat} {l : List Ext} : x ∈ insertAt i c l ↔ x = c ∨ x ∈ l := by
  unfold insertAt
  rw [List.mem_append, List.mem_cons]
  constructor
  · rintro (h | h | h)
    · exact .inr (List.mem_of_mem_take h)
    · exact .inl h
    · exact .inr (List.mem_of_mem_drop h)
  · rintro (h | h)
    · exact .inr (.inl h)
    · rw [← List.take_append_drop i l, List.mem_append] at h
      rcases h with h | h
      · exact .inl h
      · exact .inr (.inr h)

theorem filter_insertAt (p : Ext → Bool) (i : Nat) (c : Ext) (l : List Ext) (hc : p c = false) :
    (insertAt i c l).filter p = l.filter p := by
  unfold insertAt
  rw [List.filter_append, List.filter_cons, if_neg (by simp [hc]), ← List.filter_append, List.take_append_drop]

theorem length_insertAt (i : Nat) (c : Ext) (l : List Ext) : (insertAt i c l).length = l.length + 1 := by
  unfold insertAt
  simp only [List.length_append, List.length_cons, List.length_take, List.length_drop]
  omega

/-- inserting before position `i < len` never changes the last element. -/
theorem getLast?_insertAt {i : Nat} {c : Ext} {l : List Ext} (h : i < l.length) :
    (insertAt i c l).getLast? = l.getLast? := by
  unfold insertAt
  have hne : l.drop i ≠ [] := by
    intro h0; rw [List.drop_eq_nil_iff] at h0; omega
  rw [List.getLast?_append]
  cases hd : l.drop i with
  | nil => exact absurd hd hne
  | cons d ds =>
    rw [List.getLast?_cons_cons, ← hd, List.getLast?_drop, if_neg (by omega)]
    cases hl : l.getLast? with
    | none => rw [List.getLast?_eq_none_iff] at hl; subst hl; simp at h
    | some x => rfl

/-- `Update` only touches the padding extension: the unpadded length is the same before and after. -/
theorem unpaddedLen_map_update (pol : Policy) (u : Nat) (f : Fixed) (exts : List Ext) :
    unpaddedLen f (exts.map (updatePadding pol u)) = unpaddedLen f exts := by
  unfold unpaddedLen
  congr 3
  induction exts with
  | nil => rfl
  | cons e es ih =>
    simp only [List.map_cons, List.filter_cons]
    rw [isPadding_updatePadding]
    by_cases hp : isPadding e = true
    · simp [hp, ih]
    · have hp' : isPadding e = false := by simpa using hp
      simp [hp', updatePadding_id hp', ih]

theorem filter_isPadding_map {g : Ext → Ext} (hg : ∀ e, isPadding (g e) = isPadding e) (l : List Ext) :
    ((l.map g).filter isPadding).length = (l.filter isPadding).length := by
  induction l with
  | nil => rfl
  | cons e es ih => simp only [List.map_cons, List.filter_cons, hg]; split <;> simp [ih]

/-! ## the splitter reads back what the marshaller wrote -/

theorem wireExts_append (a b : List Ext) : wireExts (a ++ b) = wireExts a ++ wireExts b := by
  induction a with
  | nil => rfl
  | cons e es ih =>
    simp only [List.cons_append, wireExts]
    split <;> simp [ih]

theorem drop4_frame (t : Nat) (bd : Bytes) : (u16 t ++ vec16 bd).drop 4 = bd := by
  simp [u16, vec16]

/-- the extensions block the `ReadFrom` loop produced splits into `wireExts`. -/
theorem splitExts_readAll (total : Nat) : ∀ (exts : List Ext) (written : Nat) (bs : Bytes),
    readAll total exts written = .ok bs → (∀ e ∈ exts, Ext.lenField e < 65536) →
    ∀ fuel, bs.length ≤ fuel → splitExts fuel bs = some (wireExts exts) := by
  intro exts
  induction exts with
  | nil =>
    intro w bs h _ fuel _
    simp [readAll] at h; subst h
    cases fuel <;> rfl
  | cons e es ih =>
    intro w bs h hl fuel hf
    have hle := hl e (by simp)
    have hles : ∀ x ∈ es, Ext.lenField x < 65536 := fun x hx => hl x (by simp [hx])
    unfold readAll at h
    simp only at h
    split at h
    · rename_i b1 hb1
      cases hr : readAll total es (w + b1.length) with
      | error x => rw [hr] at h; cases h
      | ok b2 =>
        rw [hr] at h
        have hbs : bs = b1 ++ b2 := by cases h; rfl
        subst hbs
        have hfr := C08.read_frame e _ b1 hb1
        have hne : early e = none := by
          cases hee : early e with
          | none => rfl
          | some r =>
            have := C08.early_writes_nothing e (if total ≤ w then total else total - w) r hee
            rw [hb1] at this
            exact absurd this.1.symm (this.2 b1)
        have hbl : (Ext.body e).length < 65536 := by rw [C08.body_length e hne]; exact hle
        have hw : wireExts (e :: es) = (Ext.typeId e % 65536, Ext.body e) :: wireExts es := by
          simp only [wireExts]
          rw [read_ok_indep hb1]
          simp only
          rw [hfr, drop4_frame]
        rw [hw]
        cases fuel with
        | zero =>
          rw [hfr] at hf
          simp at hf
        | succ f =>
          have hnn : b1 ++ b2 ≠ [] := by rw [hfr]; simp [u16]
          cases hb : b1 ++ b2 with
          | nil => exact absurd hb hnn
          | cons x xs =>
            unfold splitExts
            rw [← hb, hfr]
            simp only [List.append_assoc]
            rw [readU16_u16]
            simp only
            rw [readVec16_vec16 _ _ hbl]
            simp only
            rw [ih _ _ hr hles f (by
              rw [hfr] at hf
              simp only [List.length_append, u16_length, vec16_length] at hf
              omega)]
            rfl
    · rename_i h0
      have hw : wireExts (e :: es) = wireExts es := by
        simp only [wireExts]
        have he0 := read_eof0_early h0
        have : Ext.read e (Ext.need e) = .eof0 := by unfold Ext.read; rw [he0]
        rw [this]
      rw [hw]
      exact ih _ _ h hles fuel hf
    · cases h
    · cases h

/-- **the splitter inverts the marshaller**: within wire limits, the recorded message splits into
exactly the non-extension fields it was built from and the `(type, body)` list of its extensions. -/
theorem split_marshalCore {f : Fixed} {exts : List Ext} {raw : Bytes} (h : marshalCore f exts = .ok raw)
    (hw : wireWF f exts = true) : split raw = some ⟨f, !exts.isEmpty, wireExts exts⟩ := by
  obtain ⟨_, hfix, hlen, hfit⟩ := marshalCore_inv h
  rw [marshalCore_fits hfit] at h
  unfold wireWF at hw
  simp only [Bool.and_eq_true, decide_eq_true_eq, List.all_eq_true] at hw
  obtain ⟨⟨⟨⟨⟨⟨⟨w1, w2⟩, w3⟩, w4⟩, w5⟩, w6⟩, w7⟩, w8⟩ := hw
  have hrand : f.random.length = 32 := by
    rw [fixedBytes_length] at hfix; unfold headerLen at hfix; omega
  -- the shape of `raw`
  unfold marshalWrite at h
  cases hb : marshalBody (helloLenOf f exts + 4) ((headOf f exts).length + 2) exts with
  | error x => rw [hb] at h; cases h
  | ok tail =>
    rw [hb] at h
    simp only at h
    by_cases hl : (headOf f exts ++ tail).length ≠ 4 + helloLenOf f exts
    · rw [if_pos hl] at h; cases h
    · rw [if_neg hl] at h
      have hraw : raw = headOf f exts ++ tail := by cases h; rfl
      subst hraw
      have hbody : (fixedBytes f ++ tail).length = helloLenOf f exts := by
        rw [List.length_append, headOf_length] at hlen
        rw [List.length_append]
        omega
      unfold split headOf
      simp only [List.cons_append, List.nil_append, List.append_assoc]
      rw [if_neg (by simp)]
      have e24 : u24 (helloLenOf f exts) ++ (fixedBytes f ++ tail) = vec24 (fixedBytes f ++ tail) ++ [] := by
        simp [vec24, hbody]
      rw [e24, readVec24_vec24 _ _ (by rw [hbody]; exact w6)]
      simp only
      -- the body
      unfold splitBody fixedBytes
      simp only [List.append_assoc]
      rw [readU16_u16, Nat.mod_eq_of_lt w1]
      simp only
      have e32 : take? 32 (f.random ++ (u8 f.sid.length ++ (f.sid ++ (u16 (f.suites.length * 2) ++ (encU16s f.suites ++ (u8 f.comp.length ++ (f.comp ++ tail))))))) =
          some (f.random, u8 f.sid.length ++ (f.sid ++ (u16 (f.suites.length * 2) ++ (encU16s f.suites ++ (u8 f.comp.length ++ (f.comp ++ tail)))))) := by
        rw [← hrand]; exact take?_append _ _
      rw [e32]
      simp only
      have es : u8 f.sid.length ++ (f.sid ++ (u16 (f.suites.length * 2) ++ (encU16s f.suites ++ (u8 f.comp.length ++ (f.comp ++ tail))))) =
          vec8 f.sid ++ (u16 (f.suites.length * 2) ++ (encU16s f.suites ++ (u8 f.comp.length ++ (f.comp ++ tail)))) := by
        simp [vec8]
      rw [es, readVec8_vec8 _ _ w2]
      simp only
      have ec : u16 (f.suites.length * 2) ++ (encU16s f.suites ++ (u8 f.comp.length ++ (f.comp ++ tail))) =
          vec16 (encU16s f.suites) ++ (u8 f.comp.length ++ (f.comp ++ tail)) := by
        simp [vec16, Nat.mul_comm]
      rw [ec, readVec16_vec16 _ _ (by simp; omega)]
      simp only
      rw [decU16s_encU16s _ w4]
      simp only
      have ecomp : u8 f.comp.length ++ (f.comp ++ tail) = vec8 f.comp ++ tail := by simp [vec8]
      rw [ecomp, readVec8_vec8 _ _ w5]
      simp only
      -- the extensions block
      unfold marshalBody at hb
      by_cases hem : exts.isEmpty = true
      · rw [if_pos hem] at hb
        have : tail = [] := by cases hb; rfl
        subst this
        have : exts = [] := List.isEmpty_iff.mp hem
        subst this
        rfl
      · rw [if_neg hem] at hb
        cases hr : readAll (helloLenOf f exts + 4) exts ((headOf f exts).length + 2) with
        | error x => rw [hr] at hb; cases hb
        | ok b =>
          rw [hr] at hb
          have ht : tail = u16 (sumLen exts) ++ b := by cases hb; rfl
          subst ht
          have hbl := (readAll_inv _ _ _ _ hr).2
          have hnn : u16 (sumLen exts) ++ b ≠ [] := by simp [u16]
          have ev : u16 (sumLen exts) ++ b = vec16 b ++ [] := by simp [vec16, hbl]
          cases htl : u16 (sumLen exts) ++ b with
          | nil => exact absurd htl hnn
          | cons x xs =>
            simp only
            rw [← htl, ev, readVec16_vec16 _ _ (by rw [hbl]; exact w7)]
            simp only
            rw [splitExts_readAll _ _ _ _ hr w8 b.length (Nat.le_refl _)]
            simp [hem]

theorem without_cons_drop {ts : List Nat} {t : Nat} {bd : Bytes} {r : List (Nat × Bytes)} (h : ts.contains t = true) :
    without ts ((t, bd) :: r) = without ts r := by
  have hm : t ∈ ts := List.contains_iff_mem.mp h
  simp [without, List.filter_cons, hm]

theorem without_append (ts : List Nat) (a b : List (Nat × Bytes)) :
    without ts (a ++ b) = without ts a ++ without ts b := by
  simp [without, List.filter_append]

/-- an extension of a changeable kind contributes nothing outside the changeable types. -/
theorem without_wire_changeable {e : Ext} (h : other e = false) (r : List Ext) :
    without changeable (wireExts (e :: r)) = without changeable (wireExts r) := by
  simp only [wireExts]
  split
  · apply without_cons_drop
    cases e <;> first | rfl | (simp [other, isKeyShare, isCookie, isPadding] at h)
  · rfl

/-- mapping every slot through a function that fixes the `other` extensions and keeps the kind of the
rest changes nothing the splitter sees outside key_share / cookie / padding. -/
theorem without_wire_map (g : Ext → Ext) (hg : ∀ e, other e = true → g e = e) (hk : ∀ e, other (g e) = other e)
    (l : List Ext) : without changeable (wireExts (l.map g)) = without changeable (wireExts l) := by
  induction l with
  | nil => rfl
  | cons e es ih =>
    rw [List.map_cons]
    by_cases ho : other e = true
    · rw [hg e ho]
      simp only [wireExts]
      split
      · simp only [without, List.filter_cons]
        simp only [without] at ih
        rw [ih]
      · exact ih
    · have ho' : other e = false := by simpa using ho
      rw [without_wire_changeable (by rw [hk]; exact ho'), without_wire_changeable ho', ih]

end Hrr
