/-!
# HsLock — the handshake lock protocol of `(*UConn).handshakeContext` (C26)

The *program text* is a skeleton (`List Stmt`) extracted from the Go source by
`harness/cmd/gen/c26.go` into `Gen.LockShapes`.  This module gives

* an interpreter of such skeletons as a transition system: any number of caller threads (thread
  ids are naturals; every thread starts at statement 0 of the same skeleton), each owning a context
  that the environment may cancel at any time, an interrupter goroutine per cancellable caller,
  the two mutexes `handshakeMutex` (`.hs`) and `c.in` (`.inn`), the shared `handshakeErr` /
  `isHandshakeComplete`, the underlying connection's closed flag, deferred calls run LIFO at
  return, and a nondeterministic handshake body (`ok | err | interrupted`);
* a decidable **discipline predicate** `Disc` on skeletons, computed by one abstract walk of the
  straight-line program (`checkFrom`), together with `diagnose`, which names the failing clause
  and the path (statement index of the offending statement / return site).

Core Lean only.  The theorems (for every skeleton satisfying `Disc`, any number of threads, any
interleaving) are in `HsLockLemmas.lean` / `Props/C26.lean`.
-/
namespace HsLock

/-- the two mutexes of the protocol: `c.handshakeMutex` and `c.in` (a `halfConn`'s embedded mutex) -/
inductive Mu where
  | hs | inn
  deriving DecidableEq, Repr

/-- error values a caller can return -/
inductive Err where
  /-- the handshake body failed; stored in `handshakeErr` -/
  | hsFail
  /-- the handshake body failed with an I/O error because the connection was closed under it; stored -/
  | interrupted
  /-- `BuildHandshakeState` failed (returned directly, *not* stored in `handshakeErr`) -/
  | buildFail
  /-- caller `t`'s own context error, as delivered by its interrupter -/
  | ctx (t : Nat)
  /-- `handshakeCtx.Err()` after the function's own deferred `cancel()` fired the interrupter
  (only possible when `defer cancel()` is registered after the interrupter's join) -/
  | ownCancel
  deriving DecidableEq, Repr

/-- skeleton statements (see `harness/internal/lockshape`) -/
inductive Stmt where
  /-- `if c.isHandshakeComplete.Load() { return nil }` -/
  | checkDone
  /-- `defer cancel()` of the derived handshake context -/
  | deferCancel
  /-- `defer func() { close(done); if e := <-interruptRes; e != nil { ret = e } }()` -/
  | deferJoin
  /-- a deferred `close(done)` that does **not** wait for the interrupter's result -/
  | deferSignal
  /-- `go func() { select { case <-hctx.Done(): c.conn.Close(); res <- hctx.Err(); case <-done: res <- nil } }()` -/
  | spawnIntr
  | lock (m : Mu)
  | unlock (m : Mu)
  | deferUnlock (m : Mu)
  /-- `if err := c.handshakeErr; err != nil { return err }` -/
  | checkErr
  /-- `if err := c.BuildHandshakeState(); err != nil { return err }` -/
  | build
  /-- `c.handshakeErr = c.handshakeFn(handshakeCtx)` (sets `isHandshakeComplete` on success) -/
  | body
  /-- any other read or write of `c.handshakeErr` without control-flow effect -/
  | touchErr
  /-- an explicit `c.isHandshakeComplete.Store(true)` in `handshakeContext` itself -/
  | setDone
  /-- `return c.handshakeErr` -/
  | retErr
  /-- any other return (worst case: returns nil) -/
  | retUnk
  deriving DecidableEq, Repr

/-- deferred calls; `recv` is the second half of a `join` (after `close(done)`) -/
inductive Defer where
  | unlock (m : Mu) | join | recv | signal | cancel
  deriving DecidableEq, Repr

inductive Mode where
  | run | unwind | done
  deriving DecidableEq, Repr

/-- interrupter goroutine of one caller: not running / waiting in its `select` / result sent -/
inductive Intr where
  | off | armed | res (e : Option Err)
  deriving DecidableEq, Repr

structure Thread where
  pc : Nat := 0
  mode : Mode := .run
  defers : List Defer := []
  /-- the named result `ret` (`none` = nil) -/
  ret : Option Err := none
  inBody : Bool := false
  /-- `ctx.Done() != nil` for this caller's context -/
  canc : Bool := true
  /-- the caller's context has been cancelled / its deadline has passed -/
  ctxCancelled : Bool := false
  /-- the function's own `cancel()` has run -/
  ownCancelled : Bool := false
  doneClosed : Bool := false
  intr : Intr := .off

structure Config where
  hsOwner : Option Nat := none
  inOwner : Option Nat := none
  hsErr : Option Err := none
  complete : Bool := false
  /-- the underlying connection has been closed -/
  closed : Bool := false
  /-- callers whose interrupter closed the connection (most recent first) -/
  closers : List Nat := []
  th : Nat → Thread

def init (canc : Nat → Bool) : Config := { th := fun t => { canc := canc t } }

def Config.owner (c : Config) : Mu → Option Nat
  | .hs => c.hsOwner
  | .inn => c.inOwner

def Config.setOwner (c : Config) (m : Mu) (v : Option Nat) : Config :=
  match m with
  | .hs => { c with hsOwner := v }
  | .inn => { c with inOwner := v }

def Config.upd (c : Config) (t : Nat) (f : Thread → Thread) : Config :=
  { c with th := fun i => if i = t then f (c.th i) else c.th i }

/-- outcome of a `build` or of leaving the handshake `body` -/
inductive Outcome where
  | ok | err | interrupted
  deriving DecidableEq, Repr

inductive Label where
  /-- caller `t` executes its next statement / deferred call; `o` resolves `build` and `body` -/
  | step (t : Nat) (o : Outcome)
  /-- `t`'s interrupter takes the `<-handshakeCtx.Done()` branch: closes the connection, sends the error -/
  | intrClose (t : Nat)
  /-- `t`'s interrupter takes the `<-done` branch: sends nil -/
  | intrQuit (t : Nat)
  /-- environment: caller `t`'s context is cancelled (or its deadline passes) -/
  | cancel (t : Nat)
  /-- environment: the closer goroutine closes the underlying connection -/
  | close
  deriving DecidableEq, Repr

/-- leave statement at `pc` by falling through -/
def next (th : Thread) : Thread := { th with pc := th.pc + 1 }
/-- start returning value `r` -/
def retWith (th : Thread) (r : Option Err) : Thread := { th with ret := r, mode := .unwind }

/-- one statement of thread `t` in `run` mode -/
def stepStmt (c : Config) (t : Nat) (o : Outcome) (s : Stmt) : Option Config :=
  let th := c.th t
  match s with
  | .checkDone => some (c.upd t fun th => if c.complete then retWith th none else next th)
  | .deferCancel => some (c.upd t fun th => next { th with defers := .cancel :: th.defers })
  | .deferJoin => some (c.upd t fun th => next (if th.canc then { th with defers := .join :: th.defers } else th))
  | .deferSignal => some (c.upd t fun th => next (if th.canc then { th with defers := .signal :: th.defers } else th))
  | .spawnIntr => some (c.upd t fun th => next (if th.canc then { th with intr := .armed } else th))
  | .lock m => if c.owner m = none then some ((c.setOwner m (some t)).upd t next) else none
  | .unlock m => if c.owner m = some t then some ((c.setOwner m none).upd t next) else none
  | .deferUnlock m => some (c.upd t fun th => next { th with defers := .unlock m :: th.defers })
  | .checkErr =>
    match c.hsErr with
    | some e => some (c.upd t fun th => retWith th (some e))
    | none => some (c.upd t next)
  | .build =>
    match o with
    | .ok => some (c.upd t next)
    | _ => some (c.upd t fun th => retWith th (some .buildFail))
  | .body =>
    if th.inBody then
      match o with
      | .ok => some ({ c with hsErr := none, complete := true }.upd t fun th => next { th with inBody := false })
      | .err => some ({ c with hsErr := some .hsFail }.upd t fun th => next { th with inBody := false })
      | .interrupted =>
        if c.closed then some ({ c with hsErr := some .interrupted }.upd t fun th => next { th with inBody := false })
        else none
    else some (c.upd t fun th => { th with inBody := true })
  | .touchErr => some (c.upd t next)
  | .setDone => some ({ c with complete := true }.upd t next)
  | .retErr => some (c.upd t fun th => retWith th c.hsErr)
  | .retUnk => some (c.upd t fun th => retWith th none)

/-- one deferred call of thread `t` in `unwind` mode -/
def stepUnwind (c : Config) (t : Nat) : Option Config :=
  let th := c.th t
  match th.defers with
  | [] => some (c.upd t fun th => { th with mode := .done })
  | .unlock m :: d => if c.owner m = some t then some ((c.setOwner m none).upd t fun th => { th with defers := d }) else none
  | .join :: d => some (c.upd t fun th => { th with doneClosed := true, defers := .recv :: d })
  | .recv :: d =>
    match th.intr with
    | .res e => some (c.upd t fun th => { th with ret := (match e with | some x => some x | none => th.ret), intr := .off, defers := d })
    | _ => none
  | .signal :: d => some (c.upd t fun th => { th with doneClosed := true, defers := d })
  | .cancel :: d => some (c.upd t fun th => { th with ownCancelled := true, defers := d })

/-- the transition function (`none` = the label is not enabled) -/
def step (p : List Stmt) (c : Config) : Label → Option Config
  | .step t o =>
    match (c.th t).mode with
    | .run =>
      match p[(c.th t).pc]? with
      | some s => stepStmt c t o s
      | none => none
    | .unwind => stepUnwind c t
    | .done => none
  | .intrClose t =>
    let th := c.th t
    if th.intr = .armed ∧ (th.ctxCancelled ∨ th.ownCancelled) then
      some ({ c with closed := true, closers := t :: c.closers }.upd t fun th =>
        { th with intr := .res (some (if th.ctxCancelled then .ctx t else .ownCancel)) })
    else none
  | .intrQuit t =>
    let th := c.th t
    if th.intr = .armed ∧ th.doneClosed then some (c.upd t fun th => { th with intr := .res none }) else none
  | .cancel t => some (c.upd t fun th => { th with ctxCancelled := true })
  | .close => some { c with closed := true }

/-- run a list of labels (`none` if one of them is not enabled) -/
def run (p : List Stmt) (c : Config) : List Label → Option Config
  | [] => some c
  | l :: ls => (step p c l).bind fun c' => run p c' ls

/-- configurations reachable from the initial one -/
inductive Reach (p : List Stmt) (canc : Nat → Bool) : Config → Prop where
  | init : Reach p canc (init canc)
  | step {c c' : Config} (l : Label) : Reach p canc c → step p c l = some c' → Reach p canc c'

/-! ## Progress vocabulary (for `no_deadlock`) -/

/-- caller `t` can take a step of its own right now (with the most permissive outcome) -/
def canStep (p : List Stmt) (c : Config) (t : Nat) : Bool := (step p c (.step t .ok)).isSome

/-- caller `t`'s interrupter goroutine can take a step right now -/
def intrCanStep (p : List Stmt) (c : Config) (t : Nat) : Bool :=
  (step p c (.intrQuit t)).isSome || (step p c (.intrClose t)).isSome

/-- caller `t` is at a `Lock()` of mutex `m` -/
def waitsOn (p : List Stmt) (c : Config) (t : Nat) (m : Mu) : Prop :=
  (c.th t).mode = .run ∧ p[(c.th t).pc]? = some (.lock m)

/-! ## The discipline predicate -/

/-- abstract state of the walk: which mutexes are held, the defer stack, whether an interrupter
is live, and what the path has established about the shared result -/
structure Abs where
  hs : Bool := false
  inn : Bool := false
  defers : List Defer := []
  live : Bool := false
  /-- `handshakeErr == nil` was checked under the current hold of `handshakeMutex` -/
  errChecked : Bool := false
  /-- `!isHandshakeComplete` was checked under the current hold of `handshakeMutex` -/
  doneChecked : Bool := false
  /-- the handshake body ran earlier on this path -/
  bodyDone : Bool := false
  deriving DecidableEq, Repr

def Abs.held (a : Abs) : Mu → Bool
  | .hs => a.hs
  | .inn => a.inn

def Abs.setHeld (a : Abs) (m : Mu) (v : Bool) : Abs :=
  match m with
  | .hs => { a with hs := v, errChecked := a.errChecked && v, doneChecked := a.doneChecked && v }
  | .inn => { a with inn := v }

/-- Can the defer stack `d` be unwound by a thread holding (`hs`,`inn`) with interrupter liveness
`live`?  Every deferred unlock releases a held mutex, everything held is released, a live
interrupter is joined (while no mutex is held), nothing is joined twice, and `cancel()` runs only
after the join. -/
def unwindOk : List Defer → Bool → Bool → Bool → Bool
  | [], h, i, l => !h && !i && !l
  | .unlock .hs :: d, h, i, l => h && unwindOk d false i l
  | .unlock .inn :: d, h, i, l => i && unwindOk d h false l
  | .join :: d, h, i, l => !h && !i && l && unwindOk d false false false
  | .recv :: d, h, i, l => !h && !i && l && unwindOk d false false false
  | .signal :: _, _, _, _ => false
  | .cancel :: d, h, i, l => !l && unwindOk d h i false

def Abs.retOk (a : Abs) : Bool := unwindOk a.defers a.hs a.inn a.live

/-- fall-through effect of a statement on the abstract state (`canc`: the caller's context can be cancelled) -/
def eff (canc : Bool) (s : Stmt) (a : Abs) : Abs :=
  match s with
  | .checkDone => { a with doneChecked := a.hs }
  | .deferCancel => { a with defers := .cancel :: a.defers }
  | .deferJoin => if canc then { a with defers := .join :: a.defers } else a
  | .deferSignal => if canc then { a with defers := .signal :: a.defers } else a
  | .spawnIntr => if canc then { a with live := true } else a
  | .lock m => a.setHeld m true
  | .unlock m => a.setHeld m false
  | .deferUnlock m => { a with defers := .unlock m :: a.defers }
  | .checkErr => { a with errChecked := a.hs }
  | .build => a
  | .body => { a with errChecked := false, doneChecked := false, bodyDone := true }
  | .touchErr => a
  | .setDone => a
  | .retErr => a
  | .retUnk => a

/-- what the discipline demands of the abstract state in front of a statement -/
def stmtOk (s : Stmt) (a : Abs) : Bool :=
  match s with
  | .checkDone => a.retOk
  | .deferCancel => true
  | .deferJoin => true
  | .deferSignal => true
  | .spawnIntr => !a.live
  | .lock .hs => !a.hs && !a.inn
  | .lock .inn => !a.inn
  | .unlock m => a.held m
  | .deferUnlock _ => true
  | .checkErr => a.hs && a.retOk
  | .build => a.hs && a.inn && a.retOk
  | .body => a.hs && a.inn && a.errChecked && a.doneChecked
  | .touchErr => a.hs
  | .setDone => false
  | .retErr => a.hs && a.bodyDone && a.retOk
  | .retUnk => false

def isRet : Stmt → Bool
  | .retErr | .retUnk => true
  | _ => false

/-- the walk: every statement is acceptable in its abstract state and the program ends in an
unconditional return (what follows one is dead code) -/
def checkFrom (canc : Bool) : List Stmt → Abs → Bool
  | [], _ => false
  | s :: rest, a => stmtOk s a && (isRet s || checkFrom canc rest (eff canc s a))

/-- **the discipline predicate**, for callers with and without a cancellable context -/
def disc (p : List Stmt) : Bool := checkFrom true p {} && checkFrom false p {}

abbrev Disc (p : List Stmt) : Prop := disc p = true

/-! ## Diagnosis (names the failing clause and the path; used by the driver, not by proofs) -/

def muName : Mu → String
  | .hs => "handshakeMutex"
  | .inn => "in"

def stmtName : Stmt → String
  | .checkDone => "checkDone" | .deferCancel => "deferCancel" | .deferJoin => "deferJoin"
  | .deferSignal => "deferSignal" | .spawnIntr => "spawnIntr"
  | .lock m => s!"lock:{muName m}" | .unlock m => s!"unlock:{muName m}" | .deferUnlock m => s!"deferUnlock:{muName m}"
  | .checkErr => "checkErr" | .build => "build" | .body => "body" | .touchErr => "touchErr"
  | .setDone => "setDone" | .retErr => "retErr" | .retUnk => "retUnk"

/-- why a return in abstract state `a` is not acceptable -/
def whyUnwind : List Defer → Bool → Bool → Bool → String
  | [], h, i, l =>
    if h then "release_all:returns-with-handshakeMutex-locked"
    else if i then "release_all:returns-with-in-locked"
    else if l then "interrupter_joined:returns-without-joining-the-interrupter"
    else "ok"
  | .unlock .hs :: d, h, i, l => if h then whyUnwind d false i l else "release_all:deferred-unlock-of-handshakeMutex-not-held"
  | .unlock .inn :: d, h, i, l => if i then whyUnwind d h false l else "release_all:deferred-unlock-of-in-not-held"
  | .join :: d, h, i, l =>
    if h && !d.contains (.unlock .hs) then "release_all:return-path-never-unlocks-handshakeMutex"
    else if i && !d.contains (.unlock .inn) then "release_all:return-path-never-unlocks-in"
    else if h || i then "interrupter_joined:join-runs-while-a-mutex-is-held"
    else if !l then "interrupter_joined:join-without-a-live-interrupter-blocks-forever"
    else whyUnwind d false false false
  | .recv :: d, h, i, l =>
    if h || i then "interrupter_joined:join-runs-while-a-mutex-is-held"
    else if !l then "interrupter_joined:join-without-a-live-interrupter-blocks-forever"
    else whyUnwind d false false false
  | .signal :: _, _, _, _ => "interrupter_joined:done-channel-closed-without-waiting-for-the-interrupter"
  | .cancel :: d, h, i, l => if l then "cancel_after_join:deferred-cancel-runs-before-the-interrupter-is-joined" else whyUnwind d h i false

def whyStmt (s : Stmt) (a : Abs) : String :=
  let retWhy := whyUnwind a.defers a.hs a.inn a.live
  match s with
  | .checkDone => retWhy
  | .spawnIntr => "interrupter_joined:second-interrupter-spawned"
  | .lock .hs => if a.inn then "lock_order:handshakeMutex-taken-while-holding-in" else "lock_order:handshakeMutex-relocked-by-its-holder"
  | .lock .inn => "lock_order:in-relocked-by-its-holder"
  | .unlock m => s!"release_all:unlock-of-{muName m}-not-held"
  | .checkErr => if !a.hs then "shared_under_mutex:handshakeErr-read-without-handshakeMutex" else retWhy
  | .build => if !a.hs || !a.inn then "build_under_locks:BuildHandshakeState-without-handshakeMutex-and-in" else retWhy
  | .body =>
    if !a.hs then "shared_under_mutex:handshakeErr-written-by-the-handshake-without-handshakeMutex"
    else if !a.inn then "body_under_locks:handshake-body-without-in"
    else if !a.errChecked then "body_guarded:handshake-body-without-handshakeErr-check-under-the-mutex"
    else "body_guarded:handshake-body-without-isHandshakeComplete-check-under-the-mutex"
  | .touchErr => "shared_under_mutex:handshakeErr-accessed-without-handshakeMutex"
  | .setDone => "complete_only_in_body:isHandshakeComplete-stored-outside-the-handshake-body"
  | .retErr =>
    if !a.hs then "shared_under_mutex:handshakeErr-read-without-handshakeMutex"
    else if !a.bodyDone then "ret_shared:returns-handshakeErr-on-a-path-that-did-not-run-the-handshake"
    else retWhy
  | .retUnk => "ret_shared:return-of-a-value-that-is-neither-handshakeErr-nor-a-checked-nil"
  | _ => "ok"

/-- first failure of the walk: (statement index, statement, reason) -/
def diagnoseFrom (canc : Bool) : List Stmt → Abs → Nat → Option (Nat × Stmt × String)
  | [], _, i => some (i, .retUnk, "ret_shared:function-falls-off-the-end-without-return")
  | s :: rest, a, i =>
    if !stmtOk s a then some (i, s, whyStmt s a)
    else if isRet s then none
    else diagnoseFrom canc rest (eff canc s a) (i + 1)

/-- human-readable failing clause, naming the path: the statements fall through up to index `i`,
where the statement is executed (and, for a return site, returns) -/
def diagnose (p : List Stmt) : Option String :=
  let render (canc : Bool) : Option String :=
    (diagnoseFrom canc p {} 0).map fun (i, s, why) =>
      s!"{why} path=fallthrough[0..{i})+{stmtName s}@{i} caller={if canc then "cancellable" else "background"}"
  match render true with
  | some r => some r
  | none => render false

end HsLock
